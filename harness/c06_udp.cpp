// C06 harness: UDP keeps datagram boundaries and the peer-to-session mapping.
//
// One history = one fresh Transport::udp with 1-2 listeners, up to 8 raw UDP peers (plain sockets,
// independent of iora) and a seeded sequence of steps: raw peers send to listeners / to connected
// sessions, the transport sends on sessions (open, closed, several destinations while the kernel
// "refuses" with EAGAIN), connect, connectViaListener (also to a peer that already has a receiving
// session), closes (biased towards *other* sessions of a peer that has a receiving session), oversize
// sends (error close), idle expiry (--mode idle, real time). The driver only drives and logs:
//   raw side      (src, dst, payload) of every datagram a raw socket received, SO_RXQ_OVFL counter
//   transport side (event, sid, address from the callback, getRemoteAddress, getLocalAddress, payload)
//   driver calls   (what was sent where, what send()/connect() returned)
// The verdict is computed offline by c06_check.hpp from that log alone.
//
// EAGAIN: on loopback a UDP send buffer never fills (the skb is orphaned inside sendto), so the
// queue-on-EAGAIN paths are reached by interposing send/sendto for iora's I/O thread only and
// answering a seeded burst of calls with EAGAIN - always a legal answer for a non-blocking socket.
// Nothing is ever shortened or altered. A small SO_SNDBUF is configured as well (real EAGAINs are
// counted separately).
#include "vf.hpp"
#include "c06_check.hpp"

#include "iora/network/transport_impl.hpp"

#include <arpa/inet.h>
#include <condition_variable>
#include <netinet/in.h>
#include <poll.h>
#include <sys/socket.h>

#ifndef SO_RXQ_OVFL
#define SO_RXQ_OVFL 40
#endif

using namespace iora::network;
using c06::Ev;

// ------------------------------------------------------------------------------ EAGAIN interposer
namespace c06 {
thread_local bool tlsHarness = false; // raw peers / driver threads are never perturbed
struct Eagain
{
  std::atomic<int> burst{0};
  std::atomic<uint64_t> injected{0}, real{0}, calls{0}, multiDestBursts{0}, clientInjected{0}, listenerInjected{0};
  std::mutex m;
  std::set<uint64_t> dests;
  bool hadMulti = false;
  void arm(int k)
  {
    std::lock_guard<std::mutex> g(m);
    dests.clear(); hadMulti = false;
    burst.store(k);
  }
  void disarm() { burst.store(0); }
};
inline Eagain &eg() { static Eagain e; return e; }
} // namespace c06

extern "C" ssize_t sendto(int fd, const void *buf, size_t len, int flags, const struct sockaddr *to, socklen_t tolen)
{
  if (!c06::tlsHarness)
  {
    auto &E = c06::eg();
    E.calls.fetch_add(1, std::memory_order_relaxed);
    int b = E.burst.load();
    while (b > 0 && !E.burst.compare_exchange_weak(b, b - 1)) {}
    if (b > 0)
    {
      E.injected.fetch_add(1, std::memory_order_relaxed);
      uint64_t k;
      if (to && tolen >= sizeof(sockaddr_in6) && to->sa_family == AF_INET6) { auto *a = (const sockaddr_in6 *)to; k = vf::fnv(&a->sin6_addr, sizeof a->sin6_addr, a->sin6_port); E.listenerInjected++; }
      else if (to && tolen >= sizeof(sockaddr_in)) { auto *a = (const sockaddr_in *)to; k = (uint64_t(a->sin_addr.s_addr) << 16) | a->sin_port; E.listenerInjected++; }
      else { k = 0x8000000000000000ull | uint64_t(fd); E.clientInjected++; }
      {
        std::lock_guard<std::mutex> g(E.m);
        E.dests.insert(k);
        if (E.dests.size() >= 2 && !E.hadMulti) { E.hadMulti = true; E.multiDestBursts++; }
      }
      errno = EAGAIN;
      return -1;
    }
  }
  ssize_t r = syscall(SYS_sendto, fd, buf, len, flags, to, tolen);
  if (r < 0 && (errno == EAGAIN || errno == EWOULDBLOCK) && !c06::tlsHarness) c06::eg().real.fetch_add(1, std::memory_order_relaxed);
  return r;
}
extern "C" ssize_t send(int fd, const void *buf, size_t len, int flags) { return sendto(fd, buf, len, flags, nullptr, 0); }

// ------------------------------------------------------------------------------ helpers
struct SockAddr // IPv4 or IPv6 socket address
{
  sockaddr_storage ss{};
  socklen_t len = 0;
  const sockaddr *sa() const { return reinterpret_cast<const sockaddr *>(&ss); }
  uint16_t port() const { return ss.ss_family == AF_INET6 ? ntohs(reinterpret_cast<const sockaddr_in6 *>(&ss)->sin6_port) : ntohs(reinterpret_cast<const sockaddr_in *>(&ss)->sin_port); }
};
static std::string addrStr(const sockaddr_storage &ss)
{
  char b[INET6_ADDRSTRLEN + 2] = {0};
  if (ss.ss_family == AF_INET6)
  {
    auto *a = reinterpret_cast<const sockaddr_in6 *>(&ss);
    inet_ntop(AF_INET6, &a->sin6_addr, b, sizeof b);
    return std::string(b) + ":" + std::to_string(ntohs(a->sin6_port));
  }
  auto *a = reinterpret_cast<const sockaddr_in *>(&ss);
  inet_ntop(AF_INET, &a->sin_addr, b, sizeof b);
  return std::string(b) + ":" + std::to_string(ntohs(a->sin_port));
}
static std::string addrStr(const SockAddr &a) { return addrStr(a.ss); }
static SockAddr mkAddr(const std::string &host, uint16_t port)
{
  SockAddr r;
  if (host.find(':') != std::string::npos)
  {
    auto *a = reinterpret_cast<sockaddr_in6 *>(&r.ss);
    a->sin6_family = AF_INET6; a->sin6_port = htons(port); inet_pton(AF_INET6, host.c_str(), &a->sin6_addr);
    r.len = sizeof(sockaddr_in6);
  }
  else
  {
    auto *a = reinterpret_cast<sockaddr_in *>(&r.ss);
    a->sin_family = AF_INET; a->sin_port = htons(port); inet_pton(AF_INET, host.c_str(), &a->sin_addr);
    r.len = sizeof(sockaddr_in);
  }
  return r;
}
// An IPv4 peer seen through a dual-stack IPv6 socket is reported as ::ffff:a.b.c.d - the same address as
// a.b.c.d, which is how the raw peer knows itself. Both sides are compared in the plain IPv4 spelling.
static std::string canonHost(const std::string &h)
{
  if (h.size() > 7 && (h.compare(0, 7, "::ffff:") == 0 || h.compare(0, 7, "::FFFF:") == 0) && h.find('.') != std::string::npos) return h.substr(7);
  return h;
}
static std::string addrStr(const TransportAddress &a)
{
  if (a.host.empty() && a.port == 0) return "";
  return canonHost(a.host) + ":" + std::to_string(a.port);
}
static const char *errName(TransportError e)
{
  switch (e)
  {
  case TransportError::None: return "None";
  case TransportError::Socket: return "Socket";
  case TransportError::Resolve: return "Resolve";
  case TransportError::Bind: return "Bind";
  case TransportError::Listen: return "Listen";
  case TransportError::Accept: return "Accept";
  case TransportError::Connect: return "Connect";
  case TransportError::TLSHandshake: return "TLSHandshake";
  case TransportError::TLSIO: return "TLSIO";
  case TransportError::PeerClosed: return "PeerClosed";
  case TransportError::WriteBackpressure: return "WriteBackpressure";
  case TransportError::Config: return "Config";
  case TransportError::GCClosed: return "GCClosed";
  case TransportError::Cancelled: return "Cancelled";
  case TransportError::Timeout: return "Timeout";
  case TransportError::BufferOverflow: return "BufferOverflow";
  case TransportError::ShuttingDown: return "ShuttingDown";
  default: return "Unknown";
  }
}
// kernel drop counters of UDP sockets: "host:port" -> drops (last column of /proc/net/udp and /proc/net/udp6)
static bool readUdpDropsFrom(const char *path, bool v6, std::map<std::string, uint64_t> &out)
{
  FILE *f = fopen(path, "r");
  if (!f) return false;
  char line[1024];
  bool header = true, sawDrops = false;
  while (fgets(line, sizeof line, f))
  {
    if (header) { header = false; sawDrops = strstr(line, "drops") != nullptr; continue; }
    std::vector<std::string> tok;
    char *save = nullptr;
    for (char *t = strtok_r(line, " \t\n", &save); t; t = strtok_r(nullptr, " \t\n", &save)) tok.push_back(t);
    if (tok.size() < 13) continue;
    const std::string &la = tok[1];
    size_t c = la.find(':');
    if (c == std::string::npos) continue;
    unsigned port = unsigned(strtoul(la.c_str() + c + 1, nullptr, 16));
    sockaddr_storage ss{};
    if (!v6)
    {
      if (c != 8) continue;
      auto *a = reinterpret_cast<sockaddr_in *>(&ss);
      a->sin_family = AF_INET; a->sin_addr.s_addr = uint32_t(strtoul(la.substr(0, 8).c_str(), nullptr, 16)); a->sin_port = htons(uint16_t(port));
    }
    else
    {
      if (c != 32) continue;
      auto *a = reinterpret_cast<sockaddr_in6 *>(&ss);
      a->sin6_family = AF_INET6; a->sin6_port = htons(uint16_t(port));
      for (int w = 0; w < 4; w++) { uint32_t v = uint32_t(strtoul(la.substr(size_t(w) * 8, 8).c_str(), nullptr, 16)); memcpy(&a->sin6_addr.s6_addr[w * 4], &v, 4); }
    }
    out[addrStr(ss)] = strtoull(tok.back().c_str(), nullptr, 10);
  }
  fclose(f);
  return sawDrops;
}
static bool readUdpDrops(std::map<std::string, uint64_t> &out, bool v6)
{
  // the family of the listeners decides which table must be readable; the other one is read along
  // (dual-stack histories have IPv4 connected sockets next to the :: listener)
  bool a = readUdpDropsFrom("/proc/net/udp", false, out);
  bool b = readUdpDropsFrom("/proc/net/udp6", true, out);
  return v6 ? b : a;
}

// ------------------------------------------------------------------------------ world (shared log)
struct World
{
  std::mutex m;
  std::condition_variable cv;
  std::vector<Ev> log;
  uint64_t nData = 0, nWire = 0, nSendErr = 0;
  std::set<uint64_t> cbConnected, cbClosed, cbGotData;
  struct Acc { uint64_t sid; std::string peer, local; };
  std::vector<Acc> newAccepts;
  std::map<uint64_t, std::string> localOf;
  size_t addLocked(Ev &&e)
  {
    e.t = vf::nowNs();
    if (e.k == Ev::DATA) nData++;
    if (e.k == Ev::WIRE) nWire++;
    if (e.k == Ev::ERR && e.bytes.rfind("sendto:", 0) == 0) nSendErr++; // a queued datagram the kernel refused for good
    log.push_back(std::move(e));
    cv.notify_all();
    return log.size() - 1;
  }
  size_t add(Ev &&e)
  {
    std::lock_guard<std::mutex> g(m);
    return addLocked(std::move(e));
  }
  template <class Pred> bool waitFor(double ms, Pred p)
  {
    std::unique_lock<std::mutex> lk(m);
    uint64_t dl = vf::nowNs() + uint64_t(ms * 1e6);
    while (!p())
    {
      uint64_t now = vf::nowNs();
      if (now >= dl) return false;
      cv.wait_for(lk, std::chrono::milliseconds(std::min<uint64_t>(50, (dl - now) / 1000000 + 1)));
    }
    return true;
  }
};

struct DS // what the driver believes about a session (used only to choose steps)
{
  uint64_t sid = 0;
  char kind = '?';
  int peer = -1, lst = -1;
  bool open = true;
  std::string local;
  SockAddr localSa;
};

struct Hist
{
  uint64_t seed, idx;
  std::string mode;
  bool isolated, verbose;
  vf::Rng r;
  World W;
  c06::Codec codec;
  c06::Meta meta;
  std::shared_ptr<Transport> T;
  Transport *Tp = nullptr;
  TransportConfig cfg;
  struct Lst { ListenerId id; std::string addr; SockAddr sa; };
  std::vector<Lst> L;
  struct Peer { int fd; SockAddr sa; std::string addr; uint32_t ovfl = 0; bool v6 = false; std::string ip; };
  std::vector<Peer> P;
  std::map<uint64_t, DS> S;
  uint64_t nextId = 1, nextOp = 1;
  std::thread rx;
  std::atomic<bool> rxStop{false};
  bool smallQueue = false, smallSnd = false;
  std::map<std::string, uint64_t> feat; // driver-side feature counters (signature + evidence)
  double waitScale = 1.0;
  size_t sessionCap = 0; // TransportConfig::maxSessions (0 = unlimited)
  bool v6 = false; // the whole history runs over ::1 instead of 127.0.0.1
  bool dual = false; // listeners bound to the dual-stack wildcard "::"; IPv4 raw peers appear as ::ffff:127.x.y.z, IPv6 ones as ::1
  bool wideLoopback = false; // some IPv4 raw peers bind to other addresses of 127.0.0.0/8, a few share a port number
  vf::Rng famRng{1, 1};
  const char *listenHost() const { return dual ? "::" : v6 ? "::1" : "127.0.0.1"; }
  bool lstV6() const { return v6 || dual; }
  // host text that reaches raw peer p from a listener socket / from a fresh connect() socket
  std::string viaHost(int p) const { return P[p].v6 ? P[p].ip : (dual ? "::ffff:" + P[p].ip : P[p].ip); }
  // where raw peer p has to send to reach listener l
  SockAddr dstFor(int l, int p) const
  {
    if (dual) return mkAddr(P[p].v6 ? "::1" : "127.0.0.1", L[l].sa.port());
    return L[l].sa;
  }
  int iorasRcvBuf = 4 * 1024 * 1024; // --rcvbuf: only lowered by the self-test of the kernel-drop excuse
  bool deliveryTimedOut = false;
  bool aborted = false; // set by the first delivery watchdog expiry; every later step returns at once

  Hist(uint64_t s, uint64_t i, const std::string &md, bool iso, bool vb)
    : seed(s), idx(i), mode(md), isolated(iso), verbose(vb), r(s * 1000003ull + (md == "idle" ? 7777 : 0), i)
  {
    codec.nonce = uint32_t(vf::fnv(md) ^ (s * 2654435761u) ^ (i * 40503u));
    vf::Rng fam(s ^ 0x66c06, i); // own stream: the address family does not disturb the rest of the history
    v6 = fam.chance(md == "idle" ? 0.25 : 0.15);
    dual = !v6 && fam.chance(0.18);
    wideLoopback = !v6 && fam.chance(0.4);
    famRng = fam;
    vf::Rng capr(s ^ 0xca9c06, i); // own stream as well: ~15 % of the mix histories run with a small session cap
    if (md != "idle" && capr.chance(0.15)) sessionCap = size_t(capr.range(2, 6));
  }

  // ---------------------------------------------------------------- setup / teardown
  bool setup()
  {
    cfg = TransportConfig{};
    cfg.soRcvBuf = iorasRcvBuf;
    cfg.useEdgeTriggered = !r.chance(0.25);
    cfg.batching.enabled = r.chance(0.25);
    smallSnd = r.chance(0.4);
    if (smallSnd) cfg.soSndBuf = 4608;
    smallQueue = r.chance(0.15);
    if (smallQueue) { cfg.maxWriteQueue = 1 + r.below(3); cfg.closeOnBackpressure = r.chance(0.5); }
    if (r.chance(0.15)) cfg.ioReadChunk = 65507;
    if (mode == "idle") { cfg.idleTimeout = std::chrono::seconds(1); cfg.gcInterval = std::chrono::seconds(1); }
    cfg.maxSessions = sessionCap;
    meta.maxSessions = sessionCap;
    T = Transport::udp(cfg);
    Tp = T.get();
    T->onAccept([this](SessionId sid, const TransportAddress &a) {
      Ev e; e.k = Ev::ACCEPT; e.sid = sid; e.a1 = addrStr(a);
      e.a2 = addrStr(Tp->getRemoteAddress(sid)); e.a3 = addrStr(Tp->getLocalAddress(sid));
      std::lock_guard<std::mutex> g(W.m);
      W.newAccepts.push_back({sid, e.a1, e.a3});
      W.addLocked(std::move(e));
    });
    T->onConnect([this](SessionId sid, const TransportAddress &a) {
      Ev e; e.k = Ev::CONNECT; e.sid = sid; e.a1 = addrStr(a);
      e.a2 = addrStr(Tp->getRemoteAddress(sid)); e.a3 = addrStr(Tp->getLocalAddress(sid));
      std::lock_guard<std::mutex> g(W.m);
      W.cbConnected.insert(sid);
      W.localOf[sid] = e.a3;
      W.addLocked(std::move(e));
    });
    T->onData([this](SessionId sid, iora::core::BufferView d, std::chrono::steady_clock::time_point) {
      Ev e; e.k = Ev::DATA; e.sid = sid;
      e.bytes.assign(reinterpret_cast<const char *>(d.data()), d.size());
      e.a2 = addrStr(Tp->getRemoteAddress(sid)); e.a3 = addrStr(Tp->getLocalAddress(sid));
      std::lock_guard<std::mutex> g(W.m);
      W.cbGotData.insert(sid);
      W.addLocked(std::move(e));
    });
    T->onClose([this](SessionId sid, const TransportErrorInfo &why) {
      Ev e; e.k = Ev::CLOSE; e.sid = sid; e.code = errName(why.code); e.bytes = why.message;
      std::lock_guard<std::mutex> g(W.m);
      W.cbClosed.insert(sid);
      W.addLocked(std::move(e));
    });
    T->onError([this](TransportError c, const std::string &msg) {
      Ev e; e.k = Ev::ERR; e.code = errName(c); e.bytes = msg;
      W.add(std::move(e));
    });
    if (!T->start().isOk()) return false;
    int nl = r.chance(0.3) ? 2 : 1;
    for (int i = 0; i < nl; i++)
    {
      auto lr = T->addListener(listenHost(), 0);
      if (!lr.isOk()) return false;
      Lst l; l.id = lr.value();
      auto la = T->getListenerAddress(l.id);
      l.addr = addrStr(la);
      l.sa = mkAddr(la.host, la.port);
      if (la.port == 0) return false;
      L.push_back(l);
      meta.listenerAddrs.insert(l.addr);
    }
    int np = mode == "idle" ? int(r.range(1, 3)) : int(r.range(2, 8));
    for (int i = 0; i < np; i++)
    {
      Peer p;
      p.v6 = v6 || (dual && famRng.chance(0.3));
      p.ip = p.v6 ? "::1" : "127.0.0.1";
      uint16_t wantPort = 0;
      if (!p.v6 && wideLoopback && famRng.chance(0.5))
      {
        // any address of 127.0.0.0/8 is local; the longest spellings (127.1xx.1xx.1xx) give the longest keys
        char ipb[32];
        if (famRng.chance(0.5)) snprintf(ipb, sizeof ipb, "127.%u.%u.%u", unsigned(100 + famRng.below(155)), unsigned(100 + famRng.below(155)), unsigned(100 + famRng.below(155)));
        else snprintf(ipb, sizeof ipb, "127.%u.%u.%u", unsigned(famRng.below(256)), unsigned(famRng.below(256)), unsigned(2 + famRng.below(250)));
        p.ip = ipb;
        // same port number as an earlier IPv4 peer, different host: the two must stay different peers
        if (famRng.chance(0.4)) for (auto &q : P) if (!q.v6 && q.ip != p.ip) { wantPort = q.sa.port(); break; }
      }
      p.fd = socket(p.v6 ? AF_INET6 : AF_INET, SOCK_DGRAM | SOCK_CLOEXEC, 0);
      if (p.fd < 0) return false;
      int rb = 4 * 1024 * 1024, one = 1;
      setsockopt(p.fd, SOL_SOCKET, SO_RCVBUF, &rb, sizeof rb);
      setsockopt(p.fd, SOL_SOCKET, SO_RXQ_OVFL, &one, sizeof one);
      SockAddr a = mkAddr(p.ip, wantPort);
      if (bind(p.fd, a.sa(), a.len) != 0)
      {
        a = mkAddr(p.ip, 0);
        if (bind(p.fd, a.sa(), a.len) != 0) return false;
      }
      else if (wantPort) feat["raw_peers_sharing_a_port_number_on_different_hosts"]++;
      socklen_t sl = sizeof a.ss; getsockname(p.fd, reinterpret_cast<sockaddr *>(&a.ss), &sl);
      a.len = sl;
      p.sa = a; p.addr = addrStr(a);
      P.push_back(p);
    }
    rx = std::thread([this] { rxLoop(); });
    return true;
  }
  void rxLoop()
  {
    c06::tlsHarness = true;
    std::vector<pollfd> pf;
    for (auto &p : P) pf.push_back(pollfd{p.fd, POLLIN, 0});
    std::vector<char> buf(70000);
    while (!rxStop.load())
    {
      int n = poll(pf.data(), pf.size(), 20);
      if (n <= 0) continue;
      for (size_t i = 0; i < pf.size(); i++)
      {
        if (!(pf[i].revents & POLLIN)) continue;
        for (;;)
        {
          sockaddr_storage from{};
          iovec iov{buf.data(), buf.size()};
          alignas(cmsghdr) char ctl[64];
          msghdr mh{}; mh.msg_name = &from; mh.msg_namelen = sizeof from; mh.msg_iov = &iov; mh.msg_iovlen = 1; mh.msg_control = ctl; mh.msg_controllen = sizeof ctl;
          ssize_t k = recvmsg(pf[i].fd, &mh, MSG_DONTWAIT);
          if (k < 0) break;
          for (cmsghdr *c = CMSG_FIRSTHDR(&mh); c; c = CMSG_NXTHDR(&mh, c))
            if (c->cmsg_level == SOL_SOCKET && c->cmsg_type == SO_RXQ_OVFL) { uint32_t v; memcpy(&v, CMSG_DATA(c), sizeof v); if (v > P[i].ovfl) P[i].ovfl = v; }
          Ev e; e.k = Ev::WIRE; e.peer = int(i); e.a1 = addrStr(from); e.a2 = P[i].addr; e.bytes.assign(buf.data(), size_t(k)); e.trunc = (mh.msg_flags & MSG_TRUNC) != 0;
          W.add(std::move(e));
        }
      }
    }
  }

  // ---------------------------------------------------------------- driver knowledge
  int peerOfAddr(const std::string &a) const { for (size_t i = 0; i < P.size(); i++) if (P[i].addr == a) return int(i); return -1; }
  int lstOfAddr(const std::string &a) const { for (size_t i = 0; i < L.size(); i++) if (L[i].addr == a) return int(i); return -1; }
  void absorb()
  {
    std::lock_guard<std::mutex> g(W.m);
    for (auto &a : W.newAccepts)
    {
      DS d; d.sid = a.sid; d.kind = 'A'; d.peer = peerOfAddr(a.peer); d.lst = lstOfAddr(a.local); d.local = a.local;
      S[a.sid] = d;
    }
    W.newAccepts.clear();
    for (auto sid : W.cbClosed) { auto it = S.find(sid); if (it != S.end()) it->second.open = false; }
  }
  std::vector<uint64_t> openSessions(std::function<bool(const DS &)> f = nullptr)
  {
    std::vector<uint64_t> v;
    for (auto &kv : S) if (kv.second.open && (!f || f(kv.second))) v.push_back(kv.first);
    return v;
  }
  void mark(const std::string &s) { Ev e; e.k = Ev::MARK; e.bytes = s; W.add(std::move(e)); }

  // ---------------------------------------------------------------- primitives
  uint32_t pickLen()
  {
    static const uint32_t B[] = {1, 2, 3, 8, 15, 16, 17, 31, 32, 64, 128, 255, 256, 512, 1024, 1471, 1472, 1473, 1500, 2048, 4096,
                                 8191, 8192, 8193, 9000, 16384, 32767, 32768, 49152, 60000, 65000, 65505, 65506, 65507};
    uint32_t n;
    if (r.chance(0.45))
    {
      n = B[r.below(sizeof B / sizeof B[0])];
      if (r.chance(0.3)) { int64_t v = int64_t(n) + int64_t(r.below(5)) - 2; n = uint32_t(std::max<int64_t>(1, std::min<int64_t>(65507, v))); }
    }
    else if (r.chance(0.6)) n = uint32_t(1 + r.below(1500));
    else n = uint32_t(1 + r.below(65507));
    if (n < c06::Codec::HDR && !codec.tinyAvailable(n)) n = uint32_t(16 + r.below(32));
    return n;
  }
  void psendOne(int p, const SockAddr &dst, const std::string &dstStr, int cls, uint64_t targetSid, uint32_t len)
  {
    uint64_t id = nextId++;
    std::string pl = codec.make(uint16_t(p + 1), id, len);
    Ev e; e.k = Ev::PSEND; e.id = id; e.peer = p; e.cls = cls; e.sid = targetSid; e.len = len; e.a1 = P[p].addr; e.a2 = dstStr;
    size_t at = W.add(std::move(e));
    ssize_t rc = sendto(P[p].fd, pl.data(), pl.size(), 0, dst.sa(), dst.len);
    std::lock_guard<std::mutex> g(W.m);
    W.log[at].rc = rc;
  }
  struct Prepared { uint64_t sid; std::string payload; size_t at; };
  Prepared prepSend(uint64_t sid, uint32_t len)
  {
    uint64_t id = nextId++;
    Prepared pr; pr.sid = sid; pr.payload = codec.make(100, id, len);
    Ev e; e.k = Ev::TSEND; e.id = id; e.sid = sid; e.len = len;
    pr.at = W.add(std::move(e));
    return pr;
  }
  void fire(const Prepared &pr)
  {
    bool ok = T->send(pr.sid, pr.payload.data(), pr.payload.size());
    std::lock_guard<std::mutex> g(W.m);
    W.log[pr.at].rc = ok ? 1 : 0;
  }
  uint64_t dataCount() { std::lock_guard<std::mutex> g(W.m); return W.nData; }
  // datagrams seen by the raw peers plus queued datagrams the engine reported as refused by the kernel:
  // both settle one pending send (pacing only; the checker does not use this)
  uint64_t wireCount() { std::lock_guard<std::mutex> g(W.m); return W.nWire + W.nSendErr; }
  // the first undelivered datagram of a history sits out the full watchdog; once something is missing the
  // event count is off for good, so later waits of the same history are kept short (the offline checker
  // judges from the complete log, and a loss only counts when an isolated re-run reproduces it)
  // watchdog only: a wait that runs out makes the history a loss *suspect*, the isolated re-run (30 s) decides
  double watchdogMs() const { return isolated ? 30000.0 : 12000.0; }
  void noteDeliveryTimeout()
  {
    deliveryTimedOut = true;
    feat["delivery_wait_timed_out"]++;
    waitScale = std::min(waitScale, 0.1);
    aborted = true; // the rest of the plan is skipped: the history is a loss suspect as it stands
  }
  void waitData(uint64_t target, const char *label, bool mayBeRefused = false)
  {
    if (mayBeRefused)
    {
      // a peer without a receiving session sending while the engine is at its maxSessions cap may be
      // refused: nothing to wait for beyond a moment (the checker decides from the complete log)
      if (!W.waitFor(80, [&] { return W.nData >= target; })) feat["wait_skipped_peer_may_be_refused_at_session_cap"]++;
    }
    else if (!W.waitFor(watchdogMs() * waitScale, [&] { return W.nData >= target; })) noteDeliveryTimeout();
    mark(std::string("quiesce:") + label);
    absorb();
  }
  // ---- session cap (driver's view, used for pacing and step choice only)
  size_t openCount() const { size_t n = 0; for (auto &kv : S) if (kv.second.open) n++; return n; }
  bool atCap() const { return sessionCap && openCount() >= sessionCap; }
  // the peer has an open listener-side session that was accepted for it or has already received from it
  bool established(int p)
  {
    std::lock_guard<std::mutex> g(W.m);
    for (auto &kv : S)
      if (kv.second.open && kv.second.peer == p && (kv.second.kind == 'A' || (kv.second.kind == 'V' && W.cbGotData.count(kv.first)))) return true;
    return false;
  }
  // Wait for the datagrams of the sends just made. A send is allowed to produce nothing (at most one
  // datagram), e.g. when the kernel refuses it and the engine closes the session (ENOBUFS for a fragmented
  // IPv6 datagram with a 4608-byte SO_SNDBUF, EMSGSIZE, write back-pressure): once one of the sending
  // sessions is closed only a short grace period is left for what was sent before the close.
  void waitWire(uint64_t target, double ms, const char *label, const std::vector<uint64_t> &sids = {})
  {
    bool done = W.waitFor(ms * waitScale, [&] {
      if (W.nWire + W.nSendErr >= target) return true;
      for (auto sid : sids) if (W.cbClosed.count(sid)) return true;
      return false;
    });
    bool all = W.waitFor(done ? 100 : 0, [&] { return W.nWire + W.nSendErr >= target; });
    if (!all) feat[done ? "wire_wait_cut_short_by_session_close" : "wire_wait_timed_out"]++;
    if (!all && verbose) fprintf(stderr, "-- wire wait %s: history %llu step %s limit %.0f ms, %llu of %llu datagrams seen\n", done ? "cut short by a session close" : "timed out",
                                 (unsigned long long)idx, label, ms, (unsigned long long)wireCount(), (unsigned long long)target);
    mark(std::string("quiesce:") + label);
    absorb();
  }

  // ---------------------------------------------------------------- steps
  int pickPeer(bool preferKnown)
  {
    if (preferKnown && r.chance(0.65))
    {
      std::vector<int> known;
      for (auto &kv : S) if (kv.second.open && kv.second.peer >= 0 && kv.second.kind != 'C') known.push_back(kv.second.peer);
      if (!known.empty()) return r.pick(known);
    }
    return int(r.below(P.size()));
  }
  void stepPeerSend(int p = -1, int l = -1, int n = 0)
  {
    if (aborted) return;
    if (p < 0) p = pickPeer(true);
    if (l < 0) l = int(r.below(L.size()));
    if (!n) n = int(r.range(1, 4));
    uint64_t before = dataCount();
    bool refusable = atCap() && !established(p);
    if (atCap()) feat[refusable ? "step_new_peer_sends_at_session_cap" : "step_established_peer_sends_at_session_cap"]++;
    for (int i = 0; i < n; i++) psendOne(p, dstFor(l, p), L[l].addr, 0, 0, pickLen());
    feat["step_peer_send_to_listener"]++;
    waitData(before + uint64_t(n), "peer-send", refusable);
  }
  void stepPeerSendConnected()
  {
    if (aborted) return;
    auto v = openSessions([](const DS &d) { return d.kind == 'C' && d.peer >= 0 && !d.local.empty(); });
    if (v.empty()) { stepPeerSend(); return; }
    DS &d = S[r.pick(v)];
    int n = int(r.range(1, 3));
    uint64_t before = dataCount();
    for (int i = 0; i < n; i++) psendOne(d.peer, d.localSa, d.local, 1, d.sid, pickLen());
    feat["step_peer_send_to_connected_session"]++;
    waitData(before + uint64_t(n), "peer-send-connected");
  }
  void stepForeign()
  {
    if (aborted) return;
    auto v = openSessions([](const DS &d) { return d.kind == 'C' && d.peer >= 0 && !d.local.empty(); });
    if (v.empty() || P.size() < 2) { stepPeerSend(); return; }
    DS &d = S[r.pick(v)];
    int q = int(r.below(P.size()));
    if (q == d.peer) q = (q + 1) % int(P.size());
    if (P[q].v6 != P[d.peer].v6) { for (size_t i = 0; i < P.size(); i++) if (int(i) != d.peer && P[i].v6 == P[d.peer].v6) { q = int(i); break; } }
    if (P[q].v6 != P[d.peer].v6) { stepPeerSend(); return; }
    psendOne(q, d.localSa, d.local, 2, d.sid, pickLen());
    feat["step_foreign_peer_to_connected_port"]++;
    vf::sleepMs(3);
    mark("quiesce:foreign");
  }
  void stepTSend(bool eagain)
  {
    if (aborted) return;
    std::vector<uint64_t> cand;
    bool closedTarget = r.chance(0.1);
    for (auto &kv : S) if (kv.second.open != closedTarget) cand.push_back(kv.first);
    if (cand.empty()) { if (closedTarget) cand.push_back(100000 + r.below(1000)); else { stepPeerSend(); return; } }
    uint64_t sid = r.pick(cand);
    int n = int(r.range(1, 3));
    std::vector<Prepared> prs;
    for (int i = 0; i < n; i++) prs.push_back(prepSend(sid, pickLen()));
    uint64_t before = wireCount();
    if (eagain) { c06::eg().arm(int(r.range(1, 5))); feat["step_send_with_eagain_burst"]++; }
    for (auto &pr : prs) fire(pr);
    feat[closedTarget ? "step_send_on_closed_or_unknown_session" : "step_send"]++;
    if (closedTarget) { vf::sleepMs(3); mark("quiesce:send-closed"); absorb(); }
    else waitWire(before + uint64_t(n), (smallQueue && eagain) ? 300 : 5000, "send", {sid});
    c06::eg().disarm();
  }
  // several destinations queued behind EAGAIN at once
  void stepEagainMulti()
  {
    if (aborted) return;
    auto v = openSessions([](const DS &d) { return d.peer >= 0; });
    if (v.size() < 2) { stepVia(); return; }
    // one session per distinct peer first, then anything
    std::vector<uint64_t> chosen; std::set<int> peers;
    std::vector<uint64_t> sh = v;
    for (size_t i = sh.size(); i > 1; i--) std::swap(sh[i - 1], sh[r.below(i)]);
    for (auto sid : sh) if (peers.insert(S[sid].peer).second) chosen.push_back(sid);
    for (auto sid : sh) if (chosen.size() < 5 && std::find(chosen.begin(), chosen.end(), sid) == chosen.end() && r.chance(0.4)) chosen.push_back(sid);
    if (chosen.size() > 6) chosen.resize(6);
    std::vector<Prepared> prs;
    for (auto sid : chosen) { int k = int(r.range(1, 2)); for (int i = 0; i < k; i++) prs.push_back(prepSend(sid, pickLen())); }
    for (size_t i = prs.size(); i > 1; i--) std::swap(prs[i - 1], prs[r.below(i)]);
    uint64_t before = wireCount();
    c06::eg().arm(int(prs.size()) + int(r.range(0, 6)));
    for (auto &pr : prs) fire(pr);
    feat["step_eagain_multi_destination"]++;
    waitWire(before + prs.size(), smallQueue ? 300 : 5000, "eagain-multi", chosen);
    c06::eg().disarm();
  }
  uint64_t waitOpened(uint64_t sid)
  {
    bool ok = W.waitFor(watchdogMs() * waitScale, [&] { return W.cbConnected.count(sid) || W.cbClosed.count(sid); });
    if (!ok) feat["open_wait_timed_out"]++;
    std::lock_guard<std::mutex> g(W.m);
    return W.cbConnected.count(sid) ? sid : 0;
  }
  uint64_t stepVia(int p = -1, int l = -1)
  {
    if (aborted) return 0;
    if (p < 0) p = pickPeer(true);
    if (l < 0) l = int(r.below(L.size()));
    Ev e; e.k = Ev::OPEN; e.id = nextOp++; e.cls = 2; e.peer = p; e.a1 = P[p].addr; e.a3 = L[l].addr;
    size_t at = W.add(std::move(e));
    auto cr = T->connectViaListener(L[l].id, viaHost(p), P[p].sa.port());
    uint64_t sid = cr.isOk() ? cr.value() : 0;
    { std::lock_guard<std::mutex> g(W.m); W.log[at].rc = cr.isOk() ? 1 : 0; W.log[at].sid = sid; }
    feat["step_via"]++;
    if (!sid) return 0;
    uint64_t ok = waitOpened(sid);
    DS d; d.sid = sid; d.kind = 'V'; d.peer = p; d.lst = l; d.open = ok != 0; d.local = L[l].addr;
    S[sid] = d;
    mark("quiesce:via");
    absorb();
    return ok;
  }
  uint64_t stepConnect(int p = -1)
  {
    if (aborted) return 0;
    if (p < 0) p = int(r.below(P.size()));
    Ev e; e.k = Ev::OPEN; e.id = nextOp++; e.cls = 1; e.peer = p; e.a1 = P[p].addr;
    size_t at = W.add(std::move(e));
    auto cr = T->connect(P[p].ip, P[p].sa.port());
    uint64_t sid = cr.isOk() ? cr.value() : 0;
    { std::lock_guard<std::mutex> g(W.m); W.log[at].rc = cr.isOk() ? 1 : 0; W.log[at].sid = sid; }
    feat["step_connect"]++;
    if (!sid) return 0;
    uint64_t ok = waitOpened(sid);
    DS d; d.sid = sid; d.kind = 'C'; d.peer = p; d.open = ok != 0;
    {
      std::lock_guard<std::mutex> g(W.m);
      d.local = W.localOf[sid];
    }
    size_t c = d.local.rfind(':');
    if (c != std::string::npos) d.localSa = mkAddr(d.local.substr(0, c), uint16_t(atoi(d.local.c_str() + c + 1)));
    S[sid] = d;
    mark("quiesce:connect");
    absorb();
    return ok;
  }
  void noteDropsOf(const std::string &local)
  {
    std::map<std::string, uint64_t> d;
    if (!readUdpDrops(d, lstV6())) { meta.dropsReadable = false; return; }
    auto it = d.find(local);
    if (it != d.end()) meta.dropsAtPort[local] = std::max(meta.dropsAtPort[local], it->second);
  }
  void stepClose(uint64_t sid = 0)
  {
    if (aborted) return;
    if (!sid)
    {
      // bias: a peer with two or more open listener-side sessions -> close one of them
      std::map<int, std::vector<uint64_t>> byPeer;
      for (auto &kv : S) if (kv.second.open && kv.second.kind != 'C' && kv.second.peer >= 0) byPeer[kv.second.peer].push_back(kv.first);
      std::vector<uint64_t> multi;
      for (auto &kv : byPeer) if (kv.second.size() >= 2) for (auto s : kv.second) multi.push_back(s);
      auto all = openSessions();
      if (!multi.empty() && r.chance(0.7)) sid = r.pick(multi);
      else if (!all.empty() && !r.chance(0.05)) sid = r.pick(all);
      else { // closing something already closed / never opened must be harmless
        std::vector<uint64_t> closed; for (auto &kv : S) if (!kv.second.open) closed.push_back(kv.first);
        sid = closed.empty() ? 100000 + r.below(1000) : r.pick(closed);
      }
    }
    auto it = S.find(sid);
    bool wasOpen = it != S.end() && it->second.open;
    if (wasOpen && it->second.kind == 'C') noteDropsOf(it->second.local);
    Ev e; e.k = Ev::CLOSE_CALL; e.sid = sid; W.add(std::move(e));
    T->close(sid);
    feat[wasOpen ? "step_close" : "step_close_of_closed_or_unknown"]++;
    if (wasOpen)
    {
      if (!W.waitFor(watchdogMs() * waitScale, [&] { return W.cbClosed.count(sid) > 0; })) feat["close_wait_timed_out"]++;
    }
    else vf::sleepMs(2);
    mark("quiesce:close");
    absorb();
  }
  // smallest payload the kernel refuses with EMSGSIZE: 65507 + 1 over IPv4, 65527 + 1 over IPv6
  size_t oversize() const { return lstV6() ? 65528 : 65508; }
  // accepted send that the kernel refuses with EMSGSIZE: the session is closed on error
  void stepOversize()
  {
    if (aborted) return;
    auto v = openSessions([](const DS &d) { return d.peer >= 0; });
    if (v.empty()) { stepPeerSend(); return; }
    uint64_t sid = r.pick(v);
    if (S[sid].kind == 'C') noteDropsOf(S[sid].local);
    std::string big(oversize() + r.below(200), 'x');
    Ev e; e.k = Ev::MARK; e.bytes = "oversize send of " + std::to_string(big.size()) + " bytes on sid " + std::to_string(sid); e.sid = sid; W.add(std::move(e));
    T->send(sid, big.data(), big.size());
    feat["step_oversize_send"]++;
    W.waitFor(10000 * waitScale, [&] { return W.cbClosed.count(sid) > 0; });
    mark("quiesce:oversize");
    absorb();
  }
  // sends both ways without waiting in between; a second thread issues part of the transport sends
  void stepBurst()
  {
    if (aborted) return;
    auto v = openSessions([](const DS &d) { return d.peer >= 0; });
    int np = int(r.range(2, 6));
    std::vector<Prepared> mine, theirs;
    for (int i = 0, n = v.empty() ? 0 : int(r.range(1, 6)); i < n; i++) (r.chance(0.5) ? mine : theirs).push_back(prepSend(r.pick(v), pickLen()));
    uint64_t dBefore = dataCount(), wBefore = wireCount();
    if (r.chance(0.4)) c06::eg().arm(int(r.range(1, 6)));
    std::vector<char> yields;
    for (size_t i = 0; i < theirs.size(); i++) yields.push_back(char(r.below(2)));
    std::thread helper([&] { c06::tlsHarness = true; for (size_t i = 0; i < theirs.size(); i++) { fire(theirs[i]); if (yields[i]) sched_yield(); } });
    size_t mi = 0;
    std::set<int> strangers; // peers without a receiving session: each may take a session slot or be refused at the cap
    size_t openBefore = openCount();
    for (int i = 0; i < np; i++)
    {
      int pp = pickPeer(true);
      int ll = int(r.below(L.size()));
      uint32_t len = pickLen();
      if (sessionCap && !established(pp)) strangers.insert(pp);
      psendOne(pp, dstFor(ll, pp), L[ll].addr, 0, 0, len);
      if (mi < mine.size()) fire(mine[mi++]);
    }
    bool refusable = sessionCap && !strangers.empty() && openBefore + strangers.size() > sessionCap;
    while (mi < mine.size()) fire(mine[mi++]);
    helper.join();
    feat["step_burst_both_ways"]++;
    if (refusable) { if (!W.waitFor(150, [&] { return W.nData >= dBefore + uint64_t(np); })) feat["wait_skipped_peer_may_be_refused_at_session_cap"]++; }
    else if (!W.waitFor(watchdogMs() * waitScale, [&] { return W.nData >= dBefore + uint64_t(np); })) noteDeliveryTimeout();
    std::vector<uint64_t> bsids;
    for (auto &pr : mine) bsids.push_back(pr.sid);
    for (auto &pr : theirs) bsids.push_back(pr.sid);
    waitWire(wBefore + mine.size() + theirs.size(), smallQueue ? 300 : 5000, "burst", bsids);
    c06::eg().disarm();
  }
  // the history shape the property singles out: a peer with a receiving session, another session to the
  // same peer is opened and closed, then the peer sends again
  void motifOtherClose()
  {
    if (aborted) return;
    int p = pickPeer(true), l = int(r.below(L.size()));
    feat["motif_other_session_closed"]++;
    if (r.chance(0.75)) stepPeerSend(p, l, 1);                 // receiving session: accepted (or an earlier one)
    else { stepVia(p, l); stepPeerSend(p, l, 1); }             // receiving session: a via session
    uint64_t other = 0;
    switch (r.below(4))
    {
    case 0: case 1: other = stepVia(p, l); break;              // same listener
    case 2: other = stepVia(p, int(r.below(L.size()))); break; // maybe the other listener
    default: other = stepConnect(p); break;                    // a connected socket to the same peer
    }
    if (other && r.chance(0.5)) { auto pr = prepSend(other, pickLen()); uint64_t wb = wireCount(); fire(pr); waitWire(wb + 1, 5000, "send", {other}); }
    if (r.chance(0.3)) stepPeerSend(p, l, 1);
    if (other)
    {
      if (r.chance(0.12)) { // error close instead of an application close
        std::string big(oversize(), 'y');
        Ev e; e.k = Ev::MARK; e.bytes = "oversize send on sid " + std::to_string(other); e.sid = other; W.add(std::move(e));
        if (S[other].kind == 'C') noteDropsOf(S[other].local);
        T->send(other, big.data(), big.size());
        W.waitFor(10000 * waitScale, [&] { return W.cbClosed.count(other) > 0; });
        mark("quiesce:oversize"); absorb();
      }
      else stepClose(other);
    }
    stepPeerSend(p, l, int(r.range(1, 3)));
    if (r.chance(0.5)) stepPeerSend(p, int(r.below(L.size())), 1);
  }

  // session cap: bring the engine to maxSessions, then (a) a peer that already has a receiving session sends
  // again - the cap must not touch it - and (b) a peer without one sends - it may be refused, which is counted
  void motifAtCap()
  {
    if (aborted) return;
    feat["motif_at_session_cap"]++;
    int l = int(r.below(L.size()));
    // an established peer (make room for one if there is none)
    int p = -1;
    for (size_t i = 0; i < P.size() && p < 0; i++) if (established(int(i))) p = int(i);
    if (p < 0)
    {
      while (atCap() && !aborted) { auto all = openSessions(); if (all.empty()) break; stepClose(r.pick(all)); }
      p = int(r.below(P.size()));
      stepPeerSend(p, l, 1);
    }
    // fill up: connect() sessions are not cap-checked but count; new peers take slots through implicit accepts
    for (int guard = 0; !atCap() && guard < 12 && !aborted; guard++)
    {
      if (r.chance(0.5)) stepConnect(int(r.below(P.size())));
      else { int q = int(r.below(P.size())); if (established(q)) stepVia(q, l); else stepPeerSend(q, l, 1); }
    }
    if (!atCap()) { feat["motif_at_session_cap_not_reached"]++; return; }
    stepPeerSend(p, l, int(r.range(1, 3)));                       // (a)
    int q = -1;
    for (size_t i = 0; i < P.size() && q < 0; i++) if (!established(int(i))) q = int(i);
    if (q >= 0) stepPeerSend(q, l, int(r.range(1, 2)));           // (b)
    if (r.chance(0.5)) stepVia(r.chance(0.5) ? p : int(r.below(P.size())), l); // refused at the cap (close, no connect event)
    if (r.chance(0.5)) stepConnect(int(r.below(P.size())));      // pushes the count past the cap
    stepPeerSend(p, int(r.below(L.size())), int(r.range(1, 2)));  // (a) again
    if (r.chance(0.5)) { auto all = openSessions([&](const DS &d) { return d.peer != p; }); if (!all.empty()) stepClose(r.pick(all)); if (q >= 0) stepPeerSend(q, l, 1); }
  }

  void runMix()
  {
    int steps = int(r.range(30, 70));
    std::set<int> motifAt;
    if (r.chance(0.7)) motifAt.insert(int(r.below(steps)));
    if (r.chance(0.3)) motifAt.insert(int(r.below(steps)));
    // open with some traffic so that there is state to work with
    stepPeerSend();
    for (int s = 0; s < steps && !aborted; s++)
    {
      if (motifAt.count(s)) { motifOtherClose(); continue; }
      if (sessionCap && (s == steps / 3 || s == (2 * steps) / 3)) { motifAtCap(); continue; }
      uint64_t x = r.below(100);
      if (x < 24) stepPeerSend();
      else if (x < 36) stepTSend(r.chance(0.35));
      else if (x < 46) stepEagainMulti();
      else if (x < 58) stepVia();
      else if (x < 64) stepConnect();
      else if (x < 79) stepClose();
      else if (x < 85) stepPeerSendConnected();
      else if (x < 87) stepForeign();
      else if (x < 89) stepOversize();
      else stepBurst();
    }
  }

  // ---------------------------------------------------------------- idle expiry (real time: 1 s timeout, 1 s GC tick)
  bool waitClosedKeeping(uint64_t victim, std::function<void()> keepAlive, double maxMs)
  {
    uint64_t dl = vf::nowNs() + uint64_t(maxMs * 1e6);
    for (;;)
    {
      { std::lock_guard<std::mutex> g(W.m); if (W.cbClosed.count(victim)) return true; }
      if (vf::nowNs() > dl || aborted) return false;
      if (keepAlive) keepAlive();
      vf::sleepMs(150 + double(r.below(150)));
    }
  }
  void runIdle()
  {
    int p = 0, l = 0;
    int variant = int(idx % 6);
    feat["idle_variant_" + std::to_string(variant)]++;
    auto keepRecv = [&] { stepPeerSend(p, l, 1); };
    switch (variant)
    {
    case 0: // another via session to the same peer idles out while the accepted session keeps receiving
    case 5: // same, but the receiving session is itself a via session
    {
      uint64_t s1 = 0;
      if (variant == 5) { s1 = stepVia(p, l); stepPeerSend(p, l, 1); } else stepPeerSend(p, l, 1);
      uint64_t s2 = stepVia(p, l);
      if (r.chance(0.5)) { auto pr = prepSend(s2, pickLen()); uint64_t wb = wireCount(); fire(pr); waitWire(wb + 1, 5000, "send", {s2}); }
      if (!waitClosedKeeping(s2, keepRecv, 20000)) feat["idle_victim_never_expired"]++;
      absorb();
      stepPeerSend(p, l, int(r.range(1, 3)));
      (void)s1;
      break;
    }
    case 1: // a connected session to the same peer idles out
    {
      stepPeerSend(p, l, 1);
      uint64_t c = stepConnect(p);
      if (!waitClosedKeeping(c, keepRecv, 20000)) feat["idle_victim_never_expired"]++;
      absorb();
      stepPeerSend(p, l, 2);
      break;
    }
    case 2: // the receiving session idles out while a via session to the same peer is kept busy by sends
    {
      stepPeerSend(p, l, 1);
      uint64_t s1 = 0; for (auto &kv : S) if (kv.second.kind == 'A') s1 = kv.first;
      uint64_t s2 = stepVia(p, l);
      auto keepSend = [&] { auto pr = prepSend(s2, uint32_t(16 + r.below(200))); uint64_t wb = wireCount(); fire(pr); waitWire(wb + 1, 5000, "send", {s2}); };
      if (!s1 || !waitClosedKeeping(s1, keepSend, 20000)) feat["idle_victim_never_expired"]++;
      absorb();
      stepPeerSend(p, l, 2); // a new accept is legitimate here
      break;
    }
    case 3: // another peer's session idles out; must not matter
    {
      int q = P.size() > 1 ? 1 : 0;
      stepPeerSend(p, l, 1);
      uint64_t s2 = stepVia(q, l);
      if (!waitClosedKeeping(s2, keepRecv, 20000)) feat["idle_victim_never_expired"]++;
      absorb();
      stepPeerSend(p, l, 2);
      if (q != p) stepPeerSend(q, l, 1);
      break;
    }
    default: // everything idles out, then traffic resumes
    {
      stepPeerSend(p, l, 1);
      uint64_t s2 = stepVia(p, l);
      uint64_t c = r.chance(0.5) ? stepConnect(p) : 0;
      waitClosedKeeping(s2, nullptr, 20000);
      if (c) waitClosedKeeping(c, nullptr, 20000);
      uint64_t s1 = 0; for (auto &kv : S) if (kv.second.kind == 'A') s1 = kv.first;
      if (s1) waitClosedKeeping(s1, nullptr, 20000);
      absorb();
      stepPeerSend(p, l, 2);
      break;
    }
    }
    if (r.chance(0.5)) stepTSend(false);
  }

  // ---------------------------------------------------------------- finish + judge
  void finish()
  {
    // settle: nothing new for 30 ms (bounded)
    uint64_t lastN = 0, stableSince = vf::nowNs(), dl = vf::nowNs() + 1500000000ull;
    for (;;)
    {
      uint64_t n; { std::lock_guard<std::mutex> g(W.m); n = W.log.size(); }
      uint64_t now = vf::nowNs();
      if (n != lastN) { lastN = n; stableSince = now; }
      if (now - stableSince > 30000000ull || now > dl) break;
      vf::sleepMs(5);
    }
    // /proc/net/udp is a walk over a live hash table: with dozens of processes opening and closing UDP
    // sockets an entry can be skipped by one read, so a missing listener line is retried
    std::map<std::string, uint64_t> d;
    for (int attempt = 0; attempt < 6; attempt++)
    {
      d.clear();
      bool ok = readUdpDrops(d, lstV6()), allThere = true;
      for (auto &l : L) if (!d.count(l.addr)) allThere = false;
      if (!ok) { meta.dropsReadable = false; break; }
      if (allThere) break;
      feat["kernel_drop_counter_read_retried"]++;
      vf::sleepMs(2 + 3 * attempt);
    }
    for (auto &l : L) { auto it = d.find(l.addr); if (it != d.end()) { meta.dropsAtPort[l.addr] = std::max(meta.dropsAtPort[l.addr], it->second); feat["kernel_drop_counters_read"]++; } else meta.dropsReadable = false; }
    if (!meta.dropsReadable) feat["kernel_drop_counters_unreadable"]++;
    for (auto &kv : S) if (kv.second.kind == 'C' && kv.second.open) { auto it = d.find(kv.second.local); if (it != d.end()) meta.dropsAtPort[kv.second.local] = std::max(meta.dropsAtPort[kv.second.local], it->second); }
    uint64_t rawDrops = 0;
    for (auto &p : P) { auto it = d.find(p.addr); rawDrops += std::max<uint64_t>(p.ovfl, it != d.end() ? it->second : 0); }
    if (rawDrops) feat["raw_peer_kernel_drops"] += rawDrops;
    mark("stop");
    T->stop();
    T.reset();
    Tp = nullptr;
    rxStop = true;
    if (rx.joinable()) rx.join();
    for (auto &p : P) close(p.fd);
  }
  std::string cfgJson() const
  {
    char b[600];
    snprintf(b, sizeof b, "{\"mode\":%s,\"seed\":%llu,\"index\":%llu,\"ipv6\":%d,\"dualStack\":%d,\"wideLoopback\":%d,\"listeners\":%zu,\"peers\":%zu,\"edgeTriggered\":%d,\"batching\":%d,\"soSndBuf\":%d,\"maxWriteQueue\":%zu,\"closeOnBackpressure\":%d,\"ioReadChunk\":%zu,\"maxSessions\":%zu}",
             vf::jstr(mode).c_str(), (unsigned long long)seed, (unsigned long long)idx, int(v6), int(dual), int(wideLoopback), L.size(), P.size(), int(cfg.useEdgeTriggered), int(cfg.batching.enabled), cfg.soSndBuf,
             cfg.maxWriteQueue, int(cfg.closeOnBackpressure), cfg.ioReadChunk, sessionCap);
    return b;
  }
  void judge()
  {
    auto &O = vf::out();
    c06::CheckResult R = c06::checkHistory(W.log, codec, meta);
    auto detail = [&](const c06::Viol &v) {
      return "{\"history\":" + cfgJson() + ",\"rerun\":" + vf::jstr("--mode " + mode + " --seed " + std::to_string(seed) + " --from " + std::to_string(idx) + " --count 1") +
             ",\"trace\":" + c06::traceFor(W.log, v.at, v.peerAddr, v.sids, 60) + "}";
    };
    std::map<std::string, int> perKey;
    for (auto &v : R.viols) if (perKey[v.key]++ < 2) O.viol(v.key, v.what, detail(v));
    bool dropped = false;
    for (auto &v : R.lossSuspects)
    {
      if (v.key == "dropped") { dropped = true; continue; }
      if (isolated) { if (perKey[v.key]++ < 2) O.viol(v.key, v.what + " (reproduced in an isolated re-run)", detail(v)); }
      else if (perKey[v.key]++ < 1)
        O.line("{\"t\":\"suspect\",\"mode\":" + vf::jstr(mode) + ",\"i\":" + std::to_string(idx) + ",\"key\":" + vf::jstr(v.key) + ",\"what\":" + vf::jstr(v.what) + "}");
    }
    if (dropped)
    {
      O.obs("histories_with_kernel_drops_at_iora_sockets");
      if (isolated) O.inconclusive("history " + mode + "/" + std::to_string(idx) + ": the kernel dropped datagrams at iora's sockets even in an isolated, paced re-run; loss rule undecided");
      else O.line("{\"t\":\"suspect\",\"mode\":" + vf::jstr(mode) + ",\"i\":" + std::to_string(idx) + ",\"key\":\"dropped\",\"what\":\"kernel drop counter non-zero\"}");
    }
    if (deliveryTimedOut && R.lossSuspects.empty()) O.obs("delivery_wait_timed_out_but_delivered_later");
    if (isolated) return; // an isolated re-run is not a new case
    O.obs("histories");
    O.obs(std::string("histories_mode_") + mode);
    for (auto &kv : R.obs) O.obs(kv.first, kv.second);
    for (auto &kv : R.obsMax) O.obsMax(kv.first, kv.second);
    for (auto &kv : feat) O.obs(kv.first, kv.second);
    O.obs("events_logged", W.log.size());
    if (L.size() == 2) O.obs("histories_two_listeners");
    O.obs(v6 ? "histories_ipv6" : dual ? "histories_dual_stack_listener" : "histories_ipv4");
    if (dual) { size_t n4 = 0; for (auto &p : P) if (!p.v6) n4++; if (n4 >= 2) O.obs("histories_dual_stack_with_several_v4_mapped_peers"); }
    if (wideLoopback) O.obs("histories_peers_on_other_127_addresses");
    if (sessionCap) O.obs("histories_session_cap");
    if (cfg.batching.enabled) O.obs("histories_batched_loop");
    if (!cfg.useEdgeTriggered) O.obs("histories_level_triggered");
    if (smallSnd) O.obs("histories_small_sndbuf");
    if (smallQueue) O.obs("histories_small_write_queue");
    auto has = [&](const char *k) { auto it = R.obs.find(k); return it != R.obs.end() && it->second > 0; };
    uint64_t sig = vf::fnv(mode);
    auto mixin = [&](uint64_t v) { sig = (sig ^ v) * 1099511628211ull; };
    mixin(L.size()); mixin(v6); mixin(dual); mixin(wideLoopback); mixin(sessionCap != 0); mixin(has("datagrams_from_new_peer_refused_at_session_cap")); mixin(P.size() > 4); mixin(cfg.useEdgeTriggered); mixin(cfg.batching.enabled); mixin(smallSnd); mixin(smallQueue); mixin(cfg.ioReadChunk == 65507);
    mixin(has("via_to_peer_with_open_receiving_session")); mixin(has("close_of_other_session_while_receiving_session_open"));
    mixin(has("probes_after_close_of_other_session")); mixin(has("delivered_ge_60000")); mixin(has("wire_ge_60000")); mixin(has("delivered_lt_16"));
    mixin(has("closes_idle_expiry")); mixin(has("closes_on_error")); mixin(has("connects")); mixin(has("delivered_on_session_of_another_listener"));
    mixin(feat.count("step_eagain_multi_destination")); mixin(feat.count("step_burst_both_ways")); mixin(feat.count("step_foreign_peer_to_connected_port"));
    for (auto &kv : feat) if (kv.first.rfind("idle_variant_", 0) == 0) mixin(vf::fnv(kv.first));
    mixin(!R.viols.empty());
    O.caseSig(sig);
    O.sample("{\"history\":" + cfgJson() + ",\"events\":" + std::to_string(W.log.size()) + ",\"peer_datagrams\":" + std::to_string(R.obs["peer_datagrams_sent"]) +
             ",\"data_events\":" + std::to_string(R.obs["data_events"]) + ",\"wire_datagrams\":" + std::to_string(R.obs["wire_datagrams"]) +
             ",\"accepts\":" + std::to_string(R.obs["accepts"]) + ",\"violations\":" + std::to_string(R.viols.size()) + "}");
    if (verbose)
      for (size_t i = 0; i < W.log.size(); i++) fprintf(stderr, "%s\n", c06::shortEv(W.log[i], i).c_str());
  }
  bool run()
  {
    if (!setup())
    {
      vf::out().inconclusive("history " + mode + "/" + std::to_string(idx) + ": setup failed (socket/bind/start)");
      rxStop = true; if (rx.joinable()) rx.join();
      for (auto &p : P) if (p.fd >= 0) close(p.fd);
      return false;
    }
    if (mode == "idle") runIdle(); else runMix();
    finish();
    judge();
    return true;
  }
};

int main(int argc, char **argv)
{
  vf::Args a(argc, argv);
  c06::tlsHarness = true;
  uint64_t seed = a.u("seed", 1), from = a.u("from", 0), count = a.u("count", 10);
  std::string mode = a.s("mode", "mix");
  bool isolated = a.u("isolated", 0) != 0, verbose = a.u("verbose", 0) != 0;
  auto &O = vf::out();
  for (uint64_t i = from; i < from + count; i++)
  {
    O.line("{\"t\":\"begin\",\"i\":" + std::to_string(i) + "}");
    Hist h(seed, i, mode, isolated, verbose);
    h.iorasRcvBuf = int(a.u("rcvbuf", 4 * 1024 * 1024));
    if (a.has("rcvbuf")) h.waitScale = 0.1; // drops are expected there: do not sit out the full delivery watchdog
    h.run();
  }
  auto &E = c06::eg();
  O.obs("eagain_injected", E.injected);
  O.obs("eagain_injected_on_listener_socket", E.listenerInjected);
  O.obs("eagain_injected_on_connected_socket", E.clientInjected);
  O.obs("eagain_real", E.real);
  O.obs("eagain_bursts_with_several_destinations_queued", E.multiDestBursts);
  O.obs("iora_send_syscalls", E.calls);
  O.flush();
  O.line("{\"t\":\"done\"}");
  return 0;
}
