// /verif/harness/c18_common.hpp — C18 shared pieces: counting operator new/delete, __cxa_throw
// recorder, case file + segmentation expansion, raw socket helpers, observation record.
// Included by exactly one TU (c18_ws.cpp).
#pragma once
#define VF_SHIM_SOCKIO
#include "shim/shims.hpp"
#include "vf.hpp"

#include <algorithm>
#include <arpa/inet.h>
#include <csignal>
#include <optional>
#include <condition_variable>
#include <dlfcn.h>
#include <malloc.h>
#include <netinet/in.h>
#include <netinet/tcp.h>
#include <new>
#include <openssl/sha.h>
#include <poll.h>
#include <sys/socket.h>
#include <typeinfo>

// ============================================================================ counting allocator
namespace mem
{
static std::atomic<int64_t> live{0}, peak{0};
static std::atomic<uint64_t> maxSingle{0};
static std::atomic<bool> tracking{false};
static thread_local bool tlExempt = false; // harness bookkeeping inside callbacks
static inline void add(size_t usable, size_t requested)
{
  int64_t v = live.fetch_add((int64_t)usable, std::memory_order_relaxed) + (int64_t)usable;
  int64_t p = peak.load(std::memory_order_relaxed);
  while (v > p && !peak.compare_exchange_weak(p, v, std::memory_order_relaxed)) {}
  if (tracking.load(std::memory_order_relaxed) && !tlExempt)
  {
    uint64_t m = maxSingle.load(std::memory_order_relaxed);
    while (requested > m && !maxSingle.compare_exchange_weak(m, requested, std::memory_order_relaxed)) {}
  }
}
static inline void attempted(size_t requested) // allocation that failed: still an attempt of that size
{
  if (tracking.load(std::memory_order_relaxed) && !tlExempt)
  {
    uint64_t m = maxSingle.load(std::memory_order_relaxed);
    while (requested > m && !maxSingle.compare_exchange_weak(m, requested, std::memory_order_relaxed)) {}
  }
}
static inline void sub(size_t n) { live.fetch_sub((int64_t)n, std::memory_order_relaxed); }
static inline int64_t begin()
{
  int64_t l = live.load();
  peak.store(l);
  maxSingle.store(0);
  tracking.store(true);
  return l;
}
static inline void end() { tracking.store(false); }
struct Exempt
{
  bool prev;
  Exempt() : prev(tlExempt) { tlExempt = true; }
  ~Exempt() { tlExempt = prev; }
};
} // namespace mem

void *operator new(std::size_t n)
{
  void *p = (n > (std::size_t(1) << 46)) ? nullptr : std::malloc(n ? n : 1);
  if (!p) { mem::attempted(n); throw std::bad_alloc(); }
  mem::add(malloc_usable_size(p), n);
  return p;
}
void *operator new[](std::size_t n) { return operator new(n); }
void *operator new(std::size_t n, const std::nothrow_t &) noexcept
{
  void *p = (n > (std::size_t(1) << 46)) ? nullptr : std::malloc(n ? n : 1);
  if (p) mem::add(malloc_usable_size(p), n); else mem::attempted(n);
  return p;
}
void *operator new[](std::size_t n, const std::nothrow_t &t) noexcept { return operator new(n, t); }
void operator delete(void *p) noexcept
{
  if (!p) return;
  mem::sub(malloc_usable_size(p));
  std::free(p);
}
void operator delete[](void *p) noexcept { operator delete(p); }
void operator delete(void *p, std::size_t) noexcept { operator delete(p); }
void operator delete[](void *p, std::size_t) noexcept { operator delete(p); }
void operator delete(void *p, const std::nothrow_t &) noexcept { operator delete(p); }
void operator delete[](void *p, const std::nothrow_t &) noexcept { operator delete(p); }
void *operator new(std::size_t n, std::align_val_t a)
{
  void *p = nullptr;
  size_t al = (size_t)a < sizeof(void *) ? sizeof(void *) : (size_t)a;
  if (posix_memalign(&p, al, n ? n : 1) != 0 || !p) { mem::attempted(n); throw std::bad_alloc(); }
  mem::add(malloc_usable_size(p), n);
  return p;
}
void *operator new[](std::size_t n, std::align_val_t a) { return operator new(n, a); }
void operator delete(void *p, std::align_val_t) noexcept { operator delete(p); }
void operator delete[](void *p, std::align_val_t) noexcept { operator delete(p); }
void operator delete(void *p, std::size_t, std::align_val_t) noexcept { operator delete(p); }
void operator delete[](void *p, std::size_t, std::align_val_t) noexcept { operator delete(p); }

// ============================================================================ throw recorder
// Every C++ throw in the process passes here (the executable's definition pre-empts libstdc++'s;
// the sanitizer runtimes' own interceptors are reached through RTLD_NEXT). Only names of static
// type_info objects are stored: no allocation, async-safe enough for a monitor.
namespace thr
{
static const int CAP = 16;
static std::atomic<const char *> names[CAP];
static std::atomic<int> count{0};
static std::atomic<bool> armed{false};
static inline void reset() { count.store(0); armed.store(true); }
static inline void disarm() { armed.store(false); }
static inline std::vector<std::string> list()
{
  std::vector<std::string> v;
  int n = std::min(count.load(), CAP);
  for (int i = 0; i < n; i++) { const char *p = names[i].load(); v.push_back(p ? p : "?"); }
  return v;
}
} // namespace thr

extern "C" __attribute__((noreturn)) void __cxa_throw(void *obj, void *tinfo, void (*dtor)(void *))
{
  using Fn = void (*)(void *, void *, void (*)(void *));
  std::type_info *ti = static_cast<std::type_info *>(tinfo);
  static Fn real = (Fn)dlsym(RTLD_NEXT, "__cxa_throw");
  if (thr::armed.load(std::memory_order_relaxed))
  {
    int i = thr::count.fetch_add(1);
    if (i < thr::CAP) thr::names[i].store(ti ? ti->name() : "?");
  }
  real(obj, tinfo, dtor);
  __builtin_unreachable();
}

namespace c18
{
// ============================================================================ helpers
static inline std::string sha1hex(const void *p, size_t n)
{
  unsigned char d[SHA_DIGEST_LENGTH];
  SHA1(reinterpret_cast<const unsigned char *>(p), n, d);
  return vf::hex(d, sizeof d);
}
static inline std::string b64(const unsigned char *p, size_t n)
{
  static const char *T = "ABCDEFGHIJKLMNOPQRSTUVWXYZabcdefghijklmnopqrstuvwxyz0123456789+/";
  std::string o;
  for (size_t i = 0; i < n; i += 3)
  {
    uint32_t v = p[i] << 16 | (i + 1 < n ? p[i + 1] << 8 : 0) | (i + 2 < n ? p[i + 2] : 0);
    o += T[(v >> 18) & 63]; o += T[(v >> 12) & 63];
    o += i + 1 < n ? T[(v >> 6) & 63] : '='; o += i + 2 < n ? T[v & 63] : '=';
  }
  return o;
}
static inline std::vector<std::string> split(const std::string &s, char sep)
{
  std::vector<std::string> v;
  size_t a = 0;
  for (;;)
  {
    size_t b = s.find(sep, a);
    if (b == std::string::npos) { v.push_back(s.substr(a)); break; }
    v.push_back(s.substr(a, b - a));
    a = b + 1;
  }
  return v;
}

// ============================================================================ cases
struct Case
{
  std::string id, side, kind, hclass, segspec, wire;
  uint64_t cfgmax = 0, expectWire = 0;
};
static inline std::vector<Case> loadCases(const std::string &path)
{
  std::vector<Case> v;
  std::string all = vf::readFile(path);
  for (auto &ln : split(all, '\n'))
  {
    if (ln.empty()) continue;
    auto f = split(ln, '\t');
    if (f.size() < 8) continue;
    Case c;
    c.id = f[0]; c.side = f[1]; c.kind = f[2]; c.hclass = f[3];
    c.cfgmax = strtoull(f[4].c_str(), nullptr, 10);
    c.expectWire = strtoull(f[5].c_str(), nullptr, 10);
    c.segspec = f[6];
    c.wire = vf::unhex(f[7]);
    v.push_back(std::move(c));
  }
  return v;
}

// one way of delivering the stream
struct Seg
{
  std::string label;
  std::vector<size_t> cuts; // piece boundaries (exact in-process; paced over a socket)
  uint32_t zcap = 0;        // socket: every recv of the endpoint capped at zcap bytes
  uint64_t rseed = 0;       // socket: seeded random shortening of the endpoint's recv calls
  bool joined = false;      // client: 101 response and stream in one send
};
static inline std::vector<size_t> nums(const std::string &s, char sep = ',')
{
  std::vector<size_t> v;
  for (auto &x : split(s, sep)) if (!x.empty()) v.push_back((size_t)strtoull(x.c_str(), nullptr, 10));
  return v;
}
static inline std::vector<Seg> expandSegs(const Case &c, uint64_t seed)
{
  std::vector<Seg> out;
  size_t L = c.wire.size();
  for (auto &it : split(c.segspec, ';'))
  {
    if (it == "W") { Seg s; s.label = "W"; out.push_back(s); }
    else if (it == "J") { Seg s; s.label = "J"; s.joined = true; out.push_back(s); }
    else if (it == "A")
    {
      for (size_t k = 1; k < L; k++) { Seg s; s.label = "c" + std::to_string(k); s.cuts = {k}; out.push_back(s); }
    }
    else if (it.rfind("L:", 0) == 0)
    {
      for (size_t k : nums(it.substr(2))) if (k > 0 && k < L) { Seg s; s.label = "c" + std::to_string(k); s.cuts = {k}; out.push_back(s); }
    }
    else if (it.rfind("X:", 0) == 0 || it.rfind("P:", 0) == 0)
    {
      Seg s; s.label = it;
      for (size_t k : nums(it.substr(2))) if (k > 0 && k < L) s.cuts.push_back(k);
      std::sort(s.cuts.begin(), s.cuts.end());
      s.cuts.erase(std::unique(s.cuts.begin(), s.cuts.end()), s.cuts.end());
      out.push_back(s);
    }
    else if (it.rfind("M:", 0) == 0)
    {
      int k = atoi(it.c_str() + 2);
      for (int j = 0; j < k && L > 2; j++)
      {
        vf::Rng r(seed ^ vf::fnv(c.id), 1000 + j);
        Seg s; s.label = "m" + std::to_string(j);
        int nc = (int)r.range(2, 9);
        for (int q = 0; q < nc; q++) s.cuts.push_back((size_t)r.range(1, L - 1));
        std::sort(s.cuts.begin(), s.cuts.end());
        s.cuts.erase(std::unique(s.cuts.begin(), s.cuts.end()), s.cuts.end());
        out.push_back(s);
      }
    }
    else if (it.rfind("B:", 0) == 0)
    {
      size_t n = (size_t)strtoull(it.c_str() + 2, nullptr, 10);
      if (n == 0) continue;
      Seg s; s.label = "b" + std::to_string(n);
      for (size_t k = n; k < L; k += n) s.cuts.push_back(k);
      out.push_back(s);
    }
    else if (it.rfind("Z:", 0) == 0) { Seg s; s.label = it; s.zcap = (uint32_t)atoi(it.c_str() + 2); out.push_back(s); }
    else if (it.rfind("R:", 0) == 0)
    {
      int k = atoi(it.c_str() + 2);
      for (int j = 0; j < k; j++) { Seg s; s.label = "r" + std::to_string(j); s.rseed = (seed ^ vf::fnv(c.id)) * 31 + j + 1; out.push_back(s); }
    }
  }
  if (out.empty()) { Seg s; s.label = "W"; out.push_back(s); }
  return out;
}
static inline std::vector<std::pair<size_t, size_t>> pieces(size_t L, const std::vector<size_t> &cuts)
{
  std::vector<std::pair<size_t, size_t>> v;
  size_t a = 0;
  for (size_t c : cuts) { if (c > a && c < L) { v.emplace_back(a, c - a); a = c; } }
  if (L > a || v.empty()) v.emplace_back(a, L - a);
  return v;
}

// ============================================================================ sockets
static inline int listenLoopback(int &port)
{
  int fd = ::socket(AF_INET, SOCK_STREAM, 0);
  int one = 1;
  ::setsockopt(fd, SOL_SOCKET, SO_REUSEADDR, &one, sizeof one);
  sockaddr_in a{};
  a.sin_family = AF_INET;
  a.sin_addr.s_addr = htonl(INADDR_LOOPBACK);
  a.sin_port = 0;
  if (::bind(fd, (sockaddr *)&a, sizeof a) != 0 || ::listen(fd, 64) != 0) { ::close(fd); return -1; }
  socklen_t l = sizeof a;
  ::getsockname(fd, (sockaddr *)&a, &l);
  port = ntohs(a.sin_port);
  return fd;
}
static inline int freePort()
{
  int p = 0;
  int fd = listenLoopback(p);
  if (fd >= 0) ::close(fd);
  return p;
}
static inline int rawConnect(int port)
{
  int fd = ::socket(AF_INET, SOCK_STREAM, 0);
  if (fd < 0) return -1;
  sockaddr_in a{};
  a.sin_family = AF_INET;
  a.sin_addr.s_addr = htonl(INADDR_LOOPBACK);
  a.sin_port = htons((uint16_t)port);
  if (::connect(fd, (sockaddr *)&a, sizeof a) != 0) { ::close(fd); return -1; }
  int one = 1;
  ::setsockopt(fd, IPPROTO_TCP, TCP_NODELAY, &one, sizeof one);
  return fd;
}
static inline bool sendAll(int fd, const char *p, size_t n, int timeoutMs = 20000)
{
  size_t off = 0;
  uint64_t dl = vf::nowNs() + uint64_t(timeoutMs) * 1000000ull;
  while (off < n)
  {
    ssize_t r = ::send(fd, p + off, n - off, MSG_NOSIGNAL | MSG_DONTWAIT);
    if (r > 0) { off += (size_t)r; continue; }
    if (r < 0 && (errno == EAGAIN || errno == EWOULDBLOCK || errno == EINTR))
    {
      if (vf::nowNs() > dl) return false;
      struct pollfd pf{fd, POLLOUT, 0};
      ::poll(&pf, 1, 50);
      continue;
    }
    return false;
  }
  return true;
}
// read whatever is available for up to waitMs; returns false on EOF/error
static inline bool recvSome(int fd, std::string &into, int waitMs, size_t cap = 8u << 20)
{
  struct pollfd pf{fd, POLLIN, 0};
  int r = ::poll(&pf, 1, waitMs);
  if (r <= 0) return true;
  char buf[65536];
  for (;;)
  {
    ssize_t k = ::recv(fd, buf, sizeof buf, MSG_DONTWAIT);
    if (k > 0) { if (into.size() < cap) into.append(buf, (size_t)k); continue; }
    if (k == 0) return false;
    if (errno == EINTR) continue;
    if (errno == EAGAIN || errno == EWOULDBLOCK) return true;
    return false;
  }
}
// read until pred(into) or EOF or timeout. returns: 1 pred, 2 eof, 0 timeout
template <class Pred> static inline int recvUntil(int fd, std::string &into, Pred pred, int timeoutMs)
{
  uint64_t dl = vf::nowNs() + uint64_t(timeoutMs) * 1000000ull;
  for (;;)
  {
    if (pred(into)) return 1;
    int64_t left = (int64_t)(dl - vf::nowNs()) / 1000000;
    if ((int64_t)(dl - vf::nowNs()) <= 0) return 0;
    if (!recvSome(fd, into, (int)std::min<int64_t>(std::max<int64_t>(left, 1), 200))) return pred(into) ? 1 : 2;
  }
}
static const char *WS_GUID = "258EAFA5-E914-47DA-95CA-C5AB0DC85B11";
static inline std::string acceptFor(const std::string &key)
{
  std::string c = key + WS_GUID;
  unsigned char d[SHA_DIGEST_LENGTH];
  SHA1(reinterpret_cast<const unsigned char *>(c.data()), c.size(), d);
  return b64(d, sizeof d);
}
static inline void shimOff()
{
  auto &p = vf::shim::sockPolicy();
  p.mode.store(0); p.maxLen.store(0);
}
static inline void shimFor(const Seg &s)
{
  auto &p = vf::shim::sockPolicy();
  if (s.zcap) { p.permille.store(0); p.maxLen.store(s.zcap); p.mode.store(1); }
  else if (s.rseed) { p.maxLen.store(0); p.seed.store(s.rseed); p.permille.store(650); p.mode.store(1); }
  else shimOff();
}

// ============================================================================ observations
struct MsgRec { char type; uint64_t len; std::string sha; };
struct Events
{
  std::mutex m;
  uint64_t cur = 0; // session of interest (server) — 0 = any
  std::vector<MsgRec> msgs;
  std::vector<std::pair<int, std::string>> closes;
  int errs = 0;
  std::string firstErr;
  void reset(uint64_t sid)
  {
    std::lock_guard<std::mutex> g(m);
    cur = sid; msgs.clear(); closes.clear(); errs = 0; firstErr.clear();
  }
  void msg(uint64_t sid, char t, const void *p, size_t n)
  {
    mem::Exempt ex;
    std::string h = sha1hex(p, n);
    std::lock_guard<std::mutex> g(m);
    if (cur && sid != cur) return;
    msgs.push_back(MsgRec{t, (uint64_t)n, std::move(h)});
  }
  void close(uint64_t sid, int code, const std::string &reason)
  {
    mem::Exempt ex;
    std::lock_guard<std::mutex> g(m);
    if (cur && sid != cur) return;
    closes.emplace_back(code, reason);
  }
  void err(uint64_t sid, const std::string &what)
  {
    mem::Exempt ex;
    std::lock_guard<std::mutex> g(m);
    if (cur && sid != cur) return;
    if (!errs++) firstErr = what;
  }
};

struct Obs
{
  std::vector<MsgRec> msgs;
  std::vector<std::pair<int, std::string>> closes;
  int errs = 0;
  std::string firstErr, wire, exc, state, harness;
  std::vector<std::string> thrown;
  bool eof = false, synced = false, dead = false;
  uint64_t fed = 0, maxAlloc = 0;
  int64_t peak = 0, endLive = 0;
  void take(Events &e)
  {
    std::lock_guard<std::mutex> g(e.m);
    msgs = e.msgs; closes = e.closes; errs = e.errs; firstErr = e.firstErr;
  }
  std::string canon(bool withWire) const
  {
    std::string s;
    for (auto &m : msgs) { s += m.type; s += std::to_string(m.len); s += ':'; s += m.sha; s += ';'; }
    s += "|";
    for (auto &c : closes) { s += std::to_string(c.first) + ":" + vf::hex(c.second) + ";"; }
    s += "|" + std::to_string(errs) + "|" + exc + "|";
    if (withWire) { s += vf::hex(wire); s += eof ? "|E" : "|-"; }
    return s;
  }
  std::string json() const
  {
    std::string s = "{\"msgs\":[";
    for (size_t i = 0; i < msgs.size() && i < 400; i++)
    {
      if (i) s += ",";
      s += "[\""; s += msgs[i].type; s += "\"," + std::to_string(msgs[i].len) + ",\"" + msgs[i].sha + "\"]";
    }
    s += "],\"nmsgs\":" + std::to_string(msgs.size()) + ",\"closes\":[";
    for (size_t i = 0; i < closes.size() && i < 50; i++)
    {
      if (i) s += ",";
      s += "[" + std::to_string(closes[i].first) + ",\"" + vf::hex(closes[i].second) + "\"]";
    }
    s += "],\"errs\":" + std::to_string(errs) + ",\"err\":" + vf::jstr(firstErr.substr(0, 200));
    s += ",\"wire\":\"" + vf::hex(wire.data(), std::min<size_t>(wire.size(), 256 * 1024)) + "\",\"wire_len\":" + std::to_string(wire.size());
    s += ",\"eof\":" + std::string(eof ? "true" : "false") + ",\"synced\":" + (synced ? "true" : "false") + ",\"dead\":" + (dead ? "true" : "false");
    s += ",\"exc\":" + (exc.empty() ? std::string("null") : vf::jstr(exc)) + ",\"thrown\":[";
    for (size_t i = 0; i < thrown.size(); i++) { if (i) s += ","; s += vf::jstr(thrown[i]); }
    s += "],\"fed\":" + std::to_string(fed) + ",\"max_alloc\":" + std::to_string(maxAlloc) + ",\"peak\":" + std::to_string(peak) +
         ",\"end_live\":" + std::to_string(endLive) + ",\"state\":" + vf::jstr(state) + ",\"harness\":" + (harness.empty() ? std::string("null") : vf::jstr(harness)) + "}";
    return s;
  }
};

struct Opts
{
  int waitMs = 4000;      // generous sync watchdog
  int shortWaitMs = 500;  // after a first lost sync in the same case
  int graceMs = 4;
  uint64_t seed = 1;
};

} // namespace c18
