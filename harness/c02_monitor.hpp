// C02 monitor: per-id state machine fed online from the transport's callbacks, per-session
// observers and user-data cleanups; everything stamped from one global atomic sequence.
// The monitor never reads iora state except through the public API (getStats()).
#pragma once
#include "c02_util.hpp"

#include <iora/network/transport_impl.hpp>

#include <algorithm>
#include <condition_variable>
#include <functional>
#include <map>
#include <memory>
#include <mutex>
#include <sstream>

namespace c02 {
using namespace iora::network;

// relaxed: a total order without creating happens-before edges that would hide races from TSan
inline std::atomic<uint64_t> gSeq{0};
inline uint64_t stamp() { return gSeq.fetch_add(1, std::memory_order_relaxed) + 1; }

struct FanTls { const void *h = nullptr; uint64_t sid = 0; uint64_t tok = 0; int depth = 0; };
inline thread_local FanTls tFan; // the close fan-out this (I/O) thread is currently inside
struct FlushTls { const void *h = nullptr; uint64_t startSeq = 0; int afterClose = 0; };
inline thread_local FlushTls tFlush; // this (application) thread is inside setReadMode(): data callbacks are the Sync->Async flush

enum RegCtx { RC_ACTOR = 0, RC_ANNOUNCE, RC_DATA, RC_GLOBALCLOSE, RC_OBSERVER, RC_OTHER_IO, RC_RACY, RC_CLEANUP };
enum Ann { A_NONE = 0, A_ACCEPT = 1, A_CONNECT = 2 };

// connect targets (also used for keys)
enum Target { T_NONE = -1, T_LISTENING = 0, T_REFUSED, T_BLACKHOLE, T_UNRESOLVABLE, T_DNS_SLOW, T_TLS_BAD, T_TLS_SILENT, T_TLS_PEER,
              T_SELF, T_SINK, T_UDP_PEER, T_UDP_VIA, T_UDP_VIA_NOLISTENER, T_UDP_VIA_AF, T_UDP_DEAD, T_NOROUTE, T_EINVAL, T_UDP_NOCONNECT };
inline const char *targetName(int t)
{
  static const char *n[] = {"listening", "refused", "blackholed", "unresolvable", "dns-slow", "tls-bad-peer", "tls-silent-peer", "tls-peer",
                            "self", "sink", "udp-peer", "udp-via", "udp-via-no-listener", "udp-via-af-mismatch", "udp-dead-port", "no-route", "einval-address", "udp-connect-fails"};
  return t < 0 || t > T_UDP_NOCONNECT ? "none" : n[t];
}

struct CbPlan // what the application does from inside callbacks for one session
{
  uint64_t seed = 0;
  int obsAtAnnounce = 0; bool udAtAnnounce = false; bool closeAtAnnounce = false;
  int obsAtData = 0; bool udAtData = false; bool unobsAtData = false; bool closeAtData = false; bool modeAtData = false;
  int obsAtClose = 0; bool udAtClose = false; bool unobsAtClose = false;
  bool udCallbacks = false; // callbacks are the only user-data agent of this session
  bool gate = false;        // connect() and plan registration are atomic w.r.t. the session's first callback
  int planKind = -1, planEnd = -1;
};

struct ObsRec
{
  uint32_t idx = 0; uint64_t sid = 0; ObserverId tid = 0;
  uint64_t regStart = 0, regEnd = 0; int ctx = 0; uint64_t regFanSid = 0;
  int fired = 0; uint64_t fireSeq = 0; int unobsTrue = 0, unobsFalse = 0;
  int behav = 0; uint64_t bseed = 0;
};
struct UdRec
{
  uint32_t idx = 0; uint64_t sid = 0; void *data = nullptr;
  uint64_t regStart = 0, regEnd = 0; int ctx = 0; uint64_t regFanSid = 0;
  int fired = 0; uint64_t fireSeq = 0;
};
struct Sess
{
  uint64_t id = 0, firstSeq = 0;
  bool connRet = false, connFromIo = false; uint64_t connCallSeq = 0, connRetSeq = 0; int target = T_NONE;
  int ann = A_NONE; uint64_t annSeq = 0; bool annBeforeRet = false;
  bool resyncAfterClose = false; // the application set Sync/Disabled on the already closed id
  bool tlsAccepted = false, hsConnectCb = false; // accepted on the TLS listener; got its handshake-complete connect callback
  int closes = 0; uint64_t closeSeq = 0, closeEndSeq = 0; int closeCode = -1; std::string closeMsg; int closeErrno = 0; bool closeBeforeRet = false;
  uint64_t dataEvents = 0;
  uint64_t cleanupSeq = 0; int cleanupFires = 0;
  std::vector<ObsRec *> obs; std::vector<UdRec *> uds;
  int planKind = -1, planEnd = -1;
  std::shared_ptr<CbPlan> plan; bool firstDataDone = false;
  bool finalized = false;
  std::string trace;
  void tr(const char *w, uint64_t s) { if (trace.size() < 360) { trace += w; trace += '@'; trace += std::to_string(s); trace += ' '; } }
};

inline const char *errName(int c)
{
  static const char *n[] = {"None", "Socket", "Resolve", "Bind", "Listen", "Accept", "Connect", "TLSHandshake", "TLSIO", "PeerClosed",
                            "WriteBackpressure", "Config", "GCClosed", "Cancelled", "Timeout", "BufferOverflow", "ShuttingDown", "Unknown"};
  return c < 0 || c > 17 ? "?" : n[c];
}
// class of a close as seen through the reason handed to the callback
inline std::string closeClass(int code, const std::string &msg)
{
  auto has = [&](const char *s) { return msg.find(s) != std::string::npos; };
  TransportError e = TransportError(code);
  if (e == TransportError::Unknown && has("shutdown")) return "stop";
  if (e == TransportError::Unknown && has("closed by app")) return "app";
  if (e == TransportError::PeerClosed && has("EPOLLHUP")) return "hup";
  if (e == TransportError::PeerClosed) return "peer_fin";
  if (e == TransportError::Socket) return "socket_error";
  if (e == TransportError::Connect) return "connect_failed";
  if (e == TransportError::Resolve) return has("DNS_TIMEOUT") ? "dns_timeout" : "unresolvable";
  if (e == TransportError::Timeout && has("Connect timeout")) return "connect_timeout";
  if (e == TransportError::Timeout && has("Write stall")) return "write_stall";
  if (e == TransportError::TLSHandshake && has("handshake timeout")) return "handshake_timeout";
  if (e == TransportError::TLSHandshake) return "tls_failure";
  if (e == TransportError::TLSIO) return "tls_io";
  if (e == TransportError::GCClosed) return "gc";
  if (e == TransportError::WriteBackpressure) return "backpressure";
  if (e == TransportError::Config) return "config";
  return std::string("other_") + errName(code);
}

struct Hist
{
  // ---- identity
  uint64_t seed = 0, idx = 0; bool udp = false; std::string cfgDesc;
  const char *eng() const { return udp ? "udp" : "tcp"; }
  std::shared_ptr<Transport> T;        // the application's owning handle (driver and actor threads while they run)
  std::atomic<Transport *> Traw{nullptr}; // what callbacks use; nulled before the last owner is dropped (a weak_ptr that no longer locks)
  Transport *tp() const { return Traw.load(); }
  std::atomic<bool> implGone{false};   // set when the transport's callback storage (Transport::Impl) has been destroyed
  struct Gone { std::atomic<bool> *f; ~Gone() { f->store(true); } };
  std::shared_ptr<Transport> doomOwner; std::atomic<bool> doomArmed{false}, doomDone{false}; // last owner handed to a callback (mu)
  bool idleGcCfg = false, hiResTimers = true;
  std::atomic<uint16_t> tlsListenerPort{0};

  // ---- monitor state (mu)
  std::mutex mu; std::condition_variable cv;
  std::map<uint64_t, Sess> sess;
  std::map<uint16_t, uint64_t> portToSid;
  std::map<uint16_t, std::shared_ptr<CbPlan>> planByPort;
  std::vector<std::unique_ptr<ObsRec>> allObs; std::vector<std::unique_ptr<UdRec>> allUd;
  uint64_t maxId = 0, lastAcceptId = 0, ioSnap = 0;
  int64_t openAnnounced = 0, pendingIds = 0, inflight = 0;
  uint64_t stopBeginSeq = 0, stopEndSeq = 0; // of the current phase (0 = stop not begun)
  uint64_t nAccept = 0, nConnectCb = 0, nCloseCb = 0, nData = 0;
  std::map<std::string, uint64_t> counters;
  std::vector<std::string> inconcl; // (key|what)
  std::set<std::string> sigParts;
  int violCount = 0;

  // ---- control
  std::atomic<bool> stopping{false}, stopDone{false}, stopWaitsForActors{false};
  std::atomic<uint64_t> stallUntilNs{0};
  std::atomic<int> reconnectBudget{0};
  std::mutex gateMu; std::atomic<int> gatePending{0};
  vf::Rng ioRng{1};
  double microStallP = 0.03;
  bool reconnectOnClose = false;
  std::function<void(bool /*fromIo*/)> spawnConnect; // set by the driver

  void count(const std::string &n, uint64_t k = 1) { counters[n] += k; } // mu held
  void countL(const std::string &n, uint64_t k = 1) { std::lock_guard<std::mutex> g(mu); counters[n] += k; }

  std::string detail(const Sess *S, const std::string &extra = "")
  {
    std::ostringstream d;
    d << "{\"hist\":" << idx << ",\"seed\":" << seed << ",\"engine\":\"" << eng() << "\",\"cfg\":" << vf::jstr(cfgDesc);
    if (S)
    {
      d << ",\"sid\":" << S->id << ",\"announce\":" << S->ann << ",\"connect_returned\":" << (S->connRet ? "true" : "false")
        << ",\"target\":\"" << targetName(S->target) << "\",\"closes\":" << S->closes << ",\"close_code\":\"" << errName(S->closeCode)
        << "\",\"close_msg\":" << vf::jstr(S->closeMsg.substr(0, 120)) << ",\"plan\":\"" << S->planKind << "/" << S->planEnd
        << "\",\"trace\":" << vf::jstr(S->trace);
    }
    if (!extra.empty()) d << "," << extra;
    d << "}";
    return d.str();
  }
  void viol(const std::string &key, const std::string &what, const Sess *S, const std::string &extra = "") // mu held or quiescent
  {
    violCount++;
    vf::out().viol(key, what, detail(S, extra));
  }
  std::string K(const std::string &rest) const { return std::string("C02:") + eng() + ":" + rest; }

  // ---------------------------------------------------------------- waiting
  template <class P> bool waitUntil(P pred, double ms, bool abortOnStopDone = true)
  {
    uint64_t dl = nowNs() + uint64_t(ms * 1e6);
    std::unique_lock<std::mutex> lk(mu);
    for (;;)
    {
      if (pred()) return true;
      if (abortOnStopDone && stopDone.load()) return pred();
      if (nowNs() >= dl) return false;
      cv.wait_for(lk, std::chrono::milliseconds(15));
    }
  }
  bool isClosed(uint64_t sid) { std::lock_guard<std::mutex> g(mu); auto it = sess.find(sid); return it != sess.end() && it->second.closes > 0; }

  // ---------------------------------------------------------------- I/O-thread epilogue of every callback
  void ioExit(bool snap = true)
  {
    if (snap) { std::lock_guard<std::mutex> g(mu); ioSnap = maxId; }
    cv.notify_all();
    uint64_t su = stallUntilNs.load(std::memory_order_relaxed), n = nowNs();
    if (su > n) { uint64_t d = su - n; if (d > 40000000ull) d = 40000000ull; sleepMs(double(d) / 1e6); countL("io_targeted_stalls"); }
    else if (ioRng.chance(microStallP)) sleepMs(0.05 + double(ioRng.below(1500)) / 1000.0);
  }
  void gateBarrier()
  {
    if (gatePending.load() > 0) { std::lock_guard<std::mutex> g(gateMu); }
  }

  // gauge: exact on the I/O thread (only this thread inserts/erases sessions)
  void gaugeCheck(const char *where, const Sess *S)
  {
    Transport *t = tp();
    if (!t) return;
    size_t g = t->getStats().sessionsCurrent;
    std::lock_guard<std::mutex> lk(mu);
    count("gauge_samples_io_thread");
    if (int64_t(g) < openAnnounced || g > (size_t(1) << 40))
      viol(K("gauge-undercount"), std::string("getStats().sessionsCurrent below the number of announced, not yet closed sessions (sampled on the I/O thread in ") + where + ")",
           S, "\"gauge\":" + std::to_string(int64_t(g)) + ",\"open\":" + std::to_string(openAnnounced));
    else if (int64_t(g) > openAnnounced + pendingIds + inflight)
      viol(K("gauge-overcount"), std::string("getStats().sessionsCurrent above announced-open + pending connects (sampled on the I/O thread in ") + where + ")",
           S, "\"gauge\":" + std::to_string(int64_t(g)) + ",\"open\":" + std::to_string(openAnnounced) + ",\"pending\":" + std::to_string(pendingIds + inflight));
  }

  // ---------------------------------------------------------------- registrations
  ObsRec *addObserver(uint64_t sid, int ctx, uint64_t bseed)
  {
    Transport *t = tp();
    if (!t) return nullptr;
    auto up = std::make_unique<ObsRec>();
    ObsRec *O = up.get();
    O->sid = sid; O->ctx = ctx; O->bseed = bseed;
    vf::Rng r(bseed, 77);
    O->behav = r.chance(0.45) ? int(r.range(1, 8)) : 0;
    if ((ctx == RC_GLOBALCLOSE || ctx == RC_OBSERVER || ctx == RC_CLEANUP) && tFan.h == this) O->regFanSid = tFan.sid;
    { std::lock_guard<std::mutex> g(mu); O->idx = uint32_t(allObs.size()); allObs.push_back(std::move(up)); }
    uint64_t s0 = stamp();
    ObserverId tid = t->observe(sid, [this, O](SessionId s, const TransportErrorInfo &why) { onObserver(O, s, why); });
    uint64_t s1 = stamp();
    std::lock_guard<std::mutex> g(mu);
    O->regStart = s0; O->regEnd = s1; O->tid = tid;
    Sess &S = sess[sid]; S.id = sid; S.obs.push_back(O); S.tr(ctx == RC_ACTOR ? "obs+" : ctx == RC_RACY ? "obs+racy" : "obs+io", s1);
    count(std::string("reg_observer_ctx_") + std::to_string(ctx));
    return O;
  }
  bool tryUnobserve(ObsRec *O, const char *whereCtx)
  {
    ObserverId tid;
    { std::lock_guard<std::mutex> g(mu); tid = O->tid; }
    Transport *t = tp();
    if (!tid || !t) return false;
    bool r = t->unobserve(tid);
    uint64_t s = stamp();
    std::lock_guard<std::mutex> g(mu);
    (r ? O->unobsTrue : O->unobsFalse)++;
    sess[O->sid].tr(r ? "unobs=T" : "unobs=F", s);
    count(std::string("unobserve_") + whereCtx + (r ? "_true" : "_false"));
    return r;
  }
  UdRec *setUserData(uint64_t sid, int ctx)
  {
    Transport *t = tp();
    if (!t) return nullptr;
    auto up = std::make_unique<UdRec>();
    UdRec *U = up.get();
    U->sid = sid; U->ctx = ctx; U->data = U; // the record is its own opaque pointer
    if ((ctx == RC_GLOBALCLOSE || ctx == RC_OBSERVER || ctx == RC_CLEANUP) && tFan.h == this) U->regFanSid = tFan.sid;
    { std::lock_guard<std::mutex> g(mu); U->idx = uint32_t(allUd.size()); allUd.push_back(std::move(up)); }
    uint64_t s0 = stamp();
    t->setSessionData(sid, U, [this, U](void *p) { onCleanup(U, p); });
    uint64_t s1 = stamp();
    std::lock_guard<std::mutex> g(mu);
    U->regStart = s0; U->regEnd = s1;
    Sess &S = sess[sid]; S.id = sid; S.uds.push_back(U); S.tr(ctx == RC_RACY ? "ud+racy" : "ud+", s1);
    count(std::string("reg_userdata_ctx_") + std::to_string(ctx));
    return U;
  }

  // ---------------------------------------------------------------- connect() wrapper
  // returns the id handed out by connect()/connectViaListener() (0 on error)
  uint64_t doConnect(const std::string &host, uint16_t port, TlsMode tls, int target, std::shared_ptr<CbPlan> plan, bool fromIo,
                     bool via = false, ListenerId lid = 0)
  {
    Transport *t = tp();
    if (!t) return 0;
    bool gate = plan && plan->gate && !fromIo;
    if (gate) { gatePending++; gateMu.lock(); }
    uint64_t snapMax;
    { std::lock_guard<std::mutex> g(mu); inflight++; snapMax = maxId; }
    uint64_t s0 = stamp();
    ConnectResult r = via ? t->connectViaListener(lid, host, port) : t->connect(host, port, tls);
    uint64_t s1 = stamp();
    uint64_t sid = r.isOk() ? r.value() : 0;
    {
      std::lock_guard<std::mutex> g(mu);
      inflight--;
      bool duringStop = stopBeginSeq && s1 > stopBeginSeq;
      if (!sid)
      {
        count(duringStop ? "il_connect_during_stop_rejected" : "connect_returned_error");
        if (!duringStop && !stopping.load() && r.error().code != TransportError::ShuttingDown) count(std::string("connect_error_") + errName(int(r.error().code)));
      }
      else
      {
        Sess &S = sess[sid];
        if (S.connRet) viol(K("id-reused:connect-return-twice"), "connect() returned an id it had already returned", &S);
        if (S.ann == A_ACCEPT) viol(K("id-reused:connect-return-of-accepted-id"), "connect() returned the id of an accepted session", &S);
        if (sid <= snapMax)
        {
          // ids whose first sighting completed before the call started were allocated earlier
          viol(K("id-not-increasing:connect-return"), "connect() returned an id not greater than ids seen before the call", &S,
                 "\"max_seen_before_call\":" + std::to_string(snapMax));
        }
        S.id = sid;
        if (!S.firstSeq) S.firstSeq = s1;
        S.connRet = true; S.connFromIo = fromIo; S.connCallSeq = s0; S.connRetSeq = s1; S.target = target;
        S.tr(fromIo ? "connect()io" : "connect()", s1);
        if (plan) { S.plan = plan; S.planKind = plan->planKind; S.planEnd = plan->planEnd; }
        if (S.ann != A_NONE) { S.annBeforeRet = true; count("il_announce_before_connect_return"); }
        if (S.closes > 0) { S.closeBeforeRet = true; count("il_close_before_connect_return"); }
        if (S.ann == A_NONE && S.closes == 0) pendingIds++;
        if (sid > maxId) maxId = sid;
        if (duringStop) count("il_connect_during_stop_accepted");
        count("connect_ids_returned");
      }
    }
    if (gate) { gateMu.unlock(); gatePending--; }
    cv.notify_all();
    return sid;
  }

  // ---------------------------------------------------------------- in-callback application behaviour
  void cbRegistrations(uint64_t sid, int nObs, bool ud, int ctx, uint64_t seedBase)
  {
    for (int i = 0; i < nObs; i++) addObserver(sid, ctx, seedBase * 131 + uint64_t(i));
    if (ud) setUserData(sid, ctx);
  }
  ObsRec *firstLiveObserver(uint64_t sid)
  {
    std::lock_guard<std::mutex> g(mu);
    auto it = sess.find(sid);
    if (it == sess.end()) return nullptr;
    for (auto *o : it->second.obs) if (o->tid && !o->unobsTrue && !o->fired) return o;
    return nullptr;
  }

  // ---------------------------------------------------------------- transport callbacks (I/O thread)
  void onAccept(SessionId sid, const TransportAddress &addr)
  {
    uint64_t s = stamp();
    tFan = FanTls{};
    std::shared_ptr<CbPlan> plan;
    uint16_t tlp = tlsListenerPort.load(); Transport *t0 = tp(); bool viaTls = tlp && t0 && t0->getLocalAddress(sid).port == tlp;
    {
      std::lock_guard<std::mutex> g(mu);
      Sess &S = sess[sid]; S.id = sid;
      if (!S.firstSeq) S.firstSeq = s;
      S.tlsAccepted = viaTls;
      S.tr(viaTls ? "Atls" : "A", s);
      nAccept++;
      if (S.closes > 0) viol(K("event-after-close:onAccept"), "accept callback for an id that was already closed", &S);
      if (S.ann != A_NONE) viol(K(S.ann == A_ACCEPT ? "announce-twice:onAccept" : "id-reused:accept-of-connected-id"), "second announcement for one id", &S);
      if (S.connRet) viol(K("id-reused:accept-of-connect-id"), "accept callback carries an id that connect() returned", &S);
      if (sid <= lastAcceptId) viol(K("id-not-increasing:accept-sequence"), "accepted ids not strictly increasing in callback order", &S, "\"prev\":" + std::to_string(lastAcceptId));
      else if (sid <= ioSnap) viol(K("id-not-increasing:accept-vs-earlier"), "accepted id not greater than ids seen before the previous I/O callback ended", &S, "\"seen\":" + std::to_string(ioSnap));
      lastAcceptId = std::max(lastAcceptId, uint64_t(sid));
      if (S.ann == A_NONE) { S.ann = A_ACCEPT; S.annSeq = s; if (!S.closes) openAnnounced++; }
      if (sid > maxId) maxId = sid;
      portToSid[addr.port] = sid;
      auto pit = planByPort.find(addr.port);
      if (pit != planByPort.end()) { plan = pit->second; planByPort.erase(pit); S.plan = plan; S.planKind = plan->planKind; S.planEnd = plan->planEnd; }
    }
    gaugeCheck("onAccept", nullptr);
    if (plan)
    {
      cbRegistrations(sid, plan->obsAtAnnounce, plan->udAtAnnounce, RC_ANNOUNCE, plan->seed + 1);
      if (plan->closeAtAnnounce) { if (Transport *t = tp()) t->close(sid); countL("app_close_from_announce_cb"); }
    }
    ioExit();
  }
  void onConnect(SessionId sid, const TransportAddress &)
  {
    gateBarrier();
    uint64_t s = stamp();
    tFan = FanTls{};
    std::shared_ptr<CbPlan> plan; bool hsOnly = false;
    {
      std::lock_guard<std::mutex> g(mu);
      Sess &S = sess[sid]; S.id = sid;
      if (!S.firstSeq) S.firstSeq = s;
      S.tr("C", s);
      nConnectCb++;
      hsOnly = false;
      if (S.closes > 0) viol(K("event-after-close:onConnect"), "connect callback for an id that was already closed", &S);
      if (S.ann == A_CONNECT) viol(K("announce-twice:onConnect"), "second connect callback for one id", &S);
      if (S.ann == A_ACCEPT)
      {
        // the TCP engine reports "TLS handshake complete" on a server-side session through the connect
        // callback: the same session, not a second one. Allowed once, on TLS-listener sessions only.
        if (S.tlsAccepted && !S.hsConnectCb && !S.closes) { S.hsConnectCb = true; hsOnly = true; count("il_tls_server_connect_cb_after_accept"); }
        else viol(K("id-reused:connect-of-accepted-id"), "connect callback for an accepted id (not a TLS-listener session, or repeated)", &S);
      }
      if (S.ann == A_NONE)
      {
        S.ann = A_CONNECT; S.annSeq = s;
        if (!S.closes) { openAnnounced++; if (S.connRet) pendingIds--; }
      }
      if (sid > maxId) maxId = sid;
      plan = S.plan;
    }
    gaugeCheck("onConnect", nullptr);
    if (plan && !hsOnly)
    {
      cbRegistrations(sid, plan->obsAtAnnounce, plan->udAtAnnounce, RC_ANNOUNCE, plan->seed + 1);
      if (plan->closeAtAnnounce) { if (Transport *t = tp()) t->close(sid); countL("app_close_from_announce_cb"); }
    }
    ioExit();
  }
  // setReadMode() from an application thread; data callbacks it makes (the Sync->Async flush) are attributed to it
  bool setMode(uint64_t sid, ReadMode m)
  {
    if (m != ReadMode::Async)
    {
      std::lock_guard<std::mutex> g(mu);
      auto it = sess.find(sid);
      if (it != sess.end() && it->second.closes > 0) it->second.resyncAfterClose = true;
    }
    tFlush.h = this; tFlush.startSeq = stamp(); tFlush.afterClose = 0;
    { std::lock_guard<std::mutex> g(mu); sess[sid].tr(m == ReadMode::Sync ? "mode=S" : m == ReadMode::Async ? "mode=A" : "mode=D", tFlush.startSeq); }
    bool ok = false;
    try { if (Transport *t = tp()) ok = t->setReadMode(sid, m); } catch (const std::exception &) { countL("readmode_set_threw"); }
    tFlush.h = nullptr;
    if (m != ReadMode::Async)
    {
      // the switch may have landed after the close fan-out although the close was not visible before the call
      std::lock_guard<std::mutex> g(mu);
      auto it = sess.find(sid);
      if (it != sess.end() && it->second.closes > 0) it->second.resyncAfterClose = true;
    }
    return ok;
  }
  void onData(SessionId sid, iora::core::BufferView data)
  {
    uint64_t s = stamp();
    const bool inFlush = tFlush.h == this; // delivered by setReadMode() on an application thread, not by the I/O thread
    if (!inFlush) tFan = FanTls{};
    std::shared_ptr<CbPlan> plan; bool first = false;
    {
      std::lock_guard<std::mutex> g(mu);
      Sess &S = sess[sid]; S.id = sid;
      if (!S.firstSeq) S.firstSeq = s;
      if (S.dataEvents < 3 || inFlush) S.tr(inFlush ? "Dflush" : "D", s);
      nData++;
      if (inFlush) count("readmode_flush_data_events");
      // ordered by the entry stamps: a flush callback (application thread) that was entered before the close
      // callback was entered is concurrent with the close, not after it, even if it gets the monitor lock later
      const bool closedBefore = S.closes > 0 && S.closeSeq < s;
      if (S.closes > 0 && !closedBefore) count("il_flush_data_cb_entered_before_close_cb");
      if (closedBefore && inFlush)
      {
        // raw peers send position-encoded bytes (position mod 251): one forward-ordered run == one chunk moved out of the
        // buffer (a forward step of up to 9 is allowed: bytes the peer sent while the session was Disabled are dropped by design)
        bool contig = data.size() > 0;
        for (size_t i = 0; contig && i + 1 < data.size(); i++) { unsigned d = (unsigned(data.data()[i + 1]) + 251u - unsigned(data.data()[i])) % 251u; contig = d >= 1 && d <= 9; }
        tFlush.afterClose++;
        const bool beganBefore = tFlush.startSeq < S.closeSeq;
        if (beganBefore && tFlush.afterClose == 1 && contig)
        {
          // the single chunk a flusher had already moved out of the buffer (lock released) when the close began
          viol(K("data-after-close:setReadMode-flush-overlapping-close:one-in-flight-chunk"),
               "a setReadMode(Async) call that began before the close had already taken one chunk out of the sync buffer; its data callback was entered after the global close callback",
               &S, "\"bytes\":" + std::to_string(data.size()));
          count("il_flush_one_in_flight_chunk_after_close");
        }
        else
        {
        // the user-data cleanup is the last step of the close fan-out: a call that started after it started after the close completed
        bool after = S.cleanupSeq && S.cleanupSeq < tFlush.startSeq;
        std::string key = !after ? "data-after-close:setReadMode-flush-overlapping-close"
                                 : S.resyncAfterClose ? "data-after-close:setReadMode-flush-after-close:mode-set-after-close" : "data-after-close:setReadMode-flush-after-close:direct";
        viol(K(key),
             !after ? "a setReadMode(Async) flush that overlapped the close fan-out delivered bytes through the data callback after the global close callback"
                    : S.resyncAfterClose ? "after the close completed the application set Sync/Disabled on the closed id and then Async: the flush delivered the bytes left in the closed buffer through the data callback"
                                         : "setReadMode(Async) called after the session's close had completed ran the Sync->Async flush and delivered buffered bytes through the data callback",
             &S, "\"bytes\":" + std::to_string(data.size()) + ",\"callbacks_after_close_in_this_call\":" + std::to_string(tFlush.afterClose) + ",\"call_began_before_close\":" + (beganBefore ? "true" : "false") + ",\"contiguous\":" + (contig ? "true" : "false"));
        }
      }
      else if (closedBefore) viol(K("data-after-close"), "data callback for an id after its close callback", &S, "\"bytes\":" + std::to_string(data.size()));
      else if (S.ann == A_NONE) viol(K("data-before-announce"), "data callback for an id before its accept/connect callback", &S, "\"bytes\":" + std::to_string(data.size()));
      S.dataEvents++;
      if (!inFlush && !S.firstDataDone) { S.firstDataDone = true; first = true; plan = S.plan; }
    }
    if (inFlush) { cv.notify_all(); return; }
    if (doomArmed.load())
    {
      // the application drops its LAST reference from inside this callback: ~Transport runs on the I/O thread
      std::shared_ptr<Transport> o;
      { std::lock_guard<std::mutex> g(mu); o = std::move(doomOwner); doomOwner.reset(); }
      if (o) { Traw = nullptr; countL("teardown_drop_last_owner_in_callback"); o.reset(); doomDone = true; }
    }
    if (first && plan)
    {
      cbRegistrations(sid, plan->obsAtData, plan->udAtData && plan->udCallbacks, RC_DATA, plan->seed + 2);
      if (plan->unobsAtData) { if (ObsRec *o = firstLiveObserver(sid)) tryUnobserve(o, "in_data_cb"); }
      if (plan->closeAtData) { if (Transport *t = tp()) t->close(sid); countL("app_close_from_data_cb"); }
      if (plan->modeAtData)
      {
        // the API refuses read-mode switches on the I/O thread (throws); it must not change anything
        try { if (Transport *t = tp()) { t->setReadMode(sid, ReadMode::Sync); countL("readmode_set_in_data_cb_accepted"); } }
        catch (const std::exception &) { countL("readmode_set_in_data_cb_refused"); }
      }
    }
    ioExit();
  }
  void onClose(SessionId sid, const TransportErrorInfo &why)
  {
    gateBarrier();
    uint64_t s = stamp();
    std::shared_ptr<CbPlan> plan; bool firstClose = false; bool duringStop = false;
    {
      std::lock_guard<std::mutex> g(mu);
      Sess &S = sess[sid]; S.id = sid;
      if (!S.firstSeq) S.firstSeq = s;
      S.tr("X", s);
      nCloseCb++;
      S.closes++;
      if (S.closes == 1)
      {
        firstClose = true;
        S.closeSeq = s; S.closeCode = int(why.code); S.closeMsg = why.message; S.closeErrno = why.sysErrno;
        if (S.ann != A_NONE) openAnnounced--;
        else if (S.connRet) pendingIds--;
        plan = S.plan;
      }
      else
        viol(K(std::string("double-close:") + closeClass(S.closeCode, S.closeMsg) + "/" + closeClass(int(why.code), why.message)),
             "second close callback for one id", &S, "\"second_msg\":" + vf::jstr(why.message.substr(0, 100)));
      if (sid > maxId) maxId = sid;
      duringStop = stopBeginSeq != 0;
    }
    tFan.h = this; tFan.sid = sid; tFan.tok = s; tFan.depth = 0;
    gaugeCheck("onClose", nullptr);
    if (firstClose && plan)
    {
      cbRegistrations(sid, plan->obsAtClose, plan->udAtClose && plan->udCallbacks, RC_GLOBALCLOSE, plan->seed + 3);
      if (plan->unobsAtClose) { if (ObsRec *o = firstLiveObserver(sid)) tryUnobserve(o, "in_global_close_cb"); }
    }
    if (firstClose && reconnectOnClose && spawnConnect && reconnectBudget.fetch_sub(1) > 0)
    {
      spawnConnect(true);
      countL(duringStop ? "il_reconnect_from_close_cb_during_stop" : "reconnect_from_close_cb");
    }
    { std::lock_guard<std::mutex> g(mu); auto it = sess.find(sid); if (it != sess.end() && !it->second.closeEndSeq) it->second.closeEndSeq = stamp(); }
    ioExit();
  }
  void onObserver(ObsRec *O, SessionId sid, const TransportErrorInfo &why)
  {
    uint64_t s = stamp();
    int behav; uint64_t bseed; std::vector<ObsRec *> sibs; bool udCb = false;
    {
      std::lock_guard<std::mutex> g(mu);
      Sess &S = sess[O->sid];
      S.tr("obs!", s);
      O->fired++;
      if (O->fired == 1) O->fireSeq = s;
      if (sid != O->sid) viol(K("fanout:observer-wrong-session"), "observer invoked with another session's id", &S, "\"arg\":" + std::to_string(sid));
      if (tFan.h != this || tFan.sid != O->sid) viol(K("fanout:observer-outside-close"), "observer invoked outside the close fan-out of its session", &S);
      if (S.closes == 0) viol(K("fanout:observer-before-global"), "observer invoked before the global close callback of its session", &S);
      else if (int(why.code) != S.closeCode) viol(K("fanout:observer-reason-differs"), "observer got a different close reason than the global callback", &S);
      if (S.cleanupSeq) viol(K("fanout:observer-after-cleanup"), "observer invoked after the session's user-data cleanup", &S);
      behav = O->behav; bseed = O->bseed; sibs = S.obs; udCb = S.plan && S.plan->udCallbacks;
      count("observer_fires");
    }
    vf::Rng r(bseed, 5);
    auto selfPos = std::find(sibs.begin(), sibs.end(), O) - sibs.begin();
    switch (behav)
    {
    case 1: tryUnobserve(O, "self_in_observer"); break;
    case 2: if (size_t(selfPos + 1) < sibs.size()) tryUnobserve(sibs[size_t(selfPos + 1)], "later_sibling_in_observer"); break;
    case 3: if (selfPos > 0) tryUnobserve(sibs[size_t(selfPos - 1)], "earlier_sibling_in_observer"); break;
    case 4: addObserver(O->sid, RC_OBSERVER, bseed + 9); break;
    case 5: if (udCb) setUserData(O->sid, RC_OBSERVER); break;
    case 6: if (spawnConnect && reconnectBudget.fetch_sub(1) > 0) { spawnConnect(true); countL("reconnect_from_observer"); } break;
    case 7: sleepMs(0.2 + double(r.below(1500)) / 1000.0); break;
    case 8: { uint64_t other = 0; { std::lock_guard<std::mutex> g(mu); for (auto &kv : sess) if (kv.second.ann && !kv.second.closes && r.chance(0.4)) { other = kv.first; break; } }
              if (other) { if (Transport *t = tp()) t->close(other); countL("app_close_of_other_session_from_observer"); } break; }
    default: break;
    }
    ioExit(false);
  }
  void onCleanup(UdRec *U, void *p)
  {
    uint64_t s = stamp();
    {
      std::lock_guard<std::mutex> g(mu);
      Sess &S = sess[U->sid];
      S.tr("ud!", s);
      U->fired++;
      if (U->fired == 1) U->fireSeq = s;
      if (p != U->data) viol(K("fanout:cleanup-wrong-data"), "cleanup invoked with a pointer other than the one registered with it", &S);
      if (tFan.h != this || tFan.sid != U->sid) viol(K("fanout:cleanup-outside-close"), "user-data cleanup invoked outside the close fan-out of its session", &S);
      if (S.closes == 0) viol(K("fanout:cleanup-before-global"), "user-data cleanup before the global close callback", &S);
      S.cleanupFires++;
      if (S.cleanupFires > 1) viol(K("fanout:cleanup-twice"), "more than one user-data cleanup in one session's close", &S);
      S.cleanupSeq = s;
      count("cleanup_fires");
    }
    ioExit(false);
  }

  void install()
  {
    auto g = std::make_shared<Gone>(); g->f = &implGone; // released when the transport destroys its callback storage
    T->onAccept([this, g](SessionId s, const TransportAddress &a) { onAccept(s, a); });
    T->onConnect([this, g](SessionId s, const TransportAddress &a) { onConnect(s, a); });
    T->onData([this, g](SessionId s, iora::core::BufferView d, std::chrono::steady_clock::time_point) { onData(s, d); });
    T->onClose([this, g](SessionId s, const TransportErrorInfo &w) { onClose(s, w); });
    T->onError([this, g](TransportError, const std::string &) { countL("on_error_callbacks"); });
    Traw = T.get();
  }

  // ---------------------------------------------------------------- post-hoc checks after an orderly stop()
  void finalizePhase(const char *phase, bool haveTransport = true)
  {
    TransportStats st; if (haveTransport) st = T->getStats();
    std::lock_guard<std::mutex> g(mu);
    uint64_t seenIds = 0, closedIds = 0, closedAnnounced = 0;
    for (auto &kv : sess)
    {
      Sess &S = kv.second;
      if (S.finalized) continue;
      S.finalized = true;
      if (!S.firstSeq && S.obs.empty() && S.uds.empty()) continue;
      seenIds++;
      bool duringStop = S.connRet && stopBeginSeq && S.connRetSeq > stopBeginSeq;
      if (S.closes == 0 && (S.connRet || S.ann != A_NONE))
      {
        std::string by = S.ann == A_ACCEPT ? "onAccept" : S.ann == A_CONNECT ? "onConnect" : "connect-return";
        std::string key = "missing-close:" + by + ":";
        if (duringStop) key += "issued-during-stop"; else { key += "running"; if (S.ann != A_ACCEPT) key += std::string(":") + targetName(S.target); }
        viol(K(key), "an id the application has seen got no close callback although the transport was stopped in an orderly way", &S,
             std::string("\"phase\":\"") + phase + "\",\"connect_from_io_thread\":" + (S.connFromIo ? "true" : "false"));
        if (duringStop) count("il_residual_connect_lost");
      }
      if (S.closes > 0)
      {
        closedIds++;
        if (S.ann != A_NONE) closedAnnounced++;
        if (S.ann == A_NONE && !S.connRet) viol(K("close-for-unannounced-id"), "close callback for an id never returned by connect() nor announced", &S);
        std::string cls = closeClass(S.closeCode, S.closeMsg);
        count("close_" + cls);
        if (S.planEnd >= 0) count("plan_" + std::to_string(S.planKind) + "_" + std::to_string(S.planEnd) + "__" + cls);
        sigParts.insert(std::to_string(S.planKind) + "/" + std::to_string(S.planEnd) + ":" + cls + (S.ann ? "" : "-unannounced"));
        if (S.ann == A_CONNECT && cls == "connect_timeout")
          viol(K("stale-timer-close:connect"), "session closed with reason 'Connect timeout' after its connect callback had been delivered (stale timer close not re-validated)", &S);
        if (S.ann == A_CONNECT && cls == "handshake_timeout")
          viol(K("stale-timer-close:handshake"), "outbound session closed with 'TLS handshake timeout' after its connect callback (handshake complete)", &S);
      }
      if (S.ann == A_CONNECT && !S.connRet) viol(K("announce-of-unallocated-id"), "connect callback for an id no connect() call returned", &S);
      checkObservers(S);
      checkUserData(S);
    }
    count("ids_seen", seenIds); count("ids_closed", closedIds);
    // gauge and counters after stop() (not available when the transport object itself is gone)
    if (!haveTransport) { count("final_checks"); count("final_checks_after_transport_destroyed"); return; }
    if (st.sessionsCurrent != 0)
      viol(K("gauge-nonzero-at-end:after-stop"), "getStats().sessionsCurrent is not 0 after stop() returned", nullptr,
           "\"gauge\":" + std::to_string(int64_t(st.sessionsCurrent)) + ",\"phase\":\"" + phase + "\"");
    if (st.accepted != nAccept)
      viol(K("stats:accepted-vs-callbacks"), "stats.accepted differs from the number of accept callbacks", nullptr,
           "\"accepted\":" + std::to_string(st.accepted) + ",\"callbacks\":" + std::to_string(nAccept));
    if (st.closed > nCloseCb)
      viol(K("stats:closed-exceeds-callbacks"), "stats.closed exceeds the number of close callbacks delivered", nullptr,
           "\"closed\":" + std::to_string(st.closed) + ",\"callbacks\":" + std::to_string(nCloseCb));
    count("final_checks");
  }
  void checkObservers(Sess &S) // mu held
  {
    std::vector<ObsRec *> fired;
    for (ObsRec *O : S.obs)
    {
      count("observers_checked");
      bool inOwnGlobal = O->ctx == RC_GLOBALCLOSE && O->regFanSid == S.id;
      bool definite = S.closes > 0 && ((O->regEnd && O->regEnd < S.closeSeq) || inOwnGlobal);
      if (O->fired > 1) viol(K("fanout:observer-twice"), "observer invoked more than once", &S, "\"fired\":" + std::to_string(O->fired));
      if (O->unobsTrue > 1) viol(K("fanout:unobserve-true-twice"), "unobserve() returned true twice for one observer", &S);
      if (O->unobsTrue > 0)
      {
        if (O->fired) viol(K("fanout:observer-after-unobserve"), "observer invoked although unobserve() had returned true for it", &S);
        count("observers_unobserved");
      }
      else if (definite)
      {
        if (O->fired == 0) viol(K("fanout:observer-missed"), std::string("observer registered before the close (") + (inOwnGlobal ? "inside the global close callback" : "earlier") + ") and still registered was not invoked", &S, "\"ctx\":" + std::to_string(O->ctx));
        count(inOwnGlobal ? "il_observer_registered_in_global_cb_fired" : "observers_definite_fired");
      }
      else if (O->unobsFalse > 0 && S.closes > 0 && O->fired == 0 && !(O->ctx == RC_OBSERVER || O->ctx == RC_CLEANUP))
        viol(K("fanout:observer-missed-after-unobserve-false"), "unobserve() returned false (already taken by the close) but the observer was never invoked", &S);
      else
      {
        count(O->fired ? "il_racy_or_late_observer_fired" : "il_racy_or_late_observer_not_fired");
      }
      if (O->fired && S.closes == 0) viol(K("fanout:observer-without-close"), "observer invoked for a session that never got the global close callback", &S);
      if (O->fired) fired.push_back(O);
    }
    for (ObsRec *A : fired)
      for (ObsRec *B : fired)
        if (A != B && A->regEnd && B->regStart && A->regEnd < B->regStart && A->fireSeq > B->fireSeq)
          viol(K("fanout:observer-order"), "observers invoked out of registration order", &S,
               "\"first_registered\":" + std::to_string(A->idx) + ",\"fired_at\":" + std::to_string(A->fireSeq) + ",\"later_registered\":" + std::to_string(B->idx) + ",\"later_fired_at\":" + std::to_string(B->fireSeq));
    if (fired.size() >= 2) count("fanouts_with_2plus_observers");
    for (ObsRec *A : fired)
      if (S.closeEndSeq && A->fireSeq < S.closeEndSeq)
        viol(K("fanout:observer-before-global-returned"), "observer invoked before the global close callback returned", &S);
  }
  void checkUserData(Sess &S) // mu held
  {
    if (S.uds.empty()) return;
    std::vector<UdRec *> D, R;
    for (UdRec *U : S.uds)
    {
      bool inFan = (U->ctx == RC_GLOBALCLOSE || U->ctx == RC_OBSERVER) && U->regFanSid == S.id;
      bool definite = S.closes > 0 && ((U->regEnd && U->regEnd < S.closeSeq) || inFan);
      (definite ? D : R).push_back(U);
      if (U->fired > 1) viol(K("fanout:cleanup-twice"), "one user-data cleanup invoked more than once", &S);
      if (U->fired && S.closes == 0) viol(K("fanout:cleanup-without-close"), "user-data cleanup invoked for a session that never got the global close callback", &S);
    }
    std::sort(D.begin(), D.end(), [](UdRec *a, UdRec *b) { return a->regEnd < b->regEnd; });
    int total = 0;
    for (UdRec *U : S.uds) total += U->fired ? 1 : 0;
    if (S.closes == 0) return;
    for (size_t i = 0; i + 1 < D.size(); i++)
      if (D[i]->fired) viol(K("fanout:cleanup-of-replaced-data"), "cleanup of user data that had been replaced before the close", &S);
    if (R.empty())
    {
      if (!D.empty())
      {
        UdRec *cur = D.back();
        if (cur->fired == 0) viol(K("fanout:cleanup-missed"), "user data registered before the close was not cleaned up", &S, "\"ctx\":" + std::to_string(cur->ctx));
        count(cur->ctx == RC_GLOBALCLOSE || cur->ctx == RC_OBSERVER ? "il_userdata_set_in_fanout_cleaned" : "userdata_definite_cleaned");
      }
    }
    else
    {
      if (total > 1) viol(K("fanout:cleanup-twice"), "more than one user-data cleanup for one session", &S);
      count(total ? "il_racy_userdata_cleaned" : "il_racy_userdata_not_cleaned");
    }
    // cleanup is last: after every observer of this fan-out
    if (S.cleanupSeq)
      for (ObsRec *O : S.obs)
        if (O->fired && O->fireSeq > S.cleanupSeq) viol(K("fanout:cleanup-before-observer"), "user-data cleanup ran before an observer of the same close", &S);
    if (S.cleanupSeq && S.closeEndSeq && S.cleanupSeq < S.closeEndSeq)
      viol(K("fanout:cleanup-before-global-returned"), "user-data cleanup ran before the global close callback returned", &S);
  }
};

} // namespace c02
