// /verif/harness/c17_httpclient.cpp — C17: HttpClient retry / at-most-once / eviction / timeouts.
//
// One process runs a batch of cases read from --cases FILE (line format, written by
// lib/props/c17.py). Per case: a scripted raw-socket server (the observer) on a kernel-chosen
// loopback port, one real iora::network::HttpClient, 1..8 caller threads issuing logical
// requests (unique token in path, header and body). The server logs every received byte with a
// timestamp, executes the fault program scripted for (request, attempt) and logs what it did.
// Client-side wire facts are logged at the libc boundary by interposers defined here
// (connect(), send(), nanosleep() — the retry back-off), and the API level logs
// {call, return | exception type + text, elapsed}. NOTHING is judged here: the process only
// drives iora and reports observations; lib/props/c17.py applies the rules.
//
// The driver never looks at HttpClient internals. Methods without a public entry point
// (PUT, PATCH, OPTIONS, lower-case / extension tokens) are issued through the private
// performRequest(), reached with the explicit-instantiation idiom (no -fno-access-control).
#include "vf.hpp"

#include <iora/network/http_client.hpp>

#include <arpa/inet.h>
#include <fcntl.h>
#include <netinet/in.h>
#include <netinet/tcp.h>
#include <poll.h>
#include <sys/epoll.h>
#include <sys/eventfd.h>
#include <sys/ioctl.h>
#include <sys/socket.h>

#include <condition_variable>
#include <fstream>
#include <memory>

using iora::network::HttpClient;
using iora::network::HttpFramingError;
using iora::network::HttpRequestNotSentError;

// ------------------------------------------------------------------ private-member access
namespace rob
{
using PerformFn = HttpClient::Response (HttpClient::*)(const std::string &, const std::string &,
                                                       const std::string &,
                                                       const std::map<std::string, std::string> &, int);
PerformFn g_perform = nullptr;
template <PerformFn P> struct Steal
{
  struct Init { Init() { g_perform = P; } };
  static Init init;
};
template <PerformFn P> typename Steal<P>::Init Steal<P>::init;
template struct Steal<&HttpClient::performRequest>; // explicit instantiation may name a private member
} // namespace rob

// ------------------------------------------------------------------ raw syscalls (never interposed)
namespace raw
{
inline ssize_t send(int fd, const void *b, size_t n, int fl) { return syscall(SYS_sendto, fd, b, n, fl, nullptr, 0); }
inline ssize_t recv(int fd, void *b, size_t n, int fl) { return syscall(SYS_recvfrom, fd, b, n, fl, nullptr, nullptr); }
inline int connect(int fd, const sockaddr *a, socklen_t l) { return (int)syscall(SYS_connect, fd, a, l); }
} // namespace raw

// ------------------------------------------------------------------ case specification
struct Step { std::string op; long n = 0; std::string data; };
struct Action { std::string label; std::vector<Step> steps; };
struct ReqSpec
{
  int idx = 0, th = 0, budget = 0, refuse = 0, blackhole = 0, gapMs = 0, srv = 0, preMs = 0;
  size_t bodyLen = 0;
  std::string method, token, via = "auto";
  std::vector<Action> acts;
};
struct CaseSpec
{
  std::string id;
  int rtMs = 3000, ctMs = 1000, threads = 1, holdMs = 3000, rcvbuf = 0, sleepDiv = 10, capBytes = 0, wdMs = 90000;
  int nsrv = 1, leaseMs = 0;
  bool keepAlive = true, identToken = false;
  std::vector<ReqSpec> reqs;
};

static std::map<std::string, std::string> kvs(const std::string &line, std::string &head)
{
  std::map<std::string, std::string> m;
  std::istringstream is(line);
  is >> head;
  std::string tok;
  while (is >> tok)
  {
    auto eq = tok.find('=');
    if (eq == std::string::npos) m[tok] = "";
    else m[tok.substr(0, eq)] = tok.substr(eq + 1);
  }
  return m;
}
static long geti(const std::map<std::string, std::string> &m, const char *k, long d)
{
  auto it = m.find(k);
  return it == m.end() ? d : strtol(it->second.c_str(), nullptr, 10);
}
static std::string gets_(const std::map<std::string, std::string> &m, const char *k, const std::string &d = "")
{
  auto it = m.find(k);
  return it == m.end() ? d : it->second;
}
static std::vector<Step> parseSteps(const std::string &s)
{
  std::vector<Step> v;
  size_t p = 0;
  while (p <= s.size())
  {
    size_t e = s.find(';', p);
    if (e == std::string::npos) e = s.size();
    std::string one = s.substr(p, e - p);
    if (!one.empty())
    {
      Step st;
      auto c = one.find(':');
      st.op = one.substr(0, c);
      if (c != std::string::npos)
      {
        std::string arg = one.substr(c + 1);
        if (st.op == "send") st.data = vf::unhex(arg);
        else if (st.op == "taint") st.data = arg;
        else st.n = strtol(arg.c_str(), nullptr, 10);
      }
      v.push_back(std::move(st));
    }
    p = e + 1;
  }
  return v;
}
static std::vector<CaseSpec> parseCases(const std::string &path)
{
  std::vector<CaseSpec> out;
  std::ifstream in(path);
  std::string line;
  CaseSpec cur;
  bool open = false;
  while (std::getline(in, line))
  {
    if (line.empty() || line[0] == '#') continue;
    std::string head;
    auto m = kvs(line, head);
    if (head == "case")
    {
      cur = CaseSpec{};
      open = true;
      cur.id = gets_(m, "id");
      cur.rtMs = (int)geti(m, "rt", 3000);
      cur.ctMs = (int)geti(m, "ct", 1000);
      cur.keepAlive = geti(m, "ka", 1) != 0;
      cur.threads = (int)geti(m, "th", 1);
      cur.identToken = gets_(m, "ident", "cur") == "token";
      cur.holdMs = (int)geti(m, "hold", 3000);
      cur.rcvbuf = (int)geti(m, "rcvbuf", 0);
      cur.sleepDiv = (int)geti(m, "sdiv", 10);
      cur.capBytes = (int)geti(m, "cap", 0);
      cur.wdMs = (int)geti(m, "wd", 90000);
      cur.nsrv = std::max(1, (int)geti(m, "nsrv", 1));
      cur.leaseMs = (int)geti(m, "lease", 0);
    }
    else if (head == "req" && open)
    {
      ReqSpec r;
      r.idx = (int)geti(m, "i", 0);
      r.th = (int)geti(m, "th", 0);
      r.method = gets_(m, "m", "GET");
      r.budget = (int)geti(m, "b", 0);
      r.token = gets_(m, "tok");
      r.bodyLen = (size_t)geti(m, "body", 0);
      r.refuse = (int)geti(m, "refuse", 0);
      r.blackhole = (int)geti(m, "blackhole", 0);
      r.gapMs = (int)geti(m, "gap", 0);
      r.srv = (int)geti(m, "srv", 0);
      r.preMs = (int)geti(m, "pre", 0);
      r.via = gets_(m, "via", "auto");
      if ((int)cur.reqs.size() <= r.idx) cur.reqs.resize(r.idx + 1);
      cur.reqs[r.idx] = r;
    }
    else if (head == "act" && open)
    {
      int i = (int)geti(m, "i", 0), a = (int)geti(m, "a", 0);
      if (i < 0 || i >= (int)cur.reqs.size()) continue;
      auto &acts = cur.reqs[i].acts;
      if ((int)acts.size() <= a) acts.resize(a + 1);
      acts[a].label = gets_(m, "label", "?");
      acts[a].steps = parseSteps(gets_(m, "steps"));
    }
    else if (head == "end" && open)
    {
      out.push_back(cur);
      open = false;
    }
  }
  return out;
}

// ------------------------------------------------------------------ per-case shared state
struct Server;
struct Case
{
  const CaseSpec &spec;
  uint64_t t0;
  std::mutex logM;
  std::vector<std::string> ev;
  std::atomic<int> curReq{-1};
  int port = 0;                 // port of server 0
  std::vector<int> ports;       // one per scripted server (distinct host:port values)
  std::vector<Server *> servers;
  std::atomic<int> nextCid{0};  // connection ids are unique across the servers of a case
  static const int MAXFD = 4096;
  std::atomic<uint32_t> fdLport[MAXFD]; // local port | destination port << 16, 0 = not one of ours
  int serverIndexOfPort(int p) const
  {
    for (size_t i = 0; i < ports.size(); i++) if (ports[i] == p && p != 0) return (int)i;
    return -1;
  }
  static std::string lpdp(uint32_t k) { return "\"lp\":" + std::to_string(k & 0xffff) + ",\"dp\":" + std::to_string(k >> 16); }
  explicit Case(const CaseSpec &s) : spec(s), t0(vf::nowNs())
  {
    for (auto &x : fdLport) x.store(0);
  }
  void log(const std::string &body)
  {
    uint64_t us = (vf::nowNs() - t0) / 1000;
    std::lock_guard<std::mutex> g(logM);
    ev.push_back("{\"ts\":" + std::to_string(us) + "," + body + "}");
  }
};
static std::atomic<Case *> g_case{nullptr};
static thread_local int t_callerReq = -1; // >=0 while a caller thread is inside an HttpClient call
static thread_local int t_callerTh = -1;
static thread_local bool t_pollMark = false; // this thread logged a c_recv since it last entered epoll_wait

// ------------------------------------------------------------------ scripted server (observer)
struct Server
{
  Case &cs;
  int placeholderFd = -1, listenFd = -1, wakeFd = -1;
  std::mutex m;
  std::condition_variable cv;
  int desiredMode = 1, actualMode = -1; // 0 refuse (no listener), 1 listening, 2 black hole
  std::atomic<bool> stop{false};
  std::thread acceptTh;
  std::mutex connM;
  std::vector<std::thread> connThreads;
  std::vector<int> fillerFds;
  std::set<int> fillerPorts;
  std::vector<int> arrivals; // per request index
  std::vector<int> connects; // per request index (sequential mode)
  int sidx = 0, port = 0;

  Server(Case &c, int idx) : cs(c), arrivals(c.spec.reqs.size(), 0), connects(c.spec.reqs.size(), 0), sidx(idx) {}

  static void setOpts(int fd)
  {
    int one = 1;
    setsockopt(fd, SOL_SOCKET, SO_REUSEADDR, &one, sizeof one);
    setsockopt(fd, SOL_SOCKET, SO_REUSEPORT, &one, sizeof one);
  }
  bool start()
  {
    // The placeholder keeps the kernel-chosen port reserved while no listener is open
    // (refuse phases): a bound, non-listening socket answers SYNs with RST.
    placeholderFd = socket(AF_INET, SOCK_STREAM | SOCK_CLOEXEC, 0);
    if (placeholderFd < 0) return false;
    setOpts(placeholderFd);
    sockaddr_in a{};
    a.sin_family = AF_INET;
    a.sin_addr.s_addr = htonl(INADDR_LOOPBACK);
    a.sin_port = 0;
    if (bind(placeholderFd, (sockaddr *)&a, sizeof a) < 0) return false;
    socklen_t al = sizeof a;
    getsockname(placeholderFd, (sockaddr *)&a, &al);
    port = ntohs(a.sin_port);
    cs.ports[sidx] = port;
    if (sidx == 0) cs.port = port;
    wakeFd = eventfd(0, EFD_NONBLOCK | EFD_CLOEXEC);
    acceptTh = std::thread([this] { acceptLoop(); });
    setMode(1);
    return actualMode == 1;
  }
  bool openListener()
  {
    listenFd = socket(AF_INET, SOCK_STREAM | SOCK_CLOEXEC | SOCK_NONBLOCK, 0);
    if (listenFd < 0) return false;
    setOpts(listenFd);
    if (cs.spec.rcvbuf > 0)
    {
      int v = cs.spec.rcvbuf;
      setsockopt(listenFd, SOL_SOCKET, SO_RCVBUF, &v, sizeof v);
    }
    sockaddr_in a{};
    a.sin_family = AF_INET;
    a.sin_addr.s_addr = htonl(INADDR_LOOPBACK);
    a.sin_port = htons((uint16_t)port);
    if (bind(listenFd, (sockaddr *)&a, sizeof a) < 0 || listen(listenFd, 128) < 0)
    {
      cs.log("\"e\":\"srv_error\",\"what\":\"listen failed\",\"errno\":" + std::to_string(errno));
      ::close(listenFd);
      listenFd = -1;
      return false;
    }
    return true;
  }
  void closeFillers()
  {
    for (int f : fillerFds) ::close(f);
    fillerFds.clear();
  }
  void applyMode(int mode) // accept thread only
  {
    if (mode == actualMode) return;
    if (mode == 0)
    {
      closeFillers();
      if (listenFd >= 0) { ::close(listenFd); listenFd = -1; }
    }
    else if (mode == 1)
    {
      closeFillers();
      if (listenFd < 0) openListener();
      else listen(listenFd, 128);
    }
    else if (mode == 2)
    {
      if (listenFd < 0) openListener();
      if (listenFd >= 0)
      {
        // drain anything pending, then shrink the accept queue and fill it
        for (;;)
        {
          int c = accept4(listenFd, nullptr, nullptr, SOCK_CLOEXEC);
          if (c < 0) break;
          ::close(c);
        }
        listen(listenFd, 0);
        for (int i = 0; i < 3; i++)
        {
          int f = socket(AF_INET, SOCK_STREAM | SOCK_CLOEXEC | SOCK_NONBLOCK, 0);
          sockaddr_in a{};
          a.sin_family = AF_INET;
          a.sin_addr.s_addr = htonl(INADDR_LOOPBACK);
          a.sin_port = htons((uint16_t)port);
          raw::connect(f, (sockaddr *)&a, sizeof a);
          sockaddr_in l{};
          socklen_t ll = sizeof l;
          getsockname(f, (sockaddr *)&l, &ll);
          fillerPorts.insert(ntohs(l.sin_port));
          fillerFds.push_back(f);
        }
      }
    }
    actualMode = mode;
    cs.log("\"e\":\"listen\",\"s\":" + std::to_string(sidx) + ",\"mode\":" + std::to_string(mode));
  }
  void setMode(int mode) // any thread; blocks until the accept thread applied it
  {
    std::unique_lock<std::mutex> lk(m);
    if (actualMode == mode && desiredMode == mode) return;
    desiredMode = mode;
    uint64_t one = 1;
    (void)!::write(wakeFd, &one, sizeof one);
    cv.wait_for(lk, std::chrono::seconds(20), [&] { return actualMode == mode || stop.load(); });
  }
  // called by the connect() interposer on the client's I/O thread, before the real syscall
  void onClientConnectAttempt()
  {
    if (cs.spec.identToken) return;
    int r = cs.curReq.load();
    if (r < 0 || r >= (int)cs.spec.reqs.size()) return;
    const ReqSpec &rq = cs.spec.reqs[r];
    int c;
    {
      std::lock_guard<std::mutex> g(connM);
      c = connects[r]++;
    }
    int mode = c < rq.refuse ? 0 : (c < rq.refuse + rq.blackhole ? 2 : 1);
    setMode(mode);
  }
  void acceptLoop()
  {
    while (!stop.load())
    {
      {
        std::lock_guard<std::mutex> lk(m);
        if (desiredMode != actualMode)
        {
          applyMode(desiredMode);
          cv.notify_all();
        }
      }
      pollfd p[2];
      int n = 0;
      p[n].fd = wakeFd; p[n].events = POLLIN; p[n].revents = 0; n++;
      if (listenFd >= 0 && actualMode == 1) { p[n].fd = listenFd; p[n].events = POLLIN; p[n].revents = 0; n++; }
      poll(p, n, 20);
      if (p[0].revents & POLLIN)
      {
        uint64_t v;
        while (::read(wakeFd, &v, sizeof v) > 0) {}
      }
      if (n == 2 && (p[1].revents & POLLIN))
      {
        for (;;)
        {
          sockaddr_in pa{};
          socklen_t pl = sizeof pa;
          int c = accept4(listenFd, (sockaddr *)&pa, &pl, SOCK_CLOEXEC);
          if (c < 0) break;
          int pp = ntohs(pa.sin_port);
          if (fillerPorts.count(pp)) { ::close(c); continue; }
          int cid;
          int cur = cs.curReq.load();
          {
            std::lock_guard<std::mutex> g(connM);
            cid = cs.nextCid++;
            cs.log("\"e\":\"accept\",\"c\":" + std::to_string(cid) + ",\"s\":" + std::to_string(sidx) + ",\"sp\":" + std::to_string(port) + ",\"pp\":" + std::to_string(pp) +
                   ",\"cur\":" + std::to_string(cur));
            connThreads.emplace_back([this, c, cid, cur] { connLoop(c, cid, cur); });
          }
        }
      }
    }
    std::lock_guard<std::mutex> lk(m);
    closeFillers();
    if (listenFd >= 0) { ::close(listenFd); listenFd = -1; }
    actualMode = -2;
    cv.notify_all();
  }
  void shutdown()
  {
    stop.store(true);
    uint64_t one = 1;
    (void)!::write(wakeFd, &one, sizeof one);
    cv.notify_all();
    if (acceptTh.joinable()) acceptTh.join();
    std::vector<std::thread> ths;
    {
      std::lock_guard<std::mutex> g(connM);
      ths.swap(connThreads);
    }
    for (auto &t : ths) if (t.joinable()) t.join();
    if (placeholderFd >= 0) ::close(placeholderFd);
    if (wakeFd >= 0) ::close(wakeFd);
  }

  // ---- per connection
  struct ConnState
  {
    int fd, cid;
    std::string inbuf;   // bytes consumed for the current request
    size_t rxTotal = 0;  // bytes received so far (content is logged only for the first 16 KiB)
    bool dead = false;   // fd closed by us
    bool peerEof = false;
  };
  std::string C(const ConnState &c) { return "\"c\":" + std::to_string(c.cid); }

  // wait until readable; returns 1 readable, 0 stop/deadline, -1 error
  int waitReadable(ConnState &c, uint64_t deadlineNs)
  {
    for (;;)
    {
      if (stop.load()) return 0;
      if (deadlineNs && vf::nowNs() >= deadlineNs) return 0;
      pollfd p{c.fd, POLLIN, 0};
      int r = poll(&p, 1, 10);
      if (r > 0) return 1;
      if (r < 0 && errno != EINTR) return -1;
    }
  }
  // one recv of at most `maxn` bytes into inbuf (logged). returns n>0, 0 on EOF, -1 on error, -2 on stop/deadline
  long recvSome(ConnState &c, size_t maxn, uint64_t deadlineNs, bool intoBuf = true)
  {
    int w = waitReadable(c, deadlineNs);
    if (w == 0) return -2;
    static thread_local std::vector<char> buf(65536);
    size_t want = std::min(maxn, buf.size());
    ssize_t n = raw::recv(c.fd, buf.data(), want, MSG_DONTWAIT);
    if (n > 0)
    {
      size_t keep = c.rxTotal < 16384 ? std::min<size_t>((size_t)n, 1024) : 0;
      c.rxTotal += (size_t)n;
      cs.log("\"e\":\"rx\"," + C(c) + ",\"len\":" + std::to_string(n) + ",\"d\":\"" + vf::hex(buf.data(), keep) + "\"");
      if (intoBuf) c.inbuf.append(buf.data(), (size_t)n);
      return n;
    }
    if (n == 0)
    {
      c.peerEof = true;
      cs.log("\"e\":\"eof\"," + C(c));
      return 0;
    }
    if (errno == EAGAIN || errno == EWOULDBLOCK || errno == EINTR) return recvSome(c, maxn, deadlineNs, intoBuf);
    cs.log("\"e\":\"rxerr\"," + C(c) + ",\"errno\":" + std::to_string(errno));
    return -1;
  }
  // total length of the request at the head of inbuf if its header block is complete, else 0
  static size_t framedLen(const std::string &b)
  {
    size_t he = b.find("\r\n\r\n");
    if (he == std::string::npos) return 0;
    size_t cl = 0;
    std::string lower;
    lower.reserve(he);
    for (size_t i = 0; i < he; i++) lower += (char)tolower((unsigned char)b[i]);
    size_t p = lower.find("\r\ncontent-length:");
    if (p != std::string::npos) cl = strtoull(b.c_str() + p + 17, nullptr, 10);
    return he + 4 + cl;
  }
  static std::string tokenOf(const std::string &b)
  {
    size_t p = b.find("/t/");
    if (p == std::string::npos) return "";
    size_t e = p + 3;
    while (e < b.size() && isalnum((unsigned char)b[e])) e++;
    if (e >= b.size()) return ""; // token may be cut
    return b.substr(p + 3, e - (p + 3));
  }
  void closeConn(ConnState &c, const char *how)
  {
    if (c.dead) return;
    if (std::string(how) == "rst")
    {
      int unread = 0;
      ioctl(c.fd, FIONREAD, &unread);
      linger lg{1, 0};
      setsockopt(c.fd, SOL_SOCKET, SO_LINGER, &lg, sizeof lg);
      cs.log("\"e\":\"rst\"," + C(c) + ",\"unread\":" + std::to_string(unread));
    }
    else
    {
      int unread = 0;
      ioctl(c.fd, FIONREAD, &unread);
      cs.log("\"e\":\"close\"," + C(c) + ",\"how\":\"" + how + "\",\"unread\":" + std::to_string(unread));
    }
    ::close(c.fd);
    c.dead = true;
  }
  // read and log everything until EOF / error / stop / limit; never answers
  void observe(ConnState &c, const char *tag)
  {
    uint64_t deadline = vf::nowNs() + uint64_t(cs.spec.holdMs) * 1000000ull;
    const char *why = "limit";
    for (;;)
    {
      long n = recvSome(c, 65536, deadline, false);
      if (n > 0) continue;
      if (n == 0) { why = "eof"; break; }
      if (n == -1) { why = "err"; break; }
      why = stop.load() ? "stop" : "limit";
      break;
    }
    cs.log("\"e\":\"hold_end\"," + C(c) + ",\"why\":\"" + why + "\",\"tag\":\"" + tag + "\"");
    closeConn(c, "after-observe");
  }
  bool sendAll(ConnState &c, const std::string &d)
  {
    size_t off = 0;
    while (off < d.size())
    {
      ssize_t n = raw::send(c.fd, d.data() + off, d.size() - off, MSG_NOSIGNAL | MSG_DONTWAIT);
      if (n > 0) { off += (size_t)n; continue; }
      if (n < 0 && (errno == EAGAIN || errno == EWOULDBLOCK || errno == EINTR))
      {
        if (stop.load()) break;
        pollfd p{c.fd, POLLOUT, 0};
        poll(&p, 1, 10);
        continue;
      }
      cs.log("\"e\":\"txerr\"," + C(c) + ",\"errno\":" + std::to_string(errno) + ",\"sent\":" + std::to_string(off));
      return false;
    }
    cs.log("\"e\":\"tx\"," + C(c) + ",\"len\":" + std::to_string(off) + ",\"want\":" + std::to_string(d.size()));
    return off == d.size();
  }

  void connLoop(int fd, int cid, int curAtAccept)
  {
    ConnState c{fd, cid};
    int nOnConn = 0;
    {
      int one = 1;
      setsockopt(fd, IPPROTO_TCP, TCP_NODELAY, &one, sizeof one);
    }
    while (!stop.load() && !c.dead)
    {
      // ---- arrival: identify (request, attempt)
      int ridx = -1;
      if (!cs.spec.identToken)
      {
        if (nOnConn == 0) ridx = curAtAccept;
        else
        {
          if (c.inbuf.empty())
          {
            int w = waitReadable(c, 0);
            if (w <= 0) break;
            // peek for EOF so an idle close by the client is logged as such
            char ch;
            ssize_t pk = raw::recv(c.fd, &ch, 1, MSG_PEEK | MSG_DONTWAIT);
            if (pk == 0) { cs.log("\"e\":\"eof\"," + C(c)); c.peerEof = true; break; }
            if (pk < 0 && !(errno == EAGAIN || errno == EWOULDBLOCK)) { cs.log("\"e\":\"rxerr\"," + C(c) + ",\"errno\":" + std::to_string(errno)); break; }
          }
          ridx = cs.curReq.load();
        }
      }
      else
      {
        bool fail = false;
        while (tokenOf(c.inbuf).empty())
        {
          long n = recvSome(c, 4096, 0);
          if (n <= 0) { fail = true; break; }
          if (c.inbuf.size() > 8192) break;
        }
        if (fail) break;
        std::string tok = tokenOf(c.inbuf);
        for (auto &r : cs.spec.reqs) if (r.token == tok) ridx = r.idx;
      }
      int att = 0;
      const Action *act = nullptr;
      static const Action fallback{"unscripted", {Step{"readfull", 0, ""}, Step{"taint", 0, "unscripted"}, Step{"observe", 0, ""}}};
      if (ridx >= 0 && ridx < (int)cs.spec.reqs.size())
      {
        std::lock_guard<std::mutex> g(connM);
        att = arrivals[ridx]++;
        auto &acts = cs.spec.reqs[ridx].acts;
        if (!acts.empty()) act = &acts[std::min<size_t>(att, acts.size() - 1)];
      }
      if (!act) act = &fallback;
      cs.log("\"e\":\"arr\"," + C(c) + ",\"n\":" + std::to_string(nOnConn) + ",\"req\":" + std::to_string(ridx) +
             ",\"att\":" + std::to_string(att) + ",\"label\":" + vf::jstr(act->label));
      nOnConn++;

      // ---- execute the program
      bool ended = false, doneSeen = false;
      for (const Step &st : act->steps)
      {
        if (c.dead || stop.load()) { ended = true; break; }
        if (st.op == "readn")
        {
          bool bad = false;
          while ((long)c.inbuf.size() < st.n)
          {
            long n = recvSome(c, (size_t)(st.n - (long)c.inbuf.size()), 0);
            if (n <= 0) { bad = true; break; }
          }
          if (bad) { closeConn(c, "read-ended"); ended = true; break; }
        }
        else if (st.op == "readfull")
        {
          bool bad = false;
          for (;;)
          {
            size_t fl = framedLen(c.inbuf);
            if (fl && c.inbuf.size() >= fl) break;
            long n = recvSome(c, fl ? fl - c.inbuf.size() : 65536, 0);
            if (n <= 0) { bad = true; break; }
          }
          if (bad) { closeConn(c, "read-ended"); ended = true; break; }
        }
        else if (st.op == "peekfull")
        {
          // wait (without consuming) until the kernel buffer holds the whole request, max n ms
          uint64_t dl = vf::nowNs() + uint64_t(st.n > 0 ? st.n : 500) * 1000000ull;
          std::vector<char> pb(65536);
          while (vf::nowNs() < dl && !stop.load())
          {
            ssize_t n = raw::recv(c.fd, pb.data(), pb.size(), MSG_PEEK | MSG_DONTWAIT);
            if (n == 0) break;
            if (n > 0)
            {
              std::string all = c.inbuf + std::string(pb.data(), (size_t)n);
              size_t fl = framedLen(all);
              if (fl && all.size() >= fl) break;
            }
            vf::sleepMs(1);
          }
        }
        else if (st.op == "send") { if (!st.data.empty()) sendAll(c, st.data); }
        else if (st.op == "sleep")
        {
          uint64_t dl = vf::nowNs() + uint64_t(st.n) * 1000000ull;
          while (vf::nowNs() < dl && !stop.load()) vf::sleepMs(std::min<double>(5.0, double(dl - vf::nowNs()) / 1e6 + 0.01));
        }
        else if (st.op == "taint") cs.log("\"e\":\"taint\"," + C(c) + ",\"k\":" + vf::jstr(st.data));
        else if (st.op == "done")
        {
          // exchange complete from the server's point of view: drop the served request
          size_t fl = framedLen(c.inbuf);
          if (fl && c.inbuf.size() >= fl) c.inbuf.erase(0, fl);
          else c.inbuf.clear();
          doneSeen = true;
          cs.log("\"e\":\"done\"," + C(c));
        }
        else if (st.op == "fin")
        {
          ::shutdown(c.fd, SHUT_WR);
          cs.log("\"e\":\"fin\"," + C(c));
        }
        else if (st.op == "rst") { closeConn(c, "rst"); ended = true; break; }
        else if (st.op == "close") { closeConn(c, "close"); ended = true; break; }
        else if (st.op == "observe") { observe(c, act->label.c_str()); ended = true; break; }
      }
      if (ended) break;
      if (!doneSeen)
      {
        size_t fl = framedLen(c.inbuf);
        if (fl && c.inbuf.size() >= fl) c.inbuf.erase(0, fl);
        else c.inbuf.clear();
      }
    }
    if (!c.dead) closeConn(c, c.peerEof ? "after-eof" : "stop");
  }
};

// ------------------------------------------------------------------ interposers (client-side wire facts)
extern "C" int connect(int fd, const struct sockaddr *addr, socklen_t len)
{
  Case *cs = g_case.load();
  int dport = 0;
  if (addr && addr->sa_family == AF_INET) dport = ntohs(((const sockaddr_in *)addr)->sin_port);
  int sidx = cs ? cs->serverIndexOfPort(dport) : -1;
  bool ours = sidx >= 0;
  if (cs && fd >= 0 && fd < Case::MAXFD) cs->fdLport[fd].store(0);
  int cur = -1;
  if (ours)
  {
    cur = cs->curReq.load();
    if (cs->servers.size() == 1 && cs->servers[0]) cs->servers[0]->onClientConnectAttempt();
  }
  int rc = (int)syscall(SYS_connect, fd, addr, len);
  int e = errno;
  if (ours)
  {
    sockaddr_in l{};
    socklen_t ll = sizeof l;
    int lp = 0;
    if (getsockname(fd, (sockaddr *)&l, &ll) == 0) lp = ntohs(l.sin_port);
    if (fd >= 0 && fd < Case::MAXFD) cs->fdLport[fd].store(uint32_t(lp) | (uint32_t(dport) << 16));
    cs->log("\"e\":\"c_connect\",\"fd\":" + std::to_string(fd) + ",\"lp\":" + std::to_string(lp) + ",\"dp\":" + std::to_string(dport) + ",\"rc\":" +
            std::to_string(rc) + ",\"errno\":" + std::to_string(rc == 0 ? 0 : e) + ",\"cur\":" + std::to_string(cur));
  }
  errno = e;
  return rc;
}

extern "C" ssize_t send(int fd, const void *buf, size_t n, int flags)
{
  ssize_t r = syscall(SYS_sendto, fd, buf, n, flags, nullptr, 0);
  int e = errno;
  Case *cs = g_case.load();
  if (cs && fd >= 0 && fd < Case::MAXFD)
  {
    uint32_t lp = cs->fdLport[fd].load();
    if (lp)
    {
      size_t keep = r > 0 ? std::min<size_t>((size_t)r, n > 65536 ? 600 : 1024) : 0;
      cs->log("\"e\":\"c_send\",\"fd\":" + std::to_string(fd) + "," + Case::lpdp(lp) + ",\"len\":" +
              std::to_string((long)r) + ",\"want\":" + std::to_string(n) + ",\"errno\":" + std::to_string(r < 0 ? e : 0) +
              ",\"d\":\"" + vf::hex(buf, keep) + "\"");
    }
  }
  errno = e;
  return r;
}

extern "C" ssize_t recv(int fd, void *buf, size_t n, int flags)
{
  ssize_t r = syscall(SYS_recvfrom, fd, buf, n, flags, nullptr, nullptr);
  int e = errno;
  Case *cs = g_case.load();
  if (cs && fd >= 0 && fd < Case::MAXFD && !(r < 0 && (e == EAGAIN || e == EWOULDBLOCK)))
  {
    uint32_t lp = cs->fdLport[fd].load();
    if (lp)
    {
      cs->log("\"e\":\"c_recv\",\"fd\":" + std::to_string(fd) + "," + Case::lpdp(lp) + ",\"len\":" +
              std::to_string((long)r) + ",\"errno\":" + std::to_string(r < 0 ? e : 0));
      t_pollMark = true;
    }
  }
  errno = e;
  return r;
}

// The client's I/O thread going back to epoll_wait after a recv() marks "everything read so far has
// been processed" (callbacks ran, buffers updated): a purely logical ordering point for the checker.
extern "C" int epoll_wait(int epfd, struct epoll_event *evs, int maxevents, int timeout)
{
  if (t_pollMark)
  {
    t_pollMark = false;
    Case *cs = g_case.load();
    if (cs) cs->log("\"e\":\"c_poll\"");
  }
  return (int)syscall(SYS_epoll_wait, epfd, evs, maxevents, timeout);
}

extern "C" int close(int fd)
{
  Case *cs = g_case.load();
  if (cs && fd >= 0 && fd < Case::MAXFD)
  {
    uint32_t lp = cs->fdLport[fd].exchange(0);
    if (lp) cs->log("\"e\":\"c_close\",\"fd\":" + std::to_string(fd) + "," + Case::lpdp(lp));
  }
  return (int)syscall(SYS_close, fd);
}

// The retry back-off (std::this_thread::sleep_for on the caller thread) is counted and shortened;
// nothing else ever sleeps on a caller thread inside an HttpClient call.
extern "C" int nanosleep(const struct timespec *req, struct timespec *rem)
{
  Case *cs = g_case.load();
  if (cs && t_callerReq >= 0 && req)
  {
    // every sleep of a caller thread inside an HttpClient call is the retry back-off: logged always (a logical event:
    // "a back-off of req_ms was requested before the next attempt"), shortened by sdiv; sdiv >= 1000 makes it virtual
    // (large retry budgets ask for minutes to days of back-off). A non-positive duration never gets here: sleep_for
    // returns without calling nanosleep, which the checker sees as a retry that was not preceded by a back-off.
    double ms = double(req->tv_sec) * 1000.0 + double(req->tv_nsec) / 1e6;
    int div = cs->spec.sleepDiv > 0 ? cs->spec.sleepDiv : 1;
    double act = (ms >= 50.0 || div >= 1000) ? ms / div : ms;
    uint64_t a = vf::nowNs();
    if (act > 0.0005) vf::sleepMs(act);
    double real = double(vf::nowNs() - a) / 1e6;
    char b[200];
    snprintf(b, sizeof b, "\"e\":\"c_sleep\",\"r\":%d,\"th\":%d,\"req_ms\":%.1f,\"act_ms\":%.3f", t_callerReq, t_callerTh, ms, real);
    cs->log(b);
    if (rem) { rem->tv_sec = 0; rem->tv_nsec = 0; }
    return 0;
  }
  return (int)syscall(SYS_nanosleep, req, rem);
}

// ------------------------------------------------------------------ client driver
static std::string makeBody(const ReqSpec &r)
{
  if (r.bodyLen == 0) return "";
  std::string b = "B:" + r.token + ":";
  if (b.size() < r.bodyLen) b.append(r.bodyLen - b.size(), 'x');
  return b;
}

static void issue(Case &cs, HttpClient &client, const ReqSpec &r, int th)
{
  int sidx = (r.srv >= 0 && r.srv < (int)cs.ports.size()) ? r.srv : 0;
  if (r.preMs > 0) vf::sleepMs(r.preMs);
  std::string url = "http://127.0.0.1:" + std::to_string(cs.ports[sidx]) + "/t/" + r.token + "?c=" + cs.spec.id;
  std::string body = makeBody(r);
  std::map<std::string, std::string> hdr{{"X-Tok", r.token}};
  bool pub = r.via != "priv" &&
             ((r.method == "GET" && body.empty()) || (r.method == "HEAD" && body.empty()) ||
              (r.method == "DELETE" && body.empty()) || r.method == "POST");
  cs.log("\"e\":\"call\",\"r\":" + std::to_string(r.idx) + ",\"th\":" + std::to_string(th) + ",\"m\":" + vf::jstr(r.method) +
         ",\"b\":" + std::to_string(r.budget) + ",\"srv\":" + std::to_string(sidx) + ",\"api\":\"" + (pub ? "public" : "performRequest") + "\"");
  uint64_t t0 = vf::nowNs();
  std::string exType, exWhat;
  HttpClient::Response resp;
  bool ok = false;
  t_callerReq = r.idx;
  t_callerTh = th;
  try
  {
    if (pub)
    {
      if (r.method == "GET") resp = client.get(url, hdr, r.budget);
      else if (r.method == "HEAD") resp = client.head(url, hdr, r.budget);
      else if (r.method == "DELETE") resp = client.deleteRequest(url, hdr, r.budget);
      else resp = client.post(url, body, hdr, r.budget);
    }
    else
    {
      resp = (client.*rob::g_perform)(r.method, url, body, hdr, r.budget);
    }
    ok = true;
  }
  catch (const HttpFramingError &e) { exType = "HttpFramingError"; exWhat = e.what(); }
  catch (const HttpRequestNotSentError &e) { exType = "HttpRequestNotSentError"; exWhat = e.what(); }
  catch (const std::invalid_argument &e) { exType = "std::invalid_argument"; exWhat = e.what(); }
  catch (const std::logic_error &e) { exType = "std::logic_error"; exWhat = e.what(); }
  catch (const std::runtime_error &e) { exType = "std::runtime_error"; exWhat = e.what(); }
  catch (const std::exception &e) { exType = "std::exception"; exWhat = e.what(); }
  catch (...) { exType = "unknown"; }
  t_callerReq = -1;
  double el = double(vf::nowNs() - t0) / 1e6;
  char eb[64];
  snprintf(eb, sizeof eb, "%.2f", el);
  if (ok)
  {
    cs.log("\"e\":\"ret\",\"r\":" + std::to_string(r.idx) + ",\"th\":" + std::to_string(th) + ",\"ok\":1,\"status\":" +
           std::to_string(resp.statusCode) + ",\"bodylen\":" + std::to_string(resp.body.size()) + ",\"body\":" +
           vf::jstr(resp.body.substr(0, 48)) + ",\"elapsed_ms\":" + eb);
  }
  else
  {
    cs.log("\"e\":\"ret\",\"r\":" + std::to_string(r.idx) + ",\"th\":" + std::to_string(th) + ",\"ok\":0,\"ex\":" +
           vf::jstr(exType) + ",\"what\":" + vf::jstr(exWhat.substr(0, 160)) + ",\"elapsed_ms\":" + eb);
  }
}

static std::atomic<uint64_t> g_caseStartNs{0};
static std::atomic<uint64_t> g_noiseMaxUs{0}; // scheduling noise seen by a 5 ms sleeper during the case
static std::atomic<uint64_t> g_caseWdMs{0};
static std::atomic<bool> g_allDone{false};

static void emitCase(Case &cs, bool hang)
{
  std::string line = "{\"t\":\"c17case\",\"id\":" + vf::jstr(cs.spec.id) + ",\"port\":" + std::to_string(cs.port) +
                     ",\"hang\":" + (hang ? "1" : "0") + ",\"events\":[";
  {
    std::lock_guard<std::mutex> g(cs.logM);
    for (size_t i = 0; i < cs.ev.size(); i++)
    {
      if (i) line += ",";
      line += cs.ev[i];
    }
  }
  line += "],\"noise_ms\":" + std::to_string(double(g_noiseMaxUs.load()) / 1000.0) + "}";
  vf::out().line(line);
}

static void runCase(const CaseSpec &spec)
{
  // announced first, so that the driver knows which case a process died in (sanitizer abort) and does not re-run it
  vf::out().line("{\"t\":\"c17begin\",\"id\":" + vf::jstr(spec.id) + "}");
  Case cs(spec);
  cs.ports.assign(spec.nsrv, 0);
  std::vector<std::unique_ptr<Server>> srvs;
  for (int i = 0; i < spec.nsrv; i++) srvs.emplace_back(new Server(cs, i));
  for (auto &sp : srvs) cs.servers.push_back(sp.get());
  g_caseWdMs.store((uint64_t)spec.wdMs);
  g_noiseMaxUs.store(0);
  g_caseStartNs.store(vf::nowNs());
  g_case.store(&cs);
  bool started = true;
  for (auto &sp : srvs) started = sp->start() && started;
  if (!started)
  {
    cs.log("\"e\":\"srv_error\",\"what\":\"start failed\"");
    g_case.store(nullptr);
    for (auto &sp : srvs) sp->shutdown();
    emitCase(cs, false);
    return;
  }
  {
    HttpClient::Config cfg;
    cfg.connectTimeout = std::chrono::milliseconds(spec.ctMs);
    cfg.requestTimeout = std::chrono::milliseconds(spec.rtMs);
    cfg.reuseConnections = spec.keepAlive;
    if (spec.leaseMs > 0) cfg.leaseAcquireTimeout = std::chrono::milliseconds(spec.leaseMs);
    if (spec.capBytes > 0)
    {
      cfg.maxResponseBytes = (size_t)spec.capBytes;
      cfg.jsonConfig.maxPayloadSize = (size_t)spec.capBytes;
    }
    HttpClient client(cfg);
    int nth = std::max(1, spec.threads);
    if (nth == 1)
    {
      for (const ReqSpec &r : spec.reqs)
      {
        cs.curReq.store(r.idx);
        issue(cs, client, r, 0);
        if (r.gapMs > 0) vf::sleepMs(r.gapMs);
      }
    }
    else
    {
      vf::SpinBarrier bar(nth);
      std::vector<std::thread> ths;
      for (int t = 0; t < nth; t++)
      {
        ths.emplace_back([&, t] {
          bar.wait();
          for (const ReqSpec &r : spec.reqs)
          {
            if (r.th != t) continue;
            issue(cs, client, r, t);
            if (r.gapMs > 0) vf::sleepMs(r.gapMs);
          }
        });
      }
      for (auto &t : ths) t.join();
    }
    cs.curReq.store(-1);
    cs.log("\"e\":\"requests_done\"");
    vf::sleepMs(15); // let the client's evictions reach the observer before it stops
    for (auto &sp : srvs) sp->shutdown();
    cs.log("\"e\":\"server_stopped\"");
  } // client destroyed here
  g_case.store(nullptr);
  g_caseStartNs.store(0);
  emitCase(cs, false);
}

int main(int argc, char **argv)
{
  vf::Args args(argc, argv);
  signal(SIGPIPE, SIG_IGN);
  iora::core::Logger::setLevel(iora::core::Logger::Level::Fatal);
  if (!rob::g_perform) { fprintf(stderr, "performRequest pointer not captured\n"); return 3; }
  auto cases = parseCases(args.s("cases"));
  if (cases.empty()) { fprintf(stderr, "no cases in %s\n", args.s("cases").c_str()); return 3; }

  // Watchdog: a case that never finishes (a call that never returns) is reported with what was
  // observed so far; the process then exits and the driver resumes with the remaining cases.
  std::thread wd([&] {
    while (!g_allDone.load())
    {
      vf::sleepMs(100);
      uint64_t st = g_caseStartNs.load();
      if (st && (vf::nowNs() - st) / 1000000ull > g_caseWdMs.load())
      {
        Case *cs = g_case.load();
        if (cs)
        {
          cs->log("\"e\":\"watchdog\"");
          emitCase(*cs, true);
        }
        fflush(nullptr);
        _exit(5);
      }
    }
  });
  std::thread noise([&] {
    while (!g_allDone.load())
    {
      uint64_t a = vf::nowNs();
      vf::sleepMs(5);
      uint64_t over = (vf::nowNs() - a) / 1000;
      over = over > 5000 ? over - 5000 : 0;
      uint64_t cur = g_noiseMaxUs.load();
      while (over > cur && !g_noiseMaxUs.compare_exchange_weak(cur, over)) {}
    }
  });
  for (auto &c : cases) runCase(c);
  g_allDone.store(true);
  wd.join();
  noise.join();
  vf::out().line("{\"t\":\"c17batch\",\"cases\":" + std::to_string(cases.size()) + "}");
  return 0;
}
