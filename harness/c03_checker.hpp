// /verif/harness/c03_checker.hpp — offline history checker for C03 (synchronous receive).
// Input: what the harness *did* (chunks it delivered, mode switches, close) and what the consumer
// side *observed* (receiveSync results, data-callback invocations), every event stamped with a
// global sequence interval [s0,s1]. Output: violations with stable keys + coverage facts.
// Shares no code and no state with iora: it never looks at Transport, only at the log.
//
// Stream code: byte at offset o of chunk k carries the value k*mod + (o % mod) (mod = 256/#chunks),
// so every single byte names its chunk exactly and its offset modulo `mod`; runs are placed inside
// their chunk by tiling (see place()). Observation paths: "recv" (receiveSync result), "flush"
// (callback on a non-I/O thread inside a setReadMode call, or any callback carrying bytes of a chunk
// other than the one being delivered), "direct" (callback on the I/O thread for the chunk being
// delivered). recv+flush are the *buffer path*.
//
// "A definitely before B" always means A.s1 < B.s0 on the global sequence.
#pragma once
#include <algorithm>
#include <cstdint>
#include <map>
#include <set>
#include <sstream>
#include <string>
#include <vector>

namespace c03 {

enum : int { M_ASYNC = 0, M_SYNC = 1, M_DISABLED = 2 };
enum : int { RES_OK = -1 }; // otherwise the numeric TransportError code
// TransportError codes the checker needs to know by name (mirrors the public enum's *meaning*,
// passed in by the harness so that this file does not include iora headers)
struct Codes { int peerClosed, cancelled, timeout, overflow, shuttingDown; };

struct Chunk { uint32_t pos = 0, len = 0; bool attempted = false, delivered = false; uint64_t s0 = 0, s1 = 0; int cand = 0; };
struct Recv { uint64_t s0 = 0, s1 = 0, t0 = 0, t1 = 0; uint32_t bufLen = 0; int timeoutMs = 0; int code = RES_OK;
              std::vector<uint8_t> data; bool canaryBroken = false, lenMismatch = false; int thread = 0;
              bool errorWroteBuffer = false; bool cancellable = false; /* receiveSyncCancellable */ uint64_t cancelSeq = 0; /* seq just before token.cancel() was called, 0 = never */ };
struct ModeCall { uint64_t s0 = 0, s1 = 0; int target = 0; bool ret = false; int before = M_ASYNC; };
struct Cb { uint64_t s0 = 0, s1 = 0; bool onIo = false; int encl = -1; /* chunk idx if onIo else ModeCall idx */ bool foreignSid = false;
            std::vector<uint8_t> data; };
struct Close { bool happened = false; uint64_t s0 = 0, s1 = 0; bool local = false; };

struct History
{
  std::vector<Chunk> chunks;
  uint32_t mod = 1;
  uint64_t maxBuf = 0;
  std::vector<Recv> recvs;   // in call order (sequential by construction)
  std::vector<ModeCall> modes; // in call order (sequential by construction)
  std::vector<Cb> cbs;       // sorted by entry s0
  Close close;
  Codes codes{};
  int longTimeoutMs = 0;
};

struct Viol { std::string key, what, detail; };
struct Result
{
  std::vector<Viol> viols;
  std::map<std::string, uint64_t> obs;
  std::vector<std::string> suspects; // timing-based (watchdog class): re-run in isolation
  std::string sig;                   // structural signature of the history
  void v(const std::string &k, const std::string &w, const std::string &d = "")
  {
    for (auto &x : viols) if (x.key == k) return; // one per key per history
    viols.push_back({k, w, d});
  }
};

struct Seg
{
  int chunk = 0; uint32_t res = 0, len = 0;
  int cls = 0;       // 0 recv-class, 1 callback-class
  int ev = 0;        // index into recvs / cbs
  uint32_t evOff = 0;
  int64_t off = -1;  // placed offset inside the chunk, -1 unplaced
  int path = 0;      // 0 recv, 1 flush, 2 direct
  uint64_t obsStart = 0, obsEnd = 0;
  bool stale = false;
  uint64_t pos(const History &h) const { return uint64_t(h.chunks[chunk].pos) + uint64_t(off); }
};

inline const char *modeName(int m) { return m == M_ASYNC ? "Async" : m == M_SYNC ? "Sync" : "Disabled"; }
inline std::string candName(int c)
{
  std::string s;
  for (int m = 0; m < 3; m++) if (c & (1 << m)) s += (s.empty() ? "" : "|") + std::string(modeName(m));
  return s;
}

// ---- split one payload into maximal runs of (same chunk, residue stepping +1)
inline void splitPayload(const History &h, const std::vector<uint8_t> &d, int cls, int ev, std::vector<Seg> &out, Result &R)
{
  size_t i = 0;
  while (i < d.size())
  {
    uint32_t k = d[i] / h.mod, r = d[i] % h.mod;
    if (k >= h.chunks.size())
    {
      R.v("C03:stream:garbled-byte", "observed byte does not belong to any chunk of the stream", "{\"value\":" + std::to_string(d[i]) + "}");
      i++;
      continue;
    }
    Seg s; s.chunk = int(k); s.res = r; s.len = 1; s.cls = cls; s.ev = ev; s.evOff = uint32_t(i);
    size_t j = i + 1;
    while (j < d.size() && d[j] / h.mod == k && d[j] % h.mod == (r + (j - i)) % h.mod) { s.len++; j++; }
    out.push_back(s);
    i = j;
  }
}

// ---- place the runs of one chunk: exact tiling by depth-first merge of the two ordered queues,
// greedy with holes as the diagnostic fallback
struct Placer
{
  const History &h; int k; std::vector<Seg *> q[2]; uint32_t clen; uint64_t budget = 200000;
  std::vector<int> choice;
  bool dfs(size_t i0, size_t i1, uint32_t cur)
  {
    if (i0 == q[0].size() && i1 == q[1].size()) return true;
    if (budget == 0) return false;
    budget--;
    for (int c = 0; c < 2; c++)
    {
      size_t &i = c == 0 ? i0 : i1;
      if (i >= q[c].size()) continue;
      Seg *s = q[c][i];
      if (s->res != cur % h.mod || cur + s->len > clen) continue;
      choice.push_back(c);
      i++;
      if (dfs(i0, i1, cur + s->len)) return true;
      i--;
      choice.pop_back();
    }
    return false;
  }
  // returns false if some run could not be placed (duplicate / garbled)
  bool run(bool &holes)
  {
    holes = false;
    if (dfs(0, 0, 0))
    {
      size_t i[2] = {0, 0}; uint32_t cur = 0;
      for (int c : choice) { Seg *s = q[c][i[c]++]; s->off = cur; cur += s->len; }
      return true;
    }
    // fallback: merge by observation end, smallest admissible offset >= cursor
    std::vector<Seg *> all;
    size_t i0 = 0, i1 = 0;
    while (i0 < q[0].size() || i1 < q[1].size())
    {
      bool take0 = i1 >= q[1].size() || (i0 < q[0].size() && q[0][i0]->obsEnd <= q[1][i1]->obsEnd);
      all.push_back(take0 ? q[0][i0++] : q[1][i1++]);
    }
    uint32_t cur = 0; bool ok = true;
    for (Seg *s : all)
    {
      uint32_t off = cur + ((s->res + h.mod - cur % h.mod) % h.mod);
      if (off != cur) holes = true;
      if (uint64_t(off) + s->len > clen) { ok = false; s->off = -1; continue; }
      s->off = off; cur = off + s->len;
    }
    return ok;
  }
};

inline std::string jnum(const char *k, uint64_t v) { return std::string("\"") + k + "\":" + std::to_string(v); }

inline void check(History &h, Result &R)
{
  const Codes &C = h.codes;
  const size_t NC = h.chunks.size();
  auto codeName = [&](int c) -> std::string {
    if (c == RES_OK) return "data";
    if (c == C.peerClosed) return "PeerClosed";
    if (c == C.cancelled) return "Cancelled";
    if (c == C.timeout) return "Timeout";
    if (c == C.overflow) return "BufferOverflow";
    if (c == C.shuttingDown) return "ShuttingDown";
    return "code" + std::to_string(c);
  };

  // ---------------------------------------------------------------- mode timeline
  {
    int cur = M_ASYNC;
    for (auto &m : h.modes) { m.before = cur; if (m.ret) cur = m.target; }
  }
  for (auto &c : h.chunks)
  {
    if (!c.delivered) continue;
    int before = M_ASYNC, cand = 0;
    for (auto &m : h.modes)
    {
      if (!m.ret) continue;
      if (m.s1 < c.s0) before = m.target;
      else if (m.s0 > c.s1) break;
      else cand |= 1 << m.target;
    }
    c.cand = cand | (1 << before);
  }

  // ---------------------------------------------------------------- immediate per-call facts
  for (size_t i = 0; i < h.recvs.size(); i++)
  {
    auto &r = h.recvs[i];
    if (r.code == RES_OK && r.data.size() > r.bufLen) R.v("C03:recv:returned-more-than-buffer", "receiveSync reported more bytes than the caller's buffer holds");
    if (r.canaryBroken) R.v("C03:recv:wrote-past-returned-length", "receiveSync modified caller buffer bytes beyond the returned length");
    if (r.errorWroteBuffer)
      R.v("C03:recv:error-result-consumed-bytes", "a receive that returned an error had written stream bytes into the caller's buffer: bytes were taken out of the sync buffer and then discarded",
          "{\"result\":\"" + codeName(r.code) + "\",\"cancellable\":" + (r.cancellable ? "true" : "false") + "}");
    if (r.lenMismatch) R.v("C03:recv:len-out-param-mismatch", "receiveSync ok(n) but the len out-parameter differs from n");
    if (r.code == RES_OK && r.data.empty()) R.v("C03:recv:empty-ok", "receiveSync returned ok(0) for a non-empty buffer");
    if (r.code != RES_OK && r.code != C.peerClosed && r.code != C.cancelled && r.code != C.timeout && r.code != C.overflow)
      R.v("C03:recv:unexpected-error:" + codeName(r.code), "receiveSync returned an error no event of the history explains");
    R.obs["recv_calls"]++;
    R.obs["recv_" + codeName(r.code)]++;
  }
  for (auto &m : h.modes)
  {
    R.obs["mode_switch_calls"]++;
    if (!m.ret) R.v("C03:switch:refused", "setReadMode returned false although switching is allowed and no teardown is in progress");
  }
  for (auto &cb : h.cbs)
  {
    if (cb.foreignSid) R.v("C03:callback:foreign-session", "data callback invoked for a session id the history never created");
    if (cb.encl < 0) R.v("C03:callback:outside-any-operation", "data callback ran on a thread that was neither delivering data nor inside setReadMode");
  }

  // ---------------------------------------------------------------- decode observations into placed runs
  std::vector<Seg> segs;
  for (size_t i = 0; i < h.recvs.size(); i++) if (h.recvs[i].code == RES_OK) splitPayload(h, h.recvs[i].data, 0, int(i), segs, R);
  for (size_t i = 0; i < h.cbs.size(); i++) splitPayload(h, h.cbs[i].data, 1, int(i), segs, R);
  for (auto &s : segs)
  {
    if (s.cls == 0) { s.path = 0; s.obsStart = h.recvs[s.ev].s0; s.obsEnd = h.recvs[s.ev].s1; }
    else
    {
      auto &cb = h.cbs[s.ev];
      s.obsEnd = cb.s0;
      if (cb.onIo && cb.encl == s.chunk) { s.path = 2; s.obsStart = h.chunks[s.chunk].s0; }
      else
      {
        s.path = 1;
        if (cb.onIo) s.obsStart = cb.encl >= 0 && size_t(cb.encl) < NC ? h.chunks[cb.encl].s0 : cb.s0;
        else s.obsStart = cb.encl >= 0 && size_t(cb.encl) < h.modes.size() ? h.modes[cb.encl].s0 : cb.s0;
      }
    }
  }
  std::vector<uint32_t> covered(NC, 0);
  for (size_t k = 0; k < NC; k++)
  {
    Placer P{h, int(k)};
    P.clen = h.chunks[k].len;
    for (auto &s : segs) if (s.chunk == int(k)) P.q[s.cls].push_back(&s);
    if (P.q[0].empty() && P.q[1].empty()) continue;
    if (!h.chunks[k].delivered)
    {
      R.v("C03:stream:fabricated", "bytes observed of a chunk the engine never delivered", "{" + jnum("chunk", k) + "}");
      continue;
    }
    bool holes = false;
    if (!P.run(holes))
      R.v("C03:stream:duplicate", "bytes of one chunk observed more than once (runs do not fit into the chunk)",
          "{" + jnum("chunk", k) + "," + jnum("chunk_len", P.clen) + "}");
    for (auto *s : P.q[0]) if (s->off >= 0) covered[k] += s->len;
    for (auto *s : P.q[1]) if (s->off >= 0) covered[k] += s->len;
  }
  std::vector<Seg *> placed;
  for (auto &s : segs) if (s.off >= 0) placed.push_back(&s);
  uint64_t bytesObserved = 0;
  for (auto *s : placed) bytesObserved += s->len;
  R.obs["bytes_observed"] += bytesObserved;

  // ---------------------------------------------------------------- D2 Disabled delivers nothing
  for (size_t k = 0; k < NC; k++)
  {
    auto &c = h.chunks[k];
    if (!c.delivered) continue;
    R.obs["bytes_delivered"] += c.len;
    R.obs["chunks_delivered"]++;
    if (c.cand == (1 << M_DISABLED))
    {
      R.obs["chunks_definitely_disabled"]++;
      if (covered[k]) R.v("C03:disabled:delivered", "bytes that arrived while the session was definitely Disabled were handed to the consumer",
                          "{" + jnum("chunk", k) + "," + jnum("bytes", covered[k]) + "}");
    }
    else if (c.cand & (c.cand - 1)) R.obs["chunks_mode_ambiguous"]++;
  }

  // ---------------------------------------------------------------- occupancy bounds, overflow legitimacy (D4, D7, D8)
  auto bufPath = [](const Seg *s) { return s->path != 2; };
  std::vector<uint64_t> U(NC, 0), L(NC, 0);
  for (size_t k = 0; k < NC; k++)
  {
    auto &c = h.chunks[k];
    if (!c.delivered) continue;
    for (auto *s : placed)
    {
      if (!bufPath(s) || size_t(s->chunk) >= k) continue;
      if (s->obsEnd > c.s0) U[k] += s->len;
      if (s->obsStart > c.s1) L[k] += s->len;
    }
  }
  bool overflowPossible = false;
  uint64_t overflowPossibleSince = ~0ull; // s0 of the first chunk that may legitimately have overflowed
  int64_t firstGapChunk = -1; uint64_t firstGapPos = 0;
  bool anyPeerClosed = false;
  for (auto &r : h.recvs) if (r.code == C.peerClosed) anyPeerClosed = true;
  for (size_t k = 0; k < NC; k++)
  {
    auto &c = h.chunks[k];
    if (!c.delivered) continue;
    if ((c.cand & (1 << M_SYNC)) && U[k] + c.len > h.maxBuf && !overflowPossible)
    {
      overflowPossible = true;
      overflowPossibleSince = c.s0;
    }
    uint32_t missing = c.len - std::min(c.len, covered[k]);
    if (c.cand == (1 << M_SYNC))
    {
      uint64_t acc = 0;
      for (auto *s : placed) if (bufPath(s) && size_t(s->chunk) == k) acc += s->len;
      if (acc && L[k] + acc > h.maxBuf)
        R.v("C03:overflow:bound-exceeded-silently", "more bytes were buffered for synchronous receive than maxSyncReceiveBuffer allows",
            "{" + jnum("chunk", k) + "," + jnum("held_at_least", L[k] + acc) + "," + jnum("max", h.maxBuf) + "}");
    }
    if (missing && !(c.cand & (1 << M_DISABLED)))
    {
      if (firstGapChunk < 0)
      {
        firstGapChunk = int64_t(k);
        // first missing offset inside the chunk
        std::vector<std::pair<uint32_t, uint32_t>> iv;
        for (auto *s : placed) if (size_t(s->chunk) == k) iv.push_back({uint32_t(s->off), uint32_t(s->off) + s->len});
        std::sort(iv.begin(), iv.end());
        uint32_t cur = 0;
        for (auto &p : iv) { if (p.first > cur) break; cur = std::max(cur, p.second); }
        firstGapPos = uint64_t(c.pos) + cur;
      }
      if (!overflowPossible)
      {
        std::string d = "{" + jnum("chunk", k) + "," + jnum("chunk_len", c.len) + "," + jnum("missing", missing) + ",\"mode\":\"" + candName(c.cand) +
                        "\"," + jnum("buffered_at_most", U[k]) + "," + jnum("max", h.maxBuf) + "}";
        if (anyPeerClosed)
          R.v("C03:close:peerclosed-with-bytes-unreturned", "PeerClosed was reported although bytes that arrived before the close were never returned", d);
        else
          R.v("C03:stream:lost-bytes:" + candName(c.cand), "bytes that arrived in a delivering mode were never handed to the consumer and no overflow can explain it", d);
      }
      else R.obs["chunks_dropped_after_overflow"]++;
    }
  }

  // ---------------------------------------------------------------- D12 switch to Async hands over everything buffered
  for (size_t mi = 0; mi < h.modes.size(); mi++)
  {
    auto &m = h.modes[mi];
    if (!m.ret || m.target != M_ASYNC) continue;
    if (h.close.happened && m.s1 > h.close.s0) continue; // a closed session keeps its tail for receiveSync
    bool flushedSomething = false, raced = false;
    for (auto &cb : h.cbs) if (!cb.onIo && cb.encl == int(mi) && !cb.data.empty()) flushedSomething = true;
    for (auto &c : h.chunks) if (c.delivered && !(c.s1 < m.s0 || c.s0 > m.s1)) raced = true;
    if (flushedSomething) R.obs["flush_handed_bytes"]++;
    if (raced) R.obs["flush_raced_with_arrival"]++;
    for (auto *s : placed)
    {
      if (!bufPath(s) || s->stale) continue;
      if (h.chunks[s->chunk].s1 < m.s0 && s->obsStart > m.s1)
      {
        s->stale = true;
        // attribute to the first switch to Async that could have handed these bytes over: the
        // earliest successful one that ended after their arrival began (it may have overlapped
        // the arrival, in which case only a later call proves the bytes were left behind)
        int from = m.before;
        for (size_t mj = 0; mj <= mi; mj++)
        {
          auto &m0 = h.modes[mj];
          if (m0.ret && m0.target == M_ASYNC && m0.s1 > h.chunks[s->chunk].s0) { from = m0.before; break; }
        }
        R.v(std::string("C03:switch:to-async-left-bytes-buffered:from-") + modeName(from),
            "setReadMode(Async) returned while bytes that had arrived earlier were still buffered; they were not handed to the data callback",
            "{" + jnum("chunk", s->chunk) + "," + jnum("pos", s->pos(h)) + "," + jnum("len", s->len) + ",\"later_seen_by\":\"" + (s->path == 0 ? "receiveSync" : "flush") + "\"}");
      }
    }
  }

  // ---------------------------------------------------------------- D10 per-observer order, callback exclusion
  {
    uint64_t last = 0; bool have = false;
    std::vector<Seg *> rs;
    for (auto *s : placed) if (s->cls == 0 && !s->stale) rs.push_back(s);
    std::stable_sort(rs.begin(), rs.end(), [](Seg *a, Seg *b) { return a->ev != b->ev ? a->ev < b->ev : a->evOff < b->evOff; });
    for (auto *s : rs)
    {
      if (have && s->pos(h) < last)
        R.v("C03:order:sync-reads", "successive receiveSync results returned an earlier stream position after a later one",
            "{" + jnum("pos", s->pos(h)) + "," + jnum("after", last) + "}");
      last = s->pos(h) + s->len; have = true;
    }
    std::vector<Seg *> ks;
    for (auto *s : placed) if (s->cls == 1 && !s->stale) ks.push_back(s);
    std::stable_sort(ks.begin(), ks.end(), [](Seg *a, Seg *b) { return a->ev != b->ev ? a->ev < b->ev : a->evOff < b->evOff; });
    have = false;
    for (auto *s : ks)
    {
      if (have && s->pos(h) < last)
        R.v("C03:order:callbacks", "the data callback received an earlier stream position after a later one",
            "{" + jnum("pos", s->pos(h)) + "," + jnum("after", last) + "}");
      last = s->pos(h) + s->len; have = true;
    }
    std::set<int> staleCbs;
    for (auto *s : placed) if (s->cls == 1 && s->stale) staleCbs.insert(s->ev);
    int prev = -1;
    for (size_t i = 0; i < h.cbs.size(); i++)
    {
      if (staleCbs.count(int(i))) continue;
      if (prev >= 0 && h.cbs[prev].s1 > h.cbs[i].s0)
        R.v("C03:callback:overlap", "two data-callback invocations for the session overlapped in time (flush on an application thread vs delivery on the I/O thread)",
            "{\"first_on_io\":" + std::string(h.cbs[prev].onIo ? "true" : "false") + ",\"second_on_io\":" + (h.cbs[i].onIo ? "true" : "false") + "}");
      prev = int(i);
    }
  }

  // ---------------------------------------------------------------- D11 cross-observer order
  {
    std::vector<Seg *> byPos;
    for (auto *s : placed) if (!s->stale) byPos.push_back(s);
    std::sort(byPos.begin(), byPos.end(), [&](Seg *a, Seg *b) { return a->pos(h) > b->pos(h); });
    uint64_t minEnd = ~0ull; Seg *who = nullptr;
    for (auto *s : byPos)
    {
      if (who && minEnd < s->obsStart && who->pos(h) > s->pos(h))
        R.v("C03:order:cross-observer", "a later stream position was handed over (and that hand-over finished) before the operation that returned an earlier position even started",
            "{" + jnum("later_pos", who->pos(h)) + ",\"later_via\":" + std::to_string(who->path) + "," + jnum("earlier_pos", s->pos(h)) + ",\"earlier_via\":" + std::to_string(s->path) + "}");
      if (s->obsEnd < minEnd) { minEnd = s->obsEnd; who = s; }
    }
  }

  // ---------------------------------------------------------------- D5/D6/D7 overflow is reported, after the earlier bytes, and sticky
  {
    bool reported = false; uint64_t reportedAt = 0;
    uint64_t gapSeq = firstGapChunk >= 0 ? h.chunks[firstGapChunk].s1 : ~0ull;
    for (size_t i = 0; i < h.recvs.size(); i++)
    {
      auto &r = h.recvs[i];
      bool afterGap = firstGapChunk >= 0 && r.s0 > gapSeq;
      bool afterReport = reported && r.s0 > reportedAt;
      bool overlapsFlush = false;
      for (auto &m : h.modes) if (m.target == M_ASYNC && !(m.s1 < r.s0 || m.s0 > r.s1)) overlapsFlush = true;
      bool afterClose = h.close.happened && r.s1 > h.close.s0;
      bool byToken = r.cancellable && r.cancelSeq && r.cancelSeq < r.s1;
      if (r.cancellable)
      {
        R.obs["recv_cancellable_calls"]++;
        if (r.cancelSeq > r.s0 && r.cancelSeq < r.s1) R.obs[r.code == RES_OK ? "cancel_during_call_data_still_returned" : "cancel_during_call_" + codeName(r.code)]++;
      }
      if (r.code == C.cancelled && byToken && !overlapsFlush) R.obs["recv_cancelled_by_token"]++;
      else if (r.code == C.cancelled)
      {
        if (!overlapsFlush) R.v("C03:recv:spurious-cancelled", "receive returned Cancelled although no flush overlapped the call and its token (if any) had not been cancelled");
        else R.obs["recv_rejected_during_flush"]++;
      }
      else if (r.code == C.overflow)
      {
        if (!(overflowPossible && overflowPossibleSince < r.s1))
          R.v("C03:overflow:spurious", "BufferOverflow reported although the buffered bytes can never have exceeded maxSyncReceiveBuffer", "{" + jnum("max", h.maxBuf) + "}");
        if (!reported) { reported = true; reportedAt = r.s1; }
      }
      else if (r.code == RES_OK)
      {
        // does this result contain a byte from beyond the first never-observed byte of the stream?
        // (one result may span the gap: bytes before and after it in the same call)
        bool beyond = false;
        if (firstGapChunk >= 0)
          for (auto *s : placed) if (s->cls == 0 && s->ev == int(i) && s->pos(h) + s->len > firstGapPos + 1) beyond = true;
        if (afterReport)
          R.v("C03:overflow:not-sticky:data-after-error", "receiveSync returned data after it had already reported BufferOverflow for the session",
              "{" + jnum("gap_at", firstGapPos) + "}");
        else if (beyond)
          R.v("C03:overflow:bytes-after-gap-before-error", "receiveSync returned bytes from beyond a dropped range before any BufferOverflow was reported (undetectable gap)",
              "{" + jnum("gap_at", firstGapPos) + "," + jnum("max", h.maxBuf) + "}");
      }
      else if (r.code == C.timeout || r.code == C.peerClosed)
      {
        // sticky "until close": once the close has been reported the entry may be reclaimed, so a
        // call after it may see PeerClosed or (entry gone) Timeout - but only if the overflow HAD been
        // reported. An overflow nobody was ever told about must not vanish with the close.
        bool startedAfterClose = h.close.happened && r.s0 > h.close.s1;
        bool tolerated = afterClose && reported;
        if (afterReport && !tolerated)
          R.v("C03:overflow:not-sticky:" + codeName(r.code), "after BufferOverflow had been reported a later receiveSync returned " + codeName(r.code) + " instead (session not closed)");
        else if (afterGap && !reported)
          R.v(std::string("C03:overflow:not-reported") + (startedAfterClose ? "-after-close:" : ":") + codeName(r.code),
              "bytes were dropped in Sync mode, yet a receiveSync that started afterwards returned " + codeName(r.code) + " without any BufferOverflow report" +
                  (startedAfterClose ? " (call started after the close had been reported)" : ""),
              "{" + jnum("gap_at", firstGapPos) + "}");
      }
    }
    if (reported) R.obs["histories_overflow_reported"]++;
    if (overflowPossible) R.obs["histories_overflow_possible"]++;
  }

  // ---------------------------------------------------------------- D9 PeerClosed only after the close and after the drain
  {
    bool pc = false; uint64_t pcAt = 0;
    for (auto &r : h.recvs)
    {
      if (r.code != C.peerClosed) continue;
      if (!(h.close.happened && h.close.s0 < r.s1)) R.v("C03:close:spurious-peerclosed", "PeerClosed returned before the engine reported any close");
      if (!pc) { pc = true; pcAt = r.s1; }
    }
    if (pc)
      for (auto *s : placed)
        if (bufPath(s) && s->obsStart > pcAt)
        {
          R.v("C03:close:data-after-peerclosed", "buffered bytes were handed over by an operation that started after PeerClosed had been returned",
              "{" + jnum("pos", s->pos(h)) + "}");
          break;
        }
    if (h.close.happened)
    {
      R.obs["histories_closed"]++;
      bool drained = false, parked = false;
      for (auto *s : placed) if (s->path == 0 && s->obsStart > h.close.s1) drained = true;
      for (auto &r : h.recvs) if (r.s0 < h.close.s0 && r.s1 > h.close.s0 && (r.code == RES_OK || r.code == C.peerClosed)) parked = true;
      if (drained) R.obs["close_then_buffered_bytes_drained"]++;
      if (parked) R.obs["reader_inside_call_at_close"]++;
      if (pc) R.obs["histories_peerclosed_returned"]++;
    }
  }

  // ---------------------------------------------------------------- D13 Timeout while a byte sat in the buffer for the whole call
  for (auto &r : h.recvs)
  {
    if (r.code != C.timeout) continue;
    for (auto *s : placed)
      if (bufPath(s) && h.chunks[s->chunk].cand == (1 << M_SYNC) && h.chunks[s->chunk].s1 < r.s0 && s->obsStart > r.s1)
      {
        R.v("C03:recv:timeout-with-data-buffered", "receiveSync timed out although bytes delivered before the call were still buffered after it",
            "{" + jnum("pos", s->pos(h)) + "," + jnum("timeout_ms", uint64_t(r.timeoutMs)) + "}");
        break;
      }
    if (h.longTimeoutMs && r.timeoutMs >= h.longTimeoutMs) R.suspects.push_back("long receiveSync ran into its full timeout (nothing woke it)");
  }
  for (auto &r : h.recvs)
    if (h.longTimeoutMs && r.timeoutMs >= h.longTimeoutMs && r.code != C.timeout)
    {
      uint64_t ms = (r.t1 - r.t0) / 1000000ull;
      auto &mx = R.obs["max_long_call_ms"]; if (ms > mx) mx = ms;
      if (ms * 2 >= uint64_t(h.longTimeoutMs)) R.suspects.push_back("long receiveSync returned only after " + std::to_string(ms) + " ms");
    }

  // ---------------------------------------------------------------- coverage facts + signature
  uint64_t direct = 0, flush = 0, late = 0;
  for (auto &cb : h.cbs) { if (cb.onIo) direct++; else flush++; }
  for (auto &r : h.recvs) if (r.thread == 3 && r.code == RES_OK) late++;
  R.obs["cb_direct"] += direct; R.obs["cb_flush"] += flush; R.obs["late_caller_data_results"] += late;
  auto has = [&](const char *k) { auto it = R.obs.find(k); return it != R.obs.end() && it->second ? 1 : 0; };
  std::ostringstream sg;
  sg << "n=" << (NC <= 1 ? 1 : NC <= 4 ? 4 : NC <= 12 ? 12 : 40) << " ovp=" << overflowPossible << " ovr=" << has("histories_overflow_reported")
     << " dis=" << has("chunks_definitely_disabled") << " amb=" << has("chunks_mode_ambiguous") << " fl=" << has("flush_handed_bytes")
     << " fr=" << has("flush_raced_with_arrival") << " pk=" << has("reader_inside_call_at_close") << " dr=" << has("close_then_buffered_bytes_drained")
     << " cn=" << has("recv_Cancelled") << " to=" << has("recv_Timeout") << " pc=" << has("recv_PeerClosed") << " late=" << (late ? 1 : 0)
     << " dc=" << (direct ? 1 : 0) << " cl=" << (h.close.happened ? (h.close.local ? 2 : 1) : 0) << " gap=" << (firstGapChunk >= 0);
  R.sig = sg.str();
}

} // namespace c03
