// /verif/harness/c03_tcp.hpp — C03 end-to-end variant: the real TcpEngine and a raw loopback peer.
// The peer writes a position-encoded stream (each 4-byte big-endian word = its own offset) and
// closes right behind the last byte (data + FIN back to back); the application reads with
// receiveSync in Sync mode. Oracle: the concatenation of the results equals the stream exactly and
// PeerClosed comes only after the last byte; nothing is returned after PeerClosed.
// Included by c03_syncrecv.cpp only.
#pragma once

namespace c03tcp {

struct Shared
{
  std::shared_ptr<iora::network::Transport> tr;
  std::mutex m;
  std::condition_variable cv;
  std::set<iora::network::SessionId> closed;
  std::deque<iora::network::SessionId> accepted;
  iora::network::ListenerId lid = 0;
  uint16_t listenPort = 0;
  bool ok = false;
};
inline Shared &sh() { static Shared s; return s; }

inline bool ensureTransport()
{
  auto &S = sh();
  if (S.tr) return S.ok;
  iora::network::TransportConfig cfg;
  S.tr = iora::network::Transport::tcp(cfg);
  S.tr->onClose([](iora::network::SessionId sid, const iora::network::TransportErrorInfo &) {
    auto &S = sh(); std::lock_guard<std::mutex> g(S.m); S.closed.insert(sid); S.cv.notify_all();
  });
  S.tr->onAccept([](iora::network::SessionId sid, const iora::network::TransportAddress &) {
    auto &S = sh(); std::lock_guard<std::mutex> g(S.m); S.accepted.push_back(sid); S.cv.notify_all();
  });
  S.tr->onData([](iora::network::SessionId, iora::core::BufferView d, std::chrono::steady_clock::time_point) {
    vf::out().obs("tcp_async_bytes_before_sync_mode", d.size()); // must stay 0: the peer waits for the go signal
  });
  if (!S.tr->start().isOk()) return false;
  auto lr = S.tr->addListener("127.0.0.1", 0);
  if (!lr.isOk()) return false;
  S.lid = lr.value();
  S.listenPort = S.tr->getListenerAddress(S.lid).port;
  S.ok = S.listenPort != 0;
  return S.ok;
}

inline uint8_t streamByte(uint32_t i)
{
  uint32_t w = i & ~3u;
  return uint8_t(w >> (8 * (3 - (i & 3))));
}

inline bool sendAll(int fd, const std::vector<uint8_t> &data, uint32_t maxPiece)
{
  size_t off = 0;
  while (off < data.size())
  {
    size_t n = std::min<size_t>(data.size() - off, maxPiece ? maxPiece : data.size());
    ssize_t r = ::send(fd, data.data() + off, n, MSG_NOSIGNAL);
    if (r < 0) { if (errno == EINTR) continue; return false; }
    off += size_t(r);
  }
  return true;
}

} // namespace c03tcp

static void runTcp(uint64_t seed, uint64_t idx, uint64_t, uint64_t)
{
  using namespace c03tcp;
  using iora::network::TransportError;
  auto &O = vf::out();
  vf::Rng rng(seed, idx * 8 + 7);
  exemptFromCondvarShim(false);
  if (!ensureTransport()) { O.inconclusive("C03 tcp: could not start a TCP transport on loopback"); return; }
  auto &S = sh();
  uint32_t total;
  { int b = int(rng.below(10)); total = b < 3 ? uint32_t(rng.range(1, 64)) : b < 7 ? uint32_t(rng.range(65, 6000)) : uint32_t(rng.range(6001, 300000)); }
  std::vector<uint8_t> stream(total);
  for (uint32_t i = 0; i < total; i++) stream[i] = streamByte(i);
  bool ioraConnects = rng.chance(0.5);
  int timing = int(rng.below(3)); // 0 reader parks first, 1 reader comes after the close was seen, 2 concurrent
  uint32_t piece = rng.chance(0.6) ? 0 : uint32_t(rng.range(1, 4000)); // 0 = one send() for everything
  int lenProfile = total <= 300 ? int(rng.below(4)) : total <= 6000 ? 2 + int(rng.below(5)) : 4 + int(rng.below(3));
  std::string detail = "{\"seed\":" + std::to_string(seed) + ",\"idx\":" + std::to_string(idx) + ",\"total\":" + std::to_string(total) + ",\"timing\":" + std::to_string(timing) +
                       ",\"iora_connects\":" + (ioraConnects ? "true" : "false") + ",\"piece\":" + std::to_string(piece) + ",\"len_profile\":" + std::to_string(lenProfile);

  int peerFd = -1;
  iora::network::SessionId sid = 0;
  if (ioraConnects)
  {
    int lfd = ::socket(AF_INET, SOCK_STREAM, 0);
    sockaddr_in sa{}; sa.sin_family = AF_INET; sa.sin_addr.s_addr = htonl(INADDR_LOOPBACK); sa.sin_port = 0;
    socklen_t sl = sizeof sa;
    if (lfd < 0 || ::bind(lfd, (sockaddr *)&sa, sizeof sa) != 0 || ::listen(lfd, 4) != 0 || ::getsockname(lfd, (sockaddr *)&sa, &sl) != 0)
    { O.inconclusive("C03 tcp: raw listener failed"); if (lfd >= 0) ::close(lfd); return; }
    auto cr = S.tr->connectSync("127.0.0.1", ntohs(sa.sin_port), iora::network::TlsMode::None, std::chrono::milliseconds(60000));
    if (!cr.isOk()) { O.inconclusive("C03 tcp: connectSync to the raw peer failed: " + cr.error().message); ::close(lfd); return; }
    sid = cr.value();
    pollfd pf{lfd, POLLIN, 0};
    if (::poll(&pf, 1, 60000) <= 0) { O.inconclusive("C03 tcp: raw accept timed out"); ::close(lfd); return; }
    peerFd = ::accept(lfd, nullptr, nullptr);
    ::close(lfd);
  }
  else
  {
    peerFd = ::socket(AF_INET, SOCK_STREAM, 0);
    sockaddr_in sa{}; sa.sin_family = AF_INET; sa.sin_addr.s_addr = htonl(INADDR_LOOPBACK); sa.sin_port = htons(S.listenPort);
    if (peerFd < 0 || ::connect(peerFd, (sockaddr *)&sa, sizeof sa) != 0) { O.inconclusive("C03 tcp: raw connect failed"); if (peerFd >= 0) ::close(peerFd); return; }
    std::unique_lock<std::mutex> lk(S.m);
    if (!S.cv.wait_for(lk, std::chrono::seconds(60), [&] { return !S.accepted.empty(); })) { O.inconclusive("C03 tcp: onAccept never fired"); ::close(peerFd); return; }
    sid = S.accepted.front(); S.accepted.pop_front();
  }
  if (peerFd < 0) { O.inconclusive("C03 tcp: no peer socket"); return; }
  if (!S.tr->setReadMode(sid, iora::network::ReadMode::Sync)) { O.viol("C03:switch:refused", "setReadMode(Sync) refused on a fresh TCP session", detail + "}"); ::close(peerFd); return; }
  int one = 1; ::setsockopt(peerFd, IPPROTO_TCP, TCP_NODELAY, &one, sizeof one);

  auto peerRun = [&, peerFd] {
#if !VF_TSAN
    vf::shim::tlsCondvarExempt = true;
#endif
    sendAll(peerFd, stream, piece);
    ::close(peerFd); // FIN right behind the last byte
  };
  std::thread peer;
#if !VF_TSAN
  vf::shim::condvarPolicy().seed = seed * 31 + idx;
  vf::shim::condvarPolicy().permille = 500;
  vf::shim::condvarPolicy().maxDelayUs = rng.below(3) == 0 ? 0 : uint32_t(rng.range(30, 1500));
#endif
  bool closeSeenBeforeFirstRead = false;
  if (timing == 1)
  {
    peer = std::thread(peerRun);
    if (total <= 200000)
    {
      // everything fits into kernel buffers + the sync buffer: wait until iora has seen the FIN
      std::unique_lock<std::mutex> lk(S.m);
      closeSeenBeforeFirstRead = S.cv.wait_for(lk, std::chrono::seconds(60), [&] { return S.closed.count(sid) > 0; });
    }
  }
  else if (timing == 2) peer = std::thread(peerRun);

  std::vector<uint8_t> got;
  got.reserve(total);
  int finalCode = -100; uint32_t calls = 0; bool tooLong = false, parkedFirst = false;
  vf::Rng lr(rng.next());
  for (;;)
  {
    uint32_t len = genLen(lr, lenProfile, total);
    std::vector<uint8_t> buf(len);
    size_t n = len;
    if (timing == 0 && calls == 0)
    {
      // start the peer only once this thread is about to block in receiveSync
      double delayMs = double(lr.below(3000)) / 1000.0 + 0.3;
      peer = std::thread([&peerRun, delayMs] { vf::sleepMs(delayMs); peerRun(); });
      parkedFirst = true;
    }
    uint64_t t0 = vf::nowNs();
    auto r = S.tr->receiveSync(sid, buf.data(), n, std::chrono::milliseconds(60000));
    uint64_t ms = (vf::nowNs() - t0) / 1000000ull;
    calls++;
    if (r.isOk())
    {
      if (r.value() > len || r.value() != n || r.value() == 0) { O.viol("C03:recv:returned-more-than-buffer", "receiveSync ok(n) with n outside (0, len] or len out-param mismatch (tcp)", detail + "}"); break; }
      got.insert(got.end(), buf.begin(), buf.begin() + long(r.value()));
      if (got.size() > size_t(total) + 16) break;
      continue;
    }
    finalCode = int(r.error().code);
    if (finalCode == int(TransportError::Timeout) && ms >= 59000) tooLong = true;
    break;
  }
#if !VF_TSAN
  vf::shim::condvarPolicy().maxDelayUs = 0;
#endif
  if (peer.joinable()) peer.join();
  size_t firstDiff = 0;
  while (firstDiff < got.size() && firstDiff < stream.size() && got[firstDiff] == stream[firstDiff]) firstDiff++;
  std::string d2 = detail + ",\"returned\":" + std::to_string(got.size()) + ",\"final\":" + std::to_string(finalCode) + ",\"first_difference_at\":" + std::to_string(firstDiff) +
                   ",\"calls\":" + std::to_string(calls) + "}";
  if (tooLong) O.inconclusive("C03 tcp: receiveSync waited 60 s (history " + std::to_string(idx) + ")");
  else if (firstDiff < got.size())
    O.viol("C03:tcp:stream-mismatch", "bytes returned by receiveSync differ from the stream the peer wrote (lost, duplicated or reordered bytes)", d2);
  else if (finalCode == int(TransportError::PeerClosed) && got.size() < stream.size())
    O.viol("C03:tcp:peerclosed-before-drain", "PeerClosed returned before every byte the peer wrote ahead of its FIN had been returned", d2);
  else if (finalCode != int(TransportError::PeerClosed))
    O.viol("C03:tcp:unexpected-final-result", "the read loop ended with something other than PeerClosed", d2);
  else
  {
    O.obs("tcp_peerclosed_after_full_drain");
    std::vector<uint8_t> buf(64);
    size_t n = buf.size();
    auto r = S.tr->receiveSync(sid, buf.data(), n, std::chrono::milliseconds(0));
    if (r.isOk()) O.viol("C03:close:data-after-peerclosed", "receiveSync returned data after PeerClosed (tcp)", d2);
  }
  O.obs("histories_tcp"); O.obs("tcp_bytes", got.size()); O.obs("tcp_recv_calls", calls);
  if (parkedFirst) O.obs("tcp_reader_parked_before_peer_wrote");
  if (closeSeenBeforeFirstRead) O.obs("tcp_fin_processed_before_first_read");
  char sig[96];
  snprintf(sig, sizeof sig, "tcp t=%d c=%d sz=%d lp=%d pc=%d", timing, ioraConnects ? 1 : 0, total <= 64 ? 0 : total <= 6000 ? 1 : 2, lenProfile, piece ? 1 : 0);
  O.caseSig(vf::fnv(sig, strlen(sig)));
  if (idx % 41 == 0) O.sample(d2.substr(0, d2.size() - 1) + ",\"kind\":\"tcp\"}");
}

static void tcpFinish()
{
  auto &S = c03tcp::sh();
  if (S.tr) { S.tr->stop(); S.tr.reset(); }
}
