// /verif/harness/c20_shim_stat.hpp — stat-family / readlink / realpath interposers for the C20 TOCTOU sweep.
//
// The shared fileio shim (shim/shims.hpp, VF_SHIM_FILEIO) counts open/openat/read/close under the
// case prefix and can fire a callback immediately before the k-th counted call. web::Assets spends
// most of a lookup in std::filesystem::weakly_canonical / is_regular_file, which reach the kernel
// through stat(), lstat(), readlink() and realpath() (libstdc++.so imports exactly these from
// libc). This header defines those entry points in the harness executable too, so they are counted
// in the same sequence and every gap between two library calls of a lookup becomes a swap point.
//
// realpath() walks the path with libc-internal lstat/readlink calls that cannot be interposed; it
// is counted as one call (swap points: immediately before it and immediately after it). A swap of
// the leaf during realpath is equivalent to one of these two for the final component, because
// realpath looks at the final component exactly once.
//
// Include AFTER `#define VF_SHIM_FILEIO` + "shim/shims.hpp", in exactly one TU.
#pragma once
#ifndef VF_SHIM_FILEIO
#error "c20_shim_stat.hpp needs VF_SHIM_FILEIO and shim/shims.hpp included first"
#endif
#include <climits>
#include <cstdlib>
#include <sys/stat.h>

namespace c20shim {

struct TraceEnt { int64_t at; const char *fn; };
struct Trace
{
  std::mutex m;
  bool on = false;
  std::vector<TraceEnt> ents;
};
inline Trace &trace() { static Trace t; return t; }
inline std::atomic<uint64_t> &statCalls() { static std::atomic<uint64_t> v{0}; return v; }

// count one path-based call (and fire the scripted swap if its index is due)
inline void hit(const char *fn, const char *path)
{
  bool rel = vf::shim::underPrefix(path) && !vf::shim::tlsFileExempt;
  if (!rel) return;
  auto &p = vf::shim::filePolicy();
  if (p.counting)
  {
    statCalls().fetch_add(1, std::memory_order_relaxed);
    auto &t = trace();
    if (t.on) { std::lock_guard<std::mutex> g(t.m); t.ents.push_back(TraceEnt{p.counter.load(), fn}); }
  }
  vf::shim::countCall(true);
}

} // namespace c20shim

extern "C" {

int stat(const char *path, struct stat *st)
{
  c20shim::hit("stat", path);
  return (int)syscall(SYS_newfstatat, AT_FDCWD, path, st, 0);
}
int lstat(const char *path, struct stat *st)
{
  c20shim::hit("lstat", path);
  return (int)syscall(SYS_newfstatat, AT_FDCWD, path, st, AT_SYMLINK_NOFOLLOW);
}
int stat64(const char *path, struct stat64 *st)
{
  c20shim::hit("stat", path);
  return (int)syscall(SYS_newfstatat, AT_FDCWD, path, st, 0);
}
int lstat64(const char *path, struct stat64 *st)
{
  c20shim::hit("lstat", path);
  return (int)syscall(SYS_newfstatat, AT_FDCWD, path, st, AT_SYMLINK_NOFOLLOW);
}
int fstatat(int dirfd, const char *path, struct stat *st, int flags)
{
  c20shim::hit("fstatat", path);
  return (int)syscall(SYS_newfstatat, dirfd, path, st, flags);
}
int fstatat64(int dirfd, const char *path, struct stat64 *st, int flags)
{
  c20shim::hit("fstatat", path);
  return (int)syscall(SYS_newfstatat, dirfd, path, st, flags);
}
int __xstat(int, const char *path, struct stat *st) { return stat(path, st); }
int __lxstat(int, const char *path, struct stat *st) { return lstat(path, st); }
int __xstat64(int, const char *path, struct stat64 *st) { return stat64(path, st); }
int __lxstat64(int, const char *path, struct stat64 *st) { return lstat64(path, st); }
int statx(int dirfd, const char *path, int flags, unsigned int mask, struct statx *stx)
{
  c20shim::hit("statx", path);
  return (int)syscall(SYS_statx, dirfd, path, flags, mask, stx);
}
ssize_t readlink(const char *path, char *buf, size_t len)
{
  c20shim::hit("readlink", path);
  return syscall(SYS_readlinkat, AT_FDCWD, path, buf, len);
}
ssize_t readlinkat(int dirfd, const char *path, char *buf, size_t len)
{
  c20shim::hit("readlinkat", path);
  return syscall(SYS_readlinkat, dirfd, path, buf, len);
}
int access(const char *path, int mode)
{
  c20shim::hit("access", path);
  return (int)syscall(SYS_faccessat, AT_FDCWD, path, mode);
}
char *realpath(const char *path, char *resolved)
{
  static auto fn = vf::shim::real<char *(*)(const char *, char *)>("realpath", "GLIBC_2.3");
  c20shim::hit("realpath", path);
  return fn(path, resolved);
}
char *__realpath_chk(const char *path, char *resolved, size_t)
{
  return realpath(path, resolved);
}

} // extern "C"
