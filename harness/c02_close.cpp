// C02 harness: every session id the application has seen gets exactly one close; nothing before
// announce or after close; ordered close fan-out; sessions gauge.
// Randomised histories on the real TCP and UDP engines behind iora::network::Transport, judged by
// the online per-id state machine in c02_monitor.hpp. Modes: --mode hist --seed S --from A --count N --par P
#define VF_SHIM_RESOLVE
#include "shim/shims.hpp"
#include "vf.hpp"

#include "c02_actors.hpp"

#include <csignal>
#include <list>

using namespace c02;

static std::string gTmp;
static std::mutex gWdMu;
static std::map<uint64_t, std::pair<uint64_t, std::string>> gWd; // hist -> (start ns, phase)
static double gWatchdogS = 420;
static bool gDirtyRestart = true; // restart TCP transports although sessions were open at stop() (0: only from a clean stop)
static void wdSet(uint64_t h, const std::string &ph) { std::lock_guard<std::mutex> g(gWdMu); gWd[h] = {nowNs(), ph}; }
static void wdClear(uint64_t h) { std::lock_guard<std::mutex> g(gWdMu); gWd.erase(h); }

template <class T> static T pickW(vf::Rng &r, const std::vector<std::pair<T, double>> &w)
{
  double tot = 0; for (auto &x : w) tot += x.second;
  double v = double(r.next() >> 11) * (1.0 / 9007199254740992.0) * tot;
  for (auto &x : w) { if (v < x.second) return x.first; v -= x.second; }
  return w.back().first;
}

static std::shared_ptr<CbPlan> genCbPlan(vf::Rng &r, bool outbound)
{
  if (!r.chance(0.62)) return nullptr;
  auto c = std::make_shared<CbPlan>();
  c->seed = r.next();
  c->obsAtAnnounce = r.chance(0.5) ? int(r.range(1, 2)) : 0;
  c->udAtAnnounce = r.chance(0.35);
  c->closeAtAnnounce = r.chance(0.04);
  c->obsAtData = r.chance(0.3) ? 1 : 0;
  c->udAtData = r.chance(0.15);
  c->unobsAtData = r.chance(0.2);
  c->closeAtData = r.chance(0.05);
  c->modeAtData = r.chance(0.08);
  c->obsAtClose = r.chance(0.3) ? int(r.range(1, 2)) : 0;
  c->udAtClose = r.chance(0.15);
  c->unobsAtClose = r.chance(0.2);
  c->udCallbacks = c->udAtAnnounce || c->udAtData || c->udAtClose || r.chance(0.15);
  c->gate = outbound && r.chance(0.7);
  return c;
}

static void genCommon(vf::Rng &r, Plan &p, bool outbound)
{
  p.seed = r.next();
  p.cb = genCbPlan(r, outbound);
  if (p.cb) { p.cb->planKind = p.kind; p.cb->planEnd = p.end; }
  p.actObs = r.chance(0.55) ? int(r.range(1, 3)) : 0;
  p.actUnobs = p.actObs && r.chance(0.4) ? int(r.range(1, 2)) : 0;
  p.actUd = r.chance(0.35); p.actUdReplace = r.chance(0.3);
  p.racyObs = r.chance(0.2); p.racyUd = r.chance(0.12);
  p.peerData = r.chance(0.6); p.appData = r.chance(0.4); p.dataAtEnd = r.chance(0.3); p.earlyData = r.chance(0.4);
  p.startMs = double(r.below(250));
  p.midMs = r.chance(0.3) ? 0 : double(r.below(120));
  p.raceJitterMs = double(int64_t(r.below(13)) - 6);
  p.stallAtRace = r.chance(0.6);
  bool rmKind = p.kind == K_OUT_PLAIN || p.kind == K_IN_PLAIN || p.kind == K_U_IN || p.kind == K_U_OUT || p.kind == K_U_VIA;
  p.rm = rmKind && r.chance(0.3);
  p.rmLeaveDisabled = false;
  p.rmPartialDrain = r.chance(0.55); p.rmDisabledFlip = r.chance(0.2); p.rmLiveFlush = r.chance(0.3); p.rmOverlap = r.chance(0.3);
  if (p.rm)
  {
    // the actor is the only user-data agent of a read-mode session: its cleanup marks the end of the close fan-out
    p.actUd = true; p.racyUd = false;
    if (p.cb) { p.cb->udCallbacks = false; p.cb->udAtAnnounce = p.cb->udAtData = p.cb->udAtClose = false; }
  }
  p.rmAfter = int(pickW(r, std::vector<std::pair<int, double>>{{0, 55}, {1, 20}, {2, 10}, {3, 15}}));
}

static std::vector<Plan> genTcpPlans(vf::Rng &r, Run &H, int n, bool bp, bool wstall)
{
  std::vector<Plan> out;
  std::vector<std::pair<int, double>> kinds = {{K_OUT_PLAIN, 18}, {K_OUT_REFUSED, 8}, {K_OUT_BLACKHOLE, 6}, {K_OUT_UNRESOLVABLE, 6},
                                               {K_OUT_DNS_SLOW, 0.25}, {K_IN_PLAIN, 22}, {K_OUT_SELF_PLAIN, 6}, {K_OUT_NOROUTE, 4}, {K_OUT_EINVAL, 3}};
  if (H.tls)
    for (auto k : std::vector<std::pair<int, double>>{{K_OUT_TLS_GARBAGE, 4}, {K_OUT_TLS_EOF, 4}, {K_OUT_TLS_SILENT, 5}, {K_OUT_TLS_PEER, 6},
                                                       {K_OUT_SELF_TLS, 5}, {K_IN_TLS_GARBAGE, 4}, {K_IN_TLS_SILENT, 4}, {K_IN_TLS_CLIENT, 5}})
      kinds.push_back(k);
  const bool hi = H.hiResTimers;
  for (int i = 0; i < n; i++)
  {
    Plan p; p.kind = pickW(r, kinds);
    bool established = p.kind == K_OUT_PLAIN || p.kind == K_IN_PLAIN || p.kind == K_OUT_TLS_PEER || p.kind == K_IN_TLS_CLIENT;
    bool plain = p.kind == K_OUT_PLAIN || p.kind == K_IN_PLAIN;
    double timer = std::min(H.connectToMs, H.handshakeToMs);
    double est = 150;
    if (established)
    {
      std::vector<std::pair<int, double>> ends = {{E_APP, 30}, {E_FIN, 25}, {E_RST, 15}, {E_STOP, 10}};
      if (H.idleGcCfg) ends.push_back({E_IDLE, 30});
      if (bp && plain) ends.push_back({E_BACKPRESSURE, 22});
      if (wstall && plain) ends.push_back({E_WSTALL, 6});
      p.end = pickW(r, ends);
      if (p.kind == K_OUT_TLS_PEER && hi && r.chance(0.4)) { p.end = E_RACE_COMPLETE; est = timer + 200; }
      if (p.end == E_IDLE) est = 2400;
      if (p.end == E_WSTALL) est = 1500;
    }
    else if (p.kind == K_OUT_SELF_PLAIN || p.kind == K_OUT_SELF_TLS)
    {
      std::vector<std::pair<int, double>> ends = {{E_APP, 60}, {E_STOP, 15}};
      if (H.idleGcCfg) ends.push_back({E_IDLE, 25});
      p.end = pickW(r, ends);
      if (p.end == E_IDLE) est = 2400;
    }
    else if (p.kind == K_OUT_BLACKHOLE)
    {
      p.end = pickW(r, std::vector<std::pair<int, double>>{{E_SELF, 50}, {hi ? E_RACE_APP : E_SELF, 25}, {E_APP, 15}, {E_STOP, 10}});
      est = H.connectToMs + (hi ? 150 : 1200);
    }
    else if (p.kind == K_OUT_TLS_SILENT || p.kind == K_IN_TLS_SILENT)
    {
      if (hi) p.end = pickW(r, std::vector<std::pair<int, double>>{{E_SELF, 35}, {E_RACE_FIN, 25}, {E_RACE_RST, 20}, {E_RACE_APP, 20}});
      else p.end = pickW(r, std::vector<std::pair<int, double>>{{E_SELF, 40}, {E_FIN, 20}, {E_RST, 20}, {E_APP, 20}});
      est = timer + (hi ? 150 : 1200);
    }
    else { p.end = E_SELF; if (p.kind == K_OUT_DNS_SLOW) est = 2600; }
    genCommon(r, p, isOutbound(p.kind));
    if (!hi && (p.end == E_FIN || p.end == E_RST || p.end == E_APP) && (p.kind == K_OUT_TLS_SILENT || p.kind == K_IN_TLS_SILENT)) p.midMs = double(r.below(uint64_t(timer) + 400));
    p.estMs = p.startMs + p.midMs + est;
    out.push_back(p);
  }
  return out;
}

static std::vector<Plan> genUdpPlans(vf::Rng &r, Run &H, int n)
{
  std::vector<Plan> out;
  std::vector<std::pair<int, double>> kinds = {{K_U_IN, 30}, {K_U_OUT, 20}, {K_U_VIA, 18}, {K_U_FAIL_RESOLVE, 8}, {K_U_FAIL_VIA_NOLISTENER, 6},
                                               {K_U_FAIL_VIA_AF, 6}, {K_U_ICMP, 8}, {K_U_FAIL_CONNECT, 5}, {K_U_SHARED_PEER, 14}};
  for (int i = 0; i < n; i++)
  {
    Plan p; p.kind = pickW(r, kinds);
    double est = 120;
    if (p.kind == K_U_IN || p.kind == K_U_OUT || p.kind == K_U_VIA || p.kind == K_U_SHARED_PEER)
    {
      std::vector<std::pair<int, double>> ends = {{E_APP, 55}, {E_STOP, 20}};
      if (H.idleGcCfg) ends.push_back({E_IDLE, 40});
      p.end = pickW(r, ends);
      if (p.end == E_IDLE) est = 2400;
    }
    else if (p.kind == K_U_ICMP) { p.end = r.chance(0.7) ? E_SELF : E_APP; est = 400; }
    else p.end = E_SELF;
    genCommon(r, p, p.kind != K_U_IN);
    p.estMs = p.startMs + p.midMs + est;
    out.push_back(p);
  }
  return out;
}

static void emitInconcl(uint64_t hist, const std::string &key, const std::string &what)
{
  vf::out().line("{\"t\":\"c02_inconcl\",\"hist\":" + std::to_string(hist) + ",\"key\":" + vf::jstr(key) + ",\"what\":" + vf::jstr(what) + "}");
}

static void runHistory(uint64_t seed, uint64_t idx)
{
  auto &O = vf::out();
  auto HP = std::make_unique<Run>();
  Run &H = *HP;
  vf::Rng rng(seed, idx * 2 + 1);
  H.seed = seed; H.idx = idx;
  H.udp = rng.chance(0.28);
  H.ioRng = vf::Rng(seed ^ 0x5eed, idx);
  wdSet(idx, "setup");

  // ---- configuration
  TransportConfig &c = H.cfg;
  c.gcInterval = std::chrono::seconds(1);
  H.idleGcCfg = rng.chance(0.27);
  c.idleTimeout = std::chrono::seconds(H.idleGcCfg ? 1 : 600);
  H.hiResTimers = rng.chance(0.75);
  c.enableHighResolutionTimers = H.hiResTimers;
  H.connectToMs = double(rng.range(120, 350)); H.handshakeToMs = double(rng.range(120, 350));
  c.connectTimeout = std::chrono::milliseconds(int(H.connectToMs));
  c.handshakeTimeout = std::chrono::milliseconds(int(H.handshakeToMs));
  bool bp = !H.udp && rng.chance(0.33), wstall = !H.udp && rng.chance(0.3);
  if (bp) c.maxWriteQueue = 2;
  if (bp || wstall) c.soSndBuf = 4096;
  if (wstall) c.writeStallTimeout = std::chrono::milliseconds(150);
  c.useEdgeTriggered = rng.chance(0.7);
  c.batching.enabled = rng.chance(0.2);
  H.tls = !H.udp && rng.chance(0.55);
  if (H.tls)
  {
    c.serverTls.enabled = true; c.serverTls.defaultMode = TlsMode::Server; c.serverTls.certFile = fx().certPath; c.serverTls.keyFile = fx().keyPath;
    c.clientTls.enabled = true; c.clientTls.defaultMode = TlsMode::Client; c.clientTls.verifyPeer = false;
  }
  H.reconnectOnClose = rng.chance(0.6);
  H.microStallP = rng.chance(0.5) ? 0.03 : 0.0;
  int phases = rng.chance(0.15) ? 2 : 1;
  // --dirty-restart 0 restarts TCP transports only from a clean stop (no session left for shutdownDrain): before fix
  // 40be124 a stop() with open sessions left stale fd tags behind and the restarted engine used freed sessions.
  const bool cleanRestart = !H.udp && phases == 2 && !gDirtyRestart;
  // how the transport ends: 0 stop() then destroy; 1 the last owner is dropped on an application thread while it is
  // running with open sessions; 2 the last owner is dropped from inside a callback (deferred self-destruct)
  const int tdKind = pickW(rng, std::vector<std::pair<int, double>>{{0, 62}, {1, 26}, {2, 12}});
  if (cleanRestart) H.reconnectOnClose = false;
  {
    std::ostringstream d;
    d << (H.udp ? "udp" : "tcp") << " idleGc=" << H.idleGcCfg << " hiResTimers=" << H.hiResTimers << " et=" << c.useEdgeTriggered << " batch=" << c.batching.enabled
      << " tls=" << H.tls << " bp=" << bp << " wstall=" << wstall << " cto=" << H.connectToMs << " hto=" << H.handshakeToMs << " reconnect=" << H.reconnectOnClose
      << " phases=" << phases << " teardown=" << tdKind;
    H.cfgDesc = d.str();
  }
  H.T = H.udp ? Transport::udp(c) : Transport::tcp(c);
  H.install();
  H.spawnConnect = [&H](bool fromIo) {
    vf::Rng r(stamp(), 9);
    if (H.udp)
    {
      if (r.chance(0.7)) H.doConnect("127.0.0.1", fx().udpSinkPort, TlsMode::None, T_SINK, nullptr, fromIo);
      else H.doConnect("vf-nx.invalid", 5060, TlsMode::None, T_UNRESOLVABLE, nullptr, fromIo);
    }
    else
    {
      int k = int(r.below(10));
      if (k < 5) H.doConnect("127.0.0.1", fx().refusedPort, TlsMode::None, T_REFUSED, nullptr, fromIo);
      else if (k < 8) H.doConnect("127.0.0.1", fx().sinkPort, TlsMode::None, T_SINK, nullptr, fromIo);
      else H.doConnect("vf-nx.invalid", 80, TlsMode::None, T_UNRESOLVABLE, nullptr, fromIo);
    }
  };

  std::string stopModes;
  bool harnessTrouble = false;
  for (int ph = 0; ph < phases && !harnessTrouble; ph++)
  {
    wdSet(idx, "phase" + std::to_string(ph) + ":start");
    H.stopping = false; H.stopDone = false;
    { std::lock_guard<std::mutex> g(H.mu); H.stopBeginSeq = 0; H.stopEndSeq = 0; H.portToSid.clear(); H.planByPort.clear(); }
    H.reconnectBudget = int(rng.range(2, 8));
    auto sr = H.T->start();
    if (!sr.isOk()) { emitInconcl(idx, "", "transport start() failed: " + sr.error().message); harnessTrouble = true; break; }
    auto lr = H.T->addListener("127.0.0.1", 0, TlsMode::None);
    if (!lr.isOk()) { emitInconcl(idx, "", "addListener failed: " + lr.error().message); H.T->stop(); harnessTrouble = true; break; }
    H.l0 = lr.value(); H.l0port = H.T->getListenerAddress(H.l0).port;
    if (H.tls)
    {
      auto l1 = H.T->addListener("127.0.0.1", 0, TlsMode::Server);
      if (l1.isOk()) { H.l1 = l1.value(); H.l1port = H.T->getListenerAddress(H.l1).port; H.tlsListenerPort = H.l1port; }
    }
    if (!H.l0port || (H.tls && !H.l1port)) { emitInconcl(idx, "", "listener port unknown"); H.T->stop(); harnessTrouble = true; break; }
    // poke channel: an ordinary accepted session whose data callbacks let the harness stall the I/O thread
    uint16_t pokePort = 0;
    if (H.udp) H.pokeFd = udpSocket(&pokePort);
    else { H.pokeFd = tcpClientSocket(0, &pokePort); if (H.pokeFd >= 0 && !tcpConnectTo(H.pokeFd, H.l0port, 10000)) { close(H.pokeFd); H.pokeFd = -1; } }
    H.poke();

    int n = ph == 0 ? int(rng.range(8, 22)) : int(rng.range(3, 6));
    std::vector<Plan> plans = H.udp ? genUdpPlans(rng, H, n) : genTcpPlans(rng, H, n, bp, wstall);
    double maxEst = 0; for (auto &p : plans) maxEst = std::max(maxEst, p.estMs);
    bool stopAfterActors = rng.chance(0.45);
    double stopAtMs = maxEst * (0.05 + 0.95 * double(rng.below(1000)) / 1000.0);
    bool hammer = rng.chance(0.3);
    const bool destroyRunning = tdKind != 0 && ph == phases - 1;
    if (destroyRunning)
    {
      // sessions still open at the teardown, a seeded majority of them with user data and observers, in Async, Sync and Disabled mode
      stopAfterActors = true; hammer = false;
      for (auto &p : plans)
      {
        bool est = p.kind == K_OUT_PLAIN || p.kind == K_IN_PLAIN || p.kind == K_OUT_TLS_PEER || p.kind == K_IN_TLS_CLIENT || p.kind == K_OUT_SELF_PLAIN ||
                   p.kind == K_OUT_SELF_TLS || p.kind == K_U_IN || p.kind == K_U_OUT || p.kind == K_U_VIA || p.kind == K_U_SHARED_PEER;
        if (!est || !rng.chance(0.65)) continue;
        p.end = E_STOP; if (p.cb) { p.cb->planEnd = E_STOP; p.cb->closeAtAnnounce = p.cb->closeAtData = false; }
        if (rng.chance(0.8)) { p.actObs = std::max(p.actObs, 1); p.actUnobs = 0; p.actUd = true; p.racyUd = false; if (p.cb && p.cb->udCallbacks) p.cb->udAtAnnounce = true; }
        bool rmKind = p.kind == K_OUT_PLAIN || p.kind == K_IN_PLAIN || p.kind == K_U_IN || p.kind == K_U_OUT || p.kind == K_U_VIA;
        if (rmKind && rng.chance(0.45))
        {
          p.rm = true; p.rmOverlap = false; p.rmLeaveDisabled = rng.chance(0.4);
          p.actUd = true; if (p.cb) { p.cb->udCallbacks = false; p.cb->udAtAnnounce = p.cb->udAtData = p.cb->udAtClose = false; }
        }
      }
    }
    if (cleanRestart && ph == 0)
    {
      for (auto &p : plans) if (p.end == E_STOP) { p.end = E_APP; if (p.cb) p.cb->planEnd = E_APP; }
      stopAfterActors = true; hammer = false;
    }
    stopModes += stopAfterActors ? "A" : "R";
    H.stopWaitsForActors = stopAfterActors;

    std::atomic<int> actorsRunning{int(plans.size())};
    std::vector<std::thread> th;
    for (auto &p : plans)
      th.emplace_back([&H, &actorsRunning, p] { if (H.udp) H.udpActor(p); else H.tcpActor(p); actorsRunning--; H.cv.notify_all(); });
    wdSet(idx, "phase" + std::to_string(ph) + ":running");
    uint64_t t0 = nowNs();
    if (stopAfterActors)
    {
      while (actorsRunning.load() > 0) sleepMs(5);
      if (cleanRestart && ph == 0)
      {
        if (H.pokeFd >= 0) { close(H.pokeFd); H.pokeFd = -1; }
        bool clean = H.waitUntil([&] { for (auto &kv : H.sess) if ((kv.second.connRet || kv.second.ann) && !kv.second.closes) return false; return H.inflight == 0; }, 10000);
        if (!clean) { phases = 1; H.countL("restart_skipped_not_clean"); } else H.countL("restarts_from_clean_stop");
      }
      // quiescent point: if every id seen so far is closed and nothing is in flight the gauge must read 0
      for (int tries = 0; tries < 40; tries++)
      {
        uint64_t sigA, sigB; bool allClosed = true;
        { std::lock_guard<std::mutex> g(H.mu); for (auto &kv : H.sess) if ((kv.second.connRet || kv.second.ann) && !kv.second.closes) allClosed = false; allClosed = allClosed && H.inflight == 0; sigA = H.nCloseCb * 1000003 + H.sess.size() + H.maxId * 7919; }
        if (!allClosed) break;
        size_t gauge = H.T->getStats().sessionsCurrent;
        sleepMs(2);
        { std::lock_guard<std::mutex> g(H.mu); sigB = H.nCloseCb * 1000003 + H.sess.size() + H.maxId * 7919; }
        if (sigA != sigB) continue;
        std::lock_guard<std::mutex> g(H.mu);
        H.count("gauge_quiescent_all_closed_samples");
        if (gauge != 0) H.viol(H.K("gauge-nonzero-at-end:all-closed"), "every id seen so far is closed and no connect is in flight, but getStats().sessionsCurrent is not 0", nullptr, "\"gauge\":" + std::to_string(int64_t(gauge)));
        break;
      }
    }
    else
    {
      while (double(nowNs() - t0) / 1e6 < stopAtMs && actorsRunning.load() > 0) sleepMs(2);
    }
    std::thread hammerTh;
    if (hammer)
      hammerTh = std::thread([&H] {
        vf::Rng r(H.seed * 31 + H.idx, 4);
        int errs = 0;
        for (int i = 0; i < 400 && errs < 3; i++)
        {
          uint64_t sid = H.udp ? H.doConnect("127.0.0.1", fx().udpSinkPort, TlsMode::None, T_SINK, nullptr, false)
                               : H.doConnect("127.0.0.1", r.chance(0.6) ? fx().refusedPort : fx().sinkPort, TlsMode::None, r.chance(0.6) ? T_REFUSED : T_SINK, nullptr, false);
          if (!sid && H.stopping.load()) errs++;
          if (r.chance(0.5)) sleepMs(double(r.below(300)) / 1000.0);
        }
      });
    if (hammer) sleepMs(double(rng.below(4)));
    // ---- orderly stop
    wdSet(idx, "phase" + std::to_string(ph) + ":stop");
    {
      std::lock_guard<std::mutex> g(H.mu);
      int open = 0, pend = 0;
      for (auto &kv : H.sess) { if (kv.second.ann && !kv.second.closes) open++; if (kv.second.connRet && !kv.second.ann && !kv.second.closes) pend++; }
      if (open) H.count("il_stop_with_open_sessions"); if (pend) H.count("il_stop_with_pending_connects");
      H.stopBeginSeq = stamp();
    }
    H.stopping = true;
    if (!destroyRunning) H.T->stop();
    else
    {
      {
        // the application keeps context on its sessions: give most open sessions that have none an observer and user data
        std::vector<uint64_t> bare;
        { std::lock_guard<std::mutex> g(H.mu); for (auto &kv : H.sess) if (kv.second.ann && !kv.second.closes && kv.second.uds.empty() && !(kv.second.plan && kv.second.plan->udCallbacks)) bare.push_back(kv.first); }
        for (uint64_t sid : bare) if (rng.chance(0.7)) { if (rng.chance(0.6)) H.addObserver(sid, RC_ACTOR, rng.next()); H.setUserData(sid, RC_ACTOR); }
      }
      {
        std::lock_guard<std::mutex> g(H.mu);
        int withUd = 0, open = 0;
        for (auto &kv : H.sess) if (kv.second.ann && !kv.second.closes) { open++; for (UdRec *u : kv.second.uds) if (u->regEnd) { withUd++; break; } }
        H.count("teardown_open_sessions", uint64_t(open)); H.count("teardown_open_sessions_with_userdata", uint64_t(withUd));
      }
      bool dropped = false;
      if (tdKind == 2)
      {
        { std::lock_guard<std::mutex> g(H.mu); H.doomOwner = std::move(H.T); H.T.reset(); }
        H.doomArmed = true;
        for (int i = 0; i < 60 && !H.doomDone.load(); i++) { H.poke(); sleepMs(50); }
        if (H.doomDone.load()) dropped = true;
        else
        {
          // no data callback came (poke session gone): take the owner back and drop it here instead
          std::shared_ptr<Transport> o;
          { std::lock_guard<std::mutex> g(H.mu); o = std::move(H.doomOwner); H.doomOwner.reset(); }
          H.doomArmed = false;
          if (o) { H.Traw = nullptr; H.countL("teardown_drop_last_owner_user_thread"); H.countL("teardown_in_callback_fell_back"); o.reset(); dropped = true; }
          else dropped = true; // the callback got it after all
        }
      }
      else
      {
        H.Traw = nullptr;
        std::shared_ptr<Transport> o = std::move(H.T); H.T.reset();
        H.countL("teardown_drop_last_owner_user_thread");
        o.reset(); // ~Transport here, while running, with sessions open
        dropped = true;
      }
      (void)dropped;
      // the monitor outlives the transport: wait until its callback storage is gone (deferred on the self-destruct path)
      while (!H.implGone.load()) sleepMs(2);
    }
    { std::lock_guard<std::mutex> g(H.mu); H.stopEndSeq = stamp(); }
    H.stopDone = true; H.cv.notify_all();
    wdSet(idx, "phase" + std::to_string(ph) + ":join");
    if (hammerTh.joinable()) hammerTh.join();
    for (auto &t : th) t.join();
    if (H.pokeFd >= 0) { close(H.pokeFd); H.pokeFd = -1; }
    H.finalizePhase(destroyRunning ? "destroyed-while-running" : ph == 0 ? "first-run" : "after-restart", !destroyRunning);
  }
  wdSet(idx, "destroy");
  H.Traw = nullptr;
  H.T.reset();
  while (!H.implGone.load() && !harnessTrouble) sleepMs(1);
  {
    // conservation after the transport object is gone: every cleanup registered on an announced, closed session before its close
    // (and not replaced) has run exactly once - nothing can run any more
    std::lock_guard<std::mutex> g(H.mu);
    uint64_t reg = 0, ran = 0;
    for (auto &kv : H.sess)
    {
      Sess &S = kv.second;
      if (!S.ann || !S.closes) continue;
      UdRec *cur = nullptr; bool racy = false;
      for (UdRec *u : S.uds)
      {
        bool inFan = (u->ctx == RC_GLOBALCLOSE || u->ctx == RC_OBSERVER) && u->regFanSid == S.id;
        if ((u->regEnd && u->regEnd < S.closeSeq) || inFan) { if (!cur || u->regEnd > cur->regEnd) cur = u; } else racy = true;
      }
      if (!cur || racy) continue;
      reg++; ran += cur->fired ? 1 : 0;
      if (cur->fired != 1 && S.finalized)
        H.viol(H.K("fanout:cleanup-not-run-by-transport-destruction"), "user data registered with a cleanup on an announced session: the cleanup had not run exactly once when the transport object was gone", &S,
               "\"fired\":" + std::to_string(cur->fired) + ",\"teardown\":" + std::to_string(tdKind));
    }
    H.count("cleanup_conservation_registered", reg); H.count("cleanup_conservation_ran", ran);
  }
  wdClear(idx);

  // ---- evidence
  {
    std::lock_guard<std::mutex> g(H.mu);
    std::string pre = H.udp ? "udp_" : "tcp_";
    for (auto &kv : H.counters) O.obs((kv.first.rfind("il_", 0) == 0 ? "il_" + pre + kv.first.substr(3) : pre + kv.first), kv.second);
    O.obs(pre + "histories"); O.obs("histories");
    O.obs(pre + "callbacks_accept", H.nAccept); O.obs(pre + "callbacks_connect", H.nConnectCb); O.obs(pre + "callbacks_close", H.nCloseCb); O.obs(pre + "callbacks_data", H.nData);
    if (phases > 1) O.obs(pre + "restarts");
    std::string sig = H.cfgDesc.substr(0, 3) + " gc=" + std::to_string(H.idleGcCfg) + " hi=" + std::to_string(H.hiResTimers) + " tls=" + std::to_string(H.tls) + " stop=" + stopModes + " |";
    for (auto &s : H.sigParts) sig += " " + s;
    for (auto &kv : H.counters) if (kv.first.rfind("il_", 0) == 0) sig += " " + kv.first;
    O.caseSig(vf::fnv(sig));
    for (auto &w : H.inconcl) emitInconcl(idx, H.K(w), "expected close did not arrive within 25 s while the transport was running (" + w + ")");
    if (idx % 7 == 0)
      O.sample("{\"kind\":\"history\",\"hist\":" + std::to_string(idx) + ",\"cfg\":" + vf::jstr(H.cfgDesc) + ",\"ids_seen\":" + std::to_string(H.counters["ids_seen"]) +
               ",\"close_callbacks\":" + std::to_string(H.nCloseCb) + ",\"observer_fires\":" + std::to_string(H.counters["observer_fires"]) +
               ",\"cleanup_fires\":" + std::to_string(H.counters["cleanup_fires"]) + ",\"sig\":" + vf::jstr(sig.substr(0, 600)) + "}");
  }
  O.line("{\"t\":\"c02_done\",\"hist\":" + std::to_string(idx) + ",\"viol\":" + std::to_string(H.violCount) + "}");
}

int main(int argc, char **argv)
{
  vf::Args a(argc, argv);
  signal(SIGPIPE, SIG_IGN);
  raiseFdLimit();
  uint64_t seed = a.u("seed", 1), from = a.u("from", 0), count = a.u("count", 4), par = a.u("par", 3);
  gWatchdogS = double(a.u("watchdog", 420));
  gTmp = a.s("tmp", "/tmp");
  gDirtyRestart = a.u("dirty-restart", 1) != 0;
  auto &O = vf::out();
  // resolver script: nothing non-numeric ever reaches a real resolver
  {
    auto &rp = vf::shim::resolvePolicy();
    std::lock_guard<std::mutex> g(rp.m);
    rp.script["vf-nx.invalid"] = {0, EAI_NONAME};
    rp.script["vf-slow.invalid"] = {2300, EAI_AGAIN};
  }
  if (!fx().init(gTmp)) { O.inconclusive("fixture setup failed (pki / fixture sockets)"); O.flush(); return 3; }

  std::atomic<bool> done{false};
  std::thread wd([&] {
    while (!done.load())
    {
      sleepMs(200);
      std::lock_guard<std::mutex> g(gWdMu);
      for (auto &kv : gWd)
        if (double(nowNs() - kv.second.first) / 1e9 > gWatchdogS)
        {
          emitInconcl(kv.first, "", "watchdog: history stuck in phase '" + kv.second.second + "' for more than " + std::to_string(int(gWatchdogS)) + " s");
          O.flush(); fflush(nullptr); _exit(0);
        }
    }
  });
  std::atomic<uint64_t> next{from};
  std::vector<std::thread> workers;
  for (uint64_t w = 0; w < std::max<uint64_t>(1, par); w++)
    workers.emplace_back([&] { for (;;) { uint64_t i = next.fetch_add(1); if (i >= from + count) break; runHistory(seed, i); } });
  for (auto &t : workers) t.join();
  done = true; wd.join();
  O.obs("resolver_calls", vf::shim::resolvePolicy().calls.load());
  O.obs("resolver_scripted", vf::shim::resolvePolicy().scripted.load());
  fx().shutdown();
  O.flush();
  return 0;
}
