// /verif/harness/c04_net.hpp — shared by the C04 and C05 harnesses (owned by the C04/C05 builder).
// Raw loopback peers that are independent of iora: a poll()-driven TCP/TLS target with hostile
// personalities (accept+echo, refuse, black-hole, reset, TLS ok / wrong CA / garbage / slow /
// stalled / reset after ClientHello), a UDP echo peer, and a throw-away PKI built with the
// OpenSSL C API. The peers keep their own view of every connection (accepted when, handshake
// finished?, who closed first, EOF or RST seen when) — this is the "raw peer's view" oracle.
#pragma once
#include "vf.hpp"

#include <arpa/inet.h>
#include <fcntl.h>
#include <netinet/in.h>
#include <netinet/tcp.h>
#include <poll.h>
#include <sched.h>
#include <signal.h>
#include <sys/socket.h>
#include <sys/stat.h>
#include <unistd.h>

#include <openssl/err.h>
#include <openssl/evp.h>
#include <openssl/pem.h>
#include <openssl/ssl.h>
#include <openssl/x509v3.h>

#include <algorithm>
#include <atomic>
#include <memory>
#include <mutex>
#include <string>
#include <thread>
#include <vector>

namespace vfnet {

inline void setNonblock(int fd)
{
  int fl = fcntl(fd, F_GETFL, 0);
  fcntl(fd, F_SETFL, fl | O_NONBLOCK);
}
inline uint16_t boundPort(int fd)
{
  sockaddr_in a{}; socklen_t l = sizeof a;
  getsockname(fd, (sockaddr *)&a, &l);
  return ntohs(a.sin_port);
}
inline int bindLoopback(int type, uint16_t &port)
{
  int fd = ::socket(AF_INET, type | SOCK_CLOEXEC, 0);
  if (fd < 0) { perror("socket"); exit(3); }
  sockaddr_in a{}; a.sin_family = AF_INET; a.sin_addr.s_addr = htonl(INADDR_LOOPBACK); a.sin_port = 0;
  // bind(.., 0) can fail transiently with EADDRINUSE when the shared machine runs short of ephemeral ports
  int tries = 0;
  while (::bind(fd, (sockaddr *)&a, sizeof a) != 0)
  {
    if (++tries > 100) { perror("bind"); exit(3); }
    vf::sleepMs(20);
  }
  port = boundPort(fd);
  return fd;
}
inline int connectNonblock(uint16_t port)
{
  int fd = ::socket(AF_INET, SOCK_STREAM | SOCK_NONBLOCK | SOCK_CLOEXEC, 0);
  sockaddr_in a{}; a.sin_family = AF_INET; a.sin_addr.s_addr = htonl(INADDR_LOOPBACK); a.sin_port = htons(port);
  ::connect(fd, (sockaddr *)&a, sizeof a);
  return fd;
}
inline void rstClose(int fd)
{
  linger lg{1, 0};
  setsockopt(fd, SOL_SOCKET, SO_LINGER, &lg, sizeof lg);
  ::close(fd);
}

// ------------------------------------------------------------------------------------ PKI
struct Pki
{
  EVP_PKEY *caKey = nullptr, *srvKey = nullptr, *rogueCaKey = nullptr, *rogueSrvKey = nullptr;
  X509 *caCert = nullptr, *srvCert = nullptr, *rogueCaCert = nullptr, *rogueSrvCert = nullptr;
  std::string caFile; // PEM of the good CA, for iora's clientTls.caFile
  SSL_CTX *good = nullptr, *rogue = nullptr;

  static void addExt(X509 *cert, X509 *issuer, int nid, const char *val)
  {
    X509V3_CTX ctx; X509V3_set_ctx_nodb(&ctx);
    X509V3_set_ctx(&ctx, issuer, cert, nullptr, nullptr, 0);
    X509_EXTENSION *ex = X509V3_EXT_conf_nid(nullptr, &ctx, nid, val);
    if (ex) { X509_add_ext(cert, ex, -1); X509_EXTENSION_free(ex); }
  }
  static X509 *mkCert(EVP_PKEY *key, const char *cn, X509 *issuer, EVP_PKEY *issuerKey, bool ca, long serial)
  {
    X509 *x = X509_new();
    X509_set_version(x, 2);
    ASN1_INTEGER_set(X509_get_serialNumber(x), serial);
    X509_gmtime_adj(X509_getm_notBefore(x), -86400);
    X509_gmtime_adj(X509_getm_notAfter(x), 10 * 86400);
    X509_set_pubkey(x, key);
    X509_NAME *nm = X509_get_subject_name(x);
    X509_NAME_add_entry_by_txt(nm, "O", MBSTRING_ASC, (const unsigned char *)"verif throw-away", -1, -1, 0);
    X509_NAME_add_entry_by_txt(nm, "CN", MBSTRING_ASC, (const unsigned char *)cn, -1, -1, 0);
    X509_set_issuer_name(x, issuer ? X509_get_subject_name(issuer) : nm);
    if (ca) { addExt(x, issuer ? issuer : x, NID_basic_constraints, "critical,CA:TRUE"); addExt(x, issuer ? issuer : x, NID_key_usage, "critical,keyCertSign,cRLSign"); }
    else { addExt(x, issuer, NID_basic_constraints, "CA:FALSE"); addExt(x, issuer, NID_subject_alt_name, "IP:127.0.0.1,DNS:localhost"); }
    if (!X509_sign(x, issuerKey ? issuerKey : key, EVP_sha256())) { fprintf(stderr, "X509_sign failed\n"); exit(3); }
    return x;
  }
  static SSL_CTX *mkCtx(X509 *cert, EVP_PKEY *key)
  {
    SSL_CTX *c = SSL_CTX_new(TLS_server_method());
    SSL_CTX_use_certificate(c, cert);
    SSL_CTX_use_PrivateKey(c, key);
    SSL_CTX_set_min_proto_version(c, TLS1_2_VERSION);
    SSL_CTX_set_session_cache_mode(c, SSL_SESS_CACHE_OFF);
    SSL_CTX_set_num_tickets(c, 0);
    return c;
  }
  void generate(const std::string &dir)
  {
    caKey = EVP_EC_gen("P-256"); srvKey = EVP_EC_gen("P-256");
    rogueCaKey = EVP_EC_gen("P-256"); rogueSrvKey = EVP_EC_gen("P-256");
    if (!caKey || !srvKey || !rogueCaKey || !rogueSrvKey) { fprintf(stderr, "EC keygen failed\n"); exit(3); }
    caCert = mkCert(caKey, "verif good CA", nullptr, nullptr, true, 1);
    srvCert = mkCert(srvKey, "localhost", caCert, caKey, false, 2);
    rogueCaCert = mkCert(rogueCaKey, "verif rogue CA", nullptr, nullptr, true, 3);
    rogueSrvCert = mkCert(rogueSrvKey, "localhost", rogueCaCert, rogueCaKey, false, 4);
    ::mkdir(dir.c_str(), 0700);
    caFile = dir + "/vf-ca-" + std::to_string(getpid()) + ".pem";
    FILE *f = fopen(caFile.c_str(), "w");
    if (!f) { perror("ca file"); exit(3); }
    PEM_write_X509(f, caCert);
    fclose(f);
    good = mkCtx(srvCert, srvKey);
    rogue = mkCtx(rogueSrvCert, rogueSrvKey);
  }
  void cleanup() { if (!caFile.empty()) ::unlink(caFile.c_str()); }
};

// ------------------------------------------------------------------------------------ TCP/TLS target
enum class TK
{
  Accept = 0,     // accept, echo every byte back, never closes first
  Refuse,         // bound, not listening: RST to every SYN
  Blackhole,      // listen(fd,0) + fillers: SYNs are dropped
  RstAccept,      // accept then RST at once
  TlsOk,          // TLS server with a certificate of the good CA, echo
  TlsBadCert,     // TLS server whose certificate chains to another CA (client verifies)
  TlsGarbage,     // answers the ClientHello with junk
  TlsSlow,        // stalls for a seeded time after the ClientHello, then completes the handshake
  TlsStall,       // never answers the ClientHello
  TlsRstHello,    // RST after the ClientHello
  NKinds
};
inline const char *tkName(TK k)
{
  static const char *n[] = {"accept", "refuse", "blackhole", "rst-after-accept", "tls-ok", "tls-wrong-ca",
                            "tls-garbage", "tls-slow", "tls-stall", "tls-rst-after-hello"};
  return n[int(k)];
}
inline bool tkTls(TK k) { return int(k) >= int(TK::TlsOk); }

struct ConnInfo
{
  uint16_t rport = 0;        // the client's local port: joins the peer's view with getLocalAddress(sid)
  uint64_t acceptNs = 0;
  uint64_t hsDoneNs = 0;
  int hs = 0;                // 0 n/a or pending, 1 TLS handshake completed at the peer, 2 failed
  uint64_t closedNs = 0;
  int closeHow = 0;          // 0 open, 1 EOF from client, 2 RST/error from client, 3 peer reset first, 4 peer FIN first
  size_t bytesIn = 0;
};

class Target
{
public:
  Target(TK kind, Pki *pki, uint64_t seed, std::vector<uint32_t> stallUs = {})
    : _kind(kind), _pki(pki), _rng(seed, 77), _stallUs(std::move(stallUs))
  {
    _lfd = bindLoopback(SOCK_STREAM, _port);
    if (kind == TK::Refuse) return; // bound only
    if (kind == TK::Blackhole)
    {
      ::listen(_lfd, 0);
      // fill the accept queue, then verify that a further connect really hangs
      for (int i = 0; i < 8; i++)
      {
        int f = connectNonblock(_port);
        _fillers.push_back(f);
        if (i < 2) continue;
        pollfd p{f, POLLOUT, 0};
        int r = ::poll(&p, 1, 40);
        if (r == 0) { _blackholeVerified = true; break; } // still in SYN_SENT after 40 ms
      }
      return;
    }
    ::listen(_lfd, 1024);
    setNonblock(_lfd);
    _th = std::thread([this] { loop(); });
  }
  ~Target() { stop(); }
  Target(const Target &) = delete;

  uint16_t port() const { return _port; }
  TK kind() const { return _kind; }
  bool blackholeVerified() const { return _blackholeVerified; }

  void stop()
  {
    if (_stopped.exchange(true)) return;
    if (_th.joinable()) _th.join();
    for (int f : _fillers) ::close(f);
    _fillers.clear();
    for (auto &c : _conns) { if (c->ssl) SSL_free(c->ssl); if (c->fd >= 0) ::close(c->fd); }
    _conns.clear();
    if (_lfd >= 0) ::close(_lfd);
    _lfd = -1;
  }

  std::vector<ConnInfo> snapshot()
  {
    std::lock_guard<std::mutex> g(_m);
    std::vector<ConnInfo> v;
    v.reserve(_conns.size());
    for (auto &c : _conns) v.push_back(c->info);
    return v;
  }
  // commands executed by the peer thread (C05 triggers): close every connection (FIN or RST),
  // send bytes on every open connection
  void setPollMs(int ms) { _pollMs = ms; }
  void requestCloseAll(bool rst) { _closeAllReq.store(rst ? 2 : 1); }
  void requestSendAll(const std::string &bytes) { std::lock_guard<std::mutex> g(_m); _sendReq = bytes; _sendPending.store(true); }
  uint64_t lastAcceptNs() const { return _lastAcceptNs.load(); }
  size_t accepted() const { return _accepted.load(); }

  // Black hole only: after the workload, release the fillers, take whatever reached the accept
  // queue and report connections that are still open from the client side after waitMs.
  size_t drainBlackholeOpen(int waitMs)
  {
    if (_kind != TK::Blackhole) return 0;
    for (int f : _fillers) ::close(f);
    _fillers.clear();
    setNonblock(_lfd);
    std::vector<int> fds;
    uint64_t start = vf::nowNs();
    uint64_t until = start + uint64_t(waitMs) * 1000000ull;
    size_t open = 0;
    for (;;)
    {
      for (;;)
      {
        int c = ::accept4(_lfd, nullptr, nullptr, SOCK_NONBLOCK | SOCK_CLOEXEC);
        if (c < 0) break;
        fds.push_back(c);
      }
      open = 0;
      for (int fd : fds)
      {
        char b[256];
        for (;;)
        {
          ssize_t n = ::recv(fd, b, sizeof b, MSG_DONTWAIT);
          if (n > 0) continue;
          if (n < 0 && (errno == EAGAIN || errno == EWOULDBLOCK)) open++;
          break;
        }
      }
      uint64_t now = vf::nowNs();
      if (open == 0 && now > start + 30000000ull) break; // settled
      if (now > until) break;
      vf::sleepMs(2);
    }
    for (int fd : fds) ::close(fd);
    return open;
  }

private:
  struct Conn
  {
    int fd = -1;
    SSL *ssl = nullptr;
    ConnInfo info;
    bool helloSeen = false;
    uint64_t stallUntilNs = 0;
    bool stalling = false;
    bool dead = false;      // fd closed on our side
    bool rawDrain = false;  // TLS layer failed/abandoned: only watch for the client's close
    bool cmdSent = false;   // the sticky send command has been executed on this connection
  };

  void markClosed(Conn &c, int how)
  {
    {
      std::lock_guard<std::mutex> g(_m);
      if (c.info.closeHow == 0) { c.info.closeHow = how; c.info.closedNs = vf::nowNs(); }
    }
    if (c.ssl) { SSL_free(c.ssl); c.ssl = nullptr; }
    if (c.fd >= 0) { if (how == 3) rstClose(c.fd); else ::close(c.fd); c.fd = -1; } // how 4: peer closed first with FIN
    c.dead = true;
  }
  void setHs(Conn &c, int hs)
  {
    std::lock_guard<std::mutex> g(_m);
    c.info.hs = hs;
    if (hs == 1) c.info.hsDoneNs = vf::nowNs();
  }
  void rawWatch(Conn &c)
  {
    char b[4096];
    for (;;)
    {
      ssize_t n = ::recv(c.fd, b, sizeof b, MSG_DONTWAIT);
      if (n > 0) { std::lock_guard<std::mutex> g(_m); c.info.bytesIn += size_t(n); continue; }
      if (n == 0) { markClosed(c, 1); return; }
      if (errno == EAGAIN || errno == EWOULDBLOCK) return;
      markClosed(c, 2); return;
    }
  }
  void plainIo(Conn &c)
  {
    char b[4096];
    for (;;)
    {
      ssize_t n = ::recv(c.fd, b, sizeof b, MSG_DONTWAIT);
      if (n > 0)
      {
        { std::lock_guard<std::mutex> g(_m); c.info.bytesIn += size_t(n); }
        ::send(c.fd, b, size_t(n), MSG_NOSIGNAL | MSG_DONTWAIT); // echo (tokens are tiny)
        continue;
      }
      if (n == 0) { markClosed(c, 1); return; }
      if (errno == EAGAIN || errno == EWOULDBLOCK) return;
      markClosed(c, 2); return;
    }
  }
  void tlsIo(Conn &c)
  {
    if (c.rawDrain) { rawWatch(c); return; }
    if (!c.helloSeen)
    {
      c.helloSeen = true;
      if (_kind == TK::TlsRstHello) { markClosed(c, 3); return; }
      if (_kind == TK::TlsGarbage)
      {
        static const char junk[] = "HTTP/1.1 400 this is not a ServerHello\r\n\r\n\x16\x03\x01\xff\xff garbage garbage";
        ::send(c.fd, junk, sizeof junk - 1, MSG_NOSIGNAL | MSG_DONTWAIT);
        c.rawDrain = true; setHs(c, 2);
        rawWatch(c);
        return;
      }
      if (_kind == TK::TlsStall) { c.stalling = true; c.stallUntilNs = ~0ull; return; }
      if (_kind == TK::TlsSlow)
      {
        uint32_t us = _stallUs.empty() ? 2000 : _stallUs[_rng.below(_stallUs.size())];
        c.stalling = true; c.stallUntilNs = vf::nowNs() + uint64_t(us) * 1000ull;
        return;
      }
    }
    if (c.stalling) return;
    if (!c.ssl)
    {
      c.ssl = SSL_new(_kind == TK::TlsBadCert ? _pki->rogue : _pki->good);
      SSL_set_fd(c.ssl, c.fd);
      SSL_set_accept_state(c.ssl);
    }
    if (c.info.hs == 0)
    {
      ERR_clear_error();
      int rc = SSL_do_handshake(c.ssl);
      if (rc == 1) { setHs(c, 1); }
      else
      {
        int e = SSL_get_error(c.ssl, rc);
        if (e == SSL_ERROR_WANT_READ || e == SSL_ERROR_WANT_WRITE) return;
        setHs(c, 2);
        SSL_free(c.ssl); c.ssl = nullptr; c.rawDrain = true;
        rawWatch(c);
        return;
      }
    }
    char b[4096];
    for (;;)
    {
      ERR_clear_error();
      int n = SSL_read(c.ssl, b, sizeof b);
      if (n > 0)
      {
        { std::lock_guard<std::mutex> g(_m); c.info.bytesIn += size_t(n); }
        SSL_write(c.ssl, b, n);
        continue;
      }
      int e = SSL_get_error(c.ssl, n);
      if (e == SSL_ERROR_WANT_READ || e == SSL_ERROR_WANT_WRITE) return;
      if (e == SSL_ERROR_ZERO_RETURN) { markClosed(c, 1); return; }
      // EOF without close_notify or a reset
      markClosed(c, (e == SSL_ERROR_SYSCALL && errno == ECONNRESET) ? 2 : 1);
      return;
    }
  }

  void loop()
  {
    std::vector<pollfd> pf;
    while (!_stopped.load())
    {
      // both commands are sticky: a connection that is still in the accept queue when the command
      // is given gets the same treatment as soon as it has been accepted
      if (int how = _closeAllReq.load())
        for (auto &c : _conns) if (!c->dead) markClosed(*c, how == 2 ? 3 : 4);
      if (_sendPending.load())
      {
        std::string bytes;
        { std::lock_guard<std::mutex> g(_m); bytes = _sendReq; }
        for (auto &c : _conns)
          if (!c->dead && !c->cmdSent)
          {
            if (c->ssl && c->info.hs == 1) { SSL_write(c->ssl, bytes.data(), int(bytes.size())); c->cmdSent = true; }
            else if (!tkTls(_kind)) { ::send(c->fd, bytes.data(), bytes.size(), MSG_NOSIGNAL | MSG_DONTWAIT); c->cmdSent = true; }
          }
      }
      pf.clear();
      pf.push_back(pollfd{_lfd, POLLIN, 0});
      size_t n = _conns.size();
      uint64_t now = vf::nowNs();
      int timeout = _pollMs.load();
      for (size_t i = 0; i < n; i++)
      {
        Conn &c = *_conns[i];
        if (c.dead) { pf.push_back(pollfd{-1, 0, 0}); continue; }
        short ev = POLLIN | POLLRDHUP;
        if (c.stalling)
        {
          if (now >= c.stallUntilNs) { c.stalling = false; }
          else
          {
            ev = POLLRDHUP;
            if (c.stallUntilNs != ~0ull)
            {
              int ms = int((c.stallUntilNs - now) / 1000000ull) + 1;
              if (ms < timeout) timeout = ms;
            }
          }
        }
        pf.push_back(pollfd{c.fd, ev, 0});
      }
      int r = ::poll(pf.data(), pf.size(), timeout);
      if (r < 0 && errno != EINTR) break;
      if (pf[0].revents & POLLIN)
      {
        for (;;)
        {
          sockaddr_in a{}; socklen_t l = sizeof a;
          int fd = ::accept4(_lfd, (sockaddr *)&a, &l, SOCK_NONBLOCK | SOCK_CLOEXEC);
          if (fd < 0) break;
          int one = 1; setsockopt(fd, IPPROTO_TCP, TCP_NODELAY, &one, sizeof one);
          auto c = std::make_unique<Conn>();
          c->fd = fd;
          c->info.rport = ntohs(a.sin_port);
          c->info.acceptNs = vf::nowNs();
          _lastAcceptNs.store(c->info.acceptNs);
          _accepted.fetch_add(1);
          Conn *cp = c.get();
          { std::lock_guard<std::mutex> g(_m); _conns.push_back(std::move(c)); }
          if (_kind == TK::RstAccept) markClosed(*cp, 3);
        }
      }
      for (size_t i = 0; i < n; i++)
      {
        Conn &c = *_conns[i];
        if (c.dead) continue;
        short re = pf[i + 1].revents;
        if (!re) continue;
        if (c.stalling)
        {
          // only hang-up style events are requested while stalling
          if (re & (POLLERR | POLLHUP)) { markClosed(c, 2); continue; }
          if (re & POLLRDHUP) { markClosed(c, 1); continue; }
          continue;
        }
        if (tkTls(_kind)) tlsIo(c); else plainIo(c);
        if (!c.dead && (re & (POLLERR | POLLHUP)) && !(re & POLLIN)) markClosed(c, 2);
      }
    }
  }

  TK _kind;
  Pki *_pki;
  vf::Rng _rng;
  std::vector<uint32_t> _stallUs;
  int _lfd = -1;
  uint16_t _port = 0;
  std::vector<int> _fillers;
  bool _blackholeVerified = false;
  std::thread _th;
  std::atomic<bool> _stopped{false};
  std::mutex _m; // guards _conns growth and every ConnInfo
  std::vector<std::unique_ptr<Conn>> _conns;
  std::atomic<uint64_t> _lastAcceptNs{0};
  std::atomic<size_t> _accepted{0};
  std::atomic<int> _closeAllReq{0};
  std::atomic<bool> _sendPending{false};
  std::string _sendReq;
  std::atomic<int> _pollMs{20};
};

// ------------------------------------------------------------------------------------ UDP echo peer
class UdpEcho
{
public:
  UdpEcho()
  {
    _fd = bindLoopback(SOCK_DGRAM, _port);
    _th = std::thread([this] {
      char b[2048];
      while (!_stop.load())
      {
        pollfd p{_fd, POLLIN, 0};
        if (::poll(&p, 1, 20) <= 0) continue;
        sockaddr_in a{}; socklen_t l = sizeof a;
        ssize_t n = ::recvfrom(_fd, b, sizeof b, MSG_DONTWAIT, (sockaddr *)&a, &l);
        if (n <= 0) continue;
        _in.fetch_add(1);
        if (!_mute.load()) ::sendto(_fd, b, size_t(n), MSG_DONTWAIT | MSG_NOSIGNAL, (sockaddr *)&a, l);
      }
    });
  }
  ~UdpEcho() { _stop = true; _th.join(); ::close(_fd); }
  uint16_t port() const { return _port; }
  void mute(bool m) { _mute = m; }
  uint64_t datagramsIn() const { return _in.load(); }
  // send a datagram to an iora UDP listener from this peer's socket
  void sendTo(uint16_t port, const std::string &s)
  {
    sockaddr_in a{}; a.sin_family = AF_INET; a.sin_addr.s_addr = htonl(INADDR_LOOPBACK); a.sin_port = htons(port);
    ::sendto(_fd, s.data(), s.size(), MSG_DONTWAIT | MSG_NOSIGNAL, (sockaddr *)&a, sizeof a);
  }
private:
  int _fd = -1; uint16_t _port = 0;
  std::thread _th; std::atomic<bool> _stop{false}, _mute{false};
  std::atomic<uint64_t> _in{0};
};


// ------------------------------------------------------------------------------------ heartbeat
// A thread that sleeps 0.5 ms in a loop and stamps a ring. A deadline miss is charged to the
// library only if this process was actually being scheduled during the call: maxGapNs(t0,t1) is
// the longest interval inside [t0,t1] in which the heartbeat thread did not get to run.
class Heartbeat
{
public:
  static constexpr size_t N = 1u << 16;
  Heartbeat() : _ring(new std::atomic<uint64_t>[N])
  {
    for (size_t i = 0; i < N; i++) _ring[i].store(0, std::memory_order_relaxed);
    _th = std::thread([this] {
      while (!_stop.load(std::memory_order_relaxed))
      {
        uint64_t i = _w.load(std::memory_order_relaxed);
        _ring[i % N].store(vf::nowNs(), std::memory_order_relaxed);
        _w.store(i + 1, std::memory_order_release);
        vf::sleepMs(0.5);
      }
    });
  }
  ~Heartbeat() { _stop = true; _th.join(); }
  uint64_t maxGapNs(uint64_t t0, uint64_t t1) const
  {
    uint64_t w = _w.load(std::memory_order_acquire);
    if (w < 2) return t1 - t0;
    uint64_t lo = w > N - 2 ? w - (N - 2) : 0;
    uint64_t prev = 0, best = 0;
    bool any = false;
    for (uint64_t i = lo; i < w; i++)
    {
      uint64_t ts = _ring[i % N].load(std::memory_order_relaxed);
      if (ts < t0) { prev = ts; continue; }
      uint64_t a = std::max(prev ? prev : t0, t0), b = std::min(ts, t1);
      if (b > a && b - a > best) best = b - a;
      any = true;
      prev = ts;
      if (ts >= t1) break;
    }
    if (!any) return t1 - t0;
    if (prev < t1) { uint64_t a = std::max(prev, t0); if (t1 - a > best) best = t1 - a; }
    return best;
  }
private:
  std::unique_ptr<std::atomic<uint64_t>[]> _ring;
  std::atomic<uint64_t> _w{0};
  std::atomic<bool> _stop{false};
  std::thread _th;
};


// spin barrier that backs off: vf::SpinBarrier never yields, which live-locks 32 spinners under
// TSan on a loaded machine (every atomic load takes a TSan-internal lock)
struct YieldBarrier
{
  std::atomic<int> waiting{0};
  std::atomic<int> gen{0};
  int n;
  explicit YieldBarrier(int n_) : n(n_) {}
  void wait()
  {
    int g = gen.load();
    if (waiting.fetch_add(1) + 1 == n) { waiting.store(0); gen.fetch_add(1); return; }
    for (unsigned spins = 0; gen.load() == g; spins++)
    {
      if (spins < 200) continue;
      if (spins < 2000) sched_yield(); else vf::sleepMs(0.05);
    }
  }
};

inline void ignoreSigpipe() { ::signal(SIGPIPE, SIG_IGN); }

} // namespace vfnet
