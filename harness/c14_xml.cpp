// C14 harness: drives iora::parsers::xml (pull Parser, runSax, DomBuilder) over documents held in
// exact-size heap blocks and reports canonical event streams; the verdict is computed outside
// (lib/props/c14.py: generating tree, expat, independent balance/limit recomputation).
// What is decided *here* is only what needs pointers: every string_view of every token (name, text,
// attribute names/values, splitQName parts) must lie inside [input.begin, input.end].
//
// Batch mode, one case per line of --cases FILE:
//   X <f|c> <permissive>,<namespaceProcessing>,<maxDepth>,<maxAttrs>,<maxName>,<maxText>,<maxTokens> <hex document>
//      f = full output (token streams with raw slices + iora's decodeEntities results, DOM), c = compact
//      (per token: kind, depth, name, lengths) for the balance / limit oracle over mutants.
// Token kinds are the TokenKind enum values: 3 Doctype 4 StartElement 5 EndElement 6 EmptyElement 7 Text
// 8 CData 9 Comment 10 ProcessingInstruction (2 XmlDecl is never produced: <?xml ..?> arrives as a PI).
//
// Built with clang -fsanitize=fuzzer (-DVF_FUZZ=1) the same file is a libFuzzer target running the
// reference-free assertions in-process (containment, balance, limits, pull==SAX, pull~DOM).
#include "vf.hpp"

#include <iora/parsers/xml.hpp>

#include <fstream>
#include <pthread.h>

namespace x = iora::parsers::xml;

namespace
{
uint64_t threadCpuNs()
{
  struct timespec ts;
  clock_gettime(CLOCK_THREAD_CPUTIME_ID, &ts);
  return uint64_t(ts.tv_sec) * 1000000000ull + uint64_t(ts.tv_nsec);
}

struct ExactBuf
{
  char *p;
  size_t n;
  explicit ExactBuf(const std::string &s) : p(new char[s.size()]), n(s.size()) { if (n) memcpy(p, s.data(), n); }
  ExactBuf(const uint8_t *d, size_t len) : p(new char[len]), n(len) { if (n) memcpy(p, d, n); }
  ~ExactBuf() { delete[] p; }
  std::string_view sv() const { return std::string_view(p, n); }
};

x::Options parseOptions(const std::string &s)
{
  x::Options o;
  unsigned long long pm = 0, ns = 1, d = 0, a = 0, nm = 0, t = 0, k = 0;
  if (sscanf(s.c_str(), "%llu,%llu,%llu,%llu,%llu,%llu,%llu", &pm, &ns, &d, &a, &nm, &t, &k) == 7)
  {
    o.permissive = pm != 0; o.namespaceProcessing = ns != 0; o.maxDepth = d; o.maxAttrsPerElement = a;
    o.maxNameLength = nm; o.maxTextSpan = t; o.maxTotalTokens = k;
  }
  return o;
}

// ---- containment
struct Range
{
  const char *b, *e;
  uint64_t checked = 0;
  std::string bad; // first offending field
  bool in(std::string_view v) const
  {
    if (v.data() == nullptr) return v.size() == 0; // default-constructed: no slice at all
    return v.data() >= b && v.data() + v.size() <= e && v.data() <= e;
  }
  void check(std::string_view v, const char *field, int kind)
  {
    checked++;
    if (!in(v) && bad.empty()) bad = std::string(field) + " of token kind " + std::to_string(kind);
  }
  void token(const x::Token &t)
  {
    int k = int(t.kind);
    check(t.name, "name", k);
    check(t.text, "text", k);
    for (const auto &a : t.attributes) { check(a.name, "attribute name", k); check(a.value, "attribute value", k); }
    auto q = t.splitQName();
    check(q.first, "splitQName prefix", k);
    check(q.second, "splitQName localName", k);
    for (const auto &a : t.attributes)
    {
      x::Token tmp; tmp.name = a.name;
      auto qa = tmp.splitQName();
      check(qa.first, "attribute prefix", k);
      check(qa.second, "attribute localName", k);
    }
  }
};

std::string hexsv(std::string_view v) { return v.empty() ? std::string() : vf::hex(v.data(), v.size()); }

std::string decOrNull(std::string_view raw)
{
  std::string out;
  if (!x::Parser::decodeEntities(raw, out)) return "null";
  return "\"" + vf::hex(out) + "\"";
}

// full rendering of one token (shared by the pull loop and the SAX callbacks; `kind` is what the
// caller believes the token to be: TokenKind for pull, the callback's identity for SAX)
std::string fullToken(const x::Token &t, int kind)
{
  std::string o = "[" + std::to_string(kind) + ",\"" + hexsv(t.name) + "\",\"" + hexsv(t.text) + "\",[";
  bool first = true;
  for (const auto &a : t.attributes)
  {
    if (!first) o += ",";
    first = false;
    o += "[\"" + hexsv(a.name) + "\",\"" + hexsv(a.value) + "\"," + decOrNull(a.value) + "]";
  }
  o += "]," + std::to_string(t.depth) + "," + std::to_string(t.offset) + "," + std::to_string(t.line) + "," + std::to_string(t.column) + ",";
  o += (t.kind == x::TokenKind::Text) ? decOrNull(t.text) : std::string("null");
  auto q = t.splitQName();
  o += ",\"" + hexsv(q.first) + "\",\"" + hexsv(q.second) + "\"," + (t.selfClosing ? "1" : "0") + "]";
  return o;
}

std::string compactToken(const x::Token &t)
{
  size_t an = 0, av = 0;
  for (const auto &a : t.attributes) { an = std::max(an, a.name.size()); av = std::max(av, a.value.size()); }
  return std::to_string(int(t.kind)) + "," + std::to_string(t.depth) + "," + hexsv(t.name) + "," + std::to_string(t.text.size()) + "," +
         std::to_string(t.attributes.size()) + "," + std::to_string(an) + "," + std::to_string(av);
}

// DOM-shaped event list derived from pull tokens with iora's own decoder; must equal the flattened DOM
struct DomShape
{
  std::vector<std::string> ev;
  bool decodeFailed = false;
  static std::string attrs(const x::Token &t, bool &fail)
  {
    std::string o = "[";
    bool first = true;
    for (const auto &a : t.attributes)
    {
      std::string v;
      if (!x::Parser::decodeEntities(a.value, v)) fail = true;
      if (!first) o += ",";
      first = false;
      o += "[\"" + hexsv(a.name) + "\",\"" + vf::hex(v) + "\"]";
    }
    return o + "]";
  }
  void add(const x::Token &t)
  {
    switch (t.kind)
    {
    case x::TokenKind::StartElement: ev.push_back("[\"E\",\"" + hexsv(t.name) + "\"," + attrs(t, decodeFailed) + "]"); break;
    case x::TokenKind::EmptyElement: ev.push_back("[\"E\",\"" + hexsv(t.name) + "\"," + attrs(t, decodeFailed) + "]"); ev.push_back("[\"/\"]"); break;
    case x::TokenKind::EndElement: ev.push_back("[\"/\"]"); break;
    case x::TokenKind::Text:
    {
      std::string v;
      if (!x::Parser::decodeEntities(t.text, v)) decodeFailed = true;
      if (!v.empty()) ev.push_back("[\"T\",\"" + vf::hex(v) + "\"]");
      break;
    }
    case x::TokenKind::CData: ev.push_back("[\"C\",\"" + hexsv(t.text) + "\"]"); break;
    case x::TokenKind::Comment: ev.push_back("[\"M\",\"" + hexsv(t.text) + "\"]"); break;
    case x::TokenKind::ProcessingInstruction: ev.push_back("[\"P\",\"" + hexsv(t.name) + "\",\"" + hexsv(t.text) + "\"]"); break;
    default: break;
    }
  }
};

void flattenDom(const x::Node *doc, std::vector<std::string> &ev)
{
  // iterative pre-order walk (children of the document node; the document itself is implicit)
  struct Frame { const x::Node *n; size_t i; };
  std::vector<Frame> st;
  st.push_back({doc, 0});
  while (!st.empty())
  {
    Frame &f = st.back();
    if (f.i >= f.n->children.size())
    {
      if (st.size() > 1) ev.push_back("[\"/\"]");
      st.pop_back();
      continue;
    }
    const x::Node *c = f.n->children[f.i++].get();
    switch (c->type)
    {
    case x::NodeType::Element:
    {
      std::string o = "[\"E\",\"" + vf::hex(c->name) + "\",[";
      bool first = true;
      for (const auto &a : c->attributes)
      {
        if (!first) o += ",";
        first = false;
        o += "[\"" + vf::hex(a.name) + "\",\"" + vf::hex(a.value) + "\"]";
      }
      ev.push_back(o + "]]");
      st.push_back({c, 0});
      break;
    }
    case x::NodeType::Text: ev.push_back("[\"T\",\"" + vf::hex(c->value) + "\"]"); break;
    case x::NodeType::CData: ev.push_back("[\"C\",\"" + vf::hex(c->value) + "\"]"); break;
    case x::NodeType::Comment: ev.push_back("[\"M\",\"" + vf::hex(c->value) + "\"]"); break;
    case x::NodeType::ProcessingInstruction: ev.push_back("[\"P\",\"" + vf::hex(c->name) + "\",\"" + vf::hex(c->value) + "\"]"); break;
    case x::NodeType::Document: ev.push_back("[\"?document-as-child\"]"); break;
    }
  }
}

std::string joinList(const std::vector<std::string> &v)
{
  std::string o = "[";
  for (size_t i = 0; i < v.size(); i++) { if (i) o += ","; o += v[i]; }
  return o + "]";
}

struct Observed
{
  bool accPull = false, accSax = false, accDom = false;
  bool hasErr = false;
  size_t errOff = 0;
  std::string errMsg, domErr;
  std::vector<std::string> pullFull, saxFull, compact, domEv;
  DomShape shape;
  Range range{nullptr, nullptr};
  uint64_t cpuPull = 0, cpuAll = 0;
  size_t ntok = 0;
  bool lastIsEof = false;
  bool cursorPastEnd = false;
};

void observe(std::string_view in, const x::Options &opt, bool full, Observed &o)
{
  o.range.b = in.data();
  o.range.e = in.data() + in.size();
  uint64_t c0 = threadCpuNs();
  {
    x::Parser p(in, opt);
    while (p.next())
    {
      const x::Token &t = p.current();
      o.ntok++;
      o.range.token(t);
      if (full) o.pullFull.push_back(fullToken(t, int(t.kind)));
      o.compact.push_back(compactToken(t));
      o.shape.add(t);
    }
    o.lastIsEof = p.current().kind == x::TokenKind::Eof;
    if (const x::Error *e = p.error())
    {
      o.hasErr = true; o.errOff = e->offset; o.errMsg = e->message;
      if (e->offset > in.size()) o.cursorPastEnd = true;
    }
    o.accPull = !o.hasErr && o.lastIsEof;
    if (p.next()) o.errMsg += " [next() returned true after the end]";
  }
  o.cpuPull = threadCpuNs() - c0;
  {
    x::Parser p(in, opt);
    x::SaxCallbacks cb;
    auto rec = [&o, full](int id) {
      return [&o, full, id](const x::Token &t) {
        o.range.token(t);
        o.saxFull.push_back(full ? fullToken(t, id) : std::to_string(id) + ":" + compactToken(t));
      };
    };
    cb.onXmlDecl = rec(2); cb.onDoctype = rec(3); cb.onStartElement = rec(4); cb.onEndElement = rec(5);
    cb.onEmptyElement = rec(6); cb.onText = rec(7); cb.onCData = rec(8); cb.onComment = rec(9); cb.onPI = rec(10);
    o.accSax = x::runSax(p, cb);
  }
  {
    x::Parser p(in, opt);
    x::Error derr{};
    auto doc = x::DomBuilder::build(p, &derr);
    o.accDom = doc != nullptr;
    if (doc) flattenDom(doc.get(), o.domEv);
    else o.domErr = derr.message;
  }
  o.cpuAll = threadCpuNs() - c0;
}

bool saxSame(const Observed &o, bool full)
{
  if (full) return o.saxFull == o.pullFull;
  if (o.saxFull.size() != o.compact.size()) return false;
  for (size_t i = 0; i < o.compact.size(); i++)
  {
    // SAX entry = "<callback id>:<compact token>"; the callback id must be the token kind
    const std::string &c = o.compact[i];
    std::string kind = c.substr(0, c.find(','));
    if (o.saxFull[i] != kind + ":" + c) return false;
  }
  return true;
}
} // namespace

#ifndef VF_FUZZ
namespace
{
std::atomic<long> g_case{-1};
std::atomic<uint64_t> g_caseCpuStart{0};
pthread_t g_worker;
std::atomic<bool> g_done{false};
uint64_t g_stuckCpuNs = 20ull * 1000000000ull;

void watchdog()
{
  clockid_t cid;
  if (pthread_getcpuclockid(g_worker, &cid) != 0) return;
  while (!g_done.load())
  {
    vf::sleepMs(100);
    long k = g_case.load();
    if (k < 0) continue;
    struct timespec ts;
    if (clock_gettime(cid, &ts) != 0) continue;
    uint64_t cpu = uint64_t(ts.tv_sec) * 1000000000ull + uint64_t(ts.tv_nsec);
    uint64_t st = g_caseCpuStart.load();
    if (g_case.load() == k && cpu > st && cpu - st > g_stuckCpuNs)
    {
      char buf[160];
      snprintf(buf, sizeof buf, "{\"t\":\"stuck\",\"i\":%ld,\"cpu_ns\":%llu}", k, (unsigned long long)(cpu - st));
      vf::out().line(buf);
      _exit(4);
    }
  }
}

void doCase(long idx, bool full, const std::string &optS, const std::string &doc)
{
  x::Options opt = parseOptions(optS);
  ExactBuf in(doc);
  Observed o;
  observe(in.sv(), opt, full, o);
  if (!o.range.bad.empty())
  {
    vf::out().viol("C14:slice-outside-input", "a reported string_view lies outside [input.begin, input.end]: " + o.range.bad,
                   "{\"index\":" + std::to_string(idx) + ",\"options\":" + vf::jstr(optS) + ",\"input_hex\":\"" + vf::hex(doc.substr(0, 4096)) + "\"}");
  }
  std::string line = "{\"i\":" + std::to_string(idx) + ",\"n\":" + std::to_string(in.n) + ",\"acc\":[" + (o.accPull ? "1" : "0") + "," +
                     (o.accSax ? "1" : "0") + "," + (o.accDom ? "1" : "0") + "]";
  line += ",\"eof\":" + std::string(o.lastIsEof ? "1" : "0");
  if (o.hasErr) line += ",\"err\":[" + std::to_string(o.errOff) + "," + vf::jstr(o.errMsg) + "]";
  else line += ",\"err\":null";
  line += ",\"derr\":" + (o.accDom ? std::string("null") : vf::jstr(o.domErr));
  line += ",\"cpu\":" + std::to_string(o.cpuAll) + ",\"ntok\":" + std::to_string(o.ntok) + ",\"views\":" + std::to_string(o.range.checked);
  line += ",\"saxsame\":" + std::string(saxSame(o, full) ? "1" : "0");
  // DOM vs (pull + iora's decodeEntities): accepted iff pull accepted and every slice decodes; same events
  bool domExpectedAccept = o.accPull && !o.shape.decodeFailed;
  bool domSame = (o.accDom == domExpectedAccept) && (!o.accDom || o.domEv == o.shape.ev);
  line += ",\"domsame\":" + std::string(domSame ? "1" : "0") + ",\"decfail\":" + (o.shape.decodeFailed ? "1" : "0");
  if (full)
  {
    line += ",\"tok\":" + joinList(o.pullFull);
    if (!saxSame(o, full)) line += ",\"sax\":" + joinList(o.saxFull);
    line += ",\"dom\":" + (o.accDom ? joinList(o.domEv) : std::string("null"));
  }
  else
  {
    // the emitted tokens are judged (balance, limits, sweeps) for accepted documents only: keep rejected ones short
    if (o.accPull)
    {
      std::string c;
      for (size_t i = 0; i < o.compact.size(); i++) { if (i) c += ";"; c += o.compact[i]; }
      line += ",\"ctok\":\"" + c + "\"";
    }
    if (!domSame) line += ",\"dom\":" + (o.accDom ? joinList(o.domEv) : std::string("null")) + ",\"shape\":" + joinList(o.shape.ev);
  }
  line += "}";
  vf::out().line(line);
}
} // namespace

int main(int argc, char **argv)
{
  vf::Args args(argc, argv);
  std::string casesPath = args.s("cases");
  long from = long(args.u("from", 0));
  g_stuckCpuNs = args.u("stuck-cpu-s", 20) * 1000000000ull;
  g_worker = pthread_self();
  std::thread wd(watchdog);
  wd.detach();
  std::ifstream in(casesPath);
  if (!in) { fprintf(stderr, "cannot open cases file %s\n", casesPath.c_str()); return 3; }
  std::string l;
  long idx = -1;
  while (std::getline(in, l))
  {
    idx++;
    if (idx < from || l.size() < 4 || l[0] != 'X') continue;
    g_caseCpuStart.store(threadCpuNs());
    g_case.store(idx);
    bool full = l[2] == 'f';
    size_t sp = l.find(' ', 4);
    std::string opt = l.substr(4, sp == std::string::npos ? std::string::npos : sp - 4);
    std::string doc = sp == std::string::npos ? std::string() : vf::unhex(l.substr(sp + 1));
    doCase(idx, full, opt, doc);
  }
  g_case.store(-1);
  g_done.store(true);
  vf::out().line("{\"t\":\"done\",\"last\":" + std::to_string(idx) + "}");
  fflush(nullptr);
  _exit(0);
}

#else
// =============================================================================== libFuzzer target
namespace
{
std::map<std::string, int> g_seen;
void fuzzViol(const std::string &key, const std::string &what, const uint8_t *data, size_t n)
{
  if (++g_seen[key] > 2) return;
  const char *base = getenv("VF_FUZZ_VIOL");
  if (!base) { fprintf(stderr, "VF-VIOLATION %s %s\n", key.c_str(), what.c_str()); return; }
  std::string p = std::string(base) + "." + std::to_string(getpid());
  FILE *f = fopen(p.c_str(), "a");
  if (!f) return;
  fprintf(f, "{\"t\":\"viol\",\"key\":%s,\"what\":%s,\"detail\":{\"input_hex\":\"%s\",\"n\":%zu}}\n", vf::jstr(key).c_str(), vf::jstr(what).c_str(),
          vf::hex(data, std::min<size_t>(n, 4096)).c_str(), n);
  fclose(f);
}
} // namespace

extern "C" int LLVMFuzzerTestOneInput(const uint8_t *data, size_t size)
{
  static const x::Options dflt;
  static const x::Options tight = [] { x::Options o; o.maxDepth = 3; o.maxAttrsPerElement = 2; o.maxNameLength = 4; o.maxTextSpan = 8; o.maxTotalTokens = 12; return o; }();
  ExactBuf in(data, size);
  for (int pass = 0; pass < 2; pass++)
  {
    const x::Options &opt = pass ? tight : dflt;
    // independent re-run of the pull loop for the balance / limit recomputation over the emitted tokens
    std::vector<std::string> stack;
    size_t ntok = 0, maxDepth = 0, maxAttrs = 0, maxName = 0, maxText = 0;
    bool balanced = true, depthFaithful = true;
    {
      x::Parser p(in.sv(), opt);
      while (p.next())
      {
        const x::Token &t = p.current();
        ntok++;
        maxName = std::max(maxName, t.name.size());
        maxAttrs = std::max(maxAttrs, t.attributes.size());
        for (const auto &a : t.attributes) { maxName = std::max(maxName, a.name.size()); maxText = std::max(maxText, a.value.size()); }
        if (t.kind == x::TokenKind::Text) maxText = std::max(maxText, t.text.size());
        if (t.kind == x::TokenKind::StartElement) { stack.emplace_back(t.name); maxDepth = std::max(maxDepth, stack.size()); if (t.depth != stack.size()) depthFaithful = false; }
        else if (t.kind == x::TokenKind::EmptyElement) { maxDepth = std::max(maxDepth, stack.size() + 1); if (t.depth != stack.size() + 1) depthFaithful = false; }
        else if (t.kind == x::TokenKind::EndElement)
        {
          if (stack.empty() || stack.back() != std::string(t.name)) balanced = false;
          else { if (t.depth != stack.size()) depthFaithful = false; stack.pop_back(); }
        }
      }
      bool accepted = p.error() == nullptr && p.current().kind == x::TokenKind::Eof;
      if (accepted)
      {
        if (!balanced || !stack.empty()) fuzzViol("C14:accepted-unbalanced", "accepted a document whose emitted start/end tags do not balance", data, size);
        if (!depthFaithful) fuzzViol("C14:pull:depth-differs-from-nesting", "token.depth differs from the nesting recomputed from the emitted tags", data, size);
      }
      // "accepted only if all configured limits hold": recomputed from the emitted tokens of accepted documents
      if (accepted)
      {
        if (maxDepth > opt.maxDepth) fuzzViol("C14:limit:maxDepth:accepted-beyond-limit", "accepted element depth " + std::to_string(maxDepth), data, size);
        if (maxAttrs > opt.maxAttrsPerElement) fuzzViol("C14:limit:maxAttrsPerElement:accepted-beyond-limit", "accepted " + std::to_string(maxAttrs) + " attributes", data, size);
        if (maxName > opt.maxNameLength) fuzzViol("C14:limit:maxNameLength:accepted-beyond-limit", "accepted a name of " + std::to_string(maxName) + " bytes", data, size);
        if (maxText > opt.maxTextSpan) fuzzViol("C14:limit:maxTextSpan:accepted-beyond-limit", "accepted a text span of " + std::to_string(maxText) + " bytes", data, size);
        if (opt.maxTotalTokens && ntok > opt.maxTotalTokens) fuzzViol("C14:limit:maxTotalTokens:accepted-beyond-limit", "accepted " + std::to_string(ntok) + " tokens", data, size);
      }
    }
    Observed o;
    observe(in.sv(), opt, false, o);
    if (!o.range.bad.empty()) fuzzViol("C14:slice-outside-input", o.range.bad, data, size);
    if (o.cursorPastEnd) fuzzViol("C14:cursor-past-end", "error offset beyond the input", data, size);
    if (!saxSame(o, false) || o.accSax != o.accPull) fuzzViol("C14:pull-vs-sax:events-differ", "SAX callbacks differ from the pull tokens", data, size);
    bool domExpectedAccept = o.accPull && !o.shape.decodeFailed;
    if (o.accDom != domExpectedAccept) fuzzViol("C14:pull-vs-dom:acceptance-differs", "DOM acceptance differs from pull acceptance + decodable slices", data, size);
    else if (o.accDom && o.domEv != o.shape.ev) fuzzViol("C14:pull-vs-dom:tree-differs", "DOM tree differs from the pull tokens", data, size);
  }
  return 0;
}
#endif
