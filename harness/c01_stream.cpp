// C01 harness: real Transport::tcp against independent raw TCP peers and an independent OpenSSL
// peer. Self-describing payloads (c01_codec.hpp), real kernel back-pressure (tiny socket buffers,
// slow bursty reader), sockio shim for short send/recv and TLS BIO read/write counts, both
// directions. The stream checker lives here (history over up to millions of bytes) and shares no
// code with iora. Modes: stream (matrix cell, optional fault), cut (single-cut sweep).
#define VF_SHIM_SOCKIO
#include "shim/shims.hpp"
#include "vf.hpp"
#include "c01_codec.hpp"
#include "c01_peer.hpp"
#include "c01_pki.hpp"

#include <iora/network/transport_impl.hpp>

#include <cmath>
#include <condition_variable>
#include <csignal>
#include <deque>
#include <memory>
#include <unordered_map>

using namespace iora::network;
using iora::core::BufferView;

namespace c01 { inline void exemptThisThread() { vf::shim::tlsSockExempt = true; } }

// ---- pure observer: count WANT_READ / WANT_WRITE results seen by iora's I/O thread
static std::atomic<uint64_t> g_wantRead{0}, g_wantWrite{0};
extern "C" int SSL_get_error(const SSL *s, int ret)
{
  typedef int (*fn_t)(const SSL *, int);
  static fn_t fn = (fn_t)dlsym(RTLD_NEXT, "SSL_get_error");
  int r = fn(s, ret);
  if (!vf::shim::tlsSockExempt)
  {
    if (r == SSL_ERROR_WANT_WRITE) g_wantWrite.fetch_add(1, std::memory_order_relaxed);
    else if (r == SSL_ERROR_WANT_READ) g_wantRead.fetch_add(1, std::memory_order_relaxed);
  }
  return r;
}

namespace {

using namespace c01;

const char *errName(int c)
{
  static const char *n[] = {"None", "Socket", "Resolve", "Bind", "Listen", "Accept", "Connect", "TLSHandshake", "TLSIO", "PeerClosed",
                            "WriteBackpressure", "Config", "GCClosed", "Cancelled", "Timeout", "BufferOverflow", "ShuttingDown", "Unknown"};
  return (c >= 0 && c < 18) ? n[c] : "?";
}

std::atomic<uint64_t> g_seq{1}; // real-time order of send calls / returns across all threads

struct SendRec { uint32_t k, len; uint64_t callSeq, retSeq; bool accepted; };
struct SenderLog { uint32_t t = 0; std::vector<SendRec> recs; uint64_t earlyCount = 0; };

struct Sess
{
  uint32_t idx = 0;
  std::atomic<SessionId> sid{0};
  std::atomic<bool> ready{false};
  std::vector<SenderLog> senders;
  std::atomic<uint64_t> acceptedBytes{0}, acceptedCount{0};
  std::atomic<int> sendersRunning{0};
  std::atomic<bool> stopSenders{false};
  // reverse direction: touched only by iora's I/O thread (onData/onClose), read after stop()
  std::atomic<uint64_t> rxBytes{0}, rxCallbacks{0};
  bool rxBad = false; uint64_t rxBadOff = 0; std::vector<uint8_t> rxWindow;
  // lifecycle (I/O thread writes)
  std::atomic<int> closeCount{0}, closeCode{-1}, connectCount{0};
  std::atomic<uint64_t> rxAtClose{0};
  std::atomic<bool> dataAfterClose{false};
  std::string closeMsg; std::mutex closeMx;
  // callback sender: sends issued from inside onData on iora's I/O thread (own sender id = index `threads`)
  std::atomic<bool> cbEnabled{false};
  std::atomic<uint32_t> cbWaiting{0}, cbReleased{0}; // latch: a worker releases it right AFTER one of its sends returned
  vf::Rng cbRng{1}; std::vector<uint8_t> cbBuf;       // I/O thread only
  uint32_t cbGen = 0, cbCount = 0, cbLatchLeft = 60; uint64_t cbBytes = 0, cbByteBudget = 0, cbLatched = 0, cbLatchTimeouts = 0;
  Peer peer;
  uint16_t peerLocalPort = 0, peerRemotePort = 0; // the peer socket's own / remote port (= iora's remote / local port)
  std::vector<std::thread> senderThreads;
};

struct Cell
{
  // matrix coordinates
  bool tls = false, et = true, batch = false, peerIsServer = false;
  int tlsMax = 13, threads = 1, sessions = 1;
  uint64_t bytes = 200000, rbytes = 50000;
  uint32_t permille = 300, iocap = 0, dist = 0, hsSends = 2;
  int sndbuf = 4096, rcvbuf = 4096, peerRcvbuf = 8192, iochunk = 65536, pauses = 100;
  size_t mwq = 1024;
  int drain = 0; // peer read pacing (PeerParams::drainMode)
  uint32_t rwmin = 0; // > 0: every reverse write of the peer (one TLS record each up to 16 KiB) is at least this large
  bool cbsend = false; // a callback sender (onData, I/O thread) sends on the same session concurrently with the threads
  uint64_t window = 1u << 20; // sender throttle: accepted-but-not-yet-received bytes
  std::string fin = "half"; // half | app | stop
  std::string fault = "none"; // none | peer-rst | peer-fin | app-close | overflow
  uint64_t seed = 1, cell = 0, stallMs = 8000, watchdogMs = 240000;
  std::string tmp;
  const char *tr() const { return tls ? "tls" : "tcp"; }
  std::string json() const
  {
    std::ostringstream o;
    o << "{\"tls\":" << tls << ",\"tlsmax\":" << tlsMax << ",\"et\":" << et << ",\"batch\":" << batch << ",\"role\":\"" << (peerIsServer ? "client" : "server")
      << "\",\"threads\":" << threads << ",\"sessions\":" << sessions << ",\"bytes\":" << bytes << ",\"rbytes\":" << rbytes << ",\"permille\":" << permille
      << ",\"iocap\":" << iocap << ",\"dist\":" << dist << ",\"hssends\":" << hsSends << ",\"sndbuf\":" << sndbuf << ",\"rcvbuf\":" << rcvbuf
      << ",\"peerrcvbuf\":" << peerRcvbuf << ",\"iochunk\":" << iochunk << ",\"pauses\":" << pauses << ",\"mwq\":" << mwq << ",\"cbsend\":" << cbsend << ",\"rwmin\":" << rwmin << ",\"drain\":" << drain << ",\"window\":" << window << ",\"fin\":\"" << fin
      << "\",\"fault\":\"" << fault << "\",\"seed\":" << seed << ",\"cell\":" << cell << "}";
    return o.str();
  }
};

// ---- sid -> session registry (callbacks run on iora's I/O thread)
struct Registry
{
  std::mutex m;
  std::unordered_map<SessionId, Sess *> map;
  std::unordered_map<SessionId, int> earlyClose, earlyConnect; // events for sids not registered yet
  std::atomic<uint64_t> unknownData{0};
  Sess *find(SessionId sid) { std::lock_guard<std::mutex> g(m); auto it = map.find(sid); return it == map.end() ? nullptr : it->second; }
  void add(SessionId sid, Sess *s)
  {
    std::lock_guard<std::mutex> g(m);
    map[sid] = s;
    auto c = earlyConnect.find(sid); if (c != earlyConnect.end()) s->connectCount += c->second;
    auto e = earlyClose.find(sid); if (e != earlyClose.end()) { s->closeCount += e->second; }
  }
};

uint32_t pickLen(vf::Rng &r, const Cell &c, bool multiSender)
{
  uint32_t minLen = multiSender ? 6 : 1;
  static const uint32_t bnd[] = {1, 2, 5, 6, 11, 12, 13, 255, 256, 1460, 4095, 4096, 4097, 8191, 8192, 8193, 16383, 16384, 16385,
                                 16406, 32767, 32768, 32769, 65535, 65536, 65537, 70000};
  uint32_t len;
  if (c.dist == 1) len = uint32_t(r.chance(0.9) ? r.range(1, 64) : r.range(1, 3000));          // many tiny entries
  else if (c.dist == 2) len = uint32_t(r.range(8000, 70000));
  else if (c.dist == 3) len = uint32_t(r.range(600, 1500));                                     // flood of ~1 KiB messages                                   // large
  else
  {
    double u = double(r.next() >> 11) / 9007199254740992.0;
    int sel = int(r.below(100));
    if (sel < 20)
    {
      int which = int(r.below(6));
      uint32_t base = which == 0 ? uint32_t(c.iochunk) : which == 1 ? uint32_t(c.sndbuf) : which == 2 ? uint32_t(4 * c.sndbuf) : bnd[r.below(sizeof bnd / sizeof *bnd)];
      int d = int(r.below(5)) - 2;
      len = uint32_t(std::max<int64_t>(1, int64_t(base) + d));
    }
    else if (sel < 92) len = uint32_t(std::exp(u * std::log(2000.0)));                           // log-uniform 1..2000
    else len = uint32_t(std::exp(u * std::log(70000.0)));                                        // log-uniform 1..70000
  }
  if (len < minLen) len = minLen;
  if (len > 70000) len = 70000;
  return len;
}

struct Harness
{
  Cell C;
  std::shared_ptr<Transport> tr;
  Registry reg;
  std::vector<std::unique_ptr<Sess>> sess;
  std::atomic<Sess *> expectAccept{nullptr}; // role=server: the session the next onAccept belongs to
  std::atomic<uint64_t> acceptsUnexpected{0}, errorsSeen{0};
  Pki pki;
  std::atomic<bool> abortAll{false};
  std::mutex acceptMx; std::condition_variable acceptCv; std::deque<SessionId> acceptedSids; // cut mode

  // one logical send by sender `ti` of session s; API form chosen by the rng
  bool doSend(Sess &s, uint32_t ti, vf::Rng &r, uint32_t len, std::vector<uint8_t> &buf, bool onIoThread = false)
  {
    SenderLog &L = s.senders[ti];
    uint32_t k = uint32_t(L.recs.size());
    buf.resize(len);
    genPayload(buf.data(), L.t, k, len);
    SessionId sid = s.sid.load();
    bool ok = false;
    int api = int(r.below(4));
    uint64_t c0 = g_seq.fetch_add(1);
    if (api == 0) ok = tr->send(sid, BufferView{buf.data(), buf.size()});
    else if (api == 1) ok = tr->send(sid, (const void *)buf.data(), buf.size());
    else if (api == 2) tr->sendAsync(sid, BufferView{buf.data(), buf.size()}, [&ok](SessionId, const SendResult &res) { ok = res.isOk(); });
    else if (!onIoThread) { auto res = tr->sendSync(sid, BufferView{buf.data(), buf.size()}); ok = res.isOk(); }
    else ok = tr->send(sid, BufferView{buf.data(), buf.size()});
    uint64_t c1 = g_seq.fetch_add(1);
    L.recs.push_back(SendRec{k, len, c0, c1, ok});
    if (ok) { s.acceptedBytes += len; s.acceptedCount++; }
    // scribble over the caller's buffer: the engine must have copied what it accepted
    if (r.chance(0.5)) memset(buf.data(), 0xEE, buf.size());
    return ok;
  }
  void earlySends(Sess &s, vf::Rng &r, bool onIoThread)
  {
    std::vector<uint8_t> buf;
    bool multi = C.threads > 1 || C.cbsend;
    for (uint32_t i = 0; i < C.hsSends; i++) doSend(s, 0, r, pickLen(r, C, multi), buf, onIoThread);
    s.senders[0].earlyCount = C.hsSends;
  }

  void senderMain(Sess *s, uint32_t ti, uint64_t quota)
  {
    exemptThisThread(); // sender threads never do socket I/O themselves
    vf::Rng r(C.seed, 1000 + C.cell * 131 + s->idx * 17 + ti);
    std::vector<uint8_t> buf;
    bool multi = C.threads > 1 || C.cbsend;
    uint64_t sent = 0;
    bool throttle = C.fault.rfind("overflow", 0) != 0; // overflow cells flood until the session closes
    int afterClose = 0;
    while (sent < quota && !s->stopSenders.load() && !abortAll.load())
    {
      uint32_t len = pickLen(r, C, multi);
      if (!throttle)
      {
        // overflow cells: never block (the close only happens on a send that finds the queue over its limit), just slow down
        if (s->acceptedBytes.load() - std::min<uint64_t>(s->acceptedBytes.load(), s->peer.rxBytes.load()) > (2u << 20)) { len = std::min<uint32_t>(len, 64); vf::sleepMs(2); }
      }
      else
      {
        // keep the backlog below the write-queue limit (entries) and bounded in bytes
        for (;;)
        {
          uint64_t parsed = s->peer.parsed.load();
          uint64_t outCount = s->acceptedCount.load() - std::min<uint64_t>(s->acceptedCount.load(), parsed & ((1ull << 40) - 1));
          uint64_t outBytes = s->acceptedBytes.load() - std::min<uint64_t>(s->acceptedBytes.load(), s->peer.rxBytes.load());
          bool parserDead = (parsed >> 40) != 0;
          if ((parserDead || outCount + 32 < C.mwq / 2) && outBytes < C.window) break;
          if (s->stopSenders.load() || abortAll.load() || s->closeCount.load() > 0 || s->peer.done.load()) break;
          if (s->cbWaiting.load() != s->cbReleased.load()) break; // the callback sender waits for a worker send: one extra payload
          vf::sleepMs(0.2);
        }
      }
      uint32_t w = s->cbWaiting.load();
      doSend(*s, ti, r, len, buf);
      if (w != s->cbReleased.load() && w == s->cbWaiting.load()) s->cbReleased.store(w); // after the return stamp was taken
      sent += len;
      if (s->closeCount.load() > 0 && ++afterClose > 3) break; // a few sends after the close, then stop
      if (r.chance(0.02)) vf::sleepMs(0.05 * double(r.below(30)));
      else if (r.chance(0.1)) std::this_thread::yield();
    }
    s->sendersRunning--;
  }

  // ---- iora side
  TransportConfig makeConfig()
  {
    TransportConfig cfg;
    cfg.useEdgeTriggered = C.et;
    cfg.batching.enabled = C.batch;
    cfg.soSndBuf = C.sndbuf; cfg.soRcvBuf = C.rcvbuf;
    cfg.ioReadChunk = size_t(C.iochunk);
    cfg.maxWriteQueue = C.mwq;
    // timeouts and the idle GC are not part of this property: keep them out of reach of a loaded machine
    cfg.idleTimeout = std::chrono::seconds(3600);
    cfg.connectTimeout = std::chrono::milliseconds(120000);
    cfg.handshakeTimeout = std::chrono::milliseconds(120000);
    if (C.tls)
    {
      if (C.peerIsServer) { cfg.clientTls.enabled = true; cfg.clientTls.defaultMode = TlsMode::Client; cfg.clientTls.verifyPeer = false; }
      else { cfg.serverTls.enabled = true; cfg.serverTls.defaultMode = TlsMode::Server; cfg.serverTls.certFile = pki.certPath; cfg.serverTls.keyFile = pki.keyPath; }
    }
    return cfg;
  }
  void installCallbacks(bool earlyInAccept)
  {
    tr->onAccept([this, earlyInAccept](SessionId sid, const TransportAddress &) {
      Sess *s = expectAccept.exchange(nullptr);
      if (!s)
      {
        acceptsUnexpected++;
        { std::lock_guard<std::mutex> g(acceptMx); acceptedSids.push_back(sid); }
        acceptCv.notify_all();
        return;
      }
      reg.add(sid, s);
      s->sid.store(sid);
      if (earlyInAccept)
      {
        vf::Rng r(C.seed, 500 + C.cell * 31 + s->idx);
        earlySends(*s, r, true); // sends issued from the accept callback, before any TLS handshake byte was exchanged
      }
      s->ready = true;
      { std::lock_guard<std::mutex> g(acceptMx); acceptedSids.push_back(sid); }
      acceptCv.notify_all();
    });
    tr->onConnect([this](SessionId sid, const TransportAddress &) {
      std::lock_guard<std::mutex> g(reg.m);
      auto it = reg.map.find(sid);
      if (it != reg.map.end()) it->second->connectCount++; else reg.earlyConnect[sid]++;
    });
    tr->onData([this](SessionId sid, BufferView d, std::chrono::steady_clock::time_point) {
      Sess *s = reg.find(sid);
      if (!s) { reg.unknownData++; return; }
      if (s->closeCount.load() > 0) s->dataAfterClose = true;
      uint64_t off = s->rxBytes.load(std::memory_order_relaxed);
      s->rxCallbacks.fetch_add(1, std::memory_order_relaxed);
      if (!s->rxBad)
      {
        size_t m = verifyRun(d.data(), rkey(s->idx), off, d.size());
        if (m < d.size()) { s->rxBad = true; s->rxBadOff = off + m; s->rxWindow.assign(d.data() + m, d.data() + d.size()); }
      }
      else if (s->rxWindow.size() < 256) s->rxWindow.insert(s->rxWindow.end(), d.data(), d.data() + std::min<size_t>(d.size(), 256));
      if (s->cbEnabled.load() && s->closeCount.load() == 0 && s->cbCount < 160 && s->cbBytes < s->cbByteBudget && s->cbRng.chance(0.6))
      {
        // Sends from inside the data callback, i.e. on the I/O thread, while other threads send on the same session.
        // To get CERTAIN real-time precedence pairs the callback sometimes parks (<= 3 ms) until a worker reports
        // that one of its sends - called after the callback parked - has returned; only then the callback sends.
        uint32_t cbIdx = uint32_t(s->senders.size() - 1);
        int rounds = 1 + int(s->cbRng.below(2));
        for (int rd = 0; rd < rounds; rd++)
        {
          bool latched = false;
          if (s->cbLatchLeft > 0 && s->sendersRunning.load() > 0 && s->cbRng.chance(0.7))
          {
            s->cbLatchLeft--;
            uint32_t gen = ++s->cbGen;
            s->cbWaiting.store(gen);
            uint64_t t0 = vf::nowNs();
            while (s->cbReleased.load() != gen && vf::nowNs() - t0 < 3000000ull) std::this_thread::yield();
            latched = s->cbReleased.load() == gen;
            if (!latched) { s->cbReleased.store(gen); s->cbLatchTimeouts++; } // give up: nobody may release this generation later
          }
          int nsend = 1 + int(s->cbRng.below(2));
          for (int i = 0; i < nsend; i++)
          {
            uint32_t len = std::min<uint32_t>(pickLen(s->cbRng, C, true), s->cbRng.chance(0.03) ? 8000 : 1500);
            doSend(*s, cbIdx, s->cbRng, len, s->cbBuf, true);
            s->cbCount++; s->cbBytes += len;
          }
          if (latched) s->cbLatched++;
        }
      }
      s->rxBytes.store(off + d.size());
    });
    tr->onClose([this](SessionId sid, const TransportErrorInfo &why) {
      std::unique_lock<std::mutex> g(reg.m);
      auto it = reg.map.find(sid);
      if (it == reg.map.end()) { reg.earlyClose[sid]++; return; }
      Sess *s = it->second;
      g.unlock();
      { std::lock_guard<std::mutex> g2(s->closeMx); if (s->closeCount.load() == 0) s->closeMsg = why.message; }
      if (s->closeCount.load() == 0) { s->closeCode = int(why.code); s->rxAtClose = s->rxBytes.load(); }
      s->closeCount++;
    });
    tr->onError([this](TransportError, const std::string &) { errorsSeen++; });
  }
};


// ------------------------------------------------------------------------------------ verdicts
struct Report
{
  const Cell &C;
  std::set<std::string> keysSeen;
  explicit Report(const Cell &c) : C(c) {}
  void viol(const std::string &suffix, const std::string &what, const std::string &extra = "")
  {
    std::string key = std::string("C01:") + C.tr() + ":" + suffix;
    if (!keysSeen.insert(key).second) return; // one witness per key and process
    vf::out().viol(key, what, "{\"cell\":" + C.json() + (extra.empty() ? "" : "," + extra) + "}");
  }
  // stall-type suspicion: decided by the Python driver after an isolated re-run
  void stall(const std::string &key, const std::string &what, const std::string &extra = "")
  {
    vf::out().line("{\"t\":\"stall\",\"key\":" + vf::jstr(key) + ",\"what\":" + vf::jstr(what) + ",\"detail\":{\"cell\":" + C.json() + (extra.empty() ? "" : "," + extra) + "}}");
  }
};

struct FwdStats { uint64_t complete = 0, missing = 0, partial = 0; };

FwdStats checkForward(Report &R, Sess &s, bool closed)
{
  FwdStats fs;
  StreamParser &P = s.peer.parser;
  auto sessTag = [&] { return "\"session\":" + std::to_string(s.idx) + ",\"closed\":" + (closed ? "true" : "false") + ",\"stream_bytes\":" + std::to_string(s.peer.stream.size()); };
  for (auto &a : P.anoms)
    R.viol("tx:" + a.kind, "peer stream: " + a.what,
           sessTag() + ",\"stream_off\":" + std::to_string(a.off) + ",\"t\":" + std::to_string(a.t) + ",\"k\":" + std::to_string(a.k) + ",\"len\":" +
             std::to_string(a.len) + ",\"j\":" + std::to_string(a.j) + ",\"shift\":" + std::to_string(a.shift));
  struct LI { const SendRec *r; int seen; };
  std::unordered_map<uint64_t, LI> idx;
  for (auto &L : s.senders) for (auto &r : L.recs) idx[(uint64_t(L.t) << 32) | r.k] = LI{&r, 0};
  bool single = s.senders.size() == 1;
  uint32_t t0 = s.senders[0].t;
  uint64_t nextK = 0, maxCall = 0;
  uint32_t maxCallT = 0, maxCallK = 0;
  std::map<uint32_t, int64_t> lastK;
  auto account = [&](uint32_t t, uint32_t k, uint32_t len, uint64_t off, bool whole) {
    std::string where = sessTag() + ",\"stream_off\":" + std::to_string(off) + ",\"t\":" + std::to_string(t) + ",\"k\":" + std::to_string(k) + ",\"len\":" + std::to_string(len);
    auto it = idx.find((uint64_t(t) << 32) | k);
    if (it == idx.end())
    {
      if ((t >> 5) != s.idx) R.viol("tx:cross-session-payload", "payload of another session's sender appeared on this session", where);
      else R.viol("tx:fabricated-payload", "well-formed payload that no sender ever handed to send()", where);
      return;
    }
    LI &li = it->second;
    if (!li.r->accepted) R.viol("tx:unaccepted-payload", "payload delivered although send() reported failure", where);
    if (li.r->len != len) { R.viol("tx:fabricated-payload", "payload header length differs from the length handed to send()", where + ",\"sent_len\":" + std::to_string(li.r->len)); return; }
    if (++li.seen > 1) { R.viol("tx:duplicate-payload", "payload delivered more than once", where); return; }
    auto lk = lastK.find(t);
    if (lk != lastK.end() && int64_t(k) <= lk->second) R.viol("tx:sender-order", "payloads of one sender delivered out of send order", where + ",\"after_k\":" + std::to_string(lk->second));
    lastK[t] = std::max<int64_t>(lk == lastK.end() ? -1 : lk->second, int64_t(k));
    if (li.r->retSeq < maxCall)
      R.viol("tx:reordered", "payload delivered after a payload whose send() was called only after this one's send() had returned",
             where + ",\"ret_seq\":" + std::to_string(li.r->retSeq) + ",\"earlier_t\":" + std::to_string(maxCallT) + ",\"earlier_k\":" + std::to_string(maxCallK) + ",\"earlier_call_seq\":" + std::to_string(maxCall));
    if (li.r->callSeq > maxCall) { maxCall = li.r->callSeq; maxCallT = t; maxCallK = k; }
    if (whole) fs.complete++;
  };
  for (auto &rec : P.recs)
  {
    uint32_t t = rec.t, k = rec.k;
    if (rec.idBytes < 6)
    {
      std::string where = sessTag() + ",\"stream_off\":" + std::to_string(rec.off) + ",\"len\":" + std::to_string(rec.len);
      if (!single) { R.viol("tx:corrupt-bytes", "short-form payload on a multi-sender session (never sent there)", where); continue; }
      uint32_t kk = uint32_t(nextK);
      bool okId = true;
      if (rec.idBytes >= 2 && rec.t != (t0 & 0xff)) okId = false;
      if (rec.idBytes > 2) { uint32_t mask = rec.idBytes >= 6 ? 0xFFFFFFFFu : ((1u << (8 * (rec.idBytes - 2))) - 1); if ((kk & mask) != rec.k) okId = false; }
      auto it = idx.find((uint64_t(t0) << 32) | kk);
      if (it == idx.end() || it->second.r->len != rec.len) okId = false;
      if (!okId)
      {
        R.viol("tx:sequence-mismatch", "short-form payload is not the next accepted payload of the session's only sender", where + ",\"expected_k\":" + std::to_string(kk) +
               (it == idx.end() ? "" : ",\"expected_len\":" + std::to_string(it->second.r->len)));
        break;
      }
      t = t0; k = kk;
    }
    if (t == t0) nextK = uint64_t(k) + 1;
    account(t, k, rec.len, rec.off, true);
  }
  if (P.hasPartial)
  {
    fs.partial = 1;
    if (P.partialIdKnown) account(P.partial.t, P.partial.k, P.partial.len, P.partial.off, false);
  }
  if (!P.failed)
  {
    uint64_t lost = 0; std::string ex;
    for (auto &L : s.senders)
      for (auto &r : L.recs)
      {
        if (!r.accepted) continue;
        auto &li = idx[(uint64_t(L.t) << 32) | r.k];
        if (li.seen) continue;
        fs.missing++;
        if (r.retSeq < maxCall)
        {
          if (!lost) ex = "\"t\":" + std::to_string(L.t) + ",\"k\":" + std::to_string(r.k) + ",\"len\":" + std::to_string(r.len) + ",\"ret_seq\":" + std::to_string(r.retSeq);
          lost++;
        }
      }
    if (lost)
      R.viol(closed ? "tx:not-a-prefix" : "tx:lost-payload",
             closed ? "session was closed, but the peer's stream is not a prefix: an accepted payload is missing although a payload accepted strictly later was delivered"
                    : "accepted payload never delivered although a payload accepted strictly later was delivered (session open)",
             sessTag() + ",\"missing\":" + std::to_string(lost) + "," + ex + ",\"later_t\":" + std::to_string(maxCallT) + ",\"later_k\":" + std::to_string(maxCallK) + ",\"later_call_seq\":" + std::to_string(maxCall));
  }
  return fs;
}

void checkReverse(Report &R, Sess &s, bool halfCloseFinal)
{
  std::string tag = "\"session\":" + std::to_string(s.idx) + ",\"peer_wrote\":" + std::to_string(s.peer.wrote.load()) + ",\"on_data_bytes\":" + std::to_string(s.rxBytes.load());
  if (s.rxBad)
  {
    int64_t sh = 0;
    std::string kind = classifyShift(rkey(s.idx), s.rxBadOff, s.rxWindow.data(), s.rxWindow.size(), sh);
    R.viol("rx:" + kind, "bytes handed to onData differ from what the raw peer wrote", tag + ",\"offset\":" + std::to_string(s.rxBadOff) + ",\"shift\":" + std::to_string(sh) +
           ",\"got\":\"" + hexWindow(s.rxWindow.data(), std::min<size_t>(16, s.rxWindow.size())) + "\"");
  }
  if (s.rxBytes.load() > s.peer.wrote.load()) R.viol("rx:fabricated-bytes", "onData delivered more bytes than the peer wrote", tag);
  if (s.dataAfterClose.load()) R.viol("rx:data-after-close", "onData fired for a session after its onClose", tag);
  if (halfCloseFinal && s.closeCount.load() > 0 && s.rxAtClose.load() != s.peer.wrote.load())
    R.viol("rx:lost-tail-before-close", "peer wrote, then half-closed; engine wrote nothing; onClose fired before all bytes were handed to onData",
           tag + ",\"on_data_bytes_at_close\":" + std::to_string(s.rxAtClose.load()) + ",\"close_reason\":\"" + errName(s.closeCode.load()) + "\"");
}

template <class F> bool waitUntil(F f, uint64_t ms)
{
  uint64_t t0 = vf::nowNs();
  while (!f()) { if (vf::nowNs() - t0 > ms * 1000000ull) return false; vf::sleepMs(1); }
  return true;
}

// the engine's socket for a session, found by its port pair; kernel queue sizes tell whether undelivered
// bytes sit in the kernel (not the engine's doing) or in the engine's own write queue
struct SockQ { int fd = -1; int outq = -1, inq = -1; bool writable = false, readable = false; };
SockQ engineSocketQueues(uint16_t localPort, uint16_t remotePort)
{
  SockQ q;
  for (int fd = 3; fd < 4096; fd++)
  {
    sockaddr_in a{}, b{}; socklen_t la = sizeof a, lb = sizeof b;
    if (getsockname(fd, (sockaddr *)&a, &la) != 0 || a.sin_family != AF_INET || ntohs(a.sin_port) != localPort) continue;
    if (getpeername(fd, (sockaddr *)&b, &lb) != 0 || ntohs(b.sin_port) != remotePort) continue;
    q.fd = fd;
    ioctl(fd, TIOCOUTQ, &q.outq); ioctl(fd, FIONREAD, &q.inq);
    pollfd pf{fd, POLLOUT | POLLIN, 0};
    if (poll(&pf, 1, 0) > 0) { q.writable = pf.revents & POLLOUT; q.readable = pf.revents & POLLIN; }
    break;
  }
  return q;
}

// ------------------------------------------------------------------------------------ stream cell
int runStream(const Cell &C0)
{
  auto &O = vf::out();
  Harness H; H.C = C0;
  const Cell &C = H.C;
  Report R(C);
  exemptThisThread(); // the main thread only does peer-side connect/accept
  uint64_t tStart = vf::nowNs();
  if (C.tls)
  {
    std::string e = makePki(H.pki, C.tmp, "localhost");
    if (!e.empty()) { O.inconclusive("pki generation failed: " + e); O.flush(); return 2; }
  }
  auto &sp = vf::shim::sockPolicy();
  sp.seed = C.seed * 7919 + C.cell; sp.permille = C.permille; sp.maxLen = C.iocap;
  sp.mode = (C.permille > 0 || C.iocap > 0) ? 1 : 0;

  H.tr = Transport::tcp(H.makeConfig());
  bool faultNone = C.fault == "none";
  H.installCallbacks(!C.peerIsServer && C.hsSends > 0);
  if (!H.tr->start().isOk()) { O.inconclusive("transport start failed: " + H.tr->lastError().message); O.flush(); return 2; }
  uint16_t port = 0; int lfd = -1;
  if (!C.peerIsServer)
  {
    auto lr = H.tr->addListener("127.0.0.1", 0, C.tls ? TlsMode::Server : TlsMode::None);
    if (!lr.isOk()) { O.inconclusive("addListener failed"); O.flush(); return 2; }
    port = H.tr->getListenerAddress(lr.value()).port;
  }
  else lfd = Peer::listenOn(port, C.peerRcvbuf, 0);
  if (!port) { O.inconclusive("no port"); O.flush(); return 2; }

  vf::Rng rng(C.seed, 90000 + C.cell);
  uint64_t perSess = std::max<uint64_t>(1, C.bytes / uint64_t(C.sessions));
  for (int i = 0; i < C.sessions; i++)
  {
    H.sess.emplace_back(new Sess());
    Sess &s = *H.sess.back();
    s.idx = uint32_t(i);
    s.senders.resize(size_t(C.threads) + (C.cbsend ? 1 : 0));
    for (size_t t = 0; t < s.senders.size(); t++) s.senders[t].t = uint32_t(i * 32) + uint32_t(t);
    s.cbRng = vf::Rng(C.seed, 4400 + C.cell * 7 + uint64_t(i)); s.cbByteBudget = perSess / 4 + 1; s.cbEnabled = C.cbsend;
    PeerParams &P = s.peer.P;
    P.tls = C.tls; P.tlsMax = C.tlsMax; P.peerIsServer = C.peerIsServer; P.rcvbuf = C.peerRcvbuf; P.seed = C.seed * 977 + C.cell; P.sess = s.idx;
    P.hsDelayMs = C.tls ? uint32_t(rng.range(5, 40)) : 0;
    P.reverseBytes = C.rbytes / uint64_t(C.sessions);
    P.tailBytes = (faultNone && C.fin == "half") ? rng.range(1, 9000) : 0;
    P.pauseBudget = C.pauses / C.sessions;
    P.reserve = size_t(perSess + perSess / 4 + 200000);
    if (C.rwmin) { P.minWriteChunk = C.rwmin; P.maxWriteChunk = std::max<uint32_t>(C.rwmin, 16384); }
    else if (C.cbsend) { P.writePauseProb = 0.6; P.maxWriteChunk = 1500; } // many separate onData callbacks, spread over the forward transfer
    if (C.fault == "peer-rst" || C.fault == "peer-fin") { P.abortKind = C.fault == "peer-rst" ? 1 : 2; P.abortAfter = rng.range(1, perSess * 3 / 4 + 1); }
    if (C.fault == "overflow") s.peer.holdReads = true;
    P.drainMode = C.drain; // overflow-drain: the peer keeps reading at its own pace all the time
    s.peer.cert = H.pki.cert; s.peer.key = H.pki.key;
    int fd = -1;
    if (!C.peerIsServer)
    {
      H.expectAccept.store(&s);
      fd = Peer::connectTo(port, C.peerRcvbuf, 0);
      if (fd < 0 || !waitUntil([&] { return s.ready.load(); }, 60000)) { O.inconclusive("session establishment (accept) did not complete"); O.flush(); _exit(2); }
    }
    else
    {
      auto cr = H.tr->connect("127.0.0.1", port, C.tls ? TlsMode::Client : TlsMode::None);
      if (!cr.isOk()) { O.inconclusive("connect() refused"); O.flush(); _exit(2); }
      H.reg.add(cr.value(), &s);
      s.sid.store(cr.value());
      if (C.hsSends > 0) { vf::Rng r(C.seed, 500 + C.cell * 31 + s.idx); H.earlySends(s, r, false); } // right after connect() returned
      fd = Peer::acceptOne(lfd, 60000);
      if (fd < 0) { O.inconclusive("peer never saw the connection from iora"); O.flush(); _exit(2); }
    }
    s.peer.fd = fd;
    { sockaddr_in a{}; socklen_t l = sizeof a; if (getsockname(fd, (sockaddr *)&a, &l) == 0) s.peerLocalPort = ntohs(a.sin_port);
      l = sizeof a; if (getpeername(fd, (sockaddr *)&a, &l) == 0) s.peerRemotePort = ntohs(a.sin_port); }
  }
  // peers and senders
  for (auto &sp2 : H.sess)
  {
    Sess *s = sp2.get();
    s->peer.th = std::thread([s] { s->peer.run(); });
    s->sendersRunning = C.threads;
    uint64_t quota = std::max<uint64_t>(1, perSess / uint64_t(C.threads));
    if (C.fault.rfind("overflow", 0) == 0) quota = 64ull << 20;
    for (int t = 0; t < C.threads; t++) s->senderThreads.emplace_back([&H, s, t, quota] { H.senderMain(s, uint32_t(t), quota); });
  }

  // ---- monitor
  auto sum = [&](auto f) { uint64_t v = 0; for (auto &s : H.sess) v += f(*s); return v; };
  struct Snap { uint64_t a, b, c, d, e; bool operator!=(const Snap &o) const { return a != o.a || b != o.b || c != o.c || d != o.d || e != o.e; } };
  auto snap = [&] {
    return Snap{sum([](Sess &s) { return s.acceptedBytes.load(); }), sum([](Sess &s) { return s.peer.rxBytes.load(); }), sum([](Sess &s) { return s.rxBytes.load(); }),
                sum([](Sess &s) { return s.peer.wrote.load(); }), sum([](Sess &s) { return uint64_t(s.closeCount.load()) + (s.peer.done.load() ? 100 : 0) + (s.peer.handshakeDone.load() ? 10 : 0); })};
  };
  Snap prev = snap();
  uint64_t lastChange = vf::nowNs();
  bool stalled = false, watchdog = false, appCloseIssued = false, noOverflow = false;
  std::string fin = C.fin;
  uint64_t peakBacklog = 0;
  std::string outcome = "complete";
  uint64_t appCloseAt = C.fault == "app-close" ? rng.range(1, perSess * 3 / 4 + 1) : 0;
  auto sendersDone = [&] { for (auto &s : H.sess) if (s->sendersRunning.load() > 0) return false; return true; };
  auto mainDone = [&] {
    if (!sendersDone()) return false;
    for (auto &s : H.sess)
    {
      if (s->rxBytes.load() < s->peer.P.reverseBytes) return false;   // first: after this no further onData (no callback send) can happen
      if (s->peer.rxBytes.load() < s->acceptedBytes.load()) return false;
    }
    return true;
  };
  auto anyClosed = [&] { for (auto &s : H.sess) if (s->closeCount.load() > 0) return true; return false; };
  auto allClosedAndPeersDone = [&] { for (auto &s : H.sess) if (s->closeCount.load() == 0 || !s->peer.done.load()) return false; return sendersDone(); };
  auto anyPeerEnded = [&] { for (auto &s : H.sess) if (s->peer.done.load()) return true; return false; };
  for (;;)
  {
    vf::sleepMs(5);
    uint64_t now = vf::nowNs();
    Snap cur = snap();
    if (cur != prev) { prev = cur; lastChange = now; }
    if (cur.a > cur.b) peakBacklog = std::max(peakBacklog, cur.a - cur.b);
    { static uint64_t lastT = 0; if (getenv("VF_C01_TRACE") && now - lastT > 1000000000ull) { lastT = now; fprintf(stderr, "[trace] t=%6.0f ms accepted=%llu peer_rx=%llu on_data=%llu peer_wrote=%llu\n", double(now - tStart) / 1e6, (unsigned long long)cur.a, (unsigned long long)cur.b, (unsigned long long)cur.c, (unsigned long long)cur.d); } }
    if (faultNone)
    {
      if (mainDone()) break;
      if (anyClosed()) { outcome = "unexpected-close"; break; }
      if (anyPeerEnded()) { outcome = waitUntil(anyClosed, 3000) ? "unexpected-close" : "peer-ended"; break; }
    }
    else
    {
      if (C.fault == "app-close" && !appCloseIssued && H.sess[0]->acceptedBytes.load() >= appCloseAt)
      {
        for (auto &s : H.sess) H.tr->close(s->sid.load());
        appCloseIssued = true;
      }
      if (C.fault.rfind("overflow", 0) == 0 && anyClosed()) for (auto &s : H.sess) { s->peer.drain = true; s->peer.holdReads = false; }
      if (C.fault == "overflow-drain" && !anyClosed() && mainDone()) { outcome = "complete"; fin = "stop"; noOverflow = true; break; } // the peer kept up: nothing overflowed
      if (allClosedAndPeersDone()) { outcome = "closed-early"; break; }
    }
    if (now - lastChange > C.stallMs * 1000000ull)
    {
      // nothing moved for stallMs: characterise before calling it a stall
      auto st1 = H.tr->getStats(); Snap s1 = snap();
      vf::sleepMs(1500);
      auto st2 = H.tr->getStats(); Snap s2 = snap();
      if (st1.bytesOut != st2.bytesOut || st1.bytesIn != st2.bytesIn || s1 != s2) { lastChange = vf::nowNs(); continue; }
      std::string key, what; std::ostringstream d;
      for (auto &s : H.sess)
      {
        uint64_t acc = s->acceptedBytes.load(), got = s->peer.rxBytes.load(), wrote = s->peer.wrote.load(), rx = s->rxBytes.load();
        bool closed = s->closeCount.load() > 0;
        uint64_t idle = s->peer.idleSinceNs.load();
        bool peerIdle = idle != 0 && vf::nowNs() - idle > 1000000000ull && !s->peer.holdReads.load();
        d.str("");
        d << "\"session\":" << s->idx << ",\"accepted_bytes\":" << acc << ",\"peer_received\":" << got << ",\"peer_wrote\":" << wrote << ",\"on_data_bytes\":" << rx
          << ",\"engine_bytes_out\":" << st2.bytesOut << ",\"engine_bytes_in\":" << st2.bytesIn << ",\"session_closed\":" << closed << ",\"peer_idle_in_read\":" << peerIdle
          << ",\"peer_socket_pending\":" << s->peer.pendingAtIdle.load() << ",\"peer_done\":" << s->peer.done.load() << ",\"handshake_done\":" << s->peer.handshakeDone.load()
          << ",\"senders_running\":" << s->sendersRunning.load() << ",\"no_progress_ms\":" << (vf::nowNs() - lastChange) / 1000000ull;
        SockQ q = engineSocketQueues(s->peerRemotePort, s->peerLocalPort);
        d << ",\"engine_socket_found\":" << (q.fd >= 0) << ",\"engine_socket_unsent_bytes\":" << q.outq << ",\"engine_socket_unread_bytes\":" << q.inq
          << ",\"engine_socket_writable\":" << q.writable << ",\"engine_socket_readable\":" << q.readable;
        if (closed)
        {
          if (!s->peer.done.load() && !faultNone) { key = std::string("C01:stall:peer-never-saw-end:") + C.tr(); what = "session reported closed, but the peer never saw the end of the stream"; break; }
          continue;
        }
        if (s->peer.aborted.load() || (s->peer.done.load() && s->peer.eof.load()))
        { key = std::string("C01:stall:close-not-reported:") + C.tr(); what = "the peer ended the connection and the engine went quiet, but the session was never reported closed"; break; }
        if (C.tls && !s->peer.handshakeDone.load() && !s->peer.done.load()) { key = "C01:stall:handshake-no-progress:tls"; what = "TLS handshake stopped making progress with sends queued"; break; }
        // Where are the outstanding bytes? Decided from the kernel queues on both ends, never from time alone.
        //  tx: accepted > received by the peer, peer blocked in read with nothing pending:
        //      engine socket send queue > 0 -> the kernel holds them (not the engine); == 0 -> the engine holds them and does not write.
        //  rx: peer wrote > handed to onData:
        //      engine socket has unread bytes                      -> the engine does not read (lost read re-arm);
        //      engine socket empty AND peer send queue empty       -> every byte the peer wrote was read from the kernel BY THE ENGINE,
        //                                                             the missing ones are inside it (TLS record buffer / own buffers): withheld;
        //      engine socket empty, peer send queue > 0            -> still in the kernel on the peer's side (not the engine).
        int peerOutq = s->peer.sendQueueAtIdle.load();
        d << ",\"peer_socket_unsent_bytes\":" << peerOutq;
        std::string kKey, kWhat;
        if (acc > got && peerIdle && s->peer.pendingAtIdle.load() == 0)
        {
          if (q.fd >= 0 && q.outq > 0) { kKey = std::string("C01:stall:kernel-not-delivering:") + C.tr(); kWhat = "no progress, but the undelivered bytes sit in the kernel send queue of the engine's socket (not an engine stall)"; }
          else { key = std::string("C01:stall:tx-no-progress:") + C.tr(); what = "accepted bytes outstanding, peer blocked in read on an empty socket, engine socket send queue empty, engine bytesOut not advancing, session not closed (lost write re-arm)"; break; }
        }
        if (wrote > rx)
        {
          if (q.fd >= 0 && q.inq > 0)
          { key = std::string("C01:stall:rx-no-progress:") + C.tr(); what = "peer wrote bytes that were never handed to onData; they sit unread in the engine's socket, engine bytesIn not advancing, session not closed (lost read re-arm)"; break; }
          if (q.fd >= 0 && q.inq == 0 && peerOutq == 0)
          { key = std::string("C01:stall:rx-withheld:") + C.tr(); what = "peer wrote bytes that were never handed to onData although the peer's send queue and the engine socket's receive queue are both empty: the engine took them from the kernel and withholds them, session not closed"; break; }
          if (q.fd >= 0 && q.inq == 0 && peerOutq > 0 && kKey.empty())
          { kKey = std::string("C01:stall:kernel-not-delivering:") + C.tr(); kWhat = "no progress, but the peer's bytes are still in the peer socket's send queue while the engine's socket is empty (not an engine stall)"; }
        }
        if (!kKey.empty()) { key = kKey; what = kWhat; break; }
        if (C.fault == "app-close" && appCloseIssued) { key = std::string("C01:stall:close-not-reported:") + C.tr(); what = "close(sid) was accepted but onClose never fired"; break; }
      }
      if (key.empty()) { key = std::string("C01:stall:unclassified:") + C.tr(); what = "no progress and none of the characterised shapes applies"; }
      R.stall(key, what, d.str());
      stalled = true; outcome = "stall";
      break;
    }
    if (now - tStart > C.watchdogMs * 1000000ull) { watchdog = true; outcome = "watchdog"; break; }
  }

  static const bool trace = getenv("VF_C01_TRACE") != nullptr;
  auto T = [&](const char *w) { if (trace) fprintf(stderr, "[trace] %-28s %8.1f ms\n", w, double(vf::nowNs() - tStart) / 1e6); };
  T(outcome.c_str());
  for (auto &s : H.sess) s->cbEnabled = false; // the final phase requires that the engine writes nothing
  // ---- final phase
  bool halfFinal = false;
  if (outcome == "complete")
  {
    if (fin == "half")
    {
      halfFinal = true;
      for (auto &s : H.sess) s->peer.cmd = 1;
      bool ok = waitUntil([&] { for (auto &s : H.sess) if (s->closeCount.load() == 0) return false; return true; }, C.stallMs + 20000);
      if (!ok) { R.stall(std::string("C01:stall:close-not-reported:") + C.tr(), "peer half-closed after writing; the session was never reported closed", "\"final\":\"half\""); stalled = true; }
    }
    else if (fin == "app")
    {
      for (auto &s : H.sess) { s->peer.cmd = 2; H.tr->close(s->sid.load()); }
      bool ok = waitUntil([&] { for (auto &s : H.sess) if (s->closeCount.load() == 0) return false; return true; }, C.stallMs + 20000);
      if (!ok) { R.stall(std::string("C01:stall:close-not-reported:") + C.tr(), "close(sid) accepted; the session was never reported closed", "\"final\":\"app\""); stalled = true; }
    }
    else for (auto &s : H.sess) s->peer.cmd = 2;
  }
  T("final phase done");
  H.abortAll = true;
  for (auto &s : H.sess) s->stopSenders = true;
  for (auto &s : H.sess) for (auto &t : s->senderThreads) t.join();
  std::vector<bool> closedBeforeStop;
  for (auto &s : H.sess) closedBeforeStop.push_back(s->closeCount.load() > 0);
  T("senders joined");
  H.tr->stop();
  T("transport stopped");
  for (auto &s : H.sess)
  {
    if (!waitUntil([&] { return s->peer.done.load(); }, 15000)) s->peer.cmd = 3;
    s->peer.th.join();
  }
  T("peers joined");
  if (lfd >= 0) ::close(lfd);
  sp.mode = 0;

  // ---- verdicts
  uint64_t totalAccepted = 0, totalPayloads = 0, totalComplete = 0, totalMissing = 0, early = 0;
  for (size_t i = 0; i < H.sess.size(); i++)
  {
    Sess &s = *H.sess[i];
    bool closedEarly = outcome != "complete"; // in a completed fault-free cell the close belongs to the final phase
    if (s.peer.protoError.load())
      R.viol("peer-protocol-error:" + s.peer.protoPhase, "the independent OpenSSL peer rejected the byte stream produced by the engine: " + s.peer.errText, "\"session\":" + std::to_string(s.idx));
    else if (s.peer.ioError.load()) O.inconclusive("peer I/O error: " + s.peer.errText);
    FwdStats fs = checkForward(R, s, closedEarly && closedBeforeStop[i]);
    checkReverse(R, s, halfFinal);
    totalAccepted += s.acceptedBytes.load(); totalPayloads += s.acceptedCount.load(); totalComplete += fs.complete; totalMissing += fs.missing;
    early += s.senders[0].earlyCount;
    int cc = s.closeCount.load();
    if (cc > 1) R.viol("close:reported-twice", "onClose fired more than once for one session", "\"session\":" + std::to_string(s.idx) + ",\"count\":" + std::to_string(cc));
    if (cc == 0 && !stalled && !watchdog) R.viol("close:not-reported", "transport stopped, but onClose never fired for an announced session", "\"session\":" + std::to_string(s.idx));
    if (outcome == "complete")
    {
      if (fs.missing || fs.partial || s.peer.rxBytes.load() != s.acceptedBytes.load())
        R.viol("tx:byte-count-mismatch", "all accepted bytes were counted at the peer, yet payloads are missing or extra bytes arrived",
               "\"session\":" + std::to_string(s.idx) + ",\"accepted_bytes\":" + std::to_string(s.acceptedBytes.load()) + ",\"peer_bytes\":" + std::to_string(s.peer.rxBytes.load()) +
                 ",\"missing_payloads\":" + std::to_string(fs.missing) + ",\"partial\":" + std::to_string(fs.partial));
    }
    if (C.fault == "overflow-drain" && outcome == "closed-early")
    {
      // the peer never stopped reading and never closed: the only legitimate end is the reported back-pressure close
      if (s.closeCode.load() == int(TransportError::WriteBackpressure)) { O.obs("overflow_closes_with_draining_peer"); O.obs("bytes_peer_received_before_overflow_close", s.peer.rxBytes.load()); }
      else
      {
        std::string msg; { std::lock_guard<std::mutex> g(s.closeMx); msg = s.closeMsg; }
        R.viol(std::string("unexpected-close:") + errName(s.closeCode.load()), "overflow cell with a draining, never-closing peer: the session ended with a reason other than the back-pressure close: " + msg, "\"session\":" + std::to_string(s.idx));
      }
    }
    if (outcome == "unexpected-close" && closedBeforeStop[i])
    {
      std::string msg; { std::lock_guard<std::mutex> g(s.closeMx); msg = s.closeMsg; }
      R.viol(std::string("unexpected-close:") + errName(s.closeCode.load()),
             "fault-free cell (peer never closed, queue limit never reached): the engine closed the session on its own: " + msg,
             "\"session\":" + std::to_string(s.idx) + ",\"accepted_bytes\":" + std::to_string(s.acceptedBytes.load()) + ",\"peer_bytes\":" + std::to_string(s.peer.rxBytes.load()));
    }
    if (outcome == "peer-ended" && !s.peer.protoError.load() && !s.peer.ioError.load() && s.peer.done.load() && !closedBeforeStop[i])
      R.stall(std::string("C01:stall:close-not-reported:") + C.tr(), "the peer saw the connection end although nobody closed it, and no onClose was reported", "\"session\":" + std::to_string(s.idx));
  }
  if (H.reg.unknownData.load()) O.inconclusive("onData for a session id the harness never registered");
  if (watchdog) O.inconclusive("cell watchdog fired (" + std::to_string(C.watchdogMs) + " ms) " + C.json());

  // ---- evidence
  O.obs("cells"); O.obs(std::string("cells_") + C.tr()); O.obs(C.et ? "cells_edge_triggered" : "cells_level_triggered"); if (C.batch) O.obs("cells_batching");
  if (C.tls) { O.obs("tls_cells_executed"); O.obs(C.tlsMax == 12 ? "tls12_cells" : "tls13_cells"); }
  if (C.threads > 1) O.obs("multi_threaded_sender_cells");
  O.obsMax("max_sender_threads_per_session", uint64_t(C.threads));
  O.obs(std::string("outcome_") + outcome); O.obs(std::string("fault_") + C.fault);
  O.obs("sessions", H.sess.size()); O.obs("payloads_accepted", totalPayloads); O.obs("bytes_accepted", totalAccepted);
  O.obs("payloads_verified_at_peer", totalComplete); O.obs("bytes_received_by_peer", sum([](Sess &s) { return s.peer.rxBytes.load(); }));
  O.obs("reverse_bytes_on_data", sum([](Sess &s) { return s.rxBytes.load(); })); O.obs("on_data_callbacks", sum([](Sess &s) { return s.rxCallbacks.load(); }));
  O.obs("short_writes", sp.shortenedSends.load()); O.obs("eagain_on_send", sp.eagainSends.load());
  O.obs("short_reads", sp.shortenedRecvs.load()); O.obs("eagain_on_recv", sp.eagainRecvs.load());
  O.obs("shim_send_calls", sp.sendCalls.load()); O.obs("shim_recv_calls", sp.recvCalls.load());
  O.obs("tls_want_read", g_wantRead.load()); O.obs("tls_want_write", g_wantWrite.load());
  O.obs(C.tls ? "sends_accepted_before_tls_handshake" : "sends_accepted_before_connect_or_in_accept", early);
  if (C.tls && !C.et && C.iochunk <= 2048 && C.rwmin >= 8192) O.obs("tls_level_triggered_cells_with_read_chunk_below_record_size");
  if (C.cbsend)
  {
    O.obs("callback_sender_cells"); O.obs("callback_sends_on_io_thread", sum([](Sess &s) { return uint64_t(s.cbCount); }));
    O.obs("callback_sends_after_a_worker_send_returned", sum([](Sess &s) { return s.cbLatched; })); O.obs("callback_latch_timeouts", sum([](Sess &s) { return s.cbLatchTimeouts; }));
  }
  O.obs("peer_read_pauses", sum([](Sess &s) { return s.peer.pausesTaken.load(); }));
  O.obsMax("peak_backlog_bytes", peakBacklog);
  if (outcome == "closed-early") O.obs("sessions_closed_early_prefix_checked", H.sess.size());
  if (noOverflow) O.obs("overflow_drain_cells_where_the_peer_kept_up");
  auto stf = H.tr->getStats();
  O.obs("engine_backpressure_closes", stf.backpressureCloses);
  char sig[256];
  snprintf(sig, sizeof sig, "stream tls=%d/%d role=%d et=%d batch=%d thr=%d cb=%d sess=%d dist=%u fault=%s fin=%s sw=%d ea=%d sr=%d ww=%d out=%s", C.tls, C.tlsMax, C.peerIsServer, C.et,
           C.batch, C.threads, C.cbsend, C.sessions, C.dist, C.fault.c_str(), C.fin.c_str(), sp.shortenedSends.load() ? 1 : 0, sp.eagainSends.load() ? 1 : 0,
           sp.shortenedRecvs.load() ? 1 : 0, g_wantWrite.load() ? 1 : 0, outcome.c_str());
  O.caseSig(vf::fnv(sig, strlen(sig)));
  std::ostringstream smp;
  smp << "{\"kind\":\"stream cell\",\"sig\":" << vf::jstr(sig) << ",\"payloads\":" << totalPayloads << ",\"bytes\":" << totalAccepted << ",\"verified_payloads\":" << totalComplete
      << ",\"short_writes\":" << sp.shortenedSends.load() << ",\"eagain_send\":" << sp.eagainSends.load() << ",\"short_reads\":" << sp.shortenedRecvs.load()
      << ",\"peak_backlog\":" << peakBacklog << ",\"wall_ms\":" << (vf::nowNs() - tStart) / 1000000ull << "}";
  O.sample(smp.str());
  O.flush();
  return 0;
}

// ------------------------------------------------------------------------------------ single-cut sweep
// A 3-payload / 3-chunk script of 4096 bytes on a fresh session per case; exactly one send-like
// (tx) or recv-like (rx) call of iora's I/O thread, call #i, is cut to c bytes (shim mode 2).
struct BlockingPeer
{
  int fd = -1; SSL_CTX *ctx = nullptr; SSL *ssl = nullptr;
  bool timedOut = false; std::string err;
  bool tlsSetup(int tlsMax)
  {
    ctx = SSL_CTX_new(TLS_client_method());
    SSL_CTX_set_min_proto_version(ctx, TLS1_2_VERSION);
    SSL_CTX_set_max_proto_version(ctx, tlsMax == 12 ? TLS1_2_VERSION : TLS1_3_VERSION);
    SSL_CTX_set_options(ctx, SSL_OP_IGNORE_UNEXPECTED_EOF);
    ssl = SSL_new(ctx); SSL_set_fd(ssl, fd);
    return ssl != nullptr;
  }
  bool tlsConnect()
  {
    ERR_clear_error();
    int r = SSL_connect(ssl);
    if (r == 1) return true;
    int e = SSL_get_error(ssl, r);
    if (e == SSL_ERROR_WANT_READ || e == SSL_ERROR_WANT_WRITE) timedOut = true;
    err = "SSL_connect: " + Peer::sslErrors();
    return false;
  }
  // read exactly n bytes; false on timeout / EOF / error
  bool readN(uint8_t *b, size_t n, size_t &got)
  {
    got = 0;
    while (got < n)
    {
      int r;
      if (ssl)
      {
        ERR_clear_error();
        r = SSL_read(ssl, b + got, int(n - got));
        if (r <= 0)
        {
          int e = SSL_get_error(ssl, r);
          if (e == SSL_ERROR_WANT_READ || e == SSL_ERROR_WANT_WRITE) timedOut = true;
          else if (e == SSL_ERROR_ZERO_RETURN || e == SSL_ERROR_SYSCALL) err = "eof";
          else err = "SSL_read: " + Peer::sslErrors();
          return false;
        }
      }
      else
      {
        r = int(::recv(fd, b + got, n - got, 0));
        if (r < 0 && errno == EINTR) continue;
        if (r < 0 && (errno == EAGAIN || errno == EWOULDBLOCK)) { timedOut = true; return false; }
        if (r <= 0) { err = r == 0 ? "eof" : std::string("recv: ") + strerror(errno); return false; }
      }
      got += size_t(r);
    }
    return true;
  }
  bool writeAll(const uint8_t *b, size_t n)
  {
    size_t off = 0;
    while (off < n)
    {
      int r = ssl ? SSL_write(ssl, b + off, int(n - off)) : int(::send(fd, b + off, n - off, MSG_NOSIGNAL));
      if (r <= 0) { err = "write failed"; return false; }
      off += size_t(r);
    }
    return true;
  }
  void closeNow()
  {
    if (ssl) { SSL_set_quiet_shutdown(ssl, 1); SSL_free(ssl); ssl = nullptr; }
    if (ctx) { SSL_CTX_free(ctx); ctx = nullptr; }
    if (fd >= 0) { ::close(fd); fd = -1; }
  }
};

int runCut(const vf::Args &a)
{
  auto &O = vf::out();
  Harness H;
  Cell &C = H.C;
  C.tls = a.u("tls", 0); C.tlsMax = int(a.u("tlsmax", 13)); C.et = a.u("et", 1); C.batch = a.u("batch", 0);
  C.seed = a.u("seed", 1); C.stallMs = a.u("stallms", 8000); C.tmp = a.s("tmp", "/tmp"); C.hsSends = 0;
  C.sndbuf = 16384; C.rcvbuf = 0; C.fault = "cut"; C.fin = a.s("dir", "tx");
  bool tx = a.s("dir", "tx") == "tx";
  uint64_t from = a.u("from", 0), count = a.u("count", 100), stride = std::max<uint64_t>(1, a.u("stride", 1));
  Report R(C);
  exemptThisThread();
  if (C.tls) { std::string e = makePki(H.pki, C.tmp, "localhost"); if (!e.empty()) { O.inconclusive("pki: " + e); O.flush(); return 2; } }
  H.tr = Transport::tcp(H.makeConfig());
  H.installCallbacks(false);
  if (!H.tr->start().isOk()) { O.inconclusive("transport start failed"); O.flush(); return 2; }
  auto lr = H.tr->addListener("127.0.0.1", 0, C.tls ? TlsMode::Server : TlsMode::None);
  if (!lr.isOk()) { O.inconclusive("addListener failed"); O.flush(); return 2; }
  uint16_t port = H.tr->getListenerAddress(lr.value()).port;

  const uint32_t L[3] = {1366, 1365, 1365};
  // plain tx variants: 0 spaced, 1 burst (direct-send requeue path), 2 queued behind a back-pressured prelude (drain-loop erase path)
  const uint64_t I = (C.tls || tx) ? 8 : 3, CM = C.tls ? 1400 : (tx ? 1365 : 4095), V = C.tls ? 2 : (tx ? 3 : 1);
  const uint32_t PRE = 100000;
  const uint64_t total = I * CM * V;
  O.line("{\"t\":\"cutspace\",\"total\":" + std::to_string(total) + "}");
  std::vector<uint8_t> E(4096), E2(2 * PRE + 4096), got(2 * PRE + 4096), rev(4096);
  { uint32_t o = 0; for (uint32_t k = 0; k < 3; k++) { genPayload(E.data() + o, 0, k, L[k]); o += L[k]; } }
  { genPayload(E2.data(), 0, 0, PRE); genPayload(E2.data() + PRE, 0, 1, PRE); uint32_t o = 2 * PRE; for (uint32_t k = 0; k < 3; k++) { genPayload(E2.data() + o, 0, k + 2, L[k]); o += L[k]; } }
  fillRun(rev.data(), rkey(0), 0, 4096);
  auto &sp = vf::shim::sockPolicy();
  std::vector<uint64_t> trivialFrom(size_t(I * V), ~0ull);
  uint64_t ran = 0, nontrivial = 0, skipped = 0;
  bool stop = false;
  for (uint64_t n = 0; n < count && !stop; n++)
  {
    uint64_t idx = from + n * stride;
    if (idx >= total) break;
    uint64_t c = idx % CM + 1, i = (idx / CM) % I, v = idx / (CM * I);
    bool queued = tx && !C.tls && v == 2;
    if (!queued && c >= trivialFrom[size_t(v * I + i)]) { skipped++; continue; }
    std::string where = "\"dir\":\"" + std::string(tx ? "tx" : "rx") + "\",\"call\":" + std::to_string(i) + ",\"cut\":" + std::to_string(c) + ",\"variant\":" + std::to_string(v) + ",\"case\":" + std::to_string(idx);
    H.sess.emplace_back(new Sess());
    Sess &s = *H.sess.back();
    s.senders.resize(1);
    H.expectAccept.store(&s);
    BlockingPeer bp;
    bp.fd = Peer::connectTo(port, 16384, 0);
    timeval tv{time_t(C.stallMs / 1000), suseconds_t((C.stallMs % 1000) * 1000)};
    setsockopt(bp.fd, SOL_SOCKET, SO_RCVTIMEO, &tv, sizeof tv);
    if (bp.fd < 0 || !waitUntil([&] { return s.ready.load(); }, 60000)) { O.inconclusive("cut: session establishment failed"); break; }
    auto arm = [&] {
      sp.sendCalls = 0; sp.recvCalls = 0; sp.targetKind = tx ? 1 : 2; sp.targetCall = i; sp.targetLen = uint32_t(c); sp.mode = 2;
    };
    uint64_t short0 = tx ? sp.shortenedSends.load() : sp.shortenedRecvs.load();
    bool bad = false;
    if (C.tls)
    {
      bp.tlsSetup(C.tlsMax);
      if (v == 1) arm();
      if (!bp.tlsConnect())
      {
        sp.mode = 0;
        if (bp.timedOut) R.stall("C01:stall:handshake-no-progress:tls", "cut sweep: TLS handshake did not complete", where);
        else R.viol("peer-protocol-error:handshake", "cut sweep: independent OpenSSL peer could not complete the handshake: " + bp.err, where);
        bp.closeNow(); stop = true; continue;
      }
      if (v == 0) { waitUntil([&] { return s.connectCount.load() > 0; }, 5000); arm(); }
    }
    else if (!queued) arm();
    if (tx)
    {
      vf::Rng r(C.seed, idx);
      std::vector<uint8_t> buf;
      size_t rd = 0, g = 0;
      bool spaced = !C.tls && v == 0;
      const std::vector<uint8_t> &X = queued ? E2 : E;
      if (queued)
      {
        // peer does not read: the prelude exceeds the socket buffers, so its tail and the script sit in the write queue
        H.doSend(s, 0, r, PRE, buf, false); H.doSend(s, 0, r, PRE, buf, false);
        for (uint32_t k = 0; k < 3; k++) H.doSend(s, 0, r, L[k], buf, false);
        int last = -1, stable = 0;
        for (int it = 0; it < 10000 && stable < 10; it++) { int q = 0; ioctl(bp.fd, FIONREAD, &q); if (q == last && q > 0) stable++; else { stable = 0; last = q; } vf::sleepMs(0.2); }
        arm();
        if (!bp.readN(got.data(), X.size(), g)) bad = true;
        rd = g;
      }
      else
      {
        for (uint32_t k = 0; k < 3 && !bad; k++)
        {
          H.doSend(s, 0, r, L[k], buf, false);
          if (spaced) { if (!bp.readN(got.data() + rd, L[k], g)) bad = true; rd += g; }
        }
        if (!spaced && !bad) { if (!bp.readN(got.data(), 4096, g)) bad = true; rd = g; }
      }
      sp.mode = 0;
      size_t m = 0; while (m < rd && got[m] == X[m]) m++;
      if (m < rd)
      {
        // classify against the expected image
        std::string kind = "corrupt-bytes"; int64_t sh = 0;
        size_t w = std::min<size_t>(16, rd - m);
        if (w >= 4)
          for (size_t x = 0; x + w <= X.size(); x++)
            if (x != m && memcmp(X.data() + x, got.data() + m, w) == 0) { sh = int64_t(x) - int64_t(m); kind = sh > 0 ? "lost-bytes" : "duplicate-bytes"; if (x > m) break; }
        R.viol("tx:" + kind, "cut sweep: peer stream differs from the concatenation of the three payloads", where + ",\"offset\":" + std::to_string(m) + ",\"shift\":" + std::to_string(sh));
      }
      else if (bad)
      {
        if (bp.timedOut) { R.stall(std::string("C01:stall:tx-no-progress:") + C.tr(), "cut sweep: the rest of the script never arrived at the peer; session not closed", where + ",\"peer_received\":" + std::to_string(rd) + ",\"session_closed\":" + std::to_string(s.closeCount.load())); stop = true; }
        else if (bp.err == "eof") R.viol(std::string("unexpected-close:") + errName(s.closeCode.load()), "cut sweep: the engine closed the session during a fault-free script", where + ",\"peer_received\":" + std::to_string(rd));
        else R.viol("peer-protocol-error:data", "cut sweep: independent peer failed reading: " + bp.err, where);
      }
    }
    else
    {
      uint32_t o = 0;
      for (uint32_t k = 0; k < 3 && !bad; k++) { if (!bp.writeAll(rev.data() + o, L[k])) bad = true; o += L[k]; }
      bool all = waitUntil([&] { return s.rxBytes.load() >= 4096 || s.closeCount.load() > 0; }, C.stallMs);
      sp.mode = 0;
      s.peer.wrote = 4096;
      checkReverse(R, s, false);
      if (s.closeCount.load() > 0 && s.rxBytes.load() < 4096)
        R.viol(std::string("unexpected-close:") + errName(s.closeCode.load()), "cut sweep: the engine closed the session during a fault-free script", where + ",\"on_data_bytes\":" + std::to_string(s.rxBytes.load()));
      else if (!all)
      { R.stall(std::string("C01:stall:rx-no-progress:") + C.tr(), "cut sweep: peer wrote 4096 bytes, onData stopped short; session not closed", where + ",\"on_data_bytes\":" + std::to_string(s.rxBytes.load())); stop = true; }
    }
    uint64_t short1 = tx ? sp.shortenedSends.load() : sp.shortenedRecvs.load();
    ran++;
    if (!R.keysSeen.empty()) stop = true; // one witness per process is enough; a broken stream makes every later case wait for its watchdog
    if (short1 > short0)
    {
      nontrivial++;
      char sig[128]; snprintf(sig, sizeof sig, "cut %s tls=%d et=%d b=%d v=%" PRIu64 " i=%" PRIu64 " c=%" PRIu64, tx ? "tx" : "rx", C.tls, C.et, C.batch, v, i, c);
      O.caseSig(vf::fnv(sig, strlen(sig)));
      if (nontrivial == 1) O.sample("{\"kind\":\"single-cut case\",\"sig\":" + vf::jstr(sig) + ",\"script_bytes\":4096,\"stream_matched_expected\":" + (R.keysSeen.empty() ? "true" : "false") + "}");
      if (queued) O.obs("cut_cases_in_drain_loop");
    }
    else { if (!queued) trivialFrom[size_t(v * I + i)] = std::min(trivialFrom[size_t(v * I + i)], c); O.caseSig(vf::fnv("cut-trivial", 11)); }
    bp.closeNow();
  }
  sp.mode = 0;
  waitUntil([&] { for (auto &s : H.sess) if (s->closeCount.load() == 0) return false; return true; }, 5000);
  H.tr->stop();
  for (auto &s : H.sess)
  {
    if (s->closeCount.load() > 1) R.viol("close:reported-twice", "cut sweep: onClose fired more than once for one session");
    if (s->ready.load() && s->closeCount.load() == 0) R.viol("close:not-reported", "cut sweep: transport stopped, but onClose never fired for an announced session");
  }
  O.obs("cut_cases_run", ran); O.obs(std::string("cut_cases_with_cut_") + (tx ? "tx" : "rx") + "_" + C.tr(), nontrivial); O.obs("cut_cases_with_cut", nontrivial);
  O.obs("cut_cases_beyond_call_length_skipped", skipped);
  O.obs("short_writes", sp.shortenedSends.load()); O.obs("short_reads", sp.shortenedRecvs.load());
  if (C.tls) O.obs("tls_cut_processes");
  O.obs("tls_want_read", g_wantRead.load()); O.obs("tls_want_write", g_wantWrite.load());
  O.flush();
  return 0;
}

} // namespace

int main(int argc, char **argv)
{
  vf::Args a(argc, argv);
  signal(SIGPIPE, SIG_IGN);
  iora::core::Logger::setLevel(iora::core::Logger::Level::Fatal);
  std::string mode = a.s("mode", "stream");
  if (mode == "cut") return runCut(a);
  Cell C;
  C.tls = a.u("tls", 0); C.tlsMax = int(a.u("tlsmax", 13)); C.et = a.u("et", 1); C.batch = a.u("batch", 0);
  C.peerIsServer = a.s("role", "server") == "client";
  C.threads = int(a.u("threads", 1)); C.sessions = int(a.u("sessions", 1));
  C.bytes = a.u("bytes", 200000); C.rbytes = a.u("rbytes", 50000);
  C.permille = uint32_t(a.u("permille", 300)); C.iocap = uint32_t(a.u("iocap", 0)); C.dist = uint32_t(a.u("dist", 0)); C.hsSends = uint32_t(a.u("hssends", 2));
  C.sndbuf = int(a.u("sndbuf", 4096)); C.rcvbuf = int(a.u("rcvbuf", 4096)); C.peerRcvbuf = int(a.u("peerrcvbuf", 8192)); C.iochunk = int(a.u("iochunk", 65536));
  C.cbsend = a.u("cbsend", 0); C.rwmin = uint32_t(a.u("rwmin", 0)); C.drain = int(a.u("drain", 0));
  C.pauses = int(a.u("pauses", 100)); C.mwq = size_t(a.u("mwq", 1024)); C.window = a.u("window", 1u << 20);
  C.fin = a.s("fin", "half"); C.fault = a.s("fault", "none");
  C.seed = a.u("seed", 1); C.cell = a.u("cell", 0); C.stallMs = a.u("stallms", 8000); C.watchdogMs = a.u("watchdogms", 240000);
  C.tmp = a.s("tmp", "/tmp");
  if (C.threads < 1 || C.threads > 31 || C.sessions < 1 || C.sessions > 7) { fprintf(stderr, "bad threads/sessions\n"); return 3; }
  return runStream(C);
}
