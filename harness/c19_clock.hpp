// /verif/harness/c19_clock.hpp — steady-clock control for the DnsCache histories (C19).
//
// Layered on the shared clock shim (harness/shim/shims.hpp with VF_SHIM_CLOCK), which *offsets*
// CLOCK_MONOTONIC but cannot stop it. ExpiringCache reads its expiry clock only through
// std::chrono::steady_clock::now(); this header defines that function in the harness executable
// (declared, not defined, in <chrono>; the executable's definition pre-empts libstdc++.so's) so a
// history can additionally FREEZE the clock at an exact nanosecond. With the clock frozen the
// insertion instant of a put is known exactly, so "1 ns before / exactly at / 1 ns after expiry"
// are reachable states. Unfrozen, the function falls through to clock_gettime(CLOCK_MONOTONIC),
// i.e. the shim's offset clock (real time keeps ticking; the harness then judges with intervals).
//
// Deadlines handed to pthread_cond_clockwait (the purge thread's wait_for) are translated back to
// real time by the shim using monoOffsetNs; resync() keeps that offset consistent with a frozen
// clock so a long freeze cannot turn the purge thread's wait into a spin.
//
// Include AFTER `#define VF_SHIM_CLOCK` + "shim/shims.hpp", in exactly one TU.
#pragma once
#include <atomic>
#include <chrono>
#include <cstdint>

#ifndef VF_SHIM_CLOCK
#error "c19_clock.hpp needs VF_SHIM_CLOCK and shim/shims.hpp included first"
#endif

namespace c19clk {

inline std::atomic<int64_t> &frozenNs() { static std::atomic<int64_t> v{0}; return v; }

inline int64_t rawMonoNs()
{
  struct timespec ts;
  syscall(SYS_clock_gettime, CLOCK_MONOTONIC, &ts);
  return int64_t(ts.tv_sec) * 1000000000ll + ts.tv_nsec;
}
inline int64_t shimMonoNs()
{
  struct timespec ts;
  clock_gettime(CLOCK_MONOTONIC, &ts); // the shim's definition (offset applied)
  return int64_t(ts.tv_sec) * 1000000000ll + ts.tv_nsec;
}
inline int64_t nowNs()
{
  int64_t f = frozenNs().load(std::memory_order_acquire);
  return f ? f : shimMonoNs();
}
inline void resync()
{
  int64_t f = frozenNs().load(std::memory_order_acquire);
  if (f) vf::shim::clockPolicy().monoOffsetNs.store(f - rawMonoNs(), std::memory_order_relaxed);
}
inline void freezeAt(int64_t ns)
{
  vf::shim::clockPolicy().monoOffsetNs.store(ns - rawMonoNs(), std::memory_order_relaxed);
  frozenNs().store(ns, std::memory_order_release);
}
inline void unfreeze()
{
  int64_t f = frozenNs().load();
  if (f) vf::shim::clockPolicy().monoOffsetNs.store(f - rawMonoNs(), std::memory_order_relaxed);
  frozenNs().store(0, std::memory_order_release);
}
// move the clock iora sees to exactly `ns` (frozen) or by a delta (running); never backwards
inline void setFrozen(int64_t ns) { freezeAt(ns); }
inline void advanceRunning(int64_t deltaNs)
{
  vf::shim::clockPolicy().monoOffsetNs.fetch_add(deltaNs, std::memory_order_relaxed);
}
inline void reset()
{
  frozenNs().store(0, std::memory_order_release);
  vf::shim::clockPolicy().monoOffsetNs.store(0, std::memory_order_relaxed);
}

} // namespace c19clk

// The steady clock iora sees. (steady_clock lives in the inline namespace std::chrono::_V2.)
std::chrono::steady_clock::time_point std::chrono::steady_clock::now() noexcept
{
  return time_point(std::chrono::duration_cast<duration>(std::chrono::nanoseconds(c19clk::nowNs())));
}
