// /verif/harness/c03_scripted_engine.hpp — vf::ScriptedEngine, a scripted test double for
// iora::network::detail::EngineBase, plus the definition of the test seam
// iora::network::test::TransportEngineInjector (befriended by Transport) used to inject it.
//
// Purpose: properties about the layer *above* the engine (Transport's sync receive buffer, read
// modes, connectSync bookkeeping, teardown handshake) need exact control over what the engine
// reports and when: arrival chunking, the placement of a close relative to the last bytes,
// connect completions/failures. A kernel socket cannot give that; this engine can.
//
// Shape (mirrors the real engines' threading contract):
//   * one "I/O thread" (started by start()) executes a FIFO of closures, one at a time;
//   * commands coming from Transport are ENQUEUE-ONLY, as EngineBase documents:
//       connect()/connectViaListener() allocate a SessionId, enqueue the completion and return;
//       close() enqueues; send()/sendAsync() record the bytes (sendAsync completes on the caller's
//       thread like TcpEngine does);
//   * the harness injects events through the Control handle: post(fn) / postWait(fn) run an
//     arbitrary closure on the I/O thread; inside such a closure the fire*() members invoke
//     Transport's engine callbacks exactly as a real engine would (on the I/O thread, no engine
//     lock held);
//   * stop() behaves like TcpEngine::stop(): runs what is queued, fires onClose for every session
//     still open (reason {Unknown,"shutdown"}), closes the queue, joins the thread;
//   * detachForTermination()/scheduleSelfDestruct() follow the deferred-self-destruct contract.
//
// All state lives in a shared Control block: the engine object (owned by Transport through a
// unique_ptr) is a thin shell, so the harness may keep its Control handle after the Transport
// is gone (post() then returns false).
//
// Usage:
//     auto eng  = std::make_unique<vf::ScriptedEngine>();
//     auto ctl  = eng->control();                       // keep this
//     auto tr   = iora::network::test::TransportEngineInjector::withEngine(std::move(eng), cfg);
//     tr->start();
//     auto sid  = ctl->acceptSession({"10.0.0.1", 1234});   // fires onAccept on the I/O thread
//     ctl->postWait([&]{ ctl->fireData(sid, bytes, n); });  // one arrival of exactly n bytes
//     ctl->postWait([&]{ ctl->fireClose(sid, {iora::network::TransportError::PeerClosed, "eof"}); });
//
// The TU that includes this header must include <iora/network/transport_impl.hpp> exactly once
// (Transport's inline definitions). Define VF_NO_ENGINE_INJECTOR before including this header
// if the TU defines iora::network::test::TransportEngineInjector itself.
//
// Self-contained: depends only on iora's public transport headers and the standard library.
#pragma once

#include <iora/network/detail/engine_base.hpp>
#include <iora/network/transport.hpp>

#include <atomic>
#include <condition_variable>
#include <cstdint>
#include <deque>
#include <functional>
#include <map>
#include <memory>
#include <mutex>
#include <string>
#include <thread>
#include <vector>

#ifndef VF_NO_ENGINE_INJECTOR
namespace iora { namespace network { namespace test {
// Definition of the befriended test seam (transport.hpp only forward-declares it).
struct TransportEngineInjector
{
  static std::shared_ptr<Transport> withEngine(std::unique_ptr<detail::EngineBase> engine,
                                               TransportConfig config)
  {
    return Transport::withEngine(std::move(engine), std::move(config));
  }
};
}}} // namespace iora::network::test
#endif

namespace vf {

class ScriptedEngine final : public iora::network::detail::EngineBase
{
public:
  using SessionId = iora::network::SessionId;
  using ListenerId = iora::network::ListenerId;
  using Address = iora::network::TransportAddress;
  using ErrorInfo = iora::network::TransportErrorInfo;
  using Error = iora::network::TransportError;

  struct Command // everything Transport asked the engine to do, in call order
  {
    enum Kind { Connect, ConnectViaListener, Close, Send, AddListener, SetDscp } kind;
    SessionId sid = 0;
    std::string host;
    std::uint16_t port = 0;
    std::size_t bytes = 0;
  };

  struct Control : std::enable_shared_from_this<Control>
  {
    // ---------------------------------------------------------------- configuration (set before use)
    // Runs on the I/O thread first thing (e.g. to exempt it from a condvar shim).
    std::function<void()> threadInit;
    // Called on the I/O thread when a connect command is processed. Default: open the session and
    // fire onConnect. Replace to script failures (fireClose without opening), delays or "never".
    std::function<void(Control &, SessionId, const std::string &, std::uint16_t)> connectPolicy;
    // Reason reported by onClose for a Transport-initiated close().
    ErrorInfo localCloseReason{Error::Unknown, "closed by local close()", 0, 0};
    // Observation hook around the processing of a Transport-initiated close() on the I/O thread:
    // called with after=false just before onClose would fire (flag = session still open) and with
    // after=true right after (flag = onClose was fired). Lets a harness bracket the close exactly.
    std::function<void(SessionId, bool after, bool flag)> localCloseHook;
    // If set, send() returns this instead of "queue open".
    std::function<bool(SessionId, std::size_t)> sendPolicy;

    // ---------------------------------------------------------------- harness side (any thread)
    // Enqueue a closure for the I/O thread. false if the engine is stopped / not started.
    bool post(std::function<void()> fn)
    {
      std::lock_guard<std::mutex> g(qm);
      if (!accepting) return false;
      q.push_back(std::move(fn));
      qcv.notify_one();
      return true;
    }
    // Enqueue and block until the closure has run. Must not be called on the I/O thread.
    bool postWait(std::function<void()> fn)
    {
      struct Done { std::mutex m; std::condition_variable cv; bool done = false; };
      auto d = std::make_shared<Done>();
      if (!post([fn = std::move(fn), d] {
            fn();
            std::lock_guard<std::mutex> g(d->m);
            d->done = true;
            d->cv.notify_all();
          }))
        return false;
      std::unique_lock<std::mutex> lk(d->m);
      d->cv.wait(lk, [&] { return d->done; });
      return true;
    }
    // Block until the queue is empty and the I/O thread is idle.
    void quiesce()
    {
      std::unique_lock<std::mutex> lk(qm);
      idleCv.wait(lk, [&] { return (q.empty() && !busy) || !threadAlive; });
    }
    SessionId allocSid() { return nextSid.fetch_add(1); }
    // Announce an inbound session: opens it and fires onAccept on the I/O thread. Returns its id.
    SessionId acceptSession(const Address &peer)
    {
      SessionId sid = allocSid();
      post([this, sid, peer] { openSession(sid, peer); fireAccept(sid, peer); });
      return sid;
    }
    // Convenience: one arrival of exactly these bytes (copied), FIFO with everything else.
    bool deliver(SessionId sid, const void *p, std::size_t n)
    {
      auto buf = std::make_shared<std::vector<std::uint8_t>>((const std::uint8_t *)p, (const std::uint8_t *)p + n);
      return post([this, sid, buf] { fireData(sid, buf->data(), buf->size()); });
    }
    bool closeFromPeer(SessionId sid, ErrorInfo reason = ErrorInfo{Error::PeerClosed, "peer closed", 0, 0})
    {
      return post([this, sid, reason] { fireClose(sid, reason); });
    }
    bool isOpen(SessionId sid) const
    {
      std::lock_guard<std::mutex> g(sm);
      auto it = sessions.find(sid);
      return it != sessions.end() && it->second.open;
    }
    std::string sentBytes(SessionId sid) const
    {
      std::lock_guard<std::mutex> g(sm);
      auto it = sessions.find(sid);
      return it == sessions.end() ? std::string() : it->second.sent;
    }
    std::vector<Command> commands() const
    {
      std::lock_guard<std::mutex> g(sm);
      return cmdLog;
    }
    bool onIoThread() const { return std::this_thread::get_id() == ioThreadId(); }
    std::thread::id ioThreadId() const
    {
      std::lock_guard<std::mutex> g(tm);
      return ioTid;
    }

    // ---------------------------------------------------------------- I/O-thread side
    // Call these only from closures running on the I/O thread (post/postWait/connectPolicy).
    void openSession(SessionId sid, const Address &peer)
    {
      std::lock_guard<std::mutex> g(sm);
      auto &s = sessions[sid];
      s.open = true;
      s.everOpen = true;
      s.peer = peer;
      stats.sessionsCurrent++;
      if (stats.sessionsCurrent > stats.sessionsPeak) stats.sessionsPeak = stats.sessionsCurrent;
    }
    void fireAccept(SessionId sid, const Address &peer)
    {
      auto cb = copyCallbacks().onAccept;
      { std::lock_guard<std::mutex> g(sm); stats.accepted++; }
      if (cb) cb(sid, peer);
    }
    void fireConnect(SessionId sid, const Address &peer)
    {
      auto cb = copyCallbacks().onConnect;
      { std::lock_guard<std::mutex> g(sm); stats.connected++; }
      if (cb) cb(sid, peer);
    }
    // One arrival of exactly [p, p+n). Returns false (nothing delivered) if the session is not open
    // and strict is true — a real engine never reports data for a closed session.
    bool fireData(SessionId sid, const std::uint8_t *p, std::size_t n, bool strict = true)
    {
      if (strict && !isOpen(sid)) return false;
      auto cb = copyCallbacks().onData;
      { std::lock_guard<std::mutex> g(sm); stats.bytesIn += n; }
      if (cb) cb(sid, iora::core::BufferView{p, n}, std::chrono::steady_clock::now());
      return true;
    }
    // Reports the close of a session at most once (strict) and marks it closed.
    bool fireClose(SessionId sid, const ErrorInfo &reason, bool strict = true)
    {
      {
        std::lock_guard<std::mutex> g(sm);
        auto it = sessions.find(sid);
        bool wasOpen = it != sessions.end() && it->second.open;
        if (strict && it != sessions.end() && it->second.closeReported) return false;
        auto &s = sessions[sid];
        s.open = false;
        s.closeReported = true;
        if (wasOpen) stats.sessionsCurrent--;
        stats.closed++;
      }
      auto cb = copyCallbacks().onClose;
      if (cb) cb(sid, reason);
      return true;
    }
    void fireError(Error code, const std::string &msg)
    {
      auto cb = copyCallbacks().onError;
      { std::lock_guard<std::mutex> g(sm); stats.errors++; }
      if (cb) cb(code, msg);
    }

    // ---------------------------------------------------------------- internals
    struct Sess { bool open = false, everOpen = false, closeReported = false; Address peer; std::string sent; };
    mutable std::mutex qm;
    std::condition_variable qcv, idleCv;
    std::deque<std::function<void()>> q;
    bool accepting = false;   // queue open
    bool busy = false;        // a closure is executing
    bool threadAlive = false;
    bool exitRequested = false;
    std::atomic<bool> running{false};
    mutable std::mutex tm;
    std::thread th;
    std::thread::id ioTid;
    mutable std::mutex cbm;
    Callbacks cbs;
    mutable std::mutex sm;
    std::map<SessionId, Sess> sessions;
    std::map<ListenerId, Address> listeners;
    std::vector<Command> cmdLog;
    iora::network::TransportStats stats;
    std::atomic<SessionId> nextSid{1};
    std::atomic<ListenerId> nextLid{1};
    std::function<void()> selfDestruct; // I/O thread only

    Callbacks copyCallbacks() const
    {
      std::lock_guard<std::mutex> g(cbm);
      return cbs;
    }
    void logCmd(Command c)
    {
      std::lock_guard<std::mutex> g(sm);
      stats.commands++;
      if (cmdLog.size() < 100000) cmdLog.push_back(std::move(c));
    }
    void threadMain()
    {
      if (threadInit) threadInit();
      for (;;)
      {
        std::function<void()> fn;
        {
          std::unique_lock<std::mutex> lk(qm);
          busy = false;
          idleCv.notify_all();
          qcv.wait(lk, [&] { return !q.empty() || exitRequested; });
          if (q.empty()) break; // exitRequested and nothing left
          fn = std::move(q.front());
          q.pop_front();
          busy = true;
        }
        fn();
      }
      // shutdown drain: every session still open gets its close, then the queue is closed
      std::vector<SessionId> open;
      {
        std::lock_guard<std::mutex> g(sm);
        for (auto &kv : sessions) if (kv.second.open) open.push_back(kv.first);
      }
      for (auto sid : open) fireClose(sid, ErrorInfo{Error::Unknown, "shutdown", 0, 0});
      std::deque<std::function<void()>> residual;
      {
        std::lock_guard<std::mutex> g(qm);
        accepting = false;
        residual.swap(q); // raced in after the drain: dropped, like the real engines' residual queue
        threadAlive = false;
        busy = false;
        idleCv.notify_all();
      }
      std::function<void()> sd;
      sd.swap(selfDestruct);
      if (sd) sd(); // deferred self-destruction of the owner: nothing of the owner is touched after
    }
  };

  ScriptedEngine() : c_(std::make_shared<Control>()) {}
  ~ScriptedEngine() override { stop(); }
  ScriptedEngine(const ScriptedEngine &) = delete;
  ScriptedEngine &operator=(const ScriptedEngine &) = delete;

  std::shared_ptr<Control> control() const { return c_; }

  // ------------------------------------------------------------------ EngineBase: lifecycle
  iora::network::StartResult start() override
  {
    bool exp = false;
    if (!c_->running.compare_exchange_strong(exp, true))
      return iora::network::StartResult::err(ErrorInfo{Error::Config, "already running", 0, 0});
    {
      std::lock_guard<std::mutex> g(c_->qm);
      c_->accepting = true;
      c_->exitRequested = false;
      c_->threadAlive = true;
      c_->busy = false;
    }
    auto c = c_; // the thread keeps the Control alive on its own
    std::lock_guard<std::mutex> g(c_->tm);
    c_->th = std::thread([c] { c->threadMain(); });
    c_->ioTid = c_->th.get_id();
    return iora::network::StartResult::ok();
  }
  void stop() override
  {
    bool exp = true;
    if (!c_->running.compare_exchange_strong(exp, false)) return;
    {
      std::lock_guard<std::mutex> g(c_->qm);
      c_->exitRequested = true; // everything already queued still runs first (FIFO)
      c_->qcv.notify_all();
    }
    std::thread t;
    {
      std::lock_guard<std::mutex> g(c_->tm);
      t.swap(c_->th);
    }
    if (t.joinable())
    {
      if (t.get_id() == std::this_thread::get_id()) t.detach(); // defensive: never self-join
      else t.join();
    }
    std::lock_guard<std::mutex> g(c_->tm);
    c_->ioTid = std::thread::id();
  }
  bool isRunning() const override { return c_->running.load(std::memory_order_acquire); }
  ErrorInfo lastError() const override { return ErrorInfo{Error::None, "", 0, 0}; }

  // ------------------------------------------------------------------ EngineBase: connections
  iora::network::ListenResult addListener(const std::string &bindIp, std::uint16_t port,
                                          iora::network::TlsMode) override
  {
    ListenerId lid = c_->nextLid.fetch_add(1);
    {
      std::lock_guard<std::mutex> g(c_->sm);
      c_->listeners[lid] = Address{bindIp, port};
    }
    Command cmd; cmd.kind = Command::AddListener; cmd.sid = lid; cmd.host = bindIp; cmd.port = port;
    c_->logCmd(cmd);
    return iora::network::ListenResult::ok(lid);
  }
  iora::network::ConnectResult connect(const std::string &host, std::uint16_t port,
                                       iora::network::TlsMode) override
  {
    return doConnect(Command::Connect, host, port);
  }
  iora::network::ConnectResult connectViaListener(ListenerId, const std::string &host,
                                                  std::uint16_t port) override
  {
    return doConnect(Command::ConnectViaListener, host, port);
  }
  bool close(SessionId sid) override
  {
    Command cmd; cmd.kind = Command::Close; cmd.sid = sid;
    c_->logCmd(cmd);
    auto c = c_.get();
    return c_->post([c, sid] {
      bool open = c->isOpen(sid);
      if (c->localCloseHook) c->localCloseHook(sid, /*after=*/false, open);
      bool fired = open && c->fireClose(sid, c->localCloseReason);
      if (c->localCloseHook) c->localCloseHook(sid, /*after=*/true, fired);
    });
  }

  // ------------------------------------------------------------------ EngineBase: data
  bool send(SessionId sid, const void *data, std::size_t len) override
  {
    Command cmd; cmd.kind = Command::Send; cmd.sid = sid; cmd.bytes = len;
    c_->logCmd(cmd);
    {
      std::lock_guard<std::mutex> g(c_->sm);
      auto it = c_->sessions.find(sid);
      if (it != c_->sessions.end() && it->second.sent.size() < (64u << 20))
        it->second.sent.append((const char *)data, len);
      c_->stats.bytesOut += len;
    }
    if (c_->sendPolicy) return c_->sendPolicy(sid, len);
    std::lock_guard<std::mutex> g(c_->qm);
    return c_->accepting;
  }
  void sendAsync(SessionId sid, const void *data, std::size_t len,
                 iora::network::SendCompleteCallback cb) override
  {
    bool ok = send(sid, data, len);
    if (!cb) return;
    if (ok) cb(sid, iora::network::SendResult::ok(len));
    else cb(sid, iora::network::SendResult::err(ErrorInfo{Error::Socket, "send enqueue failed", 0, 0}));
  }
  void setCallbacks(Callbacks cbs) override
  {
    std::lock_guard<std::mutex> g(c_->cbm);
    c_->cbs = std::move(cbs);
  }

  // ------------------------------------------------------------------ EngineBase: introspection
  iora::network::TransportStats getStats() const override
  {
    std::lock_guard<std::mutex> g(c_->sm);
    return c_->stats;
  }
  Address getListenerAddress(ListenerId lid) const override
  {
    std::lock_guard<std::mutex> g(c_->sm);
    auto it = c_->listeners.find(lid);
    return it == c_->listeners.end() ? Address{} : it->second;
  }
  Address getLocalAddress(SessionId) const override { return Address{"scripted-local", 1}; }
  Address getRemoteAddress(SessionId sid) const override
  {
    std::lock_guard<std::mutex> g(c_->sm);
    auto it = c_->sessions.find(sid);
    return it == c_->sessions.end() ? Address{} : it->second.peer;
  }
  bool setDscp(SessionId sid, std::uint8_t) override
  {
    Command cmd; cmd.kind = Command::SetDscp; cmd.sid = sid;
    c_->logCmd(cmd);
    return c_->isOpen(sid);
  }
  std::thread::id getIoThreadId() const override { return c_->ioThreadId(); }

  // ------------------------------------------------------------------ EngineBase: self-destruct path
  void detachForTermination() override
  {
    c_->running.store(false, std::memory_order_release);
    {
      std::lock_guard<std::mutex> g(c_->qm);
      c_->exitRequested = true;
      c_->qcv.notify_all();
    }
    std::lock_guard<std::mutex> g(c_->tm);
    if (c_->th.joinable()) c_->th.detach();
    c_->ioTid = std::thread::id();
  }
  void scheduleSelfDestruct(std::function<void()> deleter) override { c_->selfDestruct = std::move(deleter); }

private:
  iora::network::ConnectResult doConnect(Command::Kind kind, const std::string &host, std::uint16_t port)
  {
    SessionId sid = c_->allocSid();
    Command cmd; cmd.kind = kind; cmd.sid = sid; cmd.host = host; cmd.port = port;
    c_->logCmd(cmd);
    auto c = c_.get();
    bool ok = c_->post([c, sid, host, port] {
      if (c->connectPolicy) c->connectPolicy(*c, sid, host, port);
      else { c->openSession(sid, Address{host, port}); c->fireConnect(sid, Address{host, port}); }
    });
    if (!ok)
      return iora::network::ConnectResult::err(ErrorInfo{Error::ShuttingDown, "connect: engine stopped", 0, 0});
    return iora::network::ConnectResult::ok(sid);
  }

  std::shared_ptr<Control> c_;
};

} // namespace vf
