// C06 — offline history checker + datagram codec. Shares no code with iora: it sees only the
// event log written by the driver (raw-socket observations, transport callbacks, driver calls).
//
// Every datagram carries (origin, seq=id, length, checksum): a 16-byte header
//   magic u16 | origin u16 | id u32 | length u32 | csum u32 = fnv32(nonce, origin, id, length)
// followed by a body regenerated from (nonce, id). The header checksum does not cover the body, so
// a truncated datagram is still identified; the body is compared byte for byte against the
// regenerated one. Datagrams shorter than the header (1..15 bytes) are identified through a
// per-history registry of unique byte strings.
#pragma once
#include "vf.hpp"

#include <algorithm>
#include <functional>
#include <map>
#include <set>
#include <string>
#include <vector>

namespace c06 {

struct Ev
{
  enum K : uint8_t { PSEND, TSEND, OPEN, CLOSE_CALL, ACCEPT, CONNECT, DATA, CLOSE, ERR, WIRE, MARK } k = MARK;
  uint64_t id = 0;    // datagram id (PSEND/TSEND), operation id (OPEN)
  uint64_t sid = 0;   // session (TSEND/OPEN/CLOSE_CALL/ACCEPT/CONNECT/DATA/CLOSE); PSEND cls 1/2: targeted connected session
  int peer = -1;      // raw peer index: PSEND sender / WIRE receiver / OPEN target
  int cls = 0;        // PSEND: 0 to a listener, 1 to a connected session from its own peer, 2 to a connected
                      //        session's port from a foreign peer (kernel must not deliver it)
                      // OPEN: 1 connect, 2 connectViaListener
  int64_t rc = -2;    // PSEND: sendto() result; TSEND: 1 accepted / 0 refused; OPEN: 1 ok / 0 error
  uint32_t len = 0;   // payload length asked for (PSEND/TSEND)
  bool trunc = false; // WIRE: MSG_TRUNC set by the kernel
  std::string a1;     // PSEND: source; OPEN: target; ACCEPT/CONNECT: address given to the callback; WIRE: source
  std::string a2;     // PSEND: destination; WIRE: own (destination) address; ACCEPT/CONNECT/DATA: getRemoteAddress(sid)
  std::string a3;     // ACCEPT/CONNECT/DATA: getLocalAddress(sid); OPEN via: listener address
  std::string bytes;  // DATA/WIRE: payload. CLOSE/ERR: message. MARK: text
  std::string code;   // CLOSE/ERR: TransportError name
  uint64_t t = 0;
};

inline uint32_t fnv32(const void *p, size_t n, uint32_t h = 2166136261u)
{
  const unsigned char *b = (const unsigned char *)p;
  for (size_t i = 0; i < n; i++) { h ^= b[i]; h *= 16777619u; }
  return h;
}

struct Ident
{
  // 0 exact, 1 truncated (shorter than its header says / a cut header), 2 longer than its header says
  // (merged with following bytes), 3 right length but body differs, 4 not identifiable
  int status = 4;
  uint64_t id = 0;
  unsigned origin = 0;
  uint32_t declared = 0;
  size_t firstDiff = 0;
  bool nextLooksLikeHeader = false; // status 2: the surplus starts with another datagram header
};

struct Codec
{
  static constexpr uint16_t MAGIC = 0xC06D;
  static constexpr size_t HDR = 16;
  uint32_t nonce = 0;
  uint32_t tinyCounter[HDR] = {0};
  std::map<std::string, uint64_t> tiny; // exact bytes -> id

  static void put16(std::string &s, size_t o, uint16_t v) { s[o] = char(v & 0xff); s[o + 1] = char(v >> 8); }
  static void put32(std::string &s, size_t o, uint32_t v) { for (int i = 0; i < 4; i++) s[o + i] = char((v >> (8 * i)) & 0xff); }
  static uint16_t get16(const std::string &s, size_t o) { return uint16_t((unsigned char)s[o] | ((unsigned char)s[o + 1] << 8)); }
  static uint32_t get32(const std::string &s, size_t o) { uint32_t v = 0; for (int i = 0; i < 4; i++) v |= uint32_t((unsigned char)s[o + i]) << (8 * i); return v; }
  uint32_t hdrSum(uint16_t origin, uint32_t id, uint32_t len) const
  {
    uint32_t f[4] = {nonce, origin, id, len};
    return fnv32(f, sizeof f);
  }
  void body(std::string &s, uint32_t id) const
  {
    uint64_t x = (uint64_t(nonce) << 32) ^ (uint64_t(id) * 0x9E3779B97F4A7C15ull) ^ 0xC06C06C06ull;
    size_t i = HDR;
    while (i < s.size())
    {
      x ^= x << 13; x ^= x >> 7; x ^= x << 17;
      uint64_t v = x;
      for (int k = 0; k < 8 && i < s.size(); k++, i++) { s[i] = char(v & 0xff); v >>= 8; }
    }
  }
  // how many distinct datagrams of this tiny length can still be made
  bool tinyAvailable(uint32_t len) const
  {
    if (len >= HDR) return true;
    uint64_t cap = len >= 4 ? 0xffffffffull : (1ull << (8 * len));
    return tinyCounter[len] < cap;
  }
  std::string make(uint16_t origin, uint64_t id, uint32_t len)
  {
    std::string s(len, '\0');
    if (len < HDR)
    {
      uint32_t c = tinyCounter[len]++;
      for (uint32_t i = 0; i < len; i++) s[i] = i < 4 ? char((c >> (8 * i)) & 0xff) : char((0x5a + 17 * i + c) & 0xff);
      tiny[s] = id;
      return s;
    }
    put16(s, 0, MAGIC); put16(s, 2, origin); put32(s, 4, uint32_t(id)); put32(s, 8, len);
    put32(s, 12, hdrSum(origin, uint32_t(id), len));
    body(s, uint32_t(id));
    return s;
  }
  bool headerAt(const std::string &b, size_t off, unsigned &origin, uint32_t &id, uint32_t &len) const
  {
    if (b.size() < off + HDR) return false;
    if (get16(b, off) != MAGIC) return false;
    origin = get16(b, off + 2); id = get32(b, off + 4); len = get32(b, off + 8);
    return get32(b, off + 12) == hdrSum(uint16_t(origin), id, len);
  }
  Ident identify(const std::string &b) const
  {
    Ident r;
    if (b.empty()) return r;
    if (b.size() < HDR)
    {
      auto it = tiny.find(b);
      if (it != tiny.end()) { r.status = 0; r.id = it->second; r.declared = uint32_t(b.size()); return r; }
      if (b.size() >= 2 && get16(b, 0) == MAGIC) { r.status = 1; return r; } // a cut header
      return r;
    }
    unsigned origin; uint32_t id, len;
    if (!headerAt(b, 0, origin, id, len)) return r;
    r.id = id; r.origin = origin; r.declared = len;
    std::string exp(len, '\0');
    if (len >= HDR) { exp.replace(0, HDR, b, 0, HDR); body(exp, id); }
    size_t n = std::min(exp.size(), b.size());
    size_t d = 0;
    while (d < n && exp[d] == b[d]) d++;
    r.firstDiff = d;
    if (b.size() < len) { r.status = 1; return r; }
    if (b.size() > len)
    {
      r.status = 2;
      unsigned o2; uint32_t i2, l2;
      r.nextLooksLikeHeader = headerAt(b, len, o2, i2, l2);
      return r;
    }
    r.status = d == n ? 0 : 3;
    return r;
  }
};

struct Viol { std::string key, what; size_t at; std::string peerAddr; std::set<uint64_t> sids; };

struct CheckResult
{
  std::vector<Viol> viols;
  std::vector<Viol> lossSuspects; // loss-class findings (need zero kernel drops and an isolated reproduction)
  std::map<std::string, uint64_t> obs;
  std::map<std::string, uint64_t> obsMax;
};

struct Meta
{
  std::set<std::string> listenerAddrs;
  std::map<std::string, uint64_t> dropsAtPort; // "ip:port" -> kernel drop count read from /proc/net/udp (+ SO_RXQ_OVFL)
  bool dropsReadable = true;
  // TransportConfig::maxSessions of the history (0 = unlimited). At the cap the engine may refuse a NEW
  // peer (no session is created, its datagram is not delivered); peers that already have an open
  // receiving session are untouched by the cap.
  uint64_t maxSessions = 0;
};

struct Sess
{
  uint64_t sid = 0;
  char kind = '?'; // A accepted, C connect, V connectViaListener
  std::string peer, local;
  bool open = true;
  size_t openIdx = 0, closeIdx = SIZE_MAX, lastRecvIdx = SIZE_MAX;
  std::string closeCode, closeMsg;
  bool closeCalled = false;
  bool everReceived = false;
};

inline std::string shortEv(const Ev &e, size_t i)
{
  char b[400];
  switch (e.k)
  {
  case Ev::PSEND: snprintf(b, sizeof b, "#%zu peer%d %s -> %s dg%llu len=%u rc=%lld%s", i, e.peer, e.a1.c_str(), e.a2.c_str(), (unsigned long long)e.id, e.len, (long long)e.rc, e.cls == 1 ? " (to connected session)" : e.cls == 2 ? " (foreign peer to connected port)" : ""); break;
  case Ev::TSEND: snprintf(b, sizeof b, "#%zu send(sid=%llu) dg%llu len=%u accepted=%lld", i, (unsigned long long)e.sid, (unsigned long long)e.id, e.len, (long long)e.rc); break;
  case Ev::OPEN: snprintf(b, sizeof b, "#%zu %s(%s%s) -> sid=%llu ok=%lld", i, e.cls == 1 ? "connect" : "connectViaListener", e.cls == 2 ? (e.a3 + ", ").c_str() : "", e.a1.c_str(), (unsigned long long)e.sid, (long long)e.rc); break;
  case Ev::CLOSE_CALL: snprintf(b, sizeof b, "#%zu close(sid=%llu)", i, (unsigned long long)e.sid); break;
  case Ev::ACCEPT: snprintf(b, sizeof b, "#%zu onAccept(sid=%llu, %s) remote=%s local=%s", i, (unsigned long long)e.sid, e.a1.c_str(), e.a2.c_str(), e.a3.c_str()); break;
  case Ev::CONNECT: snprintf(b, sizeof b, "#%zu onConnect(sid=%llu, %s) remote=%s local=%s", i, (unsigned long long)e.sid, e.a1.c_str(), e.a2.c_str(), e.a3.c_str()); break;
  case Ev::DATA: snprintf(b, sizeof b, "#%zu onData(sid=%llu, %zu bytes) remote=%s local=%s", i, (unsigned long long)e.sid, e.bytes.size(), e.a2.c_str(), e.a3.c_str()); break;
  case Ev::CLOSE: snprintf(b, sizeof b, "#%zu onClose(sid=%llu, %s, \"%.60s\")", i, (unsigned long long)e.sid, e.code.c_str(), e.bytes.c_str()); break;
  case Ev::ERR: snprintf(b, sizeof b, "#%zu onError(%s, \"%.80s\")", i, e.code.c_str(), e.bytes.c_str()); break;
  case Ev::WIRE: snprintf(b, sizeof b, "#%zu wire %s -> %s (peer%d) %zu bytes%s", i, e.a1.c_str(), e.a2.c_str(), e.peer, e.bytes.size(), e.trunc ? " MSG_TRUNC" : ""); break;
  default: snprintf(b, sizeof b, "#%zu -- %.120s", i, e.bytes.c_str()); break;
  }
  return b;
}

// events that mention the given peer address or one of the given sessions, newest last, bounded
inline std::string traceFor(const std::vector<Ev> &log, size_t upTo, const std::string &peerAddr, const std::set<uint64_t> &sids, size_t maxLines = 40)
{
  std::vector<std::string> lines;
  for (size_t i = std::min(upTo + 1, log.size()); i-- > 0 && lines.size() < maxLines;)
  {
    const Ev &e = log[i];
    bool rel = false;
    if (!peerAddr.empty() && (e.a1 == peerAddr || e.a2 == peerAddr)) rel = true;
    if (e.sid && sids.count(e.sid)) rel = true;
    if (rel) lines.push_back(shortEv(e, i));
  }
  std::string out = "[";
  for (size_t i = lines.size(); i-- > 0;) { out += vf::jstr(lines[i]); if (i) out += ","; }
  return out + "]";
}

inline CheckResult checkHistory(const std::vector<Ev> &log, const Codec &codec, const Meta &meta)
{
  CheckResult R;
  auto &obs = R.obs;
  std::map<uint64_t, size_t> psend, tsend;     // datagram id -> log index
  std::map<uint64_t, size_t> openBySid;        // sid -> OPEN log index
  for (size_t i = 0; i < log.size(); i++)
  {
    const Ev &e = log[i];
    if (e.k == Ev::PSEND) psend[e.id] = i;
    else if (e.k == Ev::TSEND) tsend[e.id] = i;
    else if (e.k == Ev::OPEN && e.rc == 1 && e.sid) openBySid[e.sid] = i;
  }
  std::map<uint64_t, Sess> sess;
  std::map<std::pair<std::string, std::string>, uint64_t> recv; // (address the peer sent to, peer) -> receiving session
  std::map<std::string, uint64_t> connectedLocal;                // local address of a connect() session -> sid
  std::map<uint64_t, std::vector<size_t>> delivered;             // PSEND id -> DATA indices
  std::map<uint64_t, std::vector<size_t>> onWire;                // TSEND id -> WIRE indices
  std::map<uint64_t, uint64_t> rAtSend;                          // PSEND id -> receiving session open at send time (0 none)
  std::map<uint64_t, bool> targetOpenAtSend;                     // PSEND id (cls 1) -> connected session open at send time
  std::set<std::pair<std::string, uint64_t>> otherClosedWhileOpen; // (peer, receiving sid) with a close of another session pending a probe

  // witness context: the peer address the event is about and every session known to belong to it
  auto context = [&](size_t at, std::string &peerAddr, std::set<uint64_t> &sids) {
    if (at >= log.size()) return;
    const Ev &e = log[at];
    if (e.sid) sids.insert(e.sid);
    if (e.k == Ev::ACCEPT || e.k == Ev::PSEND) peerAddr = e.a1;
    else if (e.k == Ev::WIRE) peerAddr = e.a2;
    else if (e.k == Ev::DATA) { Ident id = codec.identify(e.bytes); auto ps = psend.find(id.id); peerAddr = ps != psend.end() ? log[ps->second].a1 : e.a2; }
    for (auto &kv : sess) if (!peerAddr.empty() && kv.second.peer == peerAddr) sids.insert(kv.first);
  };
  std::vector<uint32_t> openAt(log.size(), 0); // announced and not yet closed sessions after event i
  uint32_t openNow = 0;
  // index of the driver's next "quiesce" mark after event i (end of the step that contains i)
  auto nextMark = [&](size_t i) {
    while (i < log.size() && !(log[i].k == Ev::MARK && log[i].bytes.rfind("quiesce", 0) == 0)) i++;
    return i;
  };
  auto viol = [&](const std::string &key, const std::string &what, size_t at) {
    Viol v{key, what, at, "", {}};
    context(at, v.peerAddr, v.sids);
    R.viols.push_back(std::move(v));
  };
  auto suspect = [&](const std::string &key, const std::string &what, size_t at) {
    Viol v{key, what, at, "", {}};
    context(at, v.peerAddr, v.sids);
    R.lossSuspects.push_back(std::move(v));
  };

  // most recent close of a session of the same peer, other than `rsid`, in (from, to)
  auto causeOf = [&](const std::string &peerAddr, uint64_t rsid, size_t from, size_t to) -> std::string {
    for (size_t i = std::min(to, log.size()); i > from + 1;)
    {
      --i;
      const Ev &e = log[i];
      if (e.k != Ev::CLOSE || e.sid == rsid) continue;
      auto it = sess.find(e.sid);
      if (it == sess.end() || it->second.peer != peerAddr) continue;
      if (it->second.closeCalled || e.bytes == "closed by app") return "after-close-of-other-session";
      if (e.code == "GCClosed") return "after-idle-expiry-of-other-session";
      if (e.bytes == "shutdown") return "after-shutdown-close-of-other-session";
      return "after-error-close-of-other-session";
    }
    return "no-close-of-other-session";
  };
  auto sinceOf = [&](const Sess &s) { return s.lastRecvIdx != SIZE_MAX ? s.lastRecvIdx : s.openIdx; };

  for (size_t i = 0; i < log.size(); i++)
  {
    const Ev &e = log[i];
    if (i) openAt[i] = openAt[i - 1];
    switch (e.k)
    {
    case Ev::PSEND:
    {
      obs["peer_datagrams_sent"]++;
      if (e.cls == 0)
      {
        auto it = recv.find({e.a2, e.a1});
        uint64_t r = 0;
        if (it != recv.end()) { auto s = sess.find(it->second); if (s != sess.end() && s->second.open) r = it->second; }
        rAtSend[e.id] = r;
        if (r && otherClosedWhileOpen.count({e.a1, r})) obs["probes_after_close_of_other_session"]++;
        if (r && meta.maxSessions && openNow >= meta.maxSessions) obs["datagrams_from_peer_with_receiving_session_sent_at_session_cap"]++;
      }
      else if (e.cls == 1)
      {
        auto s = sess.find(e.sid);
        targetOpenAtSend[e.id] = s != sess.end() && s->second.open;
      }
      break;
    }
    case Ev::TSEND:
      obs[e.rc == 1 ? "sends_accepted" : "sends_refused"]++;
      break;
    case Ev::OPEN:
      if (e.cls == 2)
      {
        obs["via_connects"]++;
        auto it = recv.find({e.a3, e.a1});
        if (it != recv.end()) { auto s = sess.find(it->second); if (s != sess.end() && s->second.open) obs["via_to_peer_with_open_receiving_session"]++; }
      }
      else obs["connects"]++;
      break;
    case Ev::CLOSE_CALL:
    {
      auto s = sess.find(e.sid);
      if (s != sess.end()) s->second.closeCalled = true;
      break;
    }
    case Ev::ACCEPT:
    {
      obs["accepts"]++;
      if (sess.count(e.sid))
        viol("C06:accept:session-id-announced-twice", "onAccept for a session id that was already announced: " + shortEv(e, i), i);
      Sess s; s.sid = e.sid; s.kind = 'A'; s.peer = e.a1; s.local = e.a3; s.openIdx = i;
      if (e.a2 != e.a1)
        viol("C06:accept:reported-peer-differs-from-session-remote",
             "onAccept reported peer " + e.a1 + " but getRemoteAddress(sid) says '" + e.a2 + "': " + shortEv(e, i), i);
      auto key = std::make_pair(e.a3, e.a1);
      auto it = recv.find(key);
      if (it != recv.end())
      {
        auto rs = sess.find(it->second);
        if (rs != sess.end() && rs->second.open)
        {
          std::string cause = causeOf(e.a1, rs->second.sid, sinceOf(rs->second), i);
          std::set<uint64_t> sids{rs->second.sid, e.sid};
          for (auto &kv : sess) if (kv.second.peer == e.a1) sids.insert(kv.first);
          viol("C06:stability:new-accept-while-session-open:" + cause,
               "peer " + e.a1 + " got a new accept (sid " + std::to_string(e.sid) + ") on " + e.a3 + " while session " +
                 std::to_string(rs->second.sid) + ", which has been receiving its datagrams there, is still open (" + cause + ")",
               i);
          otherClosedWhileOpen.erase({e.a1, rs->second.sid});
        }
      }
      recv[key] = e.sid;
      if (!sess.count(e.sid)) openAt[i] = ++openNow;
      sess[e.sid] = s;
      break;
    }
    case Ev::CONNECT:
    {
      if (sess.count(e.sid))
        viol("C06:connect:session-id-announced-twice", "onConnect for a session id that was already announced: " + shortEv(e, i), i);
      Sess s; s.sid = e.sid; s.local = e.a3; s.openIdx = i;
      auto op = openBySid.find(e.sid);
      if (op == openBySid.end())
      {
        viol("C06:connect:unrequested-session", "onConnect for a session nobody asked for: " + shortEv(e, i), i);
        s.kind = '?'; s.peer = e.a1;
      }
      else
      {
        const Ev &o = log[op->second];
        s.kind = o.cls == 1 ? 'C' : 'V';
        s.peer = o.a1;
        if (e.a1 != o.a1 || e.a2 != o.a1)
          viol(std::string("C06:session:remote-address-differs-from-connect-target:") + (o.cls == 1 ? "connect" : "connectViaListener"),
               "asked to reach " + o.a1 + " but onConnect reported " + e.a1 + " and getRemoteAddress(sid) '" + e.a2 + "'", i);
        if (s.kind == 'C') connectedLocal[e.a3] = e.sid;
      }
      if (!sess.count(e.sid)) openAt[i] = ++openNow;
      sess[e.sid] = s;
      break;
    }
    case Ev::CLOSE:
    {
      auto s = sess.find(e.sid);
      if (s == sess.end()) { obs["close_of_unannounced_session"]++; break; }
      if (!s->second.open) { obs["second_close_event_for_a_session"]++; break; }
      s->second.open = false; s->second.closeIdx = i; s->second.closeCode = e.code; s->second.closeMsg = e.bytes;
      if (openNow) openAt[i] = --openNow;
      if (e.code == "GCClosed") obs["closes_idle_expiry"]++;
      else if (e.bytes == "shutdown") obs["closes_shutdown"]++;
      else if (s->second.closeCalled || e.bytes == "closed by app") obs["closes_by_app"]++;
      else obs["closes_on_error"]++;
      if (e.bytes == "shutdown") break;
      // is this a close of "some other session" while a receiving session of the same peer is open?
      for (auto &kv : recv)
      {
        if (kv.first.second != s->second.peer || kv.second == e.sid) continue;
        auto rs = sess.find(kv.second);
        if (rs == sess.end() || !rs->second.open) continue;
        obs["close_of_other_session_while_receiving_session_open"]++;
        if (e.code == "GCClosed") obs["idle_expiry_of_other_session_while_receiving_session_open"]++;
        otherClosedWhileOpen.insert({s->second.peer, kv.second});
      }
      break;
    }
    case Ev::ERR:
      obs["error_callbacks"]++;
      break;
    case Ev::DATA:
    {
      obs["data_events"]++;
      Ident id = codec.identify(e.bytes);
      auto ps = id.status != 4 && id.id ? psend.find(id.id) : psend.end();
      if (e.bytes.empty()) { viol("C06:deliver:empty-data-event", "data event without payload (no empty datagram was ever sent): " + shortEv(e, i), i); break; }
      if (id.status == 4 || (id.status == 1 && !id.id))
      {
        viol(id.status == 1 ? "C06:deliver:truncated" : "C06:deliver:unknown-payload",
             std::string("data event whose payload is ") + (id.status == 1 ? "a cut datagram header" : "no datagram any peer sent (fragment of a split/merged datagram?)") + ": " + shortEv(e, i), i);
        break;
      }
      if (ps == psend.end())
      {
        viol("C06:deliver:not-a-peer-datagram", "data event carries datagram id " + std::to_string(id.id) + " which no raw peer sent: " + shortEv(e, i), i);
        break;
      }
      const Ev &p = log[ps->second];
      char szb[96]; snprintf(szb, sizeof szb, "datagram dg%llu of %u bytes from %s", (unsigned long long)p.id, p.len, p.a1.c_str());
      if (id.status == 1) viol("C06:deliver:truncated", std::string(szb) + " delivered with only " + std::to_string(e.bytes.size()) + " bytes", i);
      else if (id.status == 2) viol("C06:deliver:merged", std::string(szb) + " delivered with " + std::to_string(e.bytes.size() - p.len) + " surplus bytes" + (id.nextLooksLikeHeader ? " (the next datagram appended)" : ""), i);
      else if (id.status == 3) viol("C06:deliver:corrupted", std::string(szb) + " delivered with a different byte at offset " + std::to_string(id.firstDiff), i);
      else { obs["datagrams_delivered_intact"]++; R.obsMax["largest_datagram_delivered"] = std::max<uint64_t>(R.obsMax["largest_datagram_delivered"], p.len);
             if (p.len == 65507) obs["delivered_65507"]++; if (p.len >= 60000) obs["delivered_ge_60000"]++; if (p.len < Codec::HDR) obs["delivered_lt_16"]++; }
      auto &dv = delivered[p.id];
      dv.push_back(i);
      if (dv.size() == 2) viol("C06:deliver:duplicate", std::string(szb) + " delivered as more than one data event (first " + shortEv(log[dv[0]], dv[0]) + ")", i);
      // session must belong to the source address
      auto s = sess.find(e.sid);
      std::set<uint64_t> sids{e.sid};
      if (s == sess.end())
        viol("C06:deliver:on-unannounced-session", std::string(szb) + " delivered on session " + std::to_string(e.sid) + " that was never announced by accept/connect", i);
      else
      {
        if (!s->second.open) obs["data_event_after_close_event"]++;
        if (s->second.peer != p.a1 || e.a2 != p.a1)
          viol("C06:deliver:wrong-session", std::string(szb) + " delivered on session " + std::to_string(e.sid) + " whose peer is " + s->second.peer +
                 " (getRemoteAddress: '" + e.a2 + "')", i);
        s->second.everReceived = true;
      }
      if (p.cls == 2)
        viol("C06:deliver:wrong-session:foreign-datagram-on-connected-session", std::string(szb) + " was sent by a foreign peer to the port of connected session " + std::to_string(p.sid) + " and still produced " + shortEv(e, i), i);
      else if (p.cls == 1)
      {
        if (e.sid != p.sid)
          viol("C06:deliver:wrong-session:not-the-connected-session", std::string(szb) + " was sent to the socket of connected session " + std::to_string(p.sid) + " but delivered on " + std::to_string(e.sid), i);
      }
      else
      {
        if (!e.a3.empty() && e.a3 != p.a2) obs["delivered_on_session_of_another_listener"]++;
        auto key = std::make_pair(p.a2, p.a1);
        auto it = recv.find(key);
        bool redirected = false;
        if (it != recv.end() && it->second != e.sid)
        {
          auto rs = sess.find(it->second);
          if (rs != sess.end() && rs->second.open)
          {
            redirected = true;
            std::string cause = causeOf(p.a1, rs->second.sid, sinceOf(rs->second), i);
            viol("C06:stability:redirected-to-other-session:" + cause,
                 std::string(szb) + " to " + p.a2 + " arrived on session " + std::to_string(e.sid) + " although session " + std::to_string(rs->second.sid) +
                   ", which has been receiving this peer's datagrams there, is still open (" + cause + ")", i);
            otherClosedWhileOpen.erase({p.a1, rs->second.sid});
          }
        }
        if (it != recv.end() && it->second == e.sid && otherClosedWhileOpen.count({p.a1, e.sid}))
        {
          obs["stayed_on_receiving_session_after_close_of_other"]++;
          otherClosedWhileOpen.erase({p.a1, e.sid});
        }
        if (it == recv.end() || redirected || !sess.count(it->second) || !sess[it->second].open) recv[key] = e.sid;
      }
      if (s != sess.end()) s->second.lastRecvIdx = i;
      break;
    }
    case Ev::WIRE:
    {
      obs["wire_datagrams"]++;
      if (e.trunc) { viol("C06:wire:longer-than-any-datagram", "raw peer received a datagram longer than 65535 bytes: " + shortEv(e, i), i); break; }
      Ident id = codec.identify(e.bytes);
      if (e.bytes.empty()) { viol("C06:wire:empty-datagram", "iora put an empty datagram on the wire (no empty send was made): " + shortEv(e, i), i); break; }
      if (id.status == 4 || (id.status == 1 && !id.id))
      {
        viol(id.status == 1 ? "C06:wire:truncated" : "C06:wire:unknown-payload", "datagram on the wire that is no accepted send: " + shortEv(e, i), i);
        break;
      }
      auto ts = tsend.find(id.id);
      if (ts == tsend.end())
      {
        viol("C06:wire:not-a-transport-send", "datagram on the wire carries id " + std::to_string(id.id) + " which was never passed to send(): " + shortEv(e, i), i);
        break;
      }
      const Ev &t = log[ts->second];
      char szb[96]; snprintf(szb, sizeof szb, "send dg%llu of %u bytes on session %llu", (unsigned long long)t.id, t.len, (unsigned long long)t.sid);
      if (t.rc != 1) viol("C06:wire:send-was-refused", std::string(szb) + " was refused by send() yet reached the wire", i);
      if (id.status == 1) viol("C06:wire:truncated", std::string(szb) + " reached the wire with only " + std::to_string(e.bytes.size()) + " bytes", i);
      else if (id.status == 2) viol("C06:wire:merged", std::string(szb) + " reached the wire with " + std::to_string(e.bytes.size() - t.len) + " surplus bytes", i);
      else if (id.status == 3) viol("C06:wire:corrupted", std::string(szb) + " reached the wire with a different byte at offset " + std::to_string(id.firstDiff), i);
      else { obs["wire_datagrams_intact"]++; R.obsMax["largest_datagram_on_wire"] = std::max<uint64_t>(R.obsMax["largest_datagram_on_wire"], t.len);
             if (t.len == 65507) obs["wire_65507"]++; if (t.len >= 60000) obs["wire_ge_60000"]++; if (t.len < Codec::HDR) obs["wire_lt_16"]++; }
      auto &wv = onWire[t.id];
      wv.push_back(i);
      if (wv.size() == 2) viol("C06:wire:duplicate", std::string(szb) + " produced more than one datagram", i);
      // destination = the session's peer
      std::string want;
      auto op = openBySid.find(t.sid);
      if (op != openBySid.end()) want = log[op->second].a1;
      else { auto s = sess.find(t.sid); if (s != sess.end()) want = s->second.peer; }
      if (want.empty())
        viol("C06:wire:send-on-unknown-session-reached-wire", std::string(szb) + " (no such session was ever announced) produced " + shortEv(e, i), i);
      else if (want != e.a2)
        viol("C06:wire:wrong-destination", std::string(szb) + " whose peer is " + want + " was delivered to " + e.a2, i);
      break;
    }
    default: break;
    }
  }
  // ---- loss: every datagram a raw peer sent to an open iora socket and the kernel did not drop
  for (auto &kv : psend)
  {
    const Ev &p = log[kv.second];
    if (p.rc != int64_t(p.len)) { obs["peer_sendto_failed"]++; continue; }
    if (delivered.count(p.id)) continue;
    if (p.cls == 2) { obs["foreign_datagram_to_connected_port_not_delivered"]++; continue; }
    std::string dropKey = p.a2;
    auto d = meta.dropsAtPort.find(dropKey);
    bool dropped = !meta.dropsReadable || (d != meta.dropsAtPort.end() && d->second > 0);
    char szb[128]; snprintf(szb, sizeof szb, "datagram dg%llu of %u bytes from %s to %s", (unsigned long long)p.id, p.len, p.a1.c_str(), p.a2.c_str());
    if (p.cls == 1)
    {
      // expected only if the connected session stayed open until the driver stopped waiting (next MARK)
      auto s = sess.find(p.sid);
      bool open = targetOpenAtSend[p.id];
      if (open && s != sess.end() && s->second.closeIdx != SIZE_MAX)
      {
        size_t mark = kv.second;
        while (mark < log.size() && !(log[mark].k == Ev::MARK && log[mark].bytes.rfind("quiesce", 0) == 0)) mark++;
        if (s->second.closeIdx < mark) open = false;
      }
      if (!open) { obs["datagram_to_closing_connected_session_not_delivered"]++; continue; }
      if (dropped) { obs["loss_excused_by_kernel_drops"]++; suspect("dropped", std::string(szb) + " not delivered; kernel drop counter non-zero", kv.second); continue; }
      suspect("C06:deliver:lost:to-connected-session", std::string(szb) + " never produced a data event although connected session " + std::to_string(p.sid) + " stayed open and the kernel dropped nothing", kv.second);
      continue;
    }
    if (dropped) { obs["loss_excused_by_kernel_drops"]++; suspect("dropped", std::string(szb) + " not delivered; kernel drop counter non-zero", kv.second); continue; }
    uint64_t r = rAtSend[p.id];
    size_t mark = nextMark(kv.second);
    // a receiving session that was closed while the datagram was in flight (before the driver's step
    // ended) does not have to be the one that gets it
    if (r && sess[r].closeIdx < mark) r = 0;
    if (r)
    {
      std::string cause = causeOf(p.a1, r, std::min(sess[r].openIdx, kv.second), kv.second);
      bool atCap = meta.maxSessions && openAt[kv.second] >= meta.maxSessions;
      suspect("C06:stability:silenced:" + cause + (atCap ? ":at-session-cap" : ""), std::string(szb) + " never produced a data event although session " + std::to_string(r) + " receiving this peer's datagrams was open and the kernel dropped nothing (" + cause + (atCap ? "; the engine was at its maxSessions cap, which only allows refusing NEW peers" : "") + ")", kv.second);
    }
    else
    {
      // a peer without a receiving session may be refused while the engine is at its session cap
      uint32_t mx = 0;
      for (size_t i = kv.second; i <= mark && i < log.size(); i++) mx = std::max(mx, openAt[i]);
      if (meta.maxSessions && mx >= meta.maxSessions) { obs["datagrams_from_new_peer_refused_at_session_cap"]++; continue; }
      suspect("C06:deliver:lost:to-listener", std::string(szb) + " never produced a data event and the kernel dropped nothing", kv.second);
    }
  }
  for (auto &kv : tsend)
  {
    const Ev &t = log[kv.second];
    if (t.rc == 1 && !onWire.count(t.id)) obs["accepted_sends_without_datagram"]++;
  }
  return R;
}

} // namespace c06
