// /verif/harness/c12_kvmodel.cpp — C12: KVStore == reference map with per-key absolute expiry.
//
//   --mode hist  --seed S --from I --count N --dir D [--steps 40] [--nomono 1]
//       seeded sequential histories; after EVERY step every read API is compared with the
//       reference model (harness/c12_model.hpp) evaluated at the frozen wall clock.
//   --mode conc  --seed S --from I --count N --dir D
//       readers/writers on a few keys racing the eviction worker and compaction on a RUNNING
//       clock; per-key linearizability check (single writer per key, unique values).
//
// Conventions checked (documented in c12_model.hpp): expired iff now >= expiry — kvstore.hpp uses
// `expiry <= now` on every read path, in compaction and in load(); an expired key is absent for
// every purpose (expireAt/persist on it are no-ops). The wall clock is frozen at millisecond-
// aligned instants in hist mode because expiries are persisted as epoch milliseconds (sub-ms
// truncation at restart is a boundary convention, not checked).
#define VF_SHIM_CLOCK
#include "vf.hpp"
#include "shim/shims.hpp"
#include "c12_clock.hpp"
#include "c12_model.hpp"

#include "iora/storage/kvstore.hpp"

#include <algorithm>
#include <functional>
#include <memory>
#include <sys/stat.h>

using iora::storage::KVStore;
using iora::storage::KVStoreConfig;
using c12::Bytes;
typedef std::vector<std::uint8_t> Vec;

static Vec toVec(const Bytes &b) { return Vec(b.begin(), b.end()); }
static Bytes toBytes(const Vec &v) { return Bytes(v.begin(), v.end()); }
static std::string shortHex(const std::string &s, size_t max = 24)
{
  if (s.size() <= max) return vf::hex(s);
  return vf::hex(s.substr(0, max)) + "..(" + std::to_string(s.size()) + "B,fnv=" + std::to_string(vf::fnv(s) & 0xffffff) + ")";
}
static std::chrono::system_clock::time_point tpMs(int64_t ms)
{
  return std::chrono::system_clock::time_point(std::chrono::duration_cast<std::chrono::system_clock::duration>(std::chrono::milliseconds(ms)));
}
static std::chrono::system_clock::time_point tpNs(int64_t ns)
{
  return std::chrono::system_clock::time_point(std::chrono::duration_cast<std::chrono::system_clock::duration>(std::chrono::nanoseconds(ns)));
}

// count 'D' records in a KVStore log (independent little scanner: [u32 total][op][u32 klen][key]...[crc])
static size_t countLogD(const std::string &logPath, size_t *records = nullptr)
{
  std::string s = vf::readFile(logPath);
  size_t pos = 0, d = 0, n = 0;
  while (pos + 4 <= s.size())
  {
    uint32_t len; memcpy(&len, s.data() + pos, 4);
    if (len < 10 || pos + 4 + len > s.size()) break;
    if (s[pos + 4] == 'D') ++d;
    ++n; pos += 4 + len;
  }
  if (records) *records = n;
  return d;
}
static void rmStore(const std::string &p)
{
  ::unlink(p.c_str()); ::unlink((p + ".log").c_str()); ::unlink((p + ".tmp").c_str());
}

// at most 3 full reports per violation key and process (the rest are only counted), so one frequent
// key can never exhaust vf::Out's per-process cap and hide a different key
static bool firstFewOfKey(const std::string &key)
{
  static std::mutex m; static std::map<std::string, int> n;
  std::lock_guard<std::mutex> g(m);
  if (++n[key] <= 3) return true;
  vf::out().obs("repeat:" + key);
  return false;
}

#include "c12_hist.hpp"
#include "c12_conc.hpp"

int main(int argc, char **argv)
{
  vf::Args args(argc, argv);
  std::string mode = args.s("mode", "hist");
  int rc = 0;
  if (mode == "hist") rc = runHist(args);
  else if (mode == "conc") rc = runConc(args);
  else { fprintf(stderr, "unknown mode\n"); return 3; }
  vf::out().flush();
  vf::out().line("{\"t\":\"done\"}");
  return rc;
}
