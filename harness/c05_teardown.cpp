// C05 harness: teardown storms against the real Transport (TCP and UDP engines).
// One iteration = one transport + raw peers + callers parked in connectSync (black hole) /
// receiveSync / a setReadMode Sync->Async flush held inside a slow data callback, racers that enter
// those calls around the teardown moment, and storm threads doing send/close/addListener/connect,
// while teardown is issued in one of seven ways (see kTd). Oracles:
//   (a) sanitizers (the same binary is built asan+ubsan and tsan, reports are fatal / collected),
//   (b) every call is registered {op, since}; all of them must have returned kDeadlineMs after the
//       moment teardown began (parked callers use 60 s timeouts, so a straggler is stranded, not slow),
//   (c) callback fence: no callback entry after stop()/the destroying reset() returned to a
//       non-callback caller,
//   (d) operations issued after stop() fail cleanly and at once.
// Parked-caller state is read from Transport::Impl under its own syncMutex (-fno-access-control,
// observation only) so that "which kinds were parked when teardown hit" is exact and a destroying
// teardown never races a caller that has merely not parked yet (that would be a harness-made UAF).
#define VF_SHIM_CONDVAR
#include "shim/shims.hpp"
#include "vf.hpp"
#include "c04_net.hpp"

#include <iora/network/transport.hpp>
#include <iora/network/transport_impl.hpp>

#include <map>
#include <set>

using namespace iora::network;
using vfnet::TK;

// ---- harness-local pthread_mutex_unlock interposer (not under TSan, which owns the mutex entry
// points): a flagged caller thread is held for a seeded 0.2 ms .. tlsPostUnlockMaxUs right AFTER it
// released a mutex — a legal pre-emption point. It stretches every "lock dropped, still inside the
// transport" window of the blocking calls (e.g. connectSync's timeout path between lk.unlock() and
// its return) from a few instructions to milliseconds, so that a teardown timed around the call's
// expiry can land inside it. Seeded per thread; about every second unlock is held.
static thread_local uint32_t tlsPostUnlockMaxUs = 0;
static thread_local uint64_t tlsPostUnlockSeed = 0;
static std::atomic<uint64_t> gPostUnlockHolds{0};
#if !VF_TSAN
extern "C" int pthread_mutex_unlock(pthread_mutex_t *m)
{
  using Fn = int (*)(pthread_mutex_t *);
  static Fn real = vf::shim::real<Fn>("pthread_mutex_unlock");
  int r = real(m);
  if (uint32_t mx = tlsPostUnlockMaxUs)
  {
    uint64_t x = vf::shim::mix(tlsPostUnlockSeed += 0x9e3779b97f4a7c15ull);
    if (x & 1)
    {
      gPostUnlockHolds.fetch_add(1, std::memory_order_relaxed);
      vf::shim::rawSleepUs(200 + (x >> 8) % (mx > 200 ? mx - 200 + 1 : 1));
    }
  }
  return r;
}
#endif

static const uint64_t kDeadlineMs = 15000;
static const int kParkTimeoutMs = 60000;

enum Td { StopOther = 0, DropUser, DropInOnClose, DropInOnData, StopFromCb, Cycles, DoubleStop, NTd };
static const char *kTd[] = {"stop-from-other-thread", "last-owner-dropped-on-user-thread", "last-owner-dropped-in-onClose",
                            "last-owner-dropped-in-onData", "stop-from-callback-then-stop", "start-stop-cycles", "two-concurrent-stops"};

static const char *errName(int c)
{
  static const char *n[] = {"None", "Socket", "Resolve", "Bind", "Listen", "Accept", "Connect", "TLSHandshake", "TLSIO",
                            "PeerClosed", "WriteBackpressure", "Config", "GCClosed", "Cancelled", "Timeout",
                            "BufferOverflow", "ShuttingDown", "Unknown"};
  return (c >= 0 && c < int(sizeof n / sizeof n[0])) ? n[c] : "?";
}

// ------------------------------------------------------------------------------ observation of Impl
struct Parked { size_t conn = 0, recv = 0, flush = 0; };
static Parked peek(Transport *t)
{
  auto *im = t->_impl.get();
  std::lock_guard<std::mutex> g(im->syncMutex);
  return {im->activeConnects, im->activeReceives, im->activeFlushes};
}
static size_t bufferedBytes(Transport *t, SessionId sid)
{
  auto *im = t->_impl.get();
  std::lock_guard<std::mutex> g(im->syncMutex);
  auto it = im->receiveBuffers.find(sid);
  return it == im->receiveBuffers.end() ? 0 : it->second->data.size();
}

// ------------------------------------------------------------------------------ shared iteration state
enum Cb { CbAccept = 0, CbConnect, CbData, CbClose, CbError, NCb };
static const char *kCb[] = {"onAccept", "onConnect", "onData", "onClose", "onError"};
static thread_local bool tlsInFlush = false; // set on threads that are inside a setReadMode flush
// per flush call: when its previous data callback returned (or the call began), late entries so far
static thread_local uint64_t tlsFlushPrevExitNs = 0;
static thread_local int tlsFlushLateEntries = 0;

struct St
{
  std::atomic<bool> fence{false};           // stop()/destroying reset() has returned to a non-callback caller
  std::atomic<uint64_t> fenceViol[NCb];
  std::atomic<uint64_t> fenceViolFlush{0};  // onData entered on a flusher thread (inside setReadMode) after the fence
  std::atomic<uint64_t> flushLateInFlight{0}; // ... of which: the one chunk the flush had already taken out before the close was reported
  std::map<uint64_t, uint64_t> closeNs;     // sid -> entry time of its first onClose (guarded by m)
  std::atomic<uint64_t> cbCount[NCb];
  std::atomic<uint64_t> cbDuringStop{0};
  std::atomic<bool> stopInProgress{false};
  std::atomic<bool> holdFlush{true};
  std::atomic<int> inFlushCb{0};
  std::atomic<uint32_t> slowCloseUs{0};
  std::atomic<uint32_t> slowDataUs{0};      // I/O-thread onData holds the loop this long (commands queue up behind it)
  // trigger machinery (I/O-thread side)
  std::shared_ptr<Transport> *holder = nullptr;
  Transport *raw = nullptr;
  std::atomic<int> trigger{0};              // 0 none, 2 drop in onClose, 3 drop in onData, 4 stop() from onData
  std::atomic<bool> triggerArmed{false};
  std::atomic<bool> triggered{false};
  std::atomic<uint64_t> closeOnTrigger{0};  // UDP: onData(trigger) closes this sid, its onClose then drops
  std::atomic<bool> stopThrew{false}, stopReturnedFromCb{false};
  std::atomic<int> snapConn{-1}, snapRecv{-1}, snapFlush{-1};
  std::atomic<bool> dtorRan{false}, dtorOnIo{false};
  std::atomic<uint64_t> ioTid{0};
  std::mutex m;
  std::map<uint64_t, std::string> data;
  // reconnect-on-shutdown handler: an onClose whose reason is ShuttingDown (the drain failing a leftover
  // Connect) connects again from inside the callback. Bounded per run of the engine.
  std::atomic<bool> reconnect{false};
  std::atomic<int> reconnects{0};
  std::atomic<uint64_t> gen{0};             // run number of the engine (start() count)
  std::atomic<uint64_t> viaLid{0};
  std::atomic<uint64_t> reconAccepted{0}, reconRefused{0}, ghostEvents{0};
  std::map<uint64_t, uint64_t> reconIds;    // sid returned ok by a reconnect -> run in which it was issued (guarded by m)
  std::set<uint64_t> terminalSeen;          // sids that got an onConnect or onClose (guarded by m)
  // re-entry: public operations called from INSIDE callbacks while teardown is under way
  std::atomic<bool> reentry{false};
  std::atomic<bool> tdActive{false};
  std::atomic<int> reIn{0};                 // 1 + nested op currently executing on the I/O thread (0 = none)
  std::atomic<int> reCb{0};
  std::atomic<uint64_t> reSeq{0}, reTotal{0};
  std::atomic<uint64_t> reSid{0};
  std::atomic<uint32_t> rePort{0};
  std::atomic<uint64_t> reReturned[16], reLogic[16], reDuringDrain[16];
  std::mutex reM;
  std::vector<std::pair<std::string, std::string>> reViol; // (key suffix, what)
  St() { for (auto &x : fenceViol) x = 0; for (auto &x : cbCount) x = 0; for (auto &x : reReturned) x = 0; for (auto &x : reLogic) x = 0; for (auto &x : reDuringDrain) x = 0; }
};
struct FreedToken { std::shared_ptr<std::atomic<bool>> flag; ~FreedToken() { flag->store(true); } };

static uint64_t tidNum() { return uint64_t(syscall(SYS_gettid)); }
// terminal event bookkeeping for ids handed out by the reconnect handler; an event for an id that was
// issued in an EARLIER run of the engine is a ghost (a command that survived stop() and ran after start())
static void noteTerminal(const std::shared_ptr<St> &st, uint64_t sid)
{
  std::lock_guard<std::mutex> g(st->m);
  st->terminalSeen.insert(sid);
  auto it = st->reconIds.find(sid);
  if (it != st->reconIds.end() && it->second < st->gen.load()) st->ghostEvents++;
}

static void cbEnter(const std::shared_ptr<St> &st, Cb k)
{
  st->cbCount[k]++;
  if (!tlsInFlush) st->ioTid = tidNum();
  if (st->stopInProgress.load()) st->cbDuringStop++;
  if (st->fence.load() && !tlsInFlush) st->fenceViol[k]++; // flusher threads are classified in onData (needs the sid)
}
static void dropHolder(const std::shared_ptr<St> &st)
{
  // runs on the I/O thread, inside a user callback, with no iora lock held
  Parked p = peek(st->raw);
  st->snapConn = int(p.conn); st->snapRecv = int(p.recv); st->snapFlush = int(p.flush);
  st->holdFlush = false; // a flusher held in its data callback must be let go, or teardown waits for it forever
  st->holder->reset();
}

// ------------------------------------------------------------------------------ re-entry from callbacks
// While another thread's stop() / last-owner release is draining, the callbacks it fires call public
// operations themselves. None of them may hang; stop() returns or throws logic_error; the blocking
// operations refuse the I/O thread with logic_error; the others give a definite result.
enum Re { ReStop = 0, ReSend, ReClose, ReConnect, ReAddListener, ReSetReadMode, ReStart, ReConnectSync, ReReceiveSync, ReStats, NRe };
static const char *kRe[] = {"stop", "send", "close", "connect", "addListener", "setReadMode", "start", "connectSync", "receiveSync", "getStats"};
enum ReCb { RcClose = 0, RcData, RcObserver, RcCleanup, NRc };
static const char *kRc[] = {"onClose", "onData", "close-observer", "session-data-cleanup"};
static std::atomic<int64_t> g_curIdx{-1};
static bool g_nestedStart = false; // nested start() runs only in a dedicated group of processes (see lib/props/c05.py)
static thread_local char g_crashLine[600]; // per thread: the handler runs on the thread that aborted
static int g_outFd = 1;
static std::string g_tdp;
static char g_phaseCrashLine[600]; // set by the main thread for a phase in which ANY thread dying is attributable (e.g. datagrams after a restart)
static void onAbort(int sig)
{
  // std::terminate()/assert inside a nested operation, or a fatal signal on any thread during a
  // named phase: say which before dying
  const char *line = g_crashLine[0] ? g_crashLine : g_phaseCrashLine;
  size_t n = strlen(line);
  if (n) { ssize_t w = ::write(g_outFd, line, n); (void)w; }
  _exit(sig == SIGSEGV ? 7 : 6);
}
static void reenter(const std::shared_ptr<St> &st, ReCb cb)
{
  if (!st->reentry.load() || !st->tdActive.load() || tlsInFlush) return;
  if (st->reTotal.fetch_add(1) >= 48) return; // bounded per iteration
  Transport *tp = st->raw;
  int op = int(st->reSeq.fetch_add(1) % NRe);
  if (op == ReStart && !g_nestedStart) op = ReStats;
  bool draining = !tp->isRunning();
  st->reCb = cb;
  snprintf(g_crashLine, sizeof g_crashLine, "{\"t\":\"stuck\",\"idx\":%lld,\"key\":\"C05:crash:%s-called-from-a-callback-while-teardown-%s:%s\",\"callback\":\"%s\"}\n",
           (long long)g_curIdx.load(), kRe[op], draining ? "drains" : "begins", g_tdp.c_str(), kRc[cb]);
  st->reIn = op + 1;
  bool returned = false, logic = false;
  std::string detail;
  try
  {
    SessionId sid = st->reSid.load();
    switch (op)
    {
    case ReStop: tp->stop(); break;
    case ReSend: (void)tp->send(sid, "re", 2); break;
    case ReClose: (void)tp->close(sid); break;
    case ReConnect: { auto r = tp->connect("127.0.0.1", uint16_t(st->rePort.load()), TlsMode::None); (void)r; break; }
    case ReAddListener: { auto r = tp->addListener("127.0.0.1", 0, TlsMode::None); (void)r; break; }
    case ReSetReadMode: (void)tp->setReadMode(sid, ReadMode::Sync); break;
    case ReStart: { auto r = tp->start(); detail = r.isOk() ? "ok" : "err"; break; }
    case ReConnectSync: { auto r = tp->connectSync("127.0.0.1", uint16_t(st->rePort.load()), TlsMode::None, std::chrono::milliseconds(30)); (void)r; break; }
    case ReReceiveSync: { char b[16]; size_t l = sizeof b; auto r = tp->receiveSync(sid, b, l, std::chrono::milliseconds(20)); (void)r; break; }
    default: (void)tp->getStats(); (void)tp->isRunning(); break;
    }
    returned = true;
  }
  catch (const std::logic_error &) { logic = true; }
  catch (const std::exception &ex)
  {
    std::lock_guard<std::mutex> g(st->reM);
    st->reViol.push_back({std::string("unexpected-exception:") + kRe[op] + "-from-" + kRc[cb], std::string(kRe[op]) + " called from " + kRc[cb] + " during teardown threw " + ex.what()});
  }
  st->reIn = 0;
  g_crashLine[0] = 0;
  if (returned) st->reReturned[op]++;
  if (logic) st->reLogic[op]++;
  if (draining) st->reDuringDrain[op]++;
  // the blocking operations must refuse the I/O thread (they would wait for this very thread)
  if (returned && (op == ReSetReadMode || op == ReConnectSync || op == ReReceiveSync))
  {
    std::lock_guard<std::mutex> g(st->reM);
    st->reViol.push_back({std::string("blocking-op-accepted-on-io-thread:") + kRe[op], std::string(kRe[op]) + " called from " + kRc[cb] + " on the I/O thread returned instead of throwing std::logic_error"});
  }
  if (returned && op == ReStart && detail == "ok")
  {
    std::lock_guard<std::mutex> g(st->reM);
    st->reViol.push_back({"start-from-callback-accepted", std::string("start() called from ") + kRc[cb] + " on the I/O thread while teardown " + (draining ? "drains" : "begins") + " returned ok"});
  }
}

// ------------------------------------------------------------------------------ call registry
enum Op { OpConnectSync = 0, OpReceiveSync, OpFlush, OpSend, OpClose, OpAddListener, OpConnect, OpStop, OpDrop, OpMisc, NOp };
static const char *kOp[] = {"connectSync", "receiveSync", "setReadMode-flush", "send", "close", "addListener", "connect", "stop", "drop-last-owner", "misc"};
struct Worker
{
  std::thread th;
  std::atomic<int> op{OpMisc};
  std::atomic<bool> inCall{false};
  std::atomic<bool> done{false};
  std::atomic<bool> parkedBefore{false}; // was blocked in its call when teardown began
  bool edge = false;                     // short-timeout caller whose expiry is aimed at the teardown moment
  std::atomic<bool> pastExpiryAtTeardown{false};
  int timeoutMs = 0;
  // result of a blocking call
  bool ok = false; int code = -1; std::string msg; bool flushRet = false; bool threw = false; std::string what;
  uint64_t t0 = 0, t1 = 0;
};

static std::string g_curDesc;
static vfnet::Heartbeat *g_hb = nullptr;

static std::shared_ptr<Transport> makeTransport(bool udp, const TransportConfig &cfg, const std::shared_ptr<St> &st)
{
  // custom deleter (the documented test seam does the same): observes on which thread ~Transport
  // ran and when it returned. After it returned on a non-I/O thread the callback fence is armed.
  TransportConfig c = cfg;
  c.protocol = udp ? Protocol::UDP : Protocol::TCP;
  Transport *p = new Transport(Transport::PrivateTag{}, c);
  return std::shared_ptr<Transport>(p, [st](Transport *q) {
    bool onIo = st->ioTid.load() == tidNum();
    delete q;
    st->dtorOnIo = onIo;
    st->dtorRan = true;
    if (!onIo) st->fence = true;
  });
}

static bool runIter(uint64_t seed, uint64_t idx, int onlyTd, int onlyProto)
{
  auto &O = vf::out();
  vf::Rng rng(seed, idx);
  bool udp = rng.chance(0.35);
  if (onlyProto >= 0) udp = onlyProto == 1;
  static const int tdW[NTd] = {5, 5, 3, 3, 2, 3, 2};
  int tw = 0; for (int w : tdW) tw += w;
  int pick = int(rng.below(uint64_t(tw))), td = 0;
  for (; td < NTd; td++) { if (pick < tdW[td]) break; pick -= tdW[td]; }
  if (onlyTd >= 0) td = onlyTd;
  bool destroying = td == DropUser || td == DropInOnClose || td == DropInOnData;
  bool selfDestruct = td == DropInOnClose || td == DropInOnData;
  int nParkConn = udp ? 0 : int(rng.below(4));
  int nParkRecv = int(rng.below(4));
  int nFlush = int(rng.below(3));
  if (rng.chance(0.15)) { nParkConn = udp ? 0 : 1; nParkRecv = 1; nFlush = 1; }
  int nRacers = destroying ? 0 : int(rng.below(4));
  int nEdgeConn = (!udp && rng.chance(0.6)) ? int(rng.range(1, 3)) : 0;
  int nEdgeRecv = rng.chance(0.4) ? int(rng.range(1, 2)) : 0;
  int nStorm = selfDestruct ? 0 : int(rng.range(1, 4));
  uint32_t slowClose = rng.chance(0.6) ? uint32_t(rng.range(50, 1500)) : 0;
  // a non-instant user onClose (1-20 ms per open session) keeps the shutdown drain busy after its last
  // pass over the command queue; connectSync callers keep ENTERING until stop() has returned
  if (!destroying && rng.chance(0.25)) slowClose = uint32_t(rng.range(1000, 20000));
  int nBurst = (!destroying && !udp && rng.chance(0.6)) ? int(rng.range(1, 3)) : 0;
  uint32_t cvDelay = rng.chance(0.6) ? uint32_t(rng.range(100, 3000)) : 0;
  // callbacks fired while teardown is under way call public operations themselves (not in the
  // self-destruct kinds: there the Transport object is gone once the callback has dropped it)
  bool reentry = !selfDestruct && (rng.chance(0.4) || g_nestedStart);
  int cycles = td == Cycles ? int(rng.range(2, 4)) : 1;
  char desc[384];
  snprintf(desc, sizeof desc, "{\"idx\":%llu,\"proto\":\"%s\",\"teardown\":\"%s\",\"park_connect\":%d,\"park_recv\":%d,\"flushers\":%d,\"racers\":%d,\"storm\":%d,\"edge_connect\":%d,\"edge_recv\":%d,\"reentry\":%d,\"slow_close_us\":%u,\"cv_delay_us\":%u}",
           (unsigned long long)idx, udp ? "udp" : "tcp", kTd[td], nParkConn, nParkRecv, nFlush, nRacers, nStorm, nEdgeConn, nEdgeRecv, reentry ? 1 : 0, slowClose, cvDelay);
  g_curDesc = desc;
  O.line(std::string("{\"t\":\"begin\",\"idx\":") + std::to_string(idx) + ",\"scn\":\"" + kTd[td] + ":" + (udp ? "udp" : "tcp") + "\",\"desc\":" + desc + "}");
  const std::string tdp = std::string(kTd[td]) + ":" + (udp ? "udp" : "tcp");
  g_tdp = tdp;
#if !VF_TSAN
  vf::shim::condvarPolicy().seed = seed * 7919 + idx;
  vf::shim::condvarPolicy().permille = uint32_t(rng.range(200, 1000));
  vf::shim::condvarPolicy().maxDelayUs = cvDelay;
#endif

  // ---- peers
  std::unique_ptr<vfnet::Target> echo, bh, trig;
  std::unique_ptr<vfnet::UdpEcho> uecho, upeer2; // upeer2: a raw peer that is only ever a connectViaListener target / datagram source
  if (!udp)
  {
    echo.reset(new vfnet::Target(TK::Accept, nullptr, seed + idx));
    if (td == DropInOnClose || td == DropInOnData || td == StopFromCb) { trig.reset(new vfnet::Target(TK::Accept, nullptr, seed + idx + 1)); trig->setPollMs(1); }
    if (nParkConn || nRacers || nEdgeConn)
    {
      bh.reset(new vfnet::Target(TK::Blackhole, nullptr, seed + idx + 2));
      if (!bh->blackholeVerified()) { O.obs("blackhole_setup_failed"); nParkConn = 0; nEdgeConn = 0; bh.reset(); }
    }
  }
  else { uecho.reset(new vfnet::UdpEcho()); upeer2.reset(new vfnet::UdpEcho()); upeer2->mute(true); }

  // ---- transport + callbacks
  auto st = std::make_shared<St>();
  auto implFreed = std::make_shared<std::atomic<bool>>(false);
  auto tok = std::make_shared<FreedToken>();
  tok->flag = implFreed;
  st->slowCloseUs = slowClose;
  if (udp && rng.chance(0.4)) st->slowDataUs = uint32_t(rng.range(200, 2000));
  st->reentry = reentry;
  st->reSeq = rng.below(NRe); // the rotation of nested operations starts at a seeded position
  TransportConfig cfg;
  std::shared_ptr<Transport> t = makeTransport(udp, cfg, st);
  st->raw = t.get();
  t->onAccept([st, tok](SessionId, const TransportAddress &) { cbEnter(st, CbAccept); });
  t->onConnect([st, tok](SessionId sid, const TransportAddress &) { cbEnter(st, CbConnect); noteTerminal(st, sid); });
  t->onError([st, tok](TransportError, const std::string &) { cbEnter(st, CbError); });
  t->onData([st, tok](SessionId sid, iora::core::BufferView d, std::chrono::steady_clock::time_point) {
    cbEnter(st, CbData);
    if (tlsInFlush)
    {
      if (st->fence.load())
      {
        // Entered after stop() returned. The flush loop checks `closed` under the sync lock, takes the
        // buffered bytes out, drops the lock and only then calls us: if the close of this session was
        // reported inside that gap, this ONE chunk was already on its way (the next turn of the loop
        // sees `closed`). That needs the loop's check - which lies after our previous return, or after
        // the start of the call - to precede the close report. Anything else (a second late entry of
        // the same call, or a chunk taken although our previous callback outlived the close) is not
        // that window.
        uint64_t cns = 0;
        { std::lock_guard<std::mutex> g(st->m); auto it = st->closeNs.find(sid); if (it != st->closeNs.end()) cns = it->second; }
        bool inFlight = cns != 0 && tlsFlushPrevExitNs < cns && tlsFlushLateEntries == 0;
        tlsFlushLateEntries++;
        if (inFlight) st->flushLateInFlight++; else st->fenceViolFlush++;
      }
      // slow consumer on the flusher's own thread: the flush is "in progress" (lock released)
      st->inFlushCb++;
      uint64_t until = vf::nowNs() + 8000000000ull;
      while (st->holdFlush.load() && vf::nowNs() < until) vf::sleepMs(0.2);
      st->inFlushCb--;
      tlsFlushPrevExitNs = vf::nowNs();
      return;
    }
    bool isTrig = d.size() >= 4 && memcmp(d.data(), "TRIG", 4) == 0;
    if (!isTrig) { { std::lock_guard<std::mutex> g(st->m); auto &s = st->data[sid]; if (s.size() < 4096) s.append((const char *)d.data(), d.size()); } if (uint32_t us = st->slowDataUs.load()) vf::sleepMs(double(us) / 1000.0); reenter(st, RcData); return; }
    if (!st->triggerArmed.load() || st->triggered.exchange(true)) return;
    int tr = st->trigger.load();
    if (tr == 3) dropHolder(st);
    else if (tr == 2) { uint64_t c = st->closeOnTrigger.load(); st->triggered = false; if (c) st->raw->close(c); }
    else if (tr == 4)
    {
      try { st->raw->stop(); st->stopReturnedFromCb = true; }
      catch (const std::logic_error &) { st->stopThrew = true; }
    }
  });
  t->onClose([st, tok](SessionId sid, const TransportErrorInfo &why) {
    cbEnter(st, CbClose);
    noteTerminal(st, sid);
    { uint64_t n = vf::nowNs(); std::lock_guard<std::mutex> g(st->m); st->closeNs.emplace(sid, n); }
    if (why.code == TransportError::ShuttingDown && st->reconnect.load() && !tlsInFlush && st->reconnects.fetch_add(1) < 8)
    {
      // "reconnect when the transport says it is shutting down" — from inside the callback
      uint64_t lid = st->viaLid.load();
      bool via = lid != 0 && (st->reconnects.load() & 1);
      try
      {
        auto cr = via ? st->raw->connectViaListener(lid, "127.0.0.1", uint16_t(st->rePort.load())) : st->raw->connect("127.0.0.1", uint16_t(st->rePort.load()), TlsMode::None);
        if (cr.isOk()) { st->reconAccepted++; std::lock_guard<std::mutex> g(st->m); st->reconIds.emplace(cr.value(), st->gen.load()); }
        else st->reconRefused++;
      }
      catch (const std::exception &) { st->reconRefused++; }
    }
    if (uint32_t us = st->slowCloseUs.load()) vf::sleepMs(double(us) / 1000.0);
    reenter(st, RcClose);
    if (st->trigger.load() == 2 && st->triggerArmed.load() && (st->closeOnTrigger.load() == 0 || st->closeOnTrigger.load() == sid) && !st->triggered.exchange(true)) dropHolder(st);
  });
  tok.reset(); // the callbacks stored in Impl are now the only owners: the flag flips when Impl is freed

  std::atomic<uint64_t> curLid{0};
  uint64_t parkedConnSeen = 0, parkedRecvSeen = 0, parkedFlushSeen = 0;
  bool iterOk = true;
  uint64_t sigBits = 0;

  for (int cyc = 0; cyc < cycles; cyc++)
  {
    st->fence = false;
    st->gen++;
    st->reconnects = 0;
    st->holdFlush = true;
    if (!t->start().isOk()) { O.viol("C05:start-failed:" + tdp, cyc ? "start() after a stop() failed" : "start() failed", desc); iterOk = false; break; }
    if (cyc) O.obs("restarts_after_stop");

    // ---- sessions
    std::vector<SessionId> recvSids, flushSids, spare;
    SessionId trigSid = 0; uint16_t trigLocalPort = 0;
    auto mk = [&](vfnet::Target *tg) -> SessionId {
      auto r = udp ? t->connectSync("127.0.0.1", uecho->port(), TlsMode::None, std::chrono::milliseconds(10000))
                   : t->connectSync("127.0.0.1", tg->port(), TlsMode::None, std::chrono::milliseconds(10000));
      return r.isOk() ? r.value() : 0;
    };
    bool setupOk = true;
    for (int i = 0; i < nParkRecv + nRacers + nEdgeRecv && setupOk; i++) { SessionId s = mk(echo.get()); if (!s) setupOk = false; else recvSids.push_back(s); }
    for (int i = 0; i < nFlush + (nRacers ? 1 : 0) && setupOk; i++) { SessionId s = mk(echo.get()); if (!s) setupOk = false; else flushSids.push_back(s); }
    for (int i = 0; i < 3 && setupOk; i++) { SessionId s = mk(echo.get()); if (!s) setupOk = false; else spare.push_back(s); }
    if (setupOk && (td == DropInOnClose || td == DropInOnData || td == StopFromCb))
    {
      trigSid = mk(udp ? nullptr : trig.get());
      if (!trigSid) setupOk = false;
      else
      {
        // UDP connectSync returns before the I/O thread has created the session: wait for its socket
        uint64_t until = vf::nowNs() + 5000000000ull;
        while ((trigLocalPort = t->getLocalAddress(trigSid).port) == 0 && vf::nowNs() < until) vf::sleepMs(0.2);
        if (!trigLocalPort) setupOk = false;
      }
    }
    if (!setupOk) { O.inconclusive("session setup failed in iteration " + std::to_string(idx)); iterOk = false; t->stop(); break; }
    if (udp)
    {
      auto lr = t->addListener("127.0.0.1", 0, TlsMode::None);
      uint16_t lp = lr.isOk() ? t->getListenerAddress(lr.value()).port : 0;
      curLid = lr.isOk() ? lr.value() : 0;
      if (lp)
      {
        // every raw peer that was a connectViaListener target or a datagram source in an earlier cycle
        // talks to the new listener: the restarted transport must deliver it (onAccept/onData), not crash
        char tokA[48], tokB[48];
        snprintf(tokA, sizeof tokA, "DGRAM-A-%llu-%d", (unsigned long long)idx, cyc);
        snprintf(tokB, sizeof tokB, "DGRAM-B-%llu-%d", (unsigned long long)idx, cyc);
        snprintf(g_phaseCrashLine, sizeof g_phaseCrashLine, "{\"t\":\"stuck\",\"idx\":%llu,\"key\":\"C05:crash:datagram-from-known-peer-to-%s-listener:%s\"}\n",
                 (unsigned long long)idx, cyc ? "restarted" : "first", tdp.c_str());
        uecho->sendTo(lp, tokA);
        upeer2->sendTo(lp, tokB);
        uint64_t until = vf::nowNs() + 5000000000ull;
        bool gotA = false, gotB = false;
        while (vf::nowNs() < until && !(gotA && gotB))
        {
          {
            std::lock_guard<std::mutex> g(st->m);
            for (auto &kv : st->data) { if (kv.second.find(tokA) != std::string::npos) gotA = true; if (kv.second.find(tokB) != std::string::npos) gotB = true; }
          }
          if (!(gotA && gotB)) { vf::sleepMs(0.5); if ((vf::nowNs() / 1000000ull) % 200 == 0) { uecho->sendTo(lp, tokA); upeer2->sendTo(lp, tokB); } }
        }
        g_phaseCrashLine[0] = 0;
        if (gotA && gotB) O.obs(cyc ? "datagrams_from_known_peers_delivered_after_restart" : "datagrams_from_raw_peers_delivered_first_start", 2);
        else O.viol(std::string("C05:restart:datagram-from-known-peer-not-delivered:") + (cyc ? "after-restart" : "first-start") + ":" + tdp,
                    "a datagram sent by a raw peer to the listener of the (re)started UDP transport was not delivered within 5 s", desc);
      }
    }
    st->rePort = udp ? uecho->port() : echo->port();
    st->viaLid = udp ? curLid.load() : 0;
    st->reconnect = !selfDestruct; // the handler needs the Transport object, which a self-destructing callback has dropped
    if (reentry)
    {
      st->reSid = spare[2];
      for (size_t k = 1; k < spare.size(); k++)
      {
        t->observe(spare[k], [st](SessionId, const TransportErrorInfo &) { if (st->fence.load()) st->fenceViol[CbClose]++; reenter(st, RcObserver); });
        t->setSessionData(spare[k], st.get(), [st](void *) { if (st->fence.load()) st->fenceViol[CbClose]++; reenter(st, RcCleanup); });
      }
    }
    for (auto s : recvSids) t->setReadMode(s, ReadMode::Sync);
    std::vector<SessionId> flushReady;
    for (auto s : flushSids)
    {
      t->setReadMode(s, ReadMode::Sync);
      t->send(s, "FLUSHDATA-FLUSHDATA", 19);
    }
    for (auto s : flushSids)
    {
      uint64_t until = vf::nowNs() + 3000000000ull;
      while (bufferedBytes(t.get(), s) == 0 && vf::nowNs() < until) vf::sleepMs(0.2);
      if (bufferedBytes(t.get(), s)) flushReady.push_back(s);
    }

    // ---- workers
    std::vector<std::unique_ptr<Worker>> W;
    std::atomic<bool> tdBegun{false};
    std::atomic<uint64_t> tdT0{0};
    Transport *raw = t.get();
    auto blockingCall = [&](Worker *w, Transport *tp, int op, SessionId sid, int timeoutMs = kParkTimeoutMs, uint32_t postUnlockUs = 0, uint64_t puSeed = 0) {
      w->op = op;
      w->timeoutMs = timeoutMs;
      w->t0 = vf::nowNs();
      w->inCall = true;
      tlsPostUnlockSeed = puSeed;
      tlsPostUnlockMaxUs = postUnlockUs;
      try
      {
        if (op == OpConnectSync)
        {
          auto r = tp->connectSync("127.0.0.1", bh ? bh->port() : 9, TlsMode::None, std::chrono::milliseconds(timeoutMs));
          w->ok = r.isOk(); if (!w->ok) { w->code = int(r.error().code); w->msg = r.error().message; } else tp->close(r.value());
        }
        else if (op == OpReceiveSync)
        {
          char b[256]; size_t l = sizeof b;
          auto r = tp->receiveSync(sid, b, l, std::chrono::milliseconds(timeoutMs));
          w->ok = r.isOk(); if (!w->ok) { w->code = int(r.error().code); w->msg = r.error().message; }
        }
        else
        {
          tlsFlushPrevExitNs = vf::nowNs();
          tlsFlushLateEntries = 0;
          tlsInFlush = true;
          w->flushRet = tp->setReadMode(sid, ReadMode::Async);
          tlsInFlush = false;
          w->ok = true;
        }
      }
      catch (const std::exception &ex) { w->threw = true; w->what = ex.what(); }
      tlsPostUnlockMaxUs = 0;
      w->inCall = false;
      w->t1 = vf::nowNs();
    };
    size_t firstParker = W.size();
    int expConn = 0, expRecv = 0, expFlush = 0;
    // parked callers use the raw pointer: they do not co-own, which is exactly what makes a
    // destroying teardown meet parked callers (a co-owner would keep the transport alive)
    for (int i = 0; i < nParkConn && bh; i++, expConn++) { W.emplace_back(new Worker()); Worker *w = W.back().get(); w->th = std::thread([&, w] { blockingCall(w, raw, OpConnectSync, 0); w->done = true; }); }
    for (int i = 0; i < nParkRecv; i++, expRecv++) { W.emplace_back(new Worker()); Worker *w = W.back().get(); SessionId s = recvSids[size_t(i)]; w->th = std::thread([&, w, s] { blockingCall(w, raw, OpReceiveSync, s); w->done = true; }); }
    // every other iteration the flushers are held after mutex releases too (unlock interposer): that
    // stretches the gap between "chunk taken out under the lock" and "data callback entered"
    uint32_t flushHoldUs = rng.chance(0.5) ? uint32_t(rng.range(500, 3000)) : 0;
    for (int i = 0; i < nFlush && size_t(i) < flushReady.size(); i++, expFlush++) { W.emplace_back(new Worker()); Worker *w = W.back().get(); SessionId s = flushReady[size_t(i)]; uint64_t ps = rng.next(); w->th = std::thread([&, w, s, ps] { blockingCall(w, raw, OpFlush, s, kParkTimeoutMs, flushHoldUs, ps); w->done = true; }); }
    size_t lastParker = W.size();
    {
      uint64_t until = vf::nowNs() + 8000000000ull;
      for (;;)
      {
        Parked p = peek(raw);
        if (int(p.conn) >= expConn && int(p.recv) >= expRecv && int(p.flush) >= expFlush && st->inFlushCb.load() >= expFlush) break;
        if (vf::nowNs() > until) break;
        vf::sleepMs(0.2);
      }
    }
    // a second chunk arrives WHILE the flushers sit in their slow data callback: the session is still
    // in Sync mode during the flush, so the I/O thread appends it to the sync buffer. Whether the
    // flusher may still hand it to onData depends on what happens before its callback returns.
    if (expFlush > 0 && st->inFlushCb.load() >= expFlush)
    {
      for (int i = 0; i < expFlush; i++) t->send(flushReady[size_t(i)], "SECOND-CHUNK-SECOND-CHUNK", 25);
      uint64_t until = vf::nowNs() + 2000000000ull;
      int got = 0;
      while (vf::nowNs() < until)
      {
        got = 0;
        for (int i = 0; i < expFlush; i++) if (bufferedBytes(raw, flushReady[size_t(i)]) > 0) got++;
        if (got == expFlush) break;
        vf::sleepMs(0.1);
      }
      if (got) O.obs("second_chunk_buffered_while_flusher_in_data_callback", uint64_t(got));
    }
    // racers: co-owning threads that ENTER a blocking call around the teardown moment
    bool flushRacerUsed = false;
    for (int i = 0; i < nRacers; i++)
    {
      int op = int(rng.below(3));
      if (op == 0 && !bh) op = 1;
      if (op == 2 && (flushRacerUsed || flushReady.size() <= size_t(nFlush))) op = 1;
      if (op == 2) flushRacerUsed = true;
      SessionId s = op == 1 ? recvSids[size_t(nParkRecv + i)] : op == 2 ? flushReady.back() : 0;
      uint32_t offUs = uint32_t(rng.below(3000));
      W.emplace_back(new Worker()); Worker *w = W.back().get();
      std::shared_ptr<Transport> own = t;
      w->th = std::thread([&, w, own, op, s, offUs]() mutable {
        while (!tdBegun.load()) vf::sleepMs(0.05);
        if (offUs > 1500) vf::sleepMs(double(offUs - 1500) / 1000.0);
        blockingCall(w, own.get(), op == 0 ? OpConnectSync : op == 1 ? OpReceiveSync : OpFlush, s);
        own.reset();
        w->done = true;
      });
    }
    // storm threads (co-owning)
    std::atomic<uint64_t> stormOps{0}, sendTrue{0}, sendFalse{0}, closeTrue{0}, closeFalse{0}, listenOk{0}, listenErr{0}, connOk{0}, connErr{0};
    std::atomic<uint64_t> opsAfterTd{0}, viaOk{0}, viaErr{0};
    std::atomic<int> stopsReturned{0};
    for (int i = 0; i < nStorm; i++)
    {
      W.emplace_back(new Worker()); Worker *w = W.back().get();
      std::shared_ptr<Transport> own = t;
      uint64_t s0 = rng.next();
      w->th = std::thread([&, w, own, s0]() mutable {
        vf::Rng r(s0);
        int after = int(r.range(0, 6));
        int listens = 0, connects = 0, connectsAfter = 0, vias = 0;
        for (;;)
        {
          // destroying kinds: co-owners must let go once teardown began (one of these releases is the
          // last one). stop kinds: keep hammering through the whole shutdown drain, until stop() has
          // returned, then a few more operations on the stopped transport.
          bool begun = tdBegun.load();
          if (begun) opsAfterTd++;
          if (begun && (destroying || stopsReturned.load() > 0)) { if (after-- <= 0) break; }
          int k = int(r.below(10));
          if (k >= 5 && k < 7 && ++listens > 24 && !begun) k = 9; // bounded number of listening sockets
          // bounded number of connects: every one of them costs one (possibly slow) user onClose inside
          // stop(); an unbounded stream of them makes stop() long by the harness's own doing
          if (k == 7 && ((!begun && ++connects > 24) || (begun && ++connectsAfter > 40))) k = 9; // a reserve for the drain: leftover Connects must exist
          w->t0 = vf::nowNs();
          try
          {
            if (k < 4) { w->op = OpSend; w->inCall = true; bool b = own->send(spare[r.below(spare.size())], "storm-bytes", 11); w->inCall = false; (b ? sendTrue : sendFalse)++; }
            else if (k < 5) { w->op = OpClose; w->inCall = true; bool b = own->close(spare[0]); w->inCall = false; (b ? closeTrue : closeFalse)++; }
            else if (k < 7) { w->op = OpAddListener; w->inCall = true; auto lr = own->addListener("127.0.0.1", 0, TlsMode::None); w->inCall = false; (lr.isOk() ? listenOk : listenErr)++; }
            else if (k < 8) { w->op = OpConnect; w->inCall = true; auto cr = own->connect("127.0.0.1", udp ? uecho->port() : echo->port(), TlsMode::None); w->inCall = false; (cr.isOk() ? connOk : connErr)++; }
            else if (k == 8 && udp && curLid.load() && ++vias <= 16)
            {
              // towards the harness's raw peer sockets, also around the teardown instant and while a data callback holds the I/O thread
              w->op = OpConnect; w->inCall = true;
              auto vr = own->connectViaListener(curLid.load(), "127.0.0.1", r.chance(0.5) ? uecho->port() : upeer2->port());
              w->inCall = false; (vr.isOk() ? viaOk : viaErr)++;
            }
            else { w->op = OpMisc; w->inCall = true; (void)own->getStats(); ReadMode m; (void)own->getReadMode(spare[1], m); (void)own->isRunning(); w->inCall = false; }
          }
          catch (const std::exception &ex) { w->inCall = false; w->threw = true; w->what = ex.what(); }
          stormOps++;
          vf::sleepMs(0.02 + 0.02 * double(r.below(10)));
        }
        w->op = OpDrop; w->t0 = vf::nowNs(); w->inCall = true;
        own.reset(); // in the destroying kinds one of these releases is the last one
        w->inCall = false;
        w->done = true;
      });
    }
    // connectSync burst (co-owning): released when teardown has begun, each thread keeps entering
    // connectSync (accepting target, short timeout) until stop() has returned, then twice more
    std::atomic<uint64_t> burstCalls{0}, burstOk{0}, burstShut{0}, burstOther{0};
    for (int i = 0; i < nBurst && echo; i++)
    {
      W.emplace_back(new Worker()); Worker *w = W.back().get();
      std::shared_ptr<Transport> own = t;
      uint64_t s0 = rng.next();
      uint16_t bport = echo->port();
      w->th = std::thread([&, w, own, s0, bport]() mutable {
        vf::Rng r(s0);
        while (!tdBegun.load()) vf::sleepMs(0.05);
        int after = 2;
        for (;;)
        {
          if (stopsReturned.load() > 0 && after-- <= 0) break;
          w->op = OpConnectSync; w->t0 = vf::nowNs(); w->inCall = true;
          try
          {
            auto cr = own->connectSync("127.0.0.1", bport, TlsMode::None, std::chrono::milliseconds(int(r.range(5, 60))));
            w->inCall = false;
            burstCalls++;
            if (cr.isOk()) { burstOk++; own->close(cr.value()); }
            else if (cr.error().code == TransportError::ShuttingDown || (cr.error().code == TransportError::Unknown && cr.error().message == "shutdown")) burstShut++;
            else burstOther++;
          }
          catch (const std::exception &ex) { w->inCall = false; w->threw = true; w->what = ex.what(); }
          if (r.chance(0.5)) vf::sleepMs(0.02 * double(r.below(10)));
        }
        w->op = OpMisc;
        own.reset();
        w->done = true;
      });
    }
    vf::sleepMs(0.2 * double(rng.below(15)));

    // ---- edge callers: short timeouts (black-holed connectSync / silent receiveSync) whose expiry is
    // aimed at the teardown moment, held after every other mutex release by the unlock interposer.
    // Raw-pointer callers like the parkers; teardown may only begin once every one of them that has
    // not returned yet is counted by the transport (from then on it is the transport's job to wait).
    size_t firstEdge = W.size();
    int edgeMs = int(rng.range(2, 10));
    uint32_t edgeHoldUs = uint32_t(rng.range(800, 5000));
    for (int i = 0; i < nEdgeConn && bh; i++)
    {
      W.emplace_back(new Worker()); Worker *w = W.back().get(); w->edge = true; uint64_t ps = rng.next();
      w->th = std::thread([&, w, ps] { blockingCall(w, raw, OpConnectSync, 0, edgeMs, edgeHoldUs, ps); w->done = true; });
    }
    for (int i = 0; i < nEdgeRecv; i++)
    {
      W.emplace_back(new Worker()); Worker *w = W.back().get(); w->edge = true; uint64_t ps = rng.next();
      SessionId sEdge = recvSids[size_t(nParkRecv + nRacers + i)];
      w->th = std::thread([&, w, sEdge, ps] { blockingCall(w, raw, OpReceiveSync, sEdge, edgeMs, edgeHoldUs, ps); w->done = true; });
    }
    size_t lastEdge = W.size();
    if (lastEdge > firstEdge)
    {
      uint64_t e0 = vf::nowNs(), until = e0 + 8000000000ull;
      for (;;)
      {
        int needConn = 0, needRecv = 0;
        for (size_t i = firstEdge; i < lastEdge; i++) if (!W[i]->done.load()) { if (W[i]->op.load() == OpReceiveSync) needRecv++; else needConn++; }
        // parkers that are still blocked are counted too; edge callers come on top of them
        int longConn = 0, longRecv = 0;
        for (size_t i = firstParker; i < lastParker; i++) if (!W[i]->done.load() && W[i]->inCall.load()) { if (W[i]->op.load() == OpConnectSync) longConn++; else if (W[i]->op.load() == OpReceiveSync) longRecv++; }
        Parked p = peek(raw);
        if (int(p.conn) >= longConn + needConn && int(p.recv) >= longRecv + needRecv) break;
        if (vf::nowNs() > until) break;
        vf::sleepMs(0.05);
      }
      // aim: expiry of the edge callers (their park began about now, +- the pre-park delay) + jitter
      double aimMs = double(edgeMs) - 0.3 + 0.1 * double(rng.below(25));
      double spent = double(vf::nowNs() - e0) / 1e6;
      if (aimMs > spent) vf::sleepMs(aimMs - spent);
      O.obs("edge_callers_started", lastEdge - firstEdge);
    }

    // ---- teardown
    Parked hit = peek(raw);
    for (size_t i = firstParker; i < lastParker; i++) W[i]->parkedBefore = W[i]->inCall.load();
    {
      uint64_t nowT = vf::nowNs();
      for (size_t i = firstEdge; i < lastEdge; i++)
      {
        W[i]->parkedBefore = W[i]->inCall.load();
        if (W[i]->inCall.load() && nowT > W[i]->t0 + uint64_t(edgeMs) * 1000000ull) { W[i]->pastExpiryAtTeardown = true; O.obs(std::string("teardown_began_with_") + kOp[W[i]->op.load()] + "_caller_past_its_expiry_not_yet_returned"); }
      }
    }
    if (selfDestruct || td == StopFromCb)
    {
      st->trigger = td == DropInOnClose ? 2 : td == DropInOnData ? 3 : 4;
      st->closeOnTrigger = (td == DropInOnClose) ? trigSid : 0;
    }
    auto addStopper = [&](vfnet::YieldBarrier *bar) {
      W.emplace_back(new Worker()); Worker *w = W.back().get();
      std::shared_ptr<Transport> own = t;
      w->th = std::thread([&, w, own, bar]() mutable {
        if (bar) bar->wait();
        w->op = OpStop; w->t0 = vf::nowNs(); w->inCall = true;
        st->stopInProgress = true;
        try { own->stop(); } catch (const std::exception &ex) { w->threw = true; w->what = ex.what(); }
        st->fence = true; // stop() has returned to a non-callback caller
        if (st->inFlushCb.load() > 0) O.obs("flusher_still_inside_onData_entered_before_stop_returned"); // cannot be interrupted: counted
        st->stopInProgress = false;
        stopsReturned++;
        w->inCall = false; w->t1 = vf::nowNs();
        own.reset();
        w->done = true;
      });
    };
    vfnet::YieldBarrier twoBar(2);
    tdT0 = vf::nowNs();
    if (td == StopFromCb)
    {
      // a callback tries stop() while the engine runs: must throw logic_error, transport keeps working
      st->triggerArmed = true;
      if (udp) uecho->sendTo(trigLocalPort, "TRIG-stop"); else trig->requestSendAll("TRIG-stop");
      uint64_t until = vf::nowNs() + 10000000000ull;
      while (!st->stopThrew.load() && !st->stopReturnedFromCb.load() && vf::nowNs() < until) vf::sleepMs(0.2);
      if (st->stopThrew.load()) O.obs("stop_from_callback_threw_logic_error");
      else if (st->stopReturnedFromCb.load()) O.viol("C05:stop-from-callback-did-not-throw:" + tdp, "stop() called from a data callback on a running transport returned instead of throwing std::logic_error", desc);
      else O.inconclusive("stop-from-callback trigger never reached the callback (iteration " + std::to_string(idx) + ")");
      if (!t->isRunning()) O.viol("C05:stop-from-callback-stopped-the-transport:" + tdp, "transport no longer running after a refused stop() from a callback", desc);
      tdT0 = vf::nowNs();
    }
    st->tdActive = true;
    tdBegun = true;
    uint32_t holdMs = uint32_t(rng.below(4));
    if (td == StopOther || td == StopFromCb || td == Cycles) addStopper(nullptr);
    else if (td == DoubleStop) { addStopper(&twoBar); addStopper(&twoBar); }
    else if (td == DropUser)
    {
      W.emplace_back(new Worker()); Worker *w = W.back().get();
      std::shared_ptr<Transport> *mainRef = &t;
      w->th = std::thread([&, w, mainRef] {
        w->op = OpDrop; w->t0 = vf::nowNs(); w->inCall = true;
        mainRef->reset();
        w->inCall = false; w->t1 = vf::nowNs();
        w->done = true;
      });
    }
    else
    {
      // sole owner dropped inside a callback: hand the only reference to a heap holder the callback resets
      st->holder = new std::shared_ptr<Transport>(std::move(t));
      st->triggerArmed = true;
      if (td == DropInOnClose)
      {
        if (udp) { st->closeOnTrigger = trigSid; uecho->sendTo(trigLocalPort, "TRIG-close"); }
        else trig->requestCloseAll(rng.chance(0.5));
      }
      else { if (udp) uecho->sendTo(trigLocalPort, "TRIG-drop"); else trig->requestSendAll("TRIG-drop"); }
    }
    // flushers held in their slow data callback are released a little after teardown began — or, for
    // the stop kinds, mostly only after stop() has returned (slow consumer outliving the stop)
    if (!destroying && rng.chance(0.7))
    {
      uint64_t until = vf::nowNs() + 10000000000ull;
      while (stopsReturned.load() == 0 && vf::nowNs() < until) vf::sleepMs(0.1);
    }
    vf::sleepMs(double(holdMs));
    st->holdFlush = false;

    // ---- (b) deadline: everything registered must have returned
    bool allDone = false;
    for (;;)
    {
      allDone = true;
      for (auto &w : W) if (!w->done.load()) { allDone = false; break; }
      if (allDone && (destroying ? st->dtorRan.load() : true)) break;
      uint64_t now = vf::nowNs();
      if (now > tdT0.load() + kDeadlineMs * 1000000ull)
      {
        uint64_t gap = g_hb->maxGapNs(tdT0.load(), now);
        bool any = false;
        if (int ro = st->reIn.load())
        {
          // an operation called from inside a callback never came back: the I/O thread is stuck in it,
          // and with it the stop()/release that is waiting for that thread
          std::string key = std::string("C05:stranded:") + kRe[ro - 1] + "-called-from-a-callback-while-teardown-drains:" + tdp;
          O.line("{\"t\":\"stuck\",\"idx\":" + std::to_string(idx) + ",\"key\":" + vf::jstr(key) + ",\"callback\":\"" + kRc[st->reCb.load()] + "\",\"hb_gap_ms\":" + std::to_string(gap / 1000000ull) + ",\"desc\":" + desc + "}");
          O.flush(); fflush(nullptr); _exit(5);
        }
        if ((selfDestruct && !st->triggered.load()) || (td == StopFromCb && !tdBegun.load()))
        {
          // the raw peer's trigger never reached the callback: nothing was torn down, nothing to judge
          O.line("{\"t\":\"stuck\",\"idx\":" + std::to_string(idx) + ",\"key\":\"harness:trigger-never-fired\",\"hb_gap_ms\":" + std::to_string(gap / 1000000ull) + ",\"desc\":" + desc + "}");
          O.flush(); fflush(nullptr); _exit(5);
        }
        for (auto &w : W)
          if (!w->done.load())
          {
            any = true;
            std::string key = std::string("C05:stranded:") + kOp[w->op.load()] + ":" + (w->parkedBefore.load() ? "parked-before-teardown" : "in-flight-or-entered-during-teardown") + ":" + tdp;
            O.line("{\"t\":\"stuck\",\"idx\":" + std::to_string(idx) + ",\"key\":" + vf::jstr(key) + ",\"hb_gap_ms\":" + std::to_string(gap / 1000000ull) + ",\"desc\":" + desc + "}");
          }
        if (!any) O.line("{\"t\":\"stuck\",\"idx\":" + std::to_string(idx) + ",\"key\":" + vf::jstr("C05:stranded:destructor-never-ran:" + tdp) + ",\"hb_gap_ms\":" + std::to_string(gap / 1000000ull) + ",\"desc\":" + desc + "}");
        O.flush();
        fflush(nullptr);
        _exit(5); // stranded threads can never be joined
      }
      vf::sleepMs(0.5);
    }
    uint64_t tdDoneNs = vf::nowNs();
    O.obsMax("max_teardown_to_all_returned_ms", (tdDoneNs - tdT0.load()) / 1000000ull);
    for (auto &w : W) w->th.join();
    st->tdActive = false;
    if (reentry)
    {
      O.obs("reentry_iterations");
      for (int k = 0; k < NRe; k++)
      {
        if (uint64_t n = st->reReturned[k].exchange(0)) O.obs(std::string("nested_") + kRe[k] + "_from_callback_returned", n);
        if (uint64_t n = st->reLogic[k].exchange(0)) O.obs(std::string("nested_") + kRe[k] + "_from_callback_threw_logic_error", n);
        if (uint64_t n = st->reDuringDrain[k].exchange(0)) O.obs(std::string("nested_") + kRe[k] + "_issued_while_another_threads_teardown_drains", n);
      }
      std::lock_guard<std::mutex> g(st->reM);
      for (auto &v : st->reViol) O.viol("C05:reentry:" + v.first + ":" + tdp, v.second, desc);
      st->reViol.clear();
      st->reTotal = 0;
    }

    // ---- coverage: which parked kinds did teardown actually hit
    if (selfDestruct && st->snapConn.load() >= 0) { hit.conn = size_t(st->snapConn.load()); hit.recv = size_t(st->snapRecv.load()); hit.flush = size_t(st->snapFlush.load()); }
    if (hit.conn) { O.obs("teardown_hit_parked_connectSync"); parkedConnSeen++; }
    if (hit.recv) { O.obs("teardown_hit_parked_receiveSync"); parkedRecvSeen++; }
    if (hit.flush) { O.obs("teardown_hit_flusher_in_data_callback"); parkedFlushSeen++; }
    if (hit.conn && hit.recv && hit.flush) O.obs("teardown_hit_all_three_parked_kinds");
    if (!hit.conn && !hit.recv && !hit.flush) O.obs("teardown_hit_nothing_parked");
    O.obs(std::string("parked_when_hit:") + kTd[td] + (hit.conn ? "+connect" : "") + (hit.recv ? "+receive" : "") + (hit.flush ? "+flush" : ""));
    sigBits |= (hit.conn ? 1 : 0) | (hit.recv ? 2 : 0) | (hit.flush ? 4 : 0);

    // ---- results of the blocking calls
    for (auto &w : W)
    {
      int op = w->op.load();
      if (w->threw)
      {
        O.viol(std::string("C05:unexpected-exception:") + kOp[op] + ":" + tdp, std::string(kOp[op]) + " threw during teardown: " + w->what, desc);
        continue;
      }
      if (w->edge)
      {
        std::string cls = w->ok ? "ok" : (w->code == int(TransportError::Unknown) && w->msg == "shutdown") ? "closed-by-shutdown" : errName(w->code);
        O.obs(std::string("edge_") + kOp[op] + "_returned_" + cls);
        bool fine = op == OpConnectSync ? (!w->ok && (cls == "Timeout" || cls == "ShuttingDown" || cls == "closed-by-shutdown"))
                                        : (w->ok || cls == "Timeout" || cls == "PeerClosed" || cls == "ShuttingDown");
        if (!fine) O.viol(std::string("C05:") + kOp[op] + "-result-at-teardown:" + cls + ":" + tdp, std::string(kOp[op]) + " with a short timeout aimed at the teardown moment ended with an unexpected result", desc);
        sigBits |= uint64_t(1024) << (cls == "Timeout" ? 0 : 1);
        if (w->pastExpiryAtTeardown.load()) sigBits |= 4096;
        continue;
      }
      if (op == OpConnectSync)
      {
        std::string cls = w->ok ? "ok" : (w->code == int(TransportError::Unknown) && w->msg == "shutdown") ? "closed-by-shutdown" : errName(w->code);
        O.obs("connectSync_returned_" + cls + (w->parkedBefore.load() ? "_parked" : "_racer"));
        bool fine = !w->ok && (w->code == int(TransportError::ShuttingDown) || cls == "closed-by-shutdown");
        if (!fine) O.viol("C05:connectSync-result-at-teardown:" + cls + ":" + tdp, "connectSync against a black hole (60 s timeout) ended with an unexpected result when the transport was torn down", desc);
        sigBits |= uint64_t(8) << (w->code == int(TransportError::ShuttingDown) ? 0 : 1);
      }
      else if (op == OpReceiveSync)
      {
        std::string cls = w->ok ? "ok" : errName(w->code);
        O.obs("receiveSync_returned_" + cls + (w->parkedBefore.load() ? "_parked" : "_racer"));
        bool fine = w->ok || w->code == int(TransportError::PeerClosed) || w->code == int(TransportError::ShuttingDown);
        if (!fine) O.viol("C05:receiveSync-result-at-teardown:" + cls + ":" + tdp, "receiveSync (60 s timeout) ended with an unexpected result when the transport was torn down", desc);
        sigBits |= uint64_t(32) << (w->code == int(TransportError::ShuttingDown) ? 0 : w->code == int(TransportError::PeerClosed) ? 1 : 2);
      }
      else if (op == OpFlush) { O.obs(std::string("flush_returned_") + (w->flushRet ? "true" : "false") + (w->parkedBefore.load() ? "_parked" : "_racer")); sigBits |= w->flushRet ? 256 : 512; }
    }
    if (nBurst) { O.obs("burst_connectSync_calls_entered_between_teardown_begin_and_stop_return", burstCalls.load()); O.obs("burst_connectSync_ok", burstOk.load()); O.obs("burst_connectSync_shutting_down", burstShut.load()); O.obs("burst_connectSync_other_error", burstOther.load()); }
    if (udp) { O.obs("connectViaListener_ok", viaOk.load()); O.obs("connectViaListener_refused", viaErr.load()); }
    O.obs("storm_ops", stormOps.load());
    O.obs("storm_ops_issued_after_teardown_began", opsAfterTd.load());
    O.obs("send_true", sendTrue.load()); O.obs("send_false", sendFalse.load());
    O.obs("close_true", closeTrue.load()); O.obs("close_false", closeFalse.load());
    O.obs("addListener_ok", listenOk.load()); O.obs("addListener_refused", listenErr.load());
    O.obs("connect_ok", connOk.load()); O.obs("connect_refused", connErr.load());
    O.obs("callbacks_entered_while_stop_in_progress", st->cbDuringStop.exchange(0));

    // ---- (d) after stop(): operations fail cleanly and at once (the object is still alive here)
    if (!destroying)
    {
      if (td == DoubleStop && stopsReturned.load() == 2) O.obs("two_concurrent_stops_both_returned");
      Transport *tp = t.get();
      struct AS { const char *op; bool bad; std::string how; };
      std::vector<AS> as;
      uint64_t a0 = vf::nowNs();
      as.push_back({"isRunning", tp->isRunning(), "still true"});
      as.push_back({"send", tp->send(spare[1], "x", 1), "returned true"});
      as.push_back({"close", tp->close(spare[1]), "returned true"});
      { auto r = tp->connect("127.0.0.1", udp ? uecho->port() : echo->port(), TlsMode::None); as.push_back({"connect", r.isOk(), "returned ok(sid)"}); }
      { auto r = tp->addListener("127.0.0.1", 0, TlsMode::None); as.push_back({"addListener", r.isOk(), "returned ok(lid)"}); }
      { auto r = tp->connectSync("127.0.0.1", udp ? uecho->port() : echo->port(), TlsMode::None, std::chrono::milliseconds(2000)); as.push_back({"connectSync", r.isOk() || r.error().code != TransportError::ShuttingDown, r.isOk() ? "returned ok(sid)" : std::string("returned ") + errName(int(r.error().code))}); }
      {
        char b[64]; size_t l = sizeof b;
        SessionId rs = recvSids.empty() ? spare[2] : recvSids[0];
        if (recvSids.empty()) tp->setReadMode(rs, ReadMode::Sync);
        auto r = tp->receiveSync(rs, b, l, std::chrono::milliseconds(40));
        bool fine = r.isOk() || r.error().code == TransportError::PeerClosed || r.error().code == TransportError::Timeout || r.error().code == TransportError::ShuttingDown;
        as.push_back({"receiveSync", !fine, r.isOk() ? "ok" : std::string("returned ") + errName(int(r.error().code))});
      }
      (void)tp->setReadMode(spare[2], ReadMode::Async);
      { bool threw = false; try { tp->stop(); } catch (...) { threw = true; } as.push_back({"stop-again", threw, "threw"}); }
      uint64_t a1 = vf::nowNs();
      for (auto &a : as) if (a.bad) O.viol(std::string("C05:after-stop:") + a.op + ":" + (udp ? "udp" : "tcp"), std::string(a.op) + " after stop() " + a.how, desc);
      O.obs("after_stop_operation_sets_checked");
      if (a1 - a0 > 2500000000ull && g_hb->maxGapNs(a0, a1) < 100000000ull)
        O.viol(std::string("C05:after-stop:operations-blocked:") + (udp ? "udp" : "tcp"), "operations issued after stop() took more than 2.5 s in total", desc);
    }

    // ---- (c) callback fence
    vf::sleepMs(1);
    {
      std::string kinds; uint64_t total = 0;
      for (int k = 0; k < NCb; k++)
        if (uint64_t n = st->fenceViol[k].exchange(0)) { kinds += std::string(kinds.empty() ? "" : ", ") + kCb[k] + " x" + std::to_string(n); total += n; }
      if (total)
        O.viol(std::string("C05:fence:callback-after-") + (destroying ? "destroying-reset" : "stop") + "-returned:" + tdp,
               std::string("callbacks were entered on the I/O thread after ") + (destroying ? "the destroying reset()" : "stop()") + " had returned to a non-callback caller: " + kinds, desc);
    }
    // flusher threads are fenced too: an onData that was entered before stop() returned and is still
    // running cannot be interrupted (counted above), but a setReadMode(Sync->Async) flush must not
    // ENTER a new onData once stop() has returned (the session's onClose has been delivered by then)
    if (uint64_t n = st->fenceViolFlush.exchange(0))
      O.viol("C05:fence:onData-entered-by-setReadMode-flush-after-stop-returned:" + tdp,
             "a setReadMode(Sync->Async) flush entered onData on the flusher's thread after stop() had returned to a non-callback caller (" + std::to_string(n) + " times), and not with the one chunk it had taken out before the close was reported", desc);
    if (uint64_t n = st->flushLateInFlight.exchange(0))
      O.viol("C05:fence:onData-entered-by-setReadMode-flush-after-stop-returned:" + tdp + ":one-in-flight-chunk-per-flusher",
             "a setReadMode(Sync->Async) flush that had already taken one chunk out of the sync buffer (closed-check passed, lock dropped) when stop()'s drain reported the close entered onData with that chunk after stop() had returned (" +
               std::to_string(n) + " flush calls, at most one entry each)", desc);
    // reconnect handler: every ok(sid) it got must have had its terminal event by now (stop()/the destroying
    // release has returned); events for ids of an earlier run are ghosts
    {
      std::lock_guard<std::mutex> g(st->m);
      uint64_t cur = st->gen.load(), missing = 0;
      for (auto &kv : st->reconIds) if (kv.second == cur && !st->terminalSeen.count(kv.first)) missing++;
      if (missing)
        O.viol("C05:reconnect-from-ShuttingDown-onClose:ok-without-terminal-event:" + tdp,
               "connect()/connectViaListener issued inside an onClose(ShuttingDown) returned ok(sid) but the id had neither onConnect nor onClose when " + std::string(destroying ? "the destroying release" : "stop()") + " had returned (" + std::to_string(missing) + " ids)", desc);
    }
    if (uint64_t n = st->ghostEvents.exchange(0))
      O.viol("C05:ghost-event-after-restart:id-of-a-previous-run:" + tdp,
             "an onConnect/onClose for a session id handed out in an EARLIER run of the engine appeared after the next start() (" + std::to_string(n) + " events): a command survived stop() and was executed after the restart", desc);
    O.obs("reconnect_from_ShuttingDown_onClose_accepted", st->reconAccepted.exchange(0));
    O.obs("reconnect_from_ShuttingDown_onClose_refused", st->reconRefused.exchange(0));
    O.obs("fence_checks");
    if (!t) break; // destroyed in this cycle
  }

  // ---- end of iteration: the transport must go away completely
  if (iterOk)
  {
    if (td == DropInOnClose || td == DropInOnData)
    {
      if (st->dtorOnIo.load()) O.obs(td == DropInOnClose ? "self_destruct_in_onClose_dtor_ran_on_io_thread" : "self_destruct_in_onData_dtor_ran_on_io_thread");
      else O.obs("self_destruct_dtor_not_on_io_thread");
    }
    if (td == DropUser) O.obs(st->dtorOnIo.load() ? "drop_user_dtor_on_io_thread" : "drop_user_dtor_ran_on_user_thread");
  }
  uint64_t e0 = vf::nowNs();
  t.reset(); // stop kinds: final owner release on the main thread (nothing parked any more)
  {
    uint64_t until = vf::nowNs() + kDeadlineMs * 1000000ull;
    while (!implFreed->load() && vf::nowNs() < until) vf::sleepMs(0.5);
    if (!implFreed->load())
    {
      O.line("{\"t\":\"stuck\",\"idx\":" + std::to_string(idx) + ",\"key\":" + vf::jstr("C05:stranded:impl-never-freed:" + tdp) + ",\"hb_gap_ms\":" + std::to_string(g_hb->maxGapNs(e0, vf::nowNs()) / 1000000ull) + ",\"desc\":" + desc + "}");
      O.flush(); fflush(nullptr); _exit(5);
    }
    O.obs("impl_freed");
  }
  if (st->holder) { delete st->holder; st->holder = nullptr; }
  for (int k = 0; k < NCb; k++) O.obs(std::string("callbacks_") + kCb[k], st->cbCount[k].load());
  O.obs(std::string("iterations:") + kTd[td] + ":" + (udp ? "udp" : "tcp"));
  O.obs("iterations");
  char sg[160];
  snprintf(sg, sizeof sg, "%s|%d|%llx|%d|%d|%d|%d", tdp.c_str(), cycles, (unsigned long long)sigBits, nRacers > 0, nStorm > 0, slowClose > 0, cvDelay > 0);
  O.caseSig(vf::fnv(sg));
  O.sample(desc);
  (void)parkedConnSeen; (void)parkedRecvSeen; (void)parkedFlushSeen;
  return iterOk;
}

int main(int argc, char **argv)
{
  vf::Args A(argc, argv);
  vfnet::ignoreSigpipe();
  uint64_t seed = A.u("seed", 1), from = A.u("from", 0), count = A.u("count", 1);
  int onlyTd = A.has("td") ? int(A.u("td", 0)) : -1;
  int onlyProto = A.has("proto") ? int(A.u("proto", 0)) : -1;
  g_nestedStart = A.u("nested-start", 0) != 0;
  vfnet::Heartbeat hb;
  g_hb = &hb;
  g_outFd = fileno(vf::out().f);
  ::signal(SIGABRT, onAbort);
#if !defined(__SANITIZE_ADDRESS__)
  ::signal(SIGSEGV, onAbort); // the asan build lets AddressSanitizer name the faulting frame instead
#endif
  for (uint64_t i = from; i < from + count; i++)
  {
    g_curIdx = int64_t(i);
    runIter(seed, i, onlyTd, onlyProto);
    vf::out().flush(); // per iteration: a later iteration that ends the process must not take these counters with it
  }
#if !VF_TSAN
  vf::out().obs("condvar_waits_seen_by_shim", vf::shim::condvarPolicy().waits.load());
  vf::out().obs("condvar_prepark_delays", vf::shim::condvarPolicy().delayed.load());
  vf::out().obs("post_unlock_holds", gPostUnlockHolds.load());
#endif
  vf::out().flush();
  return 0;
}
