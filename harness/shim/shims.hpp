// /verif/harness/shim/shims.hpp — libc interposers defined in the harness executable.
// A definition in the main executable pre-empts libc for iora's header code, libstdc++.so and
// libssl/libcrypto. Every shim is inert until its policy is armed by the harness.
// Select with: #define VF_SHIM_CLOCK / VF_SHIM_CONDVAR / VF_SHIM_SOCKIO / VF_SHIM_FILEIO /
// VF_SHIM_RESOLVE before including this header (exactly one TU per executable).
#pragma once
#include <atomic>
#include <cerrno>
#include <cstdarg>
#include <cstdint>
#include <cstring>
#include <map>
#include <mutex>
#include <string>
#include <vector>
#include <dlfcn.h>
#include <fcntl.h>
#include <netdb.h>
#include <pthread.h>
#include <sys/socket.h>
#include <sys/stat.h>
#include <sys/syscall.h>
#include <sys/types.h>
#include <sys/uio.h>
#include <time.h>
#include <unistd.h>

#if defined(__SANITIZE_THREAD__)
#define VF_TSAN 1
#else
#define VF_TSAN 0
#endif

namespace vf { namespace shim {

inline uint64_t mix(uint64_t x)
{
  x += 0x9e3779b97f4a7c15ull; x = (x ^ (x >> 30)) * 0xbf58476d1ce4e5b9ull;
  x = (x ^ (x >> 27)) * 0x94d049bb133111ebull; return x ^ (x >> 31);
}
inline void rawSleepUs(uint64_t us)
{
  struct timespec ts; ts.tv_sec = time_t(us / 1000000); ts.tv_nsec = long((us % 1000000) * 1000);
  syscall(SYS_nanosleep, &ts, nullptr);
}
template <class F> F real(const char *name, const char *ver = nullptr)
{
  void *p = nullptr;
  if (ver) p = dlvsym(RTLD_NEXT, name, ver);
  if (!p) p = dlsym(RTLD_NEXT, name);
  return reinterpret_cast<F>(p);
}

// =================================================================================== clock
#ifdef VF_SHIM_CLOCK
struct ClockPolicy
{
  std::atomic<int64_t> realOffsetNs{0};   // added to CLOCK_REALTIME (+_COARSE)
  std::atomic<int64_t> monoOffsetNs{0};   // added to CLOCK_MONOTONIC (+_COARSE, _RAW untouched, BOOTTIME untouched)
  std::atomic<uint64_t> reads{0};
  std::atomic<uint64_t> delayedReads{0};
};
inline ClockPolicy &clockPolicy() { static ClockPolicy p; return p; }
// per-thread: sleep this many microseconds after each clock read (widens read->lock windows)
inline thread_local uint32_t tlsDelayAfterClockReadUs = 0;
#endif

// =================================================================================== condvar
#if defined(VF_SHIM_CONDVAR) && !VF_TSAN
struct CondvarPolicy
{
  std::atomic<uint32_t> maxDelayUs{0};     // 0 = off; seeded delay in [0,max] before parking
  std::atomic<uint32_t> permille{1000};    // fraction of waits that are delayed
  std::atomic<uint64_t> seed{1};
  std::atomic<uint64_t> waits{0}, delayed{0};
};
inline CondvarPolicy &condvarPolicy() { static CondvarPolicy p; return p; }
// per-thread override: if non-zero, always delay exactly this long before parking
inline thread_local uint32_t tlsPreParkDelayUs = 0;
inline thread_local bool tlsCondvarExempt = false; // harness threads that must not be perturbed
inline void prePark()
{
  auto &p = condvarPolicy();
  p.waits.fetch_add(1, std::memory_order_relaxed);
  if (tlsCondvarExempt) return;
  uint32_t d = tlsPreParkDelayUs;
  if (!d)
  {
    uint32_t mx = p.maxDelayUs.load(std::memory_order_relaxed);
    if (!mx) return;
    uint64_t r = mix(p.seed.fetch_add(0x9e3779b97f4a7c15ull, std::memory_order_relaxed));
    if ((r % 1000) >= p.permille.load(std::memory_order_relaxed)) return;
    d = uint32_t((r >> 20) % (mx + 1));
  }
  p.delayed.fetch_add(1, std::memory_order_relaxed);
  rawSleepUs(d);
}
#endif

// =================================================================================== sockio
#ifdef VF_SHIM_SOCKIO
struct SockPolicy
{
  // mode 0: off. mode 1: shorten a seeded subset of calls to a seeded count in [1,len].
  // mode 2: shorten exactly call number `targetCall` (counting from 0 over shortenable calls
  //         of kind `targetKind`: 1=send-like 2=recv-like) to `targetLen` bytes.
  std::atomic<int> mode{0};
  std::atomic<uint32_t> permille{500};
  std::atomic<uint64_t> seed{1};
  std::atomic<uint32_t> maxLen{0};          // if non-zero, cap every I/O at this many bytes
  std::atomic<int> targetKind{0};
  std::atomic<uint64_t> targetCall{0};
  std::atomic<uint32_t> targetLen{1};
  std::atomic<uint64_t> sendCalls{0}, recvCalls{0}, shortenedSends{0}, shortenedRecvs{0};
  std::atomic<uint64_t> eagainSends{0}, eagainRecvs{0};
  std::atomic<int> onlyFdMin{3};
};
inline SockPolicy &sockPolicy() { static SockPolicy p; return p; }
inline thread_local bool tlsSockExempt = false; // raw peers owned by the harness are not perturbed
inline bool isSocket(int fd)
{
  struct stat st;
  if (fd < sockPolicy().onlyFdMin.load(std::memory_order_relaxed)) return false;
  if (syscall(SYS_fstat, fd, &st) != 0) return false;
  return S_ISSOCK(st.st_mode);
}
inline size_t shorten(int kind, int fd, size_t len)
{
  auto &p = sockPolicy();
  int mode = p.mode.load(std::memory_order_relaxed);
  if (!mode || tlsSockExempt || len <= 1 || !isSocket(fd)) return len;
  uint64_t idx = (kind == 1 ? p.sendCalls : p.recvCalls).fetch_add(1, std::memory_order_relaxed);
  size_t n = len;
  uint32_t cap = p.maxLen.load(std::memory_order_relaxed);
  if (cap && n > cap) n = cap;
  if (mode == 1)
  {
    uint64_t r = mix(p.seed.load(std::memory_order_relaxed) ^ (idx * 0x9e3779b97f4a7c15ull) ^ uint64_t(kind));
    if ((r % 1000) < p.permille.load(std::memory_order_relaxed))
    {
      uint64_t k = (r >> 16);
      // bias towards tiny and near-full counts
      switch (k & 3) { case 0: n = 1 + (k >> 2) % (n < 8 ? n : 8); break;
                       case 1: n = n - (k >> 2) % (n < 8 ? n : 8); break;
                       default: n = 1 + (k >> 2) % n; }
      if (n < 1) n = 1;
    }
  }
  else if (mode == 2)
  {
    if (p.targetKind.load() == kind && p.targetCall.load() == idx)
    {
      uint32_t t = p.targetLen.load();
      if (t >= 1 && t < n) n = t;
    }
  }
  if (n < len) (kind == 1 ? p.shortenedSends : p.shortenedRecvs).fetch_add(1, std::memory_order_relaxed);
  return n;
}
#endif

// =================================================================================== fileio
#ifdef VF_SHIM_FILEIO
struct FileOp
{
  // kind: 'o' open(create/trunc) 'w' write 'r' rename 't' truncate 'u' unlink 'c' close 'm' mkdir 's' fsync
  char kind; std::string path; std::string path2; uint64_t off = 0; std::string data; int flags = 0;
  uint64_t tag = 0; // harness-provided API-call index in effect when the op was issued
};
struct FilePolicy
{
  std::mutex m;
  std::string prefix;            // only paths under this prefix are recorded
  bool recording = false;
  std::vector<FileOp> trace;
  std::map<int, std::string> fdPath;
  std::map<int, int> fdFlags;
  std::atomic<uint64_t> tag{0};
  // syscall-indexed callback for C20: invoked before the k-th intercepted call under prefix
  std::atomic<int64_t> fireAt{-1};
  std::atomic<int64_t> counter{0};
  void (*onFire)() = nullptr;
  bool counting = false;         // count path-based and fd-based calls under prefix
};
inline FilePolicy &filePolicy() { static FilePolicy p; return p; }
inline thread_local bool tlsFileExempt = false;
inline bool underPrefix(const char *path)
{
  auto &p = filePolicy();
  return path && !p.prefix.empty() && strncmp(path, p.prefix.c_str(), p.prefix.size()) == 0;
}
inline void countCall(bool relevant)
{
  auto &p = filePolicy();
  if (!relevant || !p.counting || tlsFileExempt) return;
  int64_t k = p.counter.fetch_add(1);
  if (k == p.fireAt.load() && p.onFire) { tlsFileExempt = true; p.onFire(); tlsFileExempt = false; }
}
#endif

// =================================================================================== resolve
#ifdef VF_SHIM_RESOLVE
struct ResolvePolicy
{
  std::mutex m;
  // host -> (delayMs, rc) ; rc 0 = pass to the real resolver (numeric hosts), non-zero = EAI_* error
  std::map<std::string, std::pair<int, int>> script;
  std::map<std::string, std::string> alias; // host -> numeric address to resolve instead
  std::atomic<uint64_t> calls{0}, scripted{0};
};
inline ResolvePolicy &resolvePolicy() { static ResolvePolicy p; return p; }
#endif

}} // namespace vf::shim

// ============================================================================ definitions
extern "C" {

#ifdef VF_SHIM_CLOCK
int clock_gettime(clockid_t id, struct timespec *ts)
{
  int r = (int)syscall(SYS_clock_gettime, id, ts);
  if (r != 0) return r;
  auto &p = vf::shim::clockPolicy();
  int64_t off = 0;
  if (id == CLOCK_REALTIME || id == CLOCK_REALTIME_COARSE) off = p.realOffsetNs.load(std::memory_order_relaxed);
  else if (id == CLOCK_MONOTONIC || id == CLOCK_MONOTONIC_COARSE) off = p.monoOffsetNs.load(std::memory_order_relaxed);
  if (off)
  {
    int64_t t = int64_t(ts->tv_sec) * 1000000000ll + ts->tv_nsec + off;
    ts->tv_sec = t / 1000000000ll; ts->tv_nsec = t % 1000000000ll;
  }
  p.reads.fetch_add(1, std::memory_order_relaxed);
  if (vf::shim::tlsDelayAfterClockReadUs)
  {
    p.delayedReads.fetch_add(1, std::memory_order_relaxed);
    vf::shim::rawSleepUs(vf::shim::tlsDelayAfterClockReadUs);
  }
  return 0;
}
int gettimeofday(struct timeval *tv, void *tz)
{
  (void)tz;
  struct timespec ts; clock_gettime(CLOCK_REALTIME, &ts);
  if (tv) { tv->tv_sec = ts.tv_sec; tv->tv_usec = ts.tv_nsec / 1000; }
  return 0;
}
time_t time(time_t *t)
{
  struct timespec ts; clock_gettime(CLOCK_REALTIME, &ts);
  if (t) *t = ts.tv_sec;
  return ts.tv_sec;
}
#endif

#if defined(VF_SHIM_CONDVAR) && !VF_TSAN
int pthread_cond_wait(pthread_cond_t *c, pthread_mutex_t *m)
{
  static auto fn = vf::shim::real<int (*)(pthread_cond_t *, pthread_mutex_t *)>("pthread_cond_wait", "GLIBC_2.3.2");
  vf::shim::prePark();
  return fn(c, m);
}
int pthread_cond_timedwait(pthread_cond_t *c, pthread_mutex_t *m, const struct timespec *abs)
{
  static auto fn = vf::shim::real<int (*)(pthread_cond_t *, pthread_mutex_t *, const struct timespec *)>("pthread_cond_timedwait", "GLIBC_2.3.2");
  vf::shim::prePark();
#ifdef VF_SHIM_CLOCK
  struct timespec a = *abs; // deadline is expressed on the shimmed realtime clock: translate back
  int64_t off = vf::shim::clockPolicy().realOffsetNs.load();
  if (off) { int64_t t = int64_t(a.tv_sec) * 1000000000ll + a.tv_nsec - off; a.tv_sec = t / 1000000000ll; a.tv_nsec = t % 1000000000ll; }
  return fn(c, m, &a);
#else
  return fn(c, m, abs);
#endif
}
int pthread_cond_clockwait(pthread_cond_t *c, pthread_mutex_t *m, clockid_t clk, const struct timespec *abs)
{
  static auto fn = vf::shim::real<int (*)(pthread_cond_t *, pthread_mutex_t *, clockid_t, const struct timespec *)>("pthread_cond_clockwait");
  vf::shim::prePark();
#ifdef VF_SHIM_CLOCK
  struct timespec a = *abs;
  int64_t off = (clk == CLOCK_MONOTONIC) ? vf::shim::clockPolicy().monoOffsetNs.load()
                                         : vf::shim::clockPolicy().realOffsetNs.load();
  if (off) { int64_t t = int64_t(a.tv_sec) * 1000000000ll + a.tv_nsec - off; a.tv_sec = t / 1000000000ll; a.tv_nsec = t % 1000000000ll; }
  return fn(c, m, clk, &a);
#else
  return fn(c, m, clk, abs);
#endif
}
#elif defined(VF_SHIM_CLOCK) && !VF_TSAN
// clock shim without the condvar shim: deadlines handed to the kernel must still be translated
int pthread_cond_timedwait(pthread_cond_t *c, pthread_mutex_t *m, const struct timespec *abs)
{
  static auto fn = vf::shim::real<int (*)(pthread_cond_t *, pthread_mutex_t *, const struct timespec *)>("pthread_cond_timedwait", "GLIBC_2.3.2");
  struct timespec a = *abs;
  int64_t off = vf::shim::clockPolicy().realOffsetNs.load();
  if (off) { int64_t t = int64_t(a.tv_sec) * 1000000000ll + a.tv_nsec - off; a.tv_sec = t / 1000000000ll; a.tv_nsec = t % 1000000000ll; }
  return fn(c, m, &a);
}
int pthread_cond_clockwait(pthread_cond_t *c, pthread_mutex_t *m, clockid_t clk, const struct timespec *abs)
{
  static auto fn = vf::shim::real<int (*)(pthread_cond_t *, pthread_mutex_t *, clockid_t, const struct timespec *)>("pthread_cond_clockwait");
  struct timespec a = *abs;
  int64_t off = (clk == CLOCK_MONOTONIC) ? vf::shim::clockPolicy().monoOffsetNs.load()
                                         : vf::shim::clockPolicy().realOffsetNs.load();
  if (off) { int64_t t = int64_t(a.tv_sec) * 1000000000ll + a.tv_nsec - off; a.tv_sec = t / 1000000000ll; a.tv_nsec = t % 1000000000ll; }
  return fn(c, m, clk, &a);
}
#endif

#ifdef VF_SHIM_SOCKIO
ssize_t send(int fd, const void *buf, size_t len, int flags)
{
  size_t n = vf::shim::shorten(1, fd, len);
  ssize_t r = syscall(SYS_sendto, fd, buf, n, flags, nullptr, 0);
  if (r < 0 && (errno == EAGAIN || errno == EWOULDBLOCK) && !vf::shim::tlsSockExempt)
    vf::shim::sockPolicy().eagainSends.fetch_add(1, std::memory_order_relaxed);
  return r;
}
ssize_t recv(int fd, void *buf, size_t len, int flags)
{
  size_t n = vf::shim::shorten(2, fd, len);
  ssize_t r = syscall(SYS_recvfrom, fd, buf, n, flags, nullptr, nullptr);
  if (r < 0 && (errno == EAGAIN || errno == EWOULDBLOCK) && !vf::shim::tlsSockExempt)
    vf::shim::sockPolicy().eagainRecvs.fetch_add(1, std::memory_order_relaxed);
  return r;
}
#ifndef VF_SHIM_FILEIO
// TLS socket BIOs use read()/write() on the socket fd
ssize_t write(int fd, const void *buf, size_t len)
{
  size_t n = len;
  if (vf::shim::sockPolicy().mode.load(std::memory_order_relaxed)) n = vf::shim::shorten(1, fd, len);
  return syscall(SYS_write, fd, buf, n);
}
ssize_t read(int fd, void *buf, size_t len)
{
  size_t n = len;
  if (vf::shim::sockPolicy().mode.load(std::memory_order_relaxed)) n = vf::shim::shorten(2, fd, len);
  return syscall(SYS_read, fd, buf, n);
}
#endif
#endif

#ifdef VF_SHIM_FILEIO
static void vf_record_open(int fd, const char *path, int flags)
{
  auto &p = vf::shim::filePolicy();
  std::lock_guard<std::mutex> g(p.m);
  p.fdPath[fd] = path; p.fdFlags[fd] = flags;
  if (p.recording && (flags & (O_CREAT | O_TRUNC | O_WRONLY | O_RDWR)))
  {
    vf::shim::FileOp op; op.kind = 'o'; op.path = path; op.flags = flags; op.tag = p.tag.load();
    p.trace.push_back(std::move(op));
  }
}
static int vf_open_common(int dirfd, const char *path, int flags, mode_t mode)
{
  bool rel = vf::shim::underPrefix(path) && !vf::shim::tlsFileExempt;
  vf::shim::countCall(rel);
  int fd = (int)syscall(SYS_openat, dirfd, path, flags, mode);
  if (fd >= 0 && rel) vf_record_open(fd, path, flags);
  return fd;
}
int open(const char *path, int flags, ...)
{
  mode_t mode = 0;
  if (flags & (O_CREAT | O_TMPFILE)) { va_list ap; va_start(ap, flags); mode = va_arg(ap, mode_t); va_end(ap); }
  return vf_open_common(AT_FDCWD, path, flags, mode);
}
int open64(const char *path, int flags, ...)
{
  mode_t mode = 0;
  if (flags & (O_CREAT | O_TMPFILE)) { va_list ap; va_start(ap, flags); mode = va_arg(ap, mode_t); va_end(ap); }
  return vf_open_common(AT_FDCWD, path, flags | O_LARGEFILE, mode);
}
int openat(int dirfd, const char *path, int flags, ...)
{
  mode_t mode = 0;
  if (flags & (O_CREAT | O_TMPFILE)) { va_list ap; va_start(ap, flags); mode = va_arg(ap, mode_t); va_end(ap); }
  return vf_open_common(dirfd, path, flags, mode);
}
static bool vf_fd_tracked(int fd, std::string &path, int &flags)
{
  auto &p = vf::shim::filePolicy();
  std::lock_guard<std::mutex> g(p.m);
  auto it = p.fdPath.find(fd);
  if (it == p.fdPath.end()) return false;
  path = it->second; flags = p.fdFlags[fd];
  return true;
}
static void vf_record_write(int fd, const std::string &path, int flags, const void *buf, size_t n)
{
  auto &p = vf::shim::filePolicy();
  if (!p.recording) return;
  vf::shim::FileOp op; op.kind = 'w'; op.path = path; op.tag = p.tag.load();
  if (flags & O_APPEND) { struct stat st; syscall(SYS_fstat, fd, &st); op.off = (uint64_t)st.st_size; }
  else op.off = (uint64_t)syscall(SYS_lseek, fd, 0, SEEK_CUR);
  op.data.assign((const char *)buf, n);
  std::lock_guard<std::mutex> g(p.m);
  p.trace.push_back(std::move(op));
}
ssize_t write(int fd, const void *buf, size_t len)
{
  std::string path; int flags = 0;
  bool tr = !vf::shim::tlsFileExempt && fd > 2 && vf_fd_tracked(fd, path, flags);
  vf::shim::countCall(tr);
  if (tr) vf_record_write(fd, path, flags, buf, len); // recorded before the call: bytes reach the OS in full or (crash) in part
#ifdef VF_SHIM_SOCKIO
  size_t n = len;
  if (!tr && vf::shim::sockPolicy().mode.load(std::memory_order_relaxed)) n = vf::shim::shorten(1, fd, len);
  return syscall(SYS_write, fd, buf, n);
#else
  return syscall(SYS_write, fd, buf, len);
#endif
}
ssize_t writev(int fd, const struct iovec *iov, int cnt)
{
  std::string path; int flags = 0;
  bool tr = !vf::shim::tlsFileExempt && fd > 2 && vf_fd_tracked(fd, path, flags);
  vf::shim::countCall(tr);
  if (tr)
  {
    std::string all;
    for (int i = 0; i < cnt; i++) all.append((const char *)iov[i].iov_base, iov[i].iov_len);
    vf_record_write(fd, path, flags, all.data(), all.size());
  }
  return syscall(SYS_writev, fd, iov, cnt);
}
ssize_t read(int fd, void *buf, size_t len)
{
  std::string path; int flags = 0;
  bool tr = !vf::shim::tlsFileExempt && fd > 2 && vf::shim::filePolicy().counting && vf_fd_tracked(fd, path, flags);
  vf::shim::countCall(tr);
#ifdef VF_SHIM_SOCKIO
  size_t n = len;
  if (!tr && vf::shim::sockPolicy().mode.load(std::memory_order_relaxed)) n = vf::shim::shorten(2, fd, len);
  return syscall(SYS_read, fd, buf, n);
#else
  return syscall(SYS_read, fd, buf, len);
#endif
}
int close(int fd)
{
  auto &p = vf::shim::filePolicy();
  bool tr = false;
  if (!vf::shim::tlsFileExempt && fd > 2)
  {
    std::lock_guard<std::mutex> g(p.m);
    auto it = p.fdPath.find(fd);
    if (it != p.fdPath.end())
    {
      tr = true;
      if (p.recording) { vf::shim::FileOp op; op.kind = 'c'; op.path = it->second; op.tag = p.tag.load(); p.trace.push_back(std::move(op)); }
      p.fdPath.erase(it); p.fdFlags.erase(fd);
    }
  }
  vf::shim::countCall(tr);
  return (int)syscall(SYS_close, fd);
}
int rename(const char *a, const char *b)
{
  bool rel = !vf::shim::tlsFileExempt && (vf::shim::underPrefix(a) || vf::shim::underPrefix(b));
  vf::shim::countCall(rel);
  auto &p = vf::shim::filePolicy();
  if (rel && p.recording)
  {
    vf::shim::FileOp op; op.kind = 'r'; op.path = a; op.path2 = b; op.tag = p.tag.load();
    std::lock_guard<std::mutex> g(p.m); p.trace.push_back(std::move(op));
  }
  return (int)syscall(SYS_renameat2, AT_FDCWD, a, AT_FDCWD, b, 0);
}
int unlink(const char *a)
{
  bool rel = !vf::shim::tlsFileExempt && vf::shim::underPrefix(a);
  vf::shim::countCall(rel);
  auto &p = vf::shim::filePolicy();
  if (rel && p.recording)
  {
    vf::shim::FileOp op; op.kind = 'u'; op.path = a; op.tag = p.tag.load();
    std::lock_guard<std::mutex> g(p.m); p.trace.push_back(std::move(op));
  }
  return (int)syscall(SYS_unlinkat, AT_FDCWD, a, 0);
}
int remove(const char *a)
{
  int r = unlink(a);
  if (r != 0 && errno == EISDIR) return (int)syscall(SYS_unlinkat, AT_FDCWD, a, AT_REMOVEDIR);
  return r;
}
int truncate(const char *a, off_t len)
{
  bool rel = !vf::shim::tlsFileExempt && vf::shim::underPrefix(a);
  vf::shim::countCall(rel);
  auto &p = vf::shim::filePolicy();
  if (rel && p.recording)
  {
    vf::shim::FileOp op; op.kind = 't'; op.path = a; op.off = (uint64_t)len; op.tag = p.tag.load();
    std::lock_guard<std::mutex> g(p.m); p.trace.push_back(std::move(op));
  }
  return (int)syscall(SYS_truncate, a, len);
}
int truncate64(const char *a, off64_t len) { return truncate(a, (off_t)len); }
int ftruncate(int fd, off_t len)
{
  std::string path; int flags = 0;
  bool tr = !vf::shim::tlsFileExempt && fd > 2 && vf_fd_tracked(fd, path, flags);
  vf::shim::countCall(tr);
  auto &p = vf::shim::filePolicy();
  if (tr && p.recording)
  {
    vf::shim::FileOp op; op.kind = 't'; op.path = path; op.off = (uint64_t)len; op.tag = p.tag.load();
    std::lock_guard<std::mutex> g(p.m); p.trace.push_back(std::move(op));
  }
  return (int)syscall(SYS_ftruncate, fd, len);
}
int ftruncate64(int fd, off64_t len) { return ftruncate(fd, (off_t)len); }
#endif

#ifdef VF_SHIM_RESOLVE
int getaddrinfo(const char *node, const char *service, const struct addrinfo *hints, struct addrinfo **res)
{
  static auto fn = vf::shim::real<int (*)(const char *, const char *, const struct addrinfo *, struct addrinfo **)>("getaddrinfo");
  auto &p = vf::shim::resolvePolicy();
  p.calls.fetch_add(1);
  std::string host = node ? node : "";
  int delay = 0, rc = 0; std::string alias;
  {
    std::lock_guard<std::mutex> g(p.m);
    auto it = p.script.find(host);
    if (it != p.script.end()) { delay = it->second.first; rc = it->second.second; p.scripted.fetch_add(1); }
    auto ia = p.alias.find(host);
    if (ia != p.alias.end()) alias = ia->second;
  }
  if (delay > 0) vf::shim::rawSleepUs(uint64_t(delay) * 1000);
  if (rc != 0) return rc;
  if (!alias.empty()) return fn(alias.c_str(), service, hints, res);
  // offline sandbox: never let a non-numeric name reach a real resolver (it would hang on DNS)
  struct addrinfo h2; memset(&h2, 0, sizeof h2);
  if (hints) h2 = *hints;
  if (host != "localhost" && !host.empty()) h2.ai_flags |= AI_NUMERICHOST;
  return fn(node, service, &h2, res);
}
#endif

} // extern "C"
