// /verif/harness/c01_codec.hpp — self-describing payloads and the independent stream parser for
// the C01 oracle. Shares no code with iora. Every byte of every payload is a function of
// (sender t, send number k, offset j), so the receiver parses the stream into (t,k) runs with no
// reference to the sender, and loss / duplication / interleaving are decided structurally.
//
// payload, len >= 12:  [0]=0xA5 [1]=t [2..5]=k LE [6..9]=len LE [10..11]=hchk(t,k,len) LE, then
//                      byte j (12 <= j < len) = fbyte(pkey(t,k), j)
// tiny payload, len 1..11: [0]=0xF0|len [1]=t [2..5]=k LE (as many as fit) then fbyte(...) for j>=6
//   (tiny payloads shorter than 6 bytes carry a partial identity; they are only used on sessions
//    with a single logical sender, where the position in the stream identifies them)
// reverse stream (peer -> iora): byte at offset o = rbyte(rkey(session), o)
#pragma once
#include <algorithm>
#include <cstdint>
#include <cstring>
#include <string>
#include <vector>

namespace c01 {

inline uint64_t mix64(uint64_t x)
{
  x += 0x9e3779b97f4a7c15ull; x = (x ^ (x >> 30)) * 0xbf58476d1ce4e5b9ull;
  x = (x ^ (x >> 27)) * 0x94d049bb133111ebull; return x ^ (x >> 31);
}
constexpr uint32_t HDR = 12;
constexpr uint32_t MAXLEN = 1u << 17;
inline uint64_t pkey(uint32_t t, uint32_t k) { return mix64((uint64_t(t) << 40) ^ (uint64_t(k) << 1) ^ 0xC01C01ull); }
inline uint8_t fbyte(uint64_t key, uint64_t j) { return uint8_t(mix64(key + (j >> 3)) >> ((j & 7) * 8)); }
inline uint16_t hchk(uint32_t t, uint32_t k, uint32_t len)
{
  return uint16_t(mix64(pkey(t, k) ^ (uint64_t(len) * 0x9E3779B1ull) ^ 0x5eedull));
}
inline uint64_t rkey(uint32_t sess) { return mix64(0x7e7e0000ull + sess); }

inline void fillRun(uint8_t *o, uint64_t key, uint64_t j, size_t n) // o[i] = fbyte(key, j+i)
{
  size_t i = 0;
  while (i < n)
  {
    uint64_t w = mix64(key + ((j + i) >> 3));
    do { o[i] = uint8_t(w >> (((j + i) & 7) * 8)); i++; } while (i < n && ((j + i) & 7));
  }
}
inline size_t verifyRun(const uint8_t *p, uint64_t key, uint64_t j, size_t n) // first mismatch or n
{
  size_t i = 0;
  while (i < n)
  {
    uint64_t w = mix64(key + ((j + i) >> 3));
    do { if (p[i] != uint8_t(w >> (((j + i) & 7) * 8))) return i; i++; } while (i < n && ((j + i) & 7));
  }
  return n;
}
inline void put32(uint8_t *p, uint32_t v) { p[0] = uint8_t(v); p[1] = uint8_t(v >> 8); p[2] = uint8_t(v >> 16); p[3] = uint8_t(v >> 24); }
inline uint32_t get32(const uint8_t *p) { return uint32_t(p[0]) | (uint32_t(p[1]) << 8) | (uint32_t(p[2]) << 16) | (uint32_t(p[3]) << 24); }

inline void genPayload(uint8_t *o, uint32_t t, uint32_t k, uint32_t len)
{
  uint64_t key = pkey(t, k);
  if (len >= HDR)
  {
    o[0] = 0xA5; o[1] = uint8_t(t); put32(o + 2, k); put32(o + 6, len);
    uint16_t c = hchk(t, k, len); o[10] = uint8_t(c); o[11] = uint8_t(c >> 8);
    fillRun(o + HDR, key, HDR, len - HDR);
    return;
  }
  o[0] = uint8_t(0xF0 | len);
  if (len > 1) o[1] = uint8_t(t);
  for (uint32_t j = 2; j < len && j < 6; j++) o[j] = uint8_t(k >> (8 * (j - 2)));
  if (len > 6) fillRun(o + 6, key, 6, len - 6);
}

struct Rec { uint32_t t, k, len; uint64_t off; uint8_t idBytes; }; // idBytes: 1 none, 2 t, 3..5 t+low k, 6 full
struct Anom { std::string kind, what; uint64_t off; uint32_t t, k, len, j; int64_t shift; };

inline std::string hexWindow(const uint8_t *p, size_t n)
{
  static const char *d = "0123456789abcdef";
  std::string o;
  for (size_t i = 0; i < n; i++) { o += d[p[i] >> 4]; o += d[p[i] & 15]; }
  return o;
}

struct StreamParser
{
  std::vector<Rec> recs;
  std::vector<Anom> anoms;
  bool failed = false;      // structure lost: nothing after the failure point is interpreted
  size_t pos = 0;
  bool inBody = false;
  struct Cur { uint32_t t = 0, k = 0, len = 0, j = 0; uint64_t off = 0; } cur, susp;
  bool hasSusp = false;
  uint32_t interruptors = 0;
  // set by the final feed
  bool hasPartial = false;  // stream ends inside a payload
  bool partialIdKnown = false;
  Cur partial;
  size_t partialHave = 0;

  static bool validHeaderAt(const uint8_t *p, size_t avail, Cur &out)
  {
    if (avail < HDR || p[0] != 0xA5) return false;
    uint32_t t = p[1], k = get32(p + 2), len = get32(p + 6);
    uint16_t c = uint16_t(p[10] | (p[11] << 8));
    if (len < HDR || len > MAXLEN || c != hchk(t, k, len)) return false;
    out.t = t; out.k = k; out.len = len; out.j = HDR; out.off = 0;
    return true;
  }
  void addAnom(const std::string &kind, const std::string &what, uint64_t off, const Cur &c, int64_t shift)
  {
    if (anoms.size() < 8) anoms.push_back(Anom{kind, what, off, c.t, c.k, c.len, c.j, shift});
  }
  // search window p[0..m) in the image of payload c; returns true and the offset with smallest |x - from|
  static bool findInPayload(const Cur &c, const uint8_t *p, size_t m, uint32_t from, uint32_t &xOut)
  {
    if (c.len < m || m == 0) return false;
    std::vector<uint8_t> E(c.len);
    genPayload(E.data(), c.t, c.k, c.len);
    bool found = false; uint64_t best = ~0ull;
    for (uint32_t x = 0; x + m <= c.len; x++)
    {
      if (x == from) continue;
      if (E[x] != p[0] || memcmp(E.data() + x, p, m) != 0) continue;
      uint64_t d = x > from ? x - from : from - x;
      if (d < best) { best = d; xOut = x; found = true; }
    }
    return found;
  }
  bool bodyAnomaly(const std::vector<uint8_t> &S, bool fin)
  {
    size_t avail = S.size() - pos;
    const uint8_t *p = S.data() + pos;
    if (avail < 32 && !fin) return false;
    Cur c;
    if (validHeaderAt(p, avail, c) && !(c.t == cur.t && c.k == cur.k))
    {
      if (!hasSusp) { susp = cur; hasSusp = true; inBody = false; interruptors = 0; return true; }
      addAnom("interleaved-payload", "a payload was interrupted while another interrupted payload was still open", pos, cur, 0);
      failed = true; return true;
    }
    size_t m = std::min<size_t>(16, avail);
    uint32_t x = 0;
    if (m >= 4 && findInPayload(cur, p, m, cur.j, x))
    {
      int64_t sh = int64_t(x) - int64_t(cur.j);
      addAnom(sh > 0 ? "lost-bytes" : "duplicate-bytes",
              sh > 0 ? "bytes inside a payload were skipped: stream continues " + std::to_string(sh) + " byte(s) further into the same payload"
                     : "bytes inside a payload were repeated: stream goes back " + std::to_string(-sh) + " byte(s) in the same payload",
              pos, cur, sh);
    }
    else
      addAnom("corrupt-bytes", "byte inside a payload is not the next byte of that payload (next bytes " + hexWindow(p, std::min<size_t>(avail, 16)) + ")", pos, cur, 0);
    failed = true;
    return true;
  }
  bool boundaryAnomaly(const std::vector<uint8_t> &S, bool fin)
  {
    size_t avail = S.size() - pos;
    const uint8_t *p = S.data() + pos;
    if (avail < 32 && !fin) return false;
    if (hasSusp)
    {
      size_t rem = susp.len - susp.j;
      size_t m = std::min<size_t>(std::min<size_t>(16, avail), rem);
      if (m >= std::min<size_t>(4, rem) && m > 0)
      {
        std::vector<uint8_t> e(m);
        if (susp.j >= HDR) fillRun(e.data(), pkey(susp.t, susp.k), susp.j, m);
        else { std::vector<uint8_t> E(susp.len); genPayload(E.data(), susp.t, susp.k, susp.len); memcpy(e.data(), E.data() + susp.j, m); }
        if (memcmp(e.data(), p, m) == 0)
        {
          addAnom("interleaved-payload", "payload interrupted at offset " + std::to_string(susp.j) + " by " + std::to_string(interruptors) +
                                           " other payload(s) and continued afterwards", pos, susp, 0);
          cur = susp; hasSusp = false; inBody = true;
          return true;
        }
      }
    }
    size_t m = std::min<size_t>(16, avail);
    if (m >= 4)
    {
      size_t n = recs.size();
      for (size_t r = n; r-- > 0 && n - r <= 8;)
      {
        if (recs[r].idBytes < 6) continue;
        Cur c; c.t = recs[r].t; c.k = recs[r].k; c.len = recs[r].len; c.j = 0;
        uint32_t x = 0;
        if (findInPayload(c, p, m, 0xFFFFFFFFu, x))
        {
          c.j = x;
          addAnom("duplicate-bytes", "bytes of an already delivered payload are repeated at a payload boundary (from its offset " + std::to_string(x) + ")", pos, c, -int64_t(c.len - x));
          failed = true; return true;
        }
      }
    }
    Cur none;
    addAnom("corrupt-bytes", "unparseable bytes where a payload must start (next bytes " + hexWindow(p, std::min<size_t>(avail, 16)) + ")", pos, none, 0);
    failed = true;
    return true;
  }
  void emit()
  {
    recs.push_back(Rec{cur.t, cur.k, cur.len, cur.off, 6});
    inBody = false;
    if (hasSusp) interruptors++;
  }
  void feed(const std::vector<uint8_t> &S, bool fin)
  {
    while (!failed && pos < S.size())
    {
      size_t avail = S.size() - pos;
      const uint8_t *p = S.data() + pos;
      if (!inBody)
      {
        uint8_t b = p[0];
        if (b == 0xA5)
        {
          if (avail < HDR)
          {
            if (fin) { hasPartial = true; partialIdKnown = false; partial = Cur(); partial.off = pos; partialHave = avail; pos = S.size(); }
            break;
          }
          Cur c;
          if (!validHeaderAt(p, avail, c)) { if (!boundaryAnomaly(S, fin)) break; continue; }
          c.off = pos; cur = c; pos += HDR; inBody = true;
          if (cur.j == cur.len) emit();
          continue;
        }
        if (b >= 0xF1 && b <= 0xFB)
        {
          uint32_t len = b & 15;
          if (avail < len)
          {
            if (fin) { hasPartial = true; partialIdKnown = false; partial = Cur(); partial.off = pos; partial.len = len; partialHave = avail; pos = S.size(); }
            break;
          }
          uint32_t t = len > 1 ? p[1] : 0, k = 0;
          for (uint32_t j = 2; j < len && j < 6; j++) k |= uint32_t(p[j]) << (8 * (j - 2));
          if (len > 6 && verifyRun(p + 6, pkey(t, k), 6, len - 6) != len - 6) { if (!boundaryAnomaly(S, fin)) break; continue; }
          recs.push_back(Rec{t, k, len, pos, uint8_t(std::min<uint32_t>(len, 6))});
          if (hasSusp) interruptors++;
          pos += len;
          continue;
        }
        if (!boundaryAnomaly(S, fin)) break;
        continue;
      }
      size_t n = std::min<size_t>(avail, cur.len - cur.j);
      size_t m = verifyRun(p, pkey(cur.t, cur.k), cur.j, n);
      pos += m; cur.j += uint32_t(m);
      if (m < n) { if (!bodyAnomaly(S, fin)) break; continue; }
      if (cur.j == cur.len) emit();
    }
    if (fin && !failed)
    {
      if (inBody) { hasPartial = true; partialIdKnown = true; partial = cur; partialHave = cur.j; }
      if (hasSusp)
      {
        addAnom("lost-bytes", "payload cut at offset " + std::to_string(susp.j) + " and followed by other payloads; its tail never arrived", susp.off + susp.j, susp, int64_t(susp.len - susp.j));
        hasSusp = false;
      }
    }
  }
};

// classification of a mismatch in a position-encoded stream (reverse direction and cut sweeps):
// window w[0..n) was found where offset `at` was expected
inline std::string classifyShift(uint64_t key, uint64_t at, const uint8_t *w, size_t n, int64_t &shift)
{
  shift = 0;
  size_t m = std::min<size_t>(16, n);
  if (m >= 4)
  {
    std::vector<uint8_t> e(m);
    for (int64_t d = 1; d <= 200000; d++)
    {
      fillRun(e.data(), key, at + uint64_t(d), m);
      if (memcmp(e.data(), w, m) == 0) { shift = d; return "lost-bytes"; }
      if (uint64_t(d) <= at)
      {
        fillRun(e.data(), key, at - uint64_t(d), m);
        if (memcmp(e.data(), w, m) == 0) { shift = -d; return "duplicate-bytes"; }
      }
    }
  }
  return "corrupt-bytes";
}

} // namespace c01
