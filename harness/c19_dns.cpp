// C19 harness: DNS message decode / query construction / cache TTL.
//
// The driver only *drives* iora and reports what it observed:
//   --mode decode  reads a batch of byte strings written by lib/c19_dnsgen.py, hands each one to
//                  DnsMessage::parse in its own exact-size heap buffer (so a one-byte over-read is
//                  an ASan report) and prints one JSON line per input: the canonical rendering of
//                  the DnsResult, or the exception type. Each batch runs in forked children; a
//                  child that dies (sanitizer report, signal) or hangs is reported as a record for
//                  the input it was working on and the batch resumes after it.
//   --mode query   DnsMessage::buildQuery for question lists from the generator; prints the bytes
//                  and iora's own decoding of them.
//   --mode cache   seeded histories of put / putNegative / get / remove / clear against DnsCache
//                  with the steady clock under harness control (frozen: exact instants; running:
//                  offset clock, interval judgement), checked against a reference model
//                  key(lower(name),type,class) -> (token, insertion instant, TTL).
#define VF_SHIM_CLOCK
#include "shim/shims.hpp"
#include "vf.hpp"
#include "c19_clock.hpp"

#include <iora/network/dns/dns_cache.hpp>
#include <iora/network/dns/dns_message.hpp>

#include <signal.h>
#include <sys/mman.h>
#include <sys/wait.h>
#include <typeinfo>

using namespace iora::network::dns;

// ------------------------------------------------------------------------------- rendering
static void jName(std::string &o, const std::string &n) { o += '"'; o += vf::hex(n); o += '"'; }
static void jNum(std::string &o, uint64_t v) { o += std::to_string(v); }

static void renderRR(std::string &o, const DnsResourceRecord &r)
{
  o += '['; jName(o, r.name); o += ','; jNum(o, uint16_t(r.type)); o += ','; jNum(o, uint16_t(r.cls));
  o += ','; jNum(o, r.ttl); o += ','; jNum(o, r.rdlength); o += ",\""; o += vf::hex(r.rdata.data(), r.rdata.size()); o += "\"]";
}
template <class V, class F> static void renderList(std::string &o, const char *key, const V &v, F f)
{
  o += ",\""; o += key; o += "\":[";
  bool first = true;
  for (auto &x : v) { if (!first) o += ','; first = false; f(o, x); }
  o += ']';
}
static std::string render(const DnsResult &r)
{
  std::string o;
  o.reserve(512);
  auto &h = r.header;
  o += "{\"h\":[";
  jNum(o, h.id); o += ','; jNum(o, h.qr); o += ','; jNum(o, uint8_t(h.opcode)); o += ','; jNum(o, h.aa); o += ',';
  jNum(o, h.tc); o += ','; jNum(o, h.rd); o += ','; jNum(o, h.ra); o += ','; jNum(o, h.z); o += ',';
  jNum(o, uint8_t(h.rcode)); o += ','; jNum(o, h.qdcount); o += ','; jNum(o, h.ancount); o += ',';
  jNum(o, h.nscount); o += ','; jNum(o, h.arcount); o += ']';
  renderList(o, "q", r.questions, [](std::string &o, const DnsQuestion &q) {
    o += '['; jName(o, q.qname); o += ','; jNum(o, uint16_t(q.qtype)); o += ','; jNum(o, uint16_t(q.qclass)); o += ']'; });
  renderList(o, "an", r.answers, renderRR);
  renderList(o, "ns", r.authority, renderRR);
  renderList(o, "ar", r.additional, renderRR);
  renderList(o, "A", r.a_records, [](std::string &o, const ARecord &x) {
    o += '['; jName(o, x.name); o += ','; jNum(o, x.ttl); o += ','; o += vf::jstr(x.address); o += ']'; });
  renderList(o, "AAAA", r.aaaa_records, [](std::string &o, const AAAARecord &x) {
    o += '['; jName(o, x.name); o += ','; jNum(o, x.ttl); o += ','; o += vf::jstr(x.address); o += ']'; });
  renderList(o, "SRV", r.srv_records, [](std::string &o, const SrvRecord &x) {
    o += '['; jName(o, x.name); o += ','; jNum(o, x.ttl); o += ','; jNum(o, x.priority); o += ','; jNum(o, x.weight);
    o += ','; jNum(o, x.port); o += ','; jName(o, x.target); o += ']'; });
  renderList(o, "NAPTR", r.naptr_records, [](std::string &o, const NaptrRecord &x) {
    o += '['; jName(o, x.name); o += ','; jNum(o, x.ttl); o += ','; jNum(o, x.order); o += ','; jNum(o, x.preference);
    o += ','; jName(o, x.flags); o += ','; jName(o, x.service); o += ','; jName(o, x.regexp); o += ','; jName(o, x.replacement); o += ']'; });
  renderList(o, "CNAME", r.cname_records, [](std::string &o, const CnameRecord &x) {
    o += '['; jName(o, x.name); o += ','; jNum(o, x.ttl); o += ','; jName(o, x.cname); o += ']'; });
  renderList(o, "MX", r.mx_records, [](std::string &o, const MxRecord &x) {
    o += '['; jName(o, x.name); o += ','; jNum(o, x.ttl); o += ','; jNum(o, x.preference); o += ','; jName(o, x.exchange); o += ']'; });
  renderList(o, "TXT", r.txt_records, [](std::string &o, const TxtRecord &x) {
    o += '['; jName(o, x.name); o += ','; jNum(o, x.ttl); o += ",[";
    bool f = true;
    for (auto &t : x.text) { if (!f) o += ','; f = false; jName(o, t); }
    o += "]]"; });
  renderList(o, "PTR", r.ptr_records, [](std::string &o, const PtrRecord &x) {
    o += '['; jName(o, x.name); o += ','; jNum(o, x.ttl); o += ','; jName(o, x.ptrdname); o += ']'; });
  renderList(o, "SOA", r.soa_records, [](std::string &o, const SoaRecord &x) {
    o += '['; jName(o, x.name); o += ','; jNum(o, x.ttl); o += ','; jName(o, x.mname); o += ','; jName(o, x.rname); o += ',';
    jNum(o, x.serial); o += ','; jNum(o, x.refresh); o += ','; jNum(o, x.retry); o += ','; jNum(o, x.expire); o += ','; jNum(o, x.minimum); o += ']'; });
  o += '}';
  return o;
}
static std::string renderBrief(const DnsResult &r)
{
  char b[256];
  snprintf(b, sizeof b, "[%zu,%zu,%zu,%zu,%zu,%zu,%zu,%zu,%zu,%zu,%zu,%zu,%zu]", r.questions.size(), r.answers.size(),
           r.authority.size(), r.additional.size(), r.a_records.size(), r.aaaa_records.size(), r.srv_records.size(),
           r.naptr_records.size(), r.cname_records.size(), r.mx_records.size(), r.txt_records.size(),
           r.ptr_records.size(), r.soa_records.size());
  return b;
}

static uint64_t cpuNs()
{
  struct timespec ts;
  syscall(SYS_clock_gettime, CLOCK_THREAD_CPUTIME_ID, &ts);
  return uint64_t(ts.tv_sec) * 1000000000ull + uint64_t(ts.tv_nsec);
}

// one parse in an exact-size heap buffer -> JSON fragment (without braces)
static std::string parseOne(const uint8_t *src, size_t len, bool brief)
{
  uint8_t *buf = (uint8_t *)malloc(len ? len : 1); // exact size: any over-read hits the ASan redzone
  if (len) memcpy(buf, src, len);
  std::string o;
  uint64_t t0 = cpuNs();
  try
  {
    DnsResult r = DnsMessage::parse(buf, len);
    uint64_t dt = cpuNs() - t0;
    o = "\"ok\":1,\"ns\":" + std::to_string(dt) + (brief ? ",\"c\":" + renderBrief(r) : ",\"r\":" + render(r));
  }
  catch (const DnsParseException &e)
  {
    uint64_t dt = cpuNs() - t0;
    o = "\"ex\":\"DnsParseException\",\"ns\":" + std::to_string(dt) + ",\"w\":" + vf::jstr(std::string(e.what()).substr(0, 160));
  }
  catch (const std::exception &e)
  {
    uint64_t dt = cpuNs() - t0;
    o = "\"ex\":" + vf::jstr(typeid(e).name()) + ",\"ns\":" + std::to_string(dt) + ",\"w\":" + vf::jstr(std::string(e.what()).substr(0, 160));
  }
  catch (...)
  {
    o = "\"ex\":\"non-std\",\"ns\":0,\"w\":\"\"";
  }
  free(buf);
  return o;
}

// ------------------------------------------------------------------------------- decode mode
static uint64_t childCpuMs(pid_t pid)
{
  char path[64]; snprintf(path, sizeof path, "/proc/%d/stat", int(pid));
  std::string s = vf::readFile(path);
  size_t rp = s.rfind(')');
  if (rp == std::string::npos) return 0;
  unsigned long ut = 0, st = 0; int field = 2; // the field after ") " is field 3 (state)
  const char *p = s.c_str() + rp + 1;
  while (*p)
  {
    while (*p == ' ') p++;
    field++;
    if (field == 14) { ut = strtoul(p, nullptr, 10); }
    if (field == 15) { st = strtoul(p, nullptr, 10); break; }
    while (*p && *p != ' ') p++;
  }
  static long hz = sysconf(_SC_CLK_TCK);
  return uint64_t(ut + st) * 1000ull / uint64_t(hz > 0 ? hz : 100);
}
struct Entry { const uint8_t *p; uint32_t len; uint8_t kind; };
struct Shared { std::atomic<uint64_t> i, k, alive; };

static int modeDecode(const vf::Args &a)
{
  std::string in = vf::readFile(a.s("in"));
  if (in.size() < 8 || memcmp(in.data(), "C19B", 4) != 0) { fprintf(stderr, "bad batch file\n"); return 3; }
  uint32_t count; memcpy(&count, in.data() + 4, 4);
  std::vector<Entry> es; es.reserve(count);
  size_t off = 8;
  for (uint32_t i = 0; i < count; i++)
  {
    if (off + 5 > in.size()) { fprintf(stderr, "batch truncated\n"); return 3; }
    Entry e; memcpy(&e.len, in.data() + off, 4); e.kind = uint8_t(in[off + 4]); e.p = (const uint8_t *)in.data() + off + 5;
    off += 5 + e.len;
    if (off > in.size()) { fprintf(stderr, "batch truncated\n"); return 3; }
    es.push_back(e);
  }
  FILE *f = vf::out().f;
  std::string errPath = a.s("out", "/dev/null") + ".err";
  uint64_t hangCpuMs = a.u("hangcpums", 20000), stallMs = a.u("stallms", 300000), maxHangs = a.u("maxhangs", 2), hangs = 0;
  uint64_t maxCrashes = a.u("maxcrashes", 5000);
  Shared *sh = (Shared *)mmap(nullptr, sizeof(Shared), PROT_READ | PROT_WRITE, MAP_SHARED | MAP_ANONYMOUS, -1, 0);
  new (sh) Shared();
  uint64_t si = a.u("from", 0), sk = 0, crashes = 0;
  uint64_t end = std::min<uint64_t>(es.size(), si + a.u("count", es.size()));
  while (si < end)
  {
    fflush(f);
    sh->i.store(si); sh->k.store(sk); sh->alive.store(0);
    pid_t pid = fork();
    if (pid < 0) { perror("fork"); return 3; }
    if (pid == 0)
    {
      int efd = (int)syscall(SYS_openat, AT_FDCWD, errPath.c_str(), O_WRONLY | O_CREAT | O_TRUNC, 0600);
      if (efd >= 0) { dup2(efd, 2); syscall(SYS_close, efd); }
      for (uint64_t i = si; i < end; i++)
      {
        const Entry &e = es[i];
        bool brief = e.kind & 2;
        if (e.kind & 1)
        {
          for (uint64_t k = (i == si ? sk : 0); k < e.len; k++)
          {
            sh->i.store(i); sh->k.store(k); sh->alive.fetch_add(1);
            std::string r = parseOne(e.p, k, true);
            fprintf(f, "{\"i\":%" PRIu64 ",\"k\":%" PRIu64 ",%s}\n", i, k, r.c_str());
            fflush(f);
          }
        }
        else
        {
          sh->i.store(i); sh->k.store(0); sh->alive.fetch_add(1);
          std::string r = parseOne(e.p, e.len, brief);
          fprintf(f, "{\"i\":%" PRIu64 ",%s}\n", i, r.c_str());
          fflush(f);
        }
      }
      fflush(f);
      _exit(0);
    }
    // parent: wait with a progress watchdog. A child that burns more than hangCpuMs of CPU on ONE input is
    // spinning (logical condition, independent of machine load); a child that makes no progress for
    // stallMs of wall time without burning CPU is reported as inconclusive.
    int status = 0;
    uint64_t lastAlive = 0, lastChange = vf::nowNs(), cpuBase = 0;
    bool hung = false, stalled = false, haveBase = false;
    for (;;)
    {
      pid_t w = waitpid(pid, &status, WNOHANG);
      if (w == pid) break;
      uint64_t al = sh->alive.load(), t = vf::nowNs();
      if (al != lastAlive) { lastAlive = al; lastChange = t; haveBase = false; }
      else if (t - lastChange > 200000000ull)
      {
        uint64_t cpu = childCpuMs(pid);
        if (!haveBase) { cpuBase = cpu; haveBase = true; }
        else if (cpu - cpuBase > hangCpuMs) { kill(pid, SIGKILL); waitpid(pid, &status, 0); hung = true; break; }
        if (t - lastChange > stallMs * 1000000ull) { kill(pid, SIGKILL); waitpid(pid, &status, 0); hung = true; stalled = true; break; }
        vf::sleepMs(20);
      }
      vf::sleepMs(1);
    }
    if (!hung && WIFEXITED(status) && WEXITSTATUS(status) == 0) break; // batch complete
    uint64_t ci = sh->i.load(), ck = sh->k.load();
    std::string err = vf::readFile(errPath);
    if (err.size() > 12000) err = err.substr(0, 12000);
    char st[64];
    if (stalled) { fprintf(f, "{\"t\":\"inconclusive\",\"what\":\"decoder child made no progress for %" PRIu64 " ms of wall time on input %" PRIu64 " without using CPU\"}\n", stallMs, sh->i.load()); }
    if (hung) snprintf(st, sizeof st, "hang");
    else if (WIFSIGNALED(status)) snprintf(st, sizeof st, "signal %d", WTERMSIG(status));
    else snprintf(st, sizeof st, "exit %d", WEXITSTATUS(status));
    if (!stalled) fprintf(f, "{\"t\":\"%s\",\"i\":%" PRIu64 ",\"k\":%" PRIu64 ",\"sweep\":%d,\"status\":\"%s\",\"stderr\":%s}\n",
            hung ? "hang" : "crash", ci, ck, (es[ci].kind & 1) ? 1 : 0, st, vf::jstr(err).c_str());
    fflush(f);
    if (hung && ++hangs >= maxHangs) { fprintf(f, "{\"t\":\"inconclusive\",\"what\":\"batch abandoned after %" PRIu64 " spinning/stalled children\"}\n", hangs); break; }
    if (++crashes > maxCrashes) { fprintf(f, "{\"t\":\"inconclusive\",\"what\":\"more than %" PRIu64 " dead children in one batch\"}\n", maxCrashes); break; }
    if (es[ci].kind & 1) { si = ci; sk = ck + 1; if (sk >= es[ci].len) { si = ci + 1; sk = 0; } }
    else { si = ci + 1; sk = 0; }
  }
  unlink(errPath.c_str());
  fprintf(f, "{\"t\":\"done\"}\n");
  fflush(f);
  return 0;
}

// ------------------------------------------------------------------------------- query mode
// input lines:  Q <id> <rd:0|1|2> <n>      (rd 2 = use the overload without the recursion flag)
//               <namehex|-> <type> <class>   (n times; "-" = empty name)
static int modeQuery(const vf::Args &a)
{
  FILE *in = fopen(a.s("in").c_str(), "r");
  if (!in) { perror("open in"); return 3; }
  FILE *f = vf::out().f;
  char line[140000];
  uint64_t idx = 0;
  while (fgets(line, sizeof line, in))
  {
    unsigned id, rd, n;
    if (sscanf(line, "Q %u %u %u", &id, &rd, &n) != 3) continue;
    std::vector<DnsQuestion> qs;
    for (unsigned i = 0; i < n; i++)
    {
      if (!fgets(line, sizeof line, in)) break;
      char *sp = strchr(line, ' ');
      if (!sp) continue;
      *sp = 0;
      unsigned ty, cl;
      sscanf(sp + 1, "%u %u", &ty, &cl);
      std::string name = strcmp(line, "-") == 0 ? std::string() : vf::unhex(line);
      qs.emplace_back(name, DnsType(ty), DnsClass(cl));
    }
    std::string o = "{\"i\":" + std::to_string(idx++);
    try
    {
      std::vector<uint8_t> m;
      if (rd == 2 && qs.size() == 1) m = DnsMessage::buildQuery(qs[0], uint16_t(id));
      else if (rd == 2) m = DnsMessage::buildQuery(qs, uint16_t(id));
      else m = DnsMessage::buildQuery(qs, rd != 0, uint16_t(id));
      o += ",\"hex\":\"" + vf::hex(m.data(), m.size()) + "\",\"dec\":{" + parseOne(m.data(), m.size(), false) + "}";
    }
    catch (const DnsParseException &e) { o += ",\"ex\":\"DnsParseException\",\"w\":" + vf::jstr(std::string(e.what()).substr(0, 120)); }
    catch (const std::exception &e) { o += ",\"ex\":" + vf::jstr(typeid(e).name()) + ",\"w\":" + vf::jstr(std::string(e.what()).substr(0, 120)); }
    o += "}\n";
    fputs(o.c_str(), f);
  }
  fclose(in);
  fprintf(f, "{\"t\":\"done\"}\n");
  fflush(f);
  return 0;
}

// ------------------------------------------------------------------------------- cache mode
struct MKey
{
  std::string name; uint16_t type, cls;
  bool operator<(const MKey &o) const { return std::tie(name, type, cls) < std::tie(o.name, o.type, o.cls); }
  bool operator==(const MKey &o) const { return name == o.name && type == o.type && cls == o.cls; }
};
struct MEntry
{
  uint32_t token = 0; bool neg = false; int64_t insLo = 0, insHi = 0; uint64_t ttl = 0; bool bound = true; // bound: a record/negative TTL exists
  std::string why; // where the TTL came from
};
struct TokInfo { MKey key; bool neg; uint64_t ttl; bool bound; };

static std::string asciiLower(std::string s) { for (auto &c : s) if (c >= 'A' && c <= 'Z') c = char(c - 'A' + 'a'); return s; }
static std::string randCase(vf::Rng &r, std::string s)
{
  for (auto &c : s) if (((c >= 'a' && c <= 'z') || (c >= 'A' && c <= 'Z')) && r.chance(0.5)) c = char(c ^ 0x20);
  return s;
}

static const uint32_t kTtls[] = {0, 1, 1, 2, 3, 5, 5, 30, 60, 60, 299, 300, 301, 3600, 3600, 86400};
static const uint32_t kBigTtls[] = {0x7fffffffu, 0x80000000u, 0xffffffffu};

struct Hist
{
  vf::Rng rng;
  bool frozen;
  std::map<MKey, MEntry> model;
  std::vector<TokInfo> toks; // index = token
  std::vector<std::string> log;
  std::set<std::string> marks;
  bool bigJumpDone = false, hasBig = false;
  int64_t defaultTtl = 300;
  Hist(uint64_t seed, uint64_t idx) : rng(seed, 0xC19CAC4Eull + idx) {}

  uint32_t pickTtl() { if (!bigJumpDone && rng.chance(0.04)) { hasBig = true; return kBigTtls[rng.below(3)]; } return kTtls[rng.below(sizeof kTtls / sizeof *kTtls)]; }
};

static void mark(Hist &h, const char *what) { h.marks.insert(what); vf::out().obs(std::string("cache_") + what); }

static DnsResourceRecord mkRR(const std::string &n, DnsType t, uint32_t ttl) { DnsResourceRecord r(n, t, DnsClass::IN, ttl); return r; }

// build a result carrying `token`; returns the minimum TTL over every record placed (or -1 if none)
static int64_t fillResult(Hist &h, DnsResult &res, uint32_t token, const std::string &qn, int maxLists, std::string &why)
{
  res.header.id = uint16_t(token);
  res.header.qr = true;
  res.questions.emplace_back("tok-" + std::to_string(token), DnsType::A, DnsClass::IN);
  int64_t mn = -1;
  auto note = [&](uint32_t ttl, const char *where) { if (mn < 0 || int64_t(ttl) < mn) { mn = ttl; why = where; } };
  int lists = h.rng.chance(0.1) ? 0 : 1 + int(h.rng.below(maxLists));
  for (int l = 0; l < lists; l++)
  {
    int which = int(h.rng.below(12));
    int n = 1 + int(h.rng.below(3));
    for (int j = 0; j < n; j++)
    {
      uint32_t ttl = h.pickTtl();
      switch (which)
      {
      case 0: res.answers.push_back(mkRR(qn, DnsType::A, ttl)); note(ttl, "answers"); break;
      case 1: res.authority.push_back(mkRR(qn, DnsType::NS, ttl)); note(ttl, "authority"); break;
      case 2: res.additional.push_back(mkRR(qn, DnsType::A, ttl)); note(ttl, "additional"); break;
      case 3: res.a_records.emplace_back(qn, "192.0.2.1", ttl); note(ttl, "a_records"); break;
      case 4: res.aaaa_records.emplace_back(qn, "2001:db8::1", ttl); note(ttl, "aaaa_records"); break;
      case 5: res.srv_records.emplace_back(qn, 1, 2, 5060, "t.example", ttl); note(ttl, "srv_records"); break;
      case 6: res.naptr_records.emplace_back(qn, 1, 2, "S", "SIP+D2U", "", "r.example", ttl); note(ttl, "naptr_records"); break;
      case 7: res.cname_records.emplace_back(qn, "c.example", ttl); note(ttl, "cname_records"); break;
      case 8: res.mx_records.emplace_back(qn, 10, "m.example", ttl); note(ttl, "mx_records"); break;
      case 9: res.txt_records.emplace_back(qn, std::vector<std::string>{"x"}, ttl); note(ttl, "txt_records"); break;
      case 10: res.ptr_records.emplace_back(qn, "p.example", ttl); note(ttl, "ptr_records"); break;
      default: res.answers.push_back(mkRR(qn, DnsType::CNAME, ttl)); note(ttl, "answers"); break;
      }
    }
  }
  return mn;
}

static std::string keyStr(const MKey &k) { return vf::jstr(k.name) + "," + std::to_string(k.type) + "," + std::to_string(k.cls); }

static void runHistory(uint64_t seed, uint64_t idx, int nops)
{
  Hist h(seed, idx);
  h.frozen = !h.rng.chance(0.25);
  c19clk::reset();
  int64_t base = c19clk::rawMonoNs();
  if (h.frozen) c19clk::freezeAt(base);
  mark(h, h.frozen ? "mode_frozen" : "mode_running");
  static const int64_t defaults[] = {1, 2, 5, 300, 300};
  h.defaultTtl = defaults[h.rng.below(5)];
  std::unique_ptr<DnsCache> cache(new DnsCache(std::chrono::seconds(h.defaultTtl)));
  h.toks.push_back(TokInfo()); // token 0 unused

  static const char *names[] = {"a.example", "b.example", "a.example.", "aa.example", "a.exampl", "sip.example.org", "_sip._udp.example.org", "xn--bcher-kva.example", ""};
  static const uint16_t types[] = {1, 28, 33, 35, 255, 65280};
  static const uint16_t classes[] = {1, 3, 255, 1, 1};
  auto pickQ = [&](MKey &mk) {
    std::string n = names[h.rng.below(h.rng.chance(0.6) ? 3 : 9)];
    uint16_t t = types[h.rng.below(h.rng.chance(0.6) ? 2 : 6)], c = classes[h.rng.below(5)];
    std::string spelled = randCase(h.rng, n);
    if (h.rng.chance(0.05)) { spelled = n + "\xC3\x89"; } // non-ASCII byte: compared bytewise
    mk.name = asciiLower(spelled); mk.type = t; mk.cls = c;
    return DnsQuestion(spelled, DnsType(t), DnsClass(c));
  };
  auto now = [&]() { return c19clk::nowNs(); };
  auto logOp = [&](const std::string &s) { if (h.log.size() < 400) h.log.push_back(s); };
  auto fail = [&](const std::string &key, const std::string &what, const std::string &extra) {
    std::string d = "{\"seed\":" + std::to_string(seed) + ",\"history\":" + std::to_string(idx) + ",\"clock\":\"" +
                    (h.frozen ? "frozen" : "running") + "\"," + extra + ",\"ops\":[";
    size_t from = h.log.size() > 40 ? h.log.size() - 40 : 0;
    for (size_t i = from; i < h.log.size(); i++) { if (i > from) d += ','; d += vf::jstr(h.log[i]); }
    d += "]}";
    vf::out().viol(key, what, d);
  };

  auto doGet = [&](const DnsQuestion &q, const MKey &mk, const char *probe) {
    DnsResult out;
    int64_t c = now();
    bool hit = cache->get(q, out);
    int64_t d = now();
    vf::out().obs("cache_gets");
    auto it = h.model.find(mk);
    logOp(std::string("get ") + keyStr(mk) + " @" + std::to_string(c - base) + " -> " + (hit ? "hit tok " + std::to_string(out.header.id) : "miss") + " [" + probe + "]");
    if (hit)
    {
      uint32_t tok = out.header.id;
      bool tokOk = tok > 0 && tok < h.toks.size() && !out.questions.empty() && out.questions[0].qname == "tok-" + std::to_string(tok);
      if (!tokOk) { fail("C19:cache:hit:unknown-value", "get returned a value no put stored", "\"token\":" + std::to_string(tok)); return; }
      const TokInfo &ti = h.toks[tok];
      if (!(ti.key == mk))
      {
        const char *diff = ti.key.name != mk.name ? "name" : ti.key.type != mk.type ? "type" : "class";
        fail(std::string("C19:cache:wrong-question:") + diff + "-differs:served", "answer stored for another question was served",
             "\"asked\":[" + keyStr(mk) + "],\"stored_for\":[" + keyStr(ti.key) + "]");
        return;
      }
      if (it == h.model.end()) { fail("C19:cache:removed-entry:served", "entry served after remove()/clear()", "\"asked\":[" + keyStr(mk) + "]"); return; }
      MEntry &e = it->second;
      if (e.token != tok) { fail("C19:cache:overwritten-value:served", "older value served after it was replaced", "\"asked\":[" + keyStr(mk) + "]"); return; }
      if (e.bound)
      {
        // definitely at or after expiry: the earliest the get can have read the clock (c) is not
        // before the latest possible insertion instant + TTL
        __int128 exp = (__int128)e.insHi + (__int128)e.ttl * 1000000000;
        if ((__int128)c >= exp)
        {
          std::string cls = e.ttl == 0 ? (e.neg ? "C19:cache:negative-ttl0:served" : "C19:cache:ttl0:served")
                                       : (e.neg ? "C19:cache:negative:served-after-ttl" : "C19:cache:positive:served-after-ttl");
          long long over = (long long)((__int128)c - exp);
          fail(cls, std::string(e.neg ? "negative" : "positive") + " entry served " + (over == 0 ? "exactly at" : "after") +
                      " insertion + TTL (ttl " + std::to_string(e.ttl) + " s from " + e.why + ")",
               "\"asked\":[" + keyStr(mk) + "],\"ttl\":" + std::to_string(e.ttl) + ",\"ns_past_expiry\":" + std::to_string(over) + ",\"probe\":\"" + probe + "\"");
          mark(h, "viol_served_after");
          return;
        }
        __int128 expLo = (__int128)e.insLo + (__int128)e.ttl * 1000000000;
        if ((__int128)d < expLo) { mark(h, e.neg ? "hit_negative_before_expiry" : "hit_positive_before_expiry"); if (!strcmp(probe, "just-before")) mark(h, "probe_just_before_hit"); }
        else mark(h, "hit_in_indeterminate_window");
      }
      else mark(h, "hit_unbounded_entry");
    }
    else
    {
      if (it == h.model.end()) { mark(h, "miss_absent"); return; }
      MEntry &e = it->second;
      if (!e.bound) { mark(h, "miss_unbounded_entry"); return; }
      __int128 expLo = (__int128)e.insLo + (__int128)e.ttl * 1000000000;
      __int128 expHi = (__int128)e.insHi + (__int128)e.ttl * 1000000000;
      if (e.ttl >= 0x80000000ull) { mark(h, "miss_ttl_msb_set"); return; } // RFC 2181 s.8: such a TTL may be treated as 0; iora reads 0xFFFFFFFF as "no TTL"
      if ((__int128)d < expLo)
      {
        fail("C19:cache:live-entry-missed", "entry missed before insertion + TTL", "\"asked\":[" + keyStr(mk) + "],\"ttl\":" + std::to_string(e.ttl) +
             ",\"ns_before_expiry\":" + std::to_string((long long)(expLo - d)));
        return;
      }
      if ((__int128)c >= expHi)
      {
        mark(h, e.ttl == 0 ? "miss_ttl0" : "miss_after_expiry");
        if (!strcmp(probe, "exactly-at")) mark(h, "probe_exactly_at_miss");
        if (!strcmp(probe, "just-after")) mark(h, "probe_just_after_miss");
        h.model.erase(it);
      }
      else mark(h, "miss_in_indeterminate_window");
    }
  };

  for (int op = 0; op < nops; op++)
  {
    c19clk::resync();
    uint64_t r = h.rng.below(100);
    MKey mk;
    if (r < 26) // put
    {
      DnsQuestion q = pickQ(mk);
      uint32_t tok = uint32_t(h.toks.size());
      DnsResult res; std::string why;
      int64_t mn = fillResult(h, res, tok, q.qname, 3, why);
      MEntry e; e.token = tok; e.neg = false; e.bound = mn >= 0; e.ttl = mn >= 0 ? uint64_t(mn) : uint64_t(h.defaultTtl); e.why = mn >= 0 ? why : "default";
      e.insLo = now();
      cache->put(q, res);
      e.insHi = now();
      h.model[mk] = e;
      h.toks.push_back(TokInfo{mk, false, e.ttl, e.bound});
      logOp("put " + keyStr(mk) + " tok " + std::to_string(tok) + " minttl " + (mn >= 0 ? std::to_string(mn) : "none") + " @" + std::to_string(e.insLo - base));
      mark(h, mn < 0 ? "put_no_records" : mn == 0 ? "put_ttl0" : "put");
    }
    else if (r < 38) // putNegative
    {
      DnsQuestion q = pickQ(mk);
      uint32_t tok = uint32_t(h.toks.size());
      DnsResult res; std::string why;
      res.header.id = uint16_t(tok); res.header.rcode = DnsResponseCode::NXDOMAIN;
      res.questions.emplace_back("tok-" + std::to_string(tok), DnsType::A, DnsClass::IN);
      MEntry e; e.token = tok; e.neg = true;
      bool autoTtl = h.rng.chance(0.5);
      if (autoTtl)
      {
        int kind = int(h.rng.below(4));
        if (kind <= 1) // parsed SOA: min(MINIMUM, TTL)
        {
          uint32_t minimum = h.pickTtl(), ttl = h.pickTtl();
          res.soa_records.emplace_back("example", "ns.example", "admin.example", 1, 2, 3, 4, minimum, ttl);
          if (kind == 1) res.authority.push_back(mkRR("example", DnsType::SOA, ttl));
          e.ttl = std::min(minimum, ttl); e.bound = true; e.why = "min(SOA.minimum,SOA.ttl)";
        }
        else if (kind == 2) { uint32_t ttl = h.pickTtl(); res.authority.push_back(mkRR("example", DnsType::SOA, ttl)); e.ttl = ttl; e.bound = true; e.why = "authority SOA ttl"; }
        else { e.ttl = uint64_t(h.defaultTtl); e.bound = false; e.why = "default"; }
        e.insLo = now();
        cache->putNegative(q, res, "nx");
        e.insHi = now();
      }
      else
      {
        uint32_t ttl = h.pickTtl();
        if (h.rng.chance(0.3)) res.authority.push_back(mkRR("example", DnsType::SOA, h.pickTtl())); // must not matter
        e.ttl = ttl; e.bound = true; e.why = "explicit negativeTtl";
        e.insLo = now();
        cache->putNegative(q, res, ttl, "nx");
        e.insHi = now();
      }
      h.model[mk] = e;
      h.toks.push_back(TokInfo{mk, true, e.ttl, e.bound});
      logOp("putNegative " + keyStr(mk) + " tok " + std::to_string(tok) + " ttl " + std::to_string(e.ttl) + (e.bound ? "" : " (default)") + " @" + std::to_string(e.insLo - base));
      mark(h, !e.bound ? "putneg_default" : e.ttl == 0 ? "putneg_ttl0" : autoTtl ? "putneg_soa" : "putneg_explicit");
    }
    else if (r < 58) // get (any question)
    {
      DnsQuestion q = pickQ(mk);
      doGet(q, mk, "random");
    }
    else if (r < 84) // move the clock to a boundary of a live entry, then get it (and a near-miss question)
    {
      std::vector<const std::pair<const MKey, MEntry> *> live;
      for (auto &kv : h.model) if (kv.second.bound) live.push_back(&kv);
      if (live.empty()) continue;
      auto *kv = live[h.rng.below(live.size())];
      const MEntry &e = kv->second;
      bool big = e.ttl > 100000000ull;
      if (big && h.bigJumpDone) continue;
      static const int64_t deltas[] = {1, 1, 1000, 1000000, 1000000000};
      int64_t dl = deltas[h.rng.below(5)];
      int where = int(h.rng.below(3)); // 0 just before, 1 exactly at, 2 just after
      const char *probe = where == 0 ? "just-before" : where == 1 ? "exactly-at" : "just-after";
      __int128 expLo = (__int128)e.insLo + (__int128)e.ttl * 1000000000, expHi = (__int128)e.insHi + (__int128)e.ttl * 1000000000;
      int64_t cur = now();
      if (h.frozen)
      {
        __int128 tgt = where == 0 ? expLo - dl : where == 1 ? expLo : expLo + dl;
        if (tgt < cur) continue; // never move backwards
        c19clk::setFrozen((int64_t)tgt);
      }
      else
      {
        // running clock: aim a margin before the earliest / after the latest possible expiry
        int64_t margin = where == 0 ? std::max<int64_t>(dl, 3000000) : std::max<int64_t>(dl, 1000);
        __int128 tgt = where == 0 ? expLo - margin : expHi + (where == 1 ? 0 : margin);
        if (tgt < cur) continue;
        c19clk::advanceRunning((int64_t)(tgt - cur));
      }
      if (big) { h.bigJumpDone = true; mark(h, "big_ttl_boundary"); }
      mark(h, where == 0 ? "probe_just_before" : where == 1 ? "probe_exactly_at" : "probe_just_after");
      MKey k2 = kv->first;
      std::string spelled = randCase(h.rng, k2.name);
      DnsQuestion q(spelled, DnsType(k2.type), DnsClass(k2.cls));
      doGet(q, k2, probe);
    }
    else if (r < 90) // remove
    {
      DnsQuestion q = pickQ(mk);
      cache->remove(q);
      h.model.erase(mk);
      logOp("remove " + keyStr(mk));
      mark(h, "remove");
    }
    else if (r < 93) // clear
    {
      bool hard = h.rng.chance(0.3);
      if (hard) cache->clear(true); else cache->clear();
      h.model.clear();
      logOp("clear");
      mark(h, "clear");
    }
    else if (r < 96) // default TTL change (affects only entries without any record TTL)
    {
      h.defaultTtl = defaults[h.rng.below(5)];
      cache->setDefaultTtl(std::chrono::seconds(h.defaultTtl));
      logOp("setDefaultTtl " + std::to_string(h.defaultTtl));
      mark(h, "set_default_ttl");
    }
    else // small step
    {
      static const int64_t steps[] = {0, 1, 999, 1000000, 500000000, 1000000000, 7000000000ll};
      int64_t s = steps[h.rng.below(7)];
      if (h.frozen) c19clk::setFrozen(now() + s); else c19clk::advanceRunning(s);
      logOp("advance " + std::to_string(s));
      mark(h, "advance");
    }
  }
  // final sweep: every key the model still holds is asked once more, and the near-miss spellings
  for (auto it = h.model.begin(); it != h.model.end();)
  {
    MKey k = it->first; ++it;
    DnsQuestion q(k.name, DnsType(k.type), DnsClass(k.cls));
    doGet(q, k, "final");
  }
  cache.reset();
  c19clk::reset();
  vf::out().obs("cache_histories");
  uint64_t sig = h.frozen ? 1 : 2;
  for (auto &m : h.marks) if (m.rfind("probe_", 0) == 0 || m.rfind("put", 0) == 0 || m.rfind("viol", 0) == 0 || m == "clear" || m == "remove" || m == "big_ttl_boundary") sig = vf::fnv(m, sig);
  vf::out().caseSig(sig);
  if (idx % 997 == 0)
  {
    std::string s = "{\"history\":" + std::to_string(idx) + ",\"clock\":\"" + (h.frozen ? "frozen" : "running") + "\",\"ops\":[";
    for (size_t i = 0; i < h.log.size() && i < 12; i++) { if (i) s += ','; s += vf::jstr(h.log[i]); }
    s += "]}";
    vf::out().sample(s);
  }
}

static int modeCache(const vf::Args &a)
{
  uint64_t seed = a.u("seed", 1), from = a.u("from", 0), count = a.u("count", 100);
  int nops = int(a.u("ops", 80));
  for (uint64_t i = from; i < from + count; i++) runHistory(seed, i, nops);
  vf::out().obs("clock_reads", vf::shim::clockPolicy().reads.load());
  vf::out().flush();
  vf::out().line("{\"t\":\"done\"}");
  return 0;
}

int main(int argc, char **argv)
{
  vf::Args a(argc, argv);
  iora::core::Logger::setLevel(iora::core::Logger::Level::Fatal);
  std::string mode = a.s("mode", "decode");
  if (mode == "decode") return modeDecode(a);
  if (mode == "query") return modeQuery(a);
  if (mode == "cache") return modeCache(a);
  fprintf(stderr, "unknown mode\n");
  return 3;
}
