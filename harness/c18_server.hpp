// /verif/harness/c18_server.hpp — C18 `server` mode: real WebSocketServer, raw-socket client.
//   --exact 1  every session is primed by a real upgrade over loopback (101 awaited), then the
//              stream is fed segment by segment through the protected onUpgradedData(sid, …) from
//              this thread (which stands where the engine's I/O thread stands; exceptions are
//              caught here). Pongs / close frames leave through the real transport and are captured
//              on the raw socket; a harness-originated sendClose(4999,"vfmark") flushes the capture.
//   --exact 0  the same streams written to the raw socket (whole, paced cuts, or with the
//              endpoint's recv calls capped / shortened by the sockio shim).
#pragma once
#include "c18_common.hpp"
#include "iora/network/websocket_server.hpp"

namespace c18
{
using namespace iora::network;

class Srv : public WebSocketServer
{
public:
  Srv(const std::string &a, int p) : WebSocketServer(a, p) {}
  void feed(SessionId sid, const std::uint8_t *d, std::size_t n) { onUpgradedData(sid, d, n); }
};

struct ConnTrack
{
  std::mutex m;
  std::condition_variable cv;
  uint64_t count = 0;
  SessionId last = 0;
};

struct ServerRig
{
  std::unique_ptr<Srv> srv;
  int port = 0;
  uint64_t cfgmax = 0;
  Events ev;
  ConnTrack ct;

  bool start(uint64_t maxFrame)
  {
    for (int attempt = 0; attempt < 30; attempt++)
    {
      int p = freePort();
      auto s = std::make_unique<Srv>("127.0.0.1", p);
      s->setMaxFrameSize((std::size_t)maxFrame);
      s->setOnConnect([this](SessionId sid, const std::string &) {
        mem::Exempt ex;
        { std::lock_guard<std::mutex> g(ct.m); ct.count++; ct.last = sid; }
        ct.cv.notify_all();
      });
      Srv *sp = s.get();
      // the application side of the 'a' streams: the trigger message makes the handler start the close handshake
      s->setOnTextMessage([this, sp](SessionId sid, const std::string &t) {
        ev.msg((uint64_t)sid, 't', t.data(), t.size());
        if (t == "vf-app-close") sp->sendClose(sid, 1000, "bye");
      });
      s->setOnBinaryMessage([this](SessionId sid, const std::vector<std::uint8_t> &b) { ev.msg((uint64_t)sid, 'b', b.data(), b.size()); });
      s->setOnClose([this](SessionId sid, std::uint16_t code, const std::string &reason) { ev.close((uint64_t)sid, code, reason); });
      s->setOnError([this](SessionId sid, const std::string &w) { ev.err((uint64_t)sid, w); });
      try
      {
        s->start();
        srv = std::move(s);
        port = p;
        cfgmax = maxFrame;
        return true;
      }
      catch (...) { s.reset(); }
    }
    return false;
  }
  void stop()
  {
    if (!srv) return;
    try { srv->stop(); } catch (...) {}
    srv.reset();
  }

  // connect + upgrade; waits for the 101 and for the server's onConnect. returns fd or -1
  int upgrade(SessionId &sid, int timeoutMs, std::string &why)
  {
    uint64_t before;
    { std::lock_guard<std::mutex> g(ct.m); before = ct.count; }
    int fd = rawConnect(port);
    if (fd < 0) { why = "connect failed"; return -1; }
    static const std::string req = "GET /ws HTTP/1.1\r\nHost: 127.0.0.1\r\nUpgrade: websocket\r\nConnection: Upgrade\r\n"
                                   "Sec-WebSocket-Key: dGhlIHNhbXBsZSBub25jZQ==\r\nSec-WebSocket-Version: 13\r\n\r\n";
    if (!sendAll(fd, req.data(), req.size())) { why = "send of upgrade request failed"; ::close(fd); return -1; }
    std::string rx;
    int r = recvUntil(fd, rx, [](const std::string &s) { return s.find("\r\n\r\n") != std::string::npos; }, timeoutMs);
    if (r != 1 || rx.rfind("HTTP/1.1 101", 0) != 0)
    {
      why = r == 0 ? "no 101 within the watchdog" : r == 2 ? "connection closed before the 101" : "upgrade refused: " + rx.substr(0, 40);
      ::close(fd);
      return -1;
    }
    if (rx.find("s3pPLMBiTxaQ9kYGzzhZRbK+xOo=") == std::string::npos) { why = "wrong Sec-WebSocket-Accept"; ::close(fd); return -1; }
    std::unique_lock<std::mutex> lk(ct.m);
    if (!ct.cv.wait_for(lk, std::chrono::milliseconds(timeoutMs), [&] { return ct.count > before; })) { why = "onConnect not seen"; ::close(fd); return -1; }
    sid = ct.last;
    return fd;
  }
  bool alive(int timeoutMs)
  {
    SessionId sid; std::string why;
    int fd = upgrade(sid, timeoutMs, why);
    if (fd < 0) return false;
    ::close(fd);
    return true;
  }
};

static const std::string kMarker = std::string("\x88\x08\x13\x87", 4) + "vfmark";

static inline Obs serverSeg(ServerRig &rig, const Case &c, const Seg &sg, bool exact, const Opts &o, int waitMs)
{
  Obs ob;
  shimOff();
  SessionId sid = 0;
  std::string why;
  int fd = rig.upgrade(sid, 15000, why);
  if (fd < 0) { ob.harness = "HARNESS: " + why; return ob; }
  rig.ev.reset((uint64_t)sid);
  ob.wire.reserve(std::min<size_t>(4u << 20, c.expectWire + 65536));
  const auto ps = pieces(c.wire.size(), sg.cuts);
  thr::reset();
  int64_t base = mem::begin();
  if (exact)
  {
    for (auto &p : ps)
    {
      try
      {
        rig.srv->feed(sid, reinterpret_cast<const std::uint8_t *>(c.wire.data()) + p.first, p.second);
        ob.fed += p.second;
      }
      catch (const std::exception &e) { mem::Exempt ex; ob.exc = std::string(typeid(e).name()) + ": " + e.what(); break; }
      catch (...) { mem::Exempt ex; ob.exc = "unknown exception"; break; }
    }
    ob.endLive = mem::live.load() - base;
    ob.peak = mem::peak.load() - base;
    ob.maxAlloc = mem::maxSingle.load();
    mem::end();
    thr::disarm();
    try { rig.srv->sendClose(sid, 4999, "vfmark"); } catch (...) {}
    int r = recvUntil(fd, ob.wire, [](const std::string &s) { return s.size() >= kMarker.size() && s.find(kMarker, s.size() >= 4096 ? s.size() - 4096 : 0) != std::string::npos; }, waitMs);
    ob.synced = r != 0;
    ob.eof = r == 2;
  }
  else
  {
    shimFor(sg);
    bool sentAll = true;
    for (size_t i = 0; i < ps.size(); i++)
    {
      if (!sendAll(fd, c.wire.data() + ps[i].first, ps[i].second)) { sentAll = false; break; }
      ob.fed += ps[i].second;
      if (i + 1 < ps.size()) vf::sleepMs(2.0);
      recvSome(fd, ob.wire, 0);
    }
    size_t need = (size_t)c.expectWire;
    int r = sentAll ? recvUntil(fd, ob.wire, [need](const std::string &s) { return need > 0 && s.size() >= need; }, need ? waitMs : std::min(waitMs, 300)) : 2;
    if (r == 1) { if (!recvSome(fd, ob.wire, o.graceMs)) r = 2; }
    ob.synced = r == 1 || r == 2;
    ob.eof = r == 2;
    ob.endLive = mem::live.load() - base;
    ob.peak = mem::peak.load() - base;
    ob.maxAlloc = mem::maxSingle.load();
    mem::end();
    thr::disarm();
    shimOff();
  }
  ob.thrown = thr::list();
  ::close(fd);
  ob.take(rig.ev);
  rig.ev.reset(~0ull);
  return ob;
}

static inline int runServer(const vf::Args &args)
{
  vf::shim::tlsSockExempt = true;
  Opts o;
  o.seed = args.u("seed", 1);
  o.waitMs = (int)args.u("wait-ms", 4000);
  o.shortWaitMs = (int)args.u("short-wait-ms", 400);
  bool exact = args.u("exact", 1) != 0;
  auto cases = loadCases(args.s("cases"));
  size_t from = (size_t)args.u("from", 0);
  const char *modeName = exact ? "server-inproc" : "server-socket";
  ServerRig rig;
  for (size_t idx = from; idx < cases.size(); idx++)
  {
    const Case &c = cases[idx];
    vf::out().line("{\"t\":\"begin\",\"idx\":" + std::to_string(idx) + ",\"id\":" + vf::jstr(c.id) + "}");
    if (!rig.srv || rig.cfgmax != c.cfgmax)
    {
      rig.stop();
      if (!rig.start(c.cfgmax)) { vf::out().inconclusive("server: could not start a WebSocketServer on loopback"); vf::out().flush(); return 2; }
    }
    auto segs = expandSegs(c, o.seed);
    Obs ref;
    std::string refCanon, diffs;
    size_t nseg = 0, ndiff = 0, lost = 0;
    uint64_t maxAlloc = 0; int64_t peak = 0, endLive = 0;
    bool capped = false, dead = false;
    for (auto &sg : segs)
    {
      int w = lost ? o.shortWaitMs : o.waitMs;
      Obs ob = serverSeg(rig, c, sg, exact, o, w);
      if (!ob.harness.empty())
      {
        // the server may be dead (exception killed the I/O loop in a previous segmentation)
        if (!exact || !rig.alive(3000)) { dead = true; ob.dead = true; }
      }
      else if (!exact && !ob.synced && !rig.alive(5000)) { dead = true; ob.dead = true; }
      nseg++;
      maxAlloc = std::max(maxAlloc, ob.maxAlloc); peak = std::max(peak, ob.peak); endLive = std::max(endLive, ob.endLive);
      vf::out().obs(std::string(modeName) + ":segmentations");
      if (ob.fed) vf::out().obs(std::string(modeName) + ":bytes_fed", ob.fed);
      if (!ob.synced) lost++;
      std::string cn = ob.canon(exact);
      if (nseg == 1) { ref = ob; refCanon = cn; }
      else if (cn != refCanon || !ob.harness.empty())
      {
        if (ndiff++ < 2) diffs += std::string(diffs.empty() ? "" : ",") + "{\"seg\":" + vf::jstr(sg.label) + ",\"obs\":" + ob.json() + "}";
      }
      if (dead) break;
      if (lost >= 3 && nseg < segs.size()) { capped = true; break; }
    }
    vf::out().line("{\"t\":\"c18\",\"id\":" + vf::jstr(c.id) + ",\"mode\":\"" + modeName + "\",\"nseg\":" + std::to_string(nseg) + ",\"ndiff\":" + std::to_string(ndiff) +
                   ",\"lost\":" + std::to_string(lost) + ",\"capped\":" + (capped ? "true" : "false") + ",\"dead\":" + (dead ? "true" : "false") +
                   ",\"max_alloc\":" + std::to_string(maxAlloc) + ",\"peak\":" + std::to_string(peak) + ",\"end_live\":" + std::to_string(endLive) +
                   ",\"ref\":" + ref.json() + ",\"diffs\":[" + diffs + "]}");
    vf::out().obs(std::string(modeName) + ":cases");
    if (dead)
    {
      // the engine's I/O loop is gone: this process cannot serve further cases
      vf::out().line("{\"t\":\"stopped\",\"at\":" + std::to_string(idx) + "}");
      vf::out().flush();
      fflush(nullptr);
      _exit(0);
    }
  }
  rig.stop();
  vf::out().line("{\"t\":\"done\"}");
  vf::out().flush();
  return 0;
}

} // namespace c18
