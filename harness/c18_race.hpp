// /verif/harness/c18_race.hpp — C18 `closerace` mode: application threads call sendText /
// sendBinary in a loop while the peer or the application initiates the close handshake. The raw
// peer captures every byte the endpoint wrote; lib/props/c18.py parses that capture with the
// reference codec and looks for a data frame behind the endpoint's close frame.
//   scenario kinds (i % 5): 0 server, peer sends close        1 server, application calls sendClose
//                           2 client, peer sends close        3 client, application calls sendClose
//                           4 client, application calls disconnect()
#pragma once
#include "c18_client.hpp"
#include "c18_server.hpp"

namespace c18
{

struct RaceOut
{
  std::string wire;
  uint64_t calls = 0, callsAfterTrigger = 0;
  bool eof = false;
  std::string harness;
};

static inline void spinUs(vf::Rng &r, unsigned maxUs)
{
  unsigned us = (unsigned)r.below(maxUs + 1);
  if (!us) return;
  if (us < 20) { uint64_t dl = vf::nowNs() + us * 1000ull; while (vf::nowNs() < dl) sched_yield(); }
  else vf::sleepMs(us / 1000.0);
}

// capture thread: reads until EOF or until `stop` is set and the socket has been quiet for quietMs
static inline void captureLoop(int fd, std::string &into, std::atomic<bool> &stop, bool &eof, int quietMs)
{
  vf::shim::tlsSockExempt = true;
  uint64_t lastData = vf::nowNs();
  uint64_t hard = vf::nowNs() + 30000000000ull;
  for (;;)
  {
    size_t before = into.size();
    if (!recvSome(fd, into, 10)) { eof = true; return; }
    if (into.size() != before) lastData = vf::nowNs();
    if (stop.load() && vf::nowNs() - lastData > uint64_t(quietMs) * 1000000ull) return;
    if (vf::nowNs() > hard) return;
  }
}

template <class SendFn, class TriggerFn>
static inline void raceCore(vf::Rng &rng, int nthreads, unsigned callsPerThread, unsigned triggerAfter, SendFn sendFn, TriggerFn trigger, RaceOut &out)
{
  std::atomic<uint64_t> calls{0}, afterTrig{0};
  std::atomic<bool> triggered{false};
  std::atomic<uint64_t> trigNs{0};
  std::vector<std::thread> th;
  uint64_t seedBase = rng.next();
  for (int t = 0; t < nthreads; t++)
  {
    th.emplace_back([&, t] {
      vf::shim::tlsSockExempt = true;
      vf::Rng r(seedBase, t + 1);
      for (unsigned k = 0; k < callsPerThread; k++)
      {
        bool trig = triggered.load(std::memory_order_relaxed);
        if (trig && vf::nowNs() - trigNs.load() > 40000000ull) break; // 40 ms past the close: enough
        sendFn(t, k, r);
        calls.fetch_add(1);
        if (trig) afterTrig.fetch_add(1);
        spinUs(r, 30);
      }
    });
  }
  // trigger thread = this one
  uint64_t dl = vf::nowNs() + 10000000000ull;
  while (calls.load() < triggerAfter && vf::nowNs() < dl) sched_yield();
  spinUs(rng, 200);
  trigNs.store(vf::nowNs());
  triggered.store(true);
  trigger();
  for (auto &x : th) x.join();
  out.calls = calls.load();
  out.callsAfterTrigger = afterTrig.load();
}

static inline std::string racePayload(int t, unsigned k, vf::Rng &r)
{
  char b[64];
  int n = snprintf(b, sizeof b, "vf:%d:%u:", t, k);
  std::string s(b, n);
  s.append((size_t)r.below(24), 'x');
  return s;
}

static inline RaceOut raceServer(ServerRig &rig, vf::Rng &rng, bool peerCloses)
{
  RaceOut out;
  SessionId sid = 0;
  std::string why;
  int fd = rig.upgrade(sid, 15000, why);
  if (fd < 0) { out.harness = "HARNESS: " + why; return out; }
  out.wire.reserve(1 << 20);
  std::atomic<bool> stop{false};
  std::thread cap([&] { captureLoop(fd, out.wire, stop, out.eof, 60); });
  Srv *srv = rig.srv.get();
  int nthreads = (int)rng.range(2, 4);
  unsigned trigAfter = (unsigned)rng.range(0, 150);
  raceCore(
    rng, nthreads, 500, trigAfter,
    [&](int t, unsigned k, vf::Rng &r) {
      std::string p = racePayload(t, k, r);
      if ((k + t) & 1) srv->sendText(sid, p);
      else srv->sendBinary(sid, std::vector<std::uint8_t>(p.begin(), p.end()));
    },
    [&] {
      if (peerCloses)
      {
        static const unsigned char cf[] = {0x88, 0x82, 0x01, 0x02, 0x03, 0x04, 0x03 ^ 0x01, 0xE8 ^ 0x02}; // masked close 1000
        sendAll(fd, (const char *)cf, sizeof cf);
      }
      else srv->sendClose(sid, 1000, "bye");
    },
    out);
  stop.store(true);
  cap.join();
  ::close(fd);
  return out;
}

static inline RaceOut raceClient(ClientRig &rig, vf::Rng &rng, int kind)
{
  RaceOut out;
  auto cl = rig.make();
  int fd = -1;
  std::string why;
  if (!rig.connect(cl, fd, nullptr, why))
  {
    out.harness = "HARNESS: " + why;
    if (fd >= 0) ::close(fd);
    return out;
  }
  out.wire.reserve(1 << 20);
  std::atomic<bool> stop{false};
  std::thread cap([&] { captureLoop(fd, out.wire, stop, out.eof, 60); });
  int nthreads = (int)rng.range(2, 4);
  unsigned trigAfter = (unsigned)rng.range(0, 150);
  WebSocketClient *c = cl.get();
  raceCore(
    rng, nthreads, 500, trigAfter,
    [&](int t, unsigned k, vf::Rng &r) {
      std::string p = racePayload(t, k, r);
      if ((k + t) & 1) c->sendText(p);
      else c->sendBinary(std::vector<std::uint8_t>(p.begin(), p.end()));
    },
    [&] {
      if (kind == 2)
      {
        static const unsigned char cf[] = {0x88, 0x02, 0x03, 0xE8}; // unmasked close 1000
        sendAll(fd, (const char *)cf, sizeof cf);
      }
      else if (kind == 3) c->sendClose(1000, "bye");
      else c->disconnect(1000, "bye");
    },
    out);
  stop.store(true);
  cap.join();
  ::close(fd);
  cl.reset();
  return out;
}

static inline int runRace(const vf::Args &args)
{
  vf::shim::tlsSockExempt = true;
  uint64_t seed = args.u("seed", 1);
  uint64_t from = args.u("from", 0), count = args.u("count", 10);
  ServerRig srig;
  ClientRig crig;
  if (!crig.open()) { vf::out().inconclusive("closerace: could not open a loopback listener"); vf::out().flush(); return 2; }
  static const char *names[] = {"server:peer-close", "server:app-sendClose", "client:peer-close", "client:app-sendClose", "client:app-disconnect"};
  for (uint64_t i = from; i < from + count; i++)
  {
    vf::out().line("{\"t\":\"begin\",\"i\":" + std::to_string(i) + "}");
    int kind = (int)(i % 5);
    vf::Rng rng(seed, 5000 + i);
    RaceOut ro;
    if (kind < 2)
    {
      if (!srig.srv && !srig.start(1 << 20)) { vf::out().inconclusive("closerace: could not start a WebSocketServer"); vf::out().flush(); return 2; }
      ro = raceServer(srig, rng, kind == 0);
    }
    else ro = raceClient(crig, rng, kind);
    vf::out().line("{\"t\":\"race\",\"i\":" + std::to_string(i) + ",\"kind\":\"" + names[kind] + "\",\"calls\":" + std::to_string(ro.calls) +
                   ",\"calls_after_trigger\":" + std::to_string(ro.callsAfterTrigger) + ",\"eof\":" + (ro.eof ? "true" : "false") +
                   ",\"harness\":" + (ro.harness.empty() ? "null" : vf::jstr(ro.harness)) + ",\"wire\":\"" + vf::hex(ro.wire) + "\"}");
  }
  srig.stop();
  ::close(crig.lfd);
  vf::out().line("{\"t\":\"done\"}");
  vf::out().flush();
  return 0;
}

} // namespace c18

// ------------------------------------------------------------------------------------------------
// `abandon` mode: peers that vanish without a close handshake. Each connection upgrades, sends the
// first `partial` bytes of one binary frame that declares `declared` bytes (within the configured
// maximum) and closes the TCP connection. After all of them are gone the bytes they left behind
// must not stay allocated.
namespace c18
{
static inline int runAbandon(const vf::Args &args)
{
  vf::shim::tlsSockExempt = true;
  uint64_t conns = args.u("conns", 40), declared = args.u("declared", 100000), partial = args.u("partial", 60000);
  ServerRig rig;
  if (!rig.start(1 << 20)) { vf::out().inconclusive("abandon: could not start a WebSocketServer"); vf::out().flush(); return 2; }
  std::string part;
  part.push_back((char)0x82);
  part.push_back((char)(0x80 | 127));
  for (int k = 7; k >= 0; k--) part.push_back((char)((declared >> (k * 8)) & 0xFF));
  part.append("\x01\x02\x03\x04", 4);
  part.append((size_t)partial, 'p');
  // warm-up connection (thread pool, logger, engine buffers) so the baseline is steady
  for (int w = 0; w < 3; w++)
  {
    SessionId sid; std::string why;
    int fd = rig.upgrade(sid, 15000, why);
    if (fd < 0) { vf::out().inconclusive("abandon: warm-up upgrade failed: " + why); vf::out().flush(); return 2; }
    ::close(fd);
  }
  vf::sleepMs(300);
  int64_t base = mem::live.load();
  uint64_t done = 0;
  for (uint64_t i = 0; i < conns; i++)
  {
    SessionId sid; std::string why;
    int fd = rig.upgrade(sid, 15000, why);
    if (fd < 0) continue;
    if (sendAll(fd, part.data(), part.size())) done++;
    // make sure the server consumed the bytes before the connection goes away: a masked ping is
    // not parsed behind the partial frame, so just give the I/O thread time
    vf::sleepMs(30);
    ::close(fd);
  }
  // let the server notice every close
  int64_t delta = 0;
  for (int w = 0; w < 40; w++)
  {
    vf::sleepMs(100);
    delta = mem::live.load() - base;
    if (delta < int64_t(done * partial / 4)) break;
  }
  vf::out().line("{\"t\":\"abandon\",\"conns\":" + std::to_string(done) + ",\"partial\":" + std::to_string(partial) + ",\"declared\":" + std::to_string(declared) +
                 ",\"live_delta\":" + std::to_string(delta) + "}");
  vf::out().obs("abandon:connections_dropped_mid_frame", done);
  rig.stop();
  vf::out().line("{\"t\":\"done\"}");
  vf::out().flush();
  return 0;
}
} // namespace c18
