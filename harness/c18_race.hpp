// /verif/harness/c18_race.hpp — C18 `closerace` mode: application threads call sendText /
// sendBinary in a loop while the peer or the application initiates the close handshake. The raw
// peer captures every byte the endpoint wrote; lib/props/c18.py parses that capture with the
// reference codec and looks for a data frame behind the endpoint's close frame.
//   scenario kinds (i % 5): 0 server, peer sends close        1 server, application calls sendClose
//                           2 client, peer sends close        3 client, application calls sendClose
//                           4 client, application calls disconnect()
#pragma once
#include "c18_client.hpp"
#include "c18_server.hpp"

namespace c18
{

struct RaceOut
{
  std::string wire;
  uint64_t calls = 0, callsAfterTrigger = 0;
  bool eof = false;
  std::string ended = "?";     // how the capture ended: close-seen | eof | watchdog
  std::string probe = "not-sent"; // liveness probe after a watchdog end: pong | eof | none | not-sent
  std::string harness;
};

struct RaceOpts
{
  int quietMs = 60;        // after the close frame was seen: silence that ends the capture
  int closeWaitMs = 8000;  // generous: how long to wait for the endpoint's close frame once all senders returned
  int probeWaitMs = 8000;  // generous: how long to wait for the reply to the liveness probe
};

// Harness-side frame walker over the captured bytes (header arithmetic only; the verdict is still
// computed by the Python reference codec). Used to decide WHEN the capture may end: a close frame
// of the endpoint is on the wire, or the pong for the liveness probe arrived.
struct WireScan
{
  size_t pos = 0;
  bool close = false, pong = false, broken = false;
  void scan(const std::string &w, const std::string &probePayload)
  {
    while (!broken)
    {
      size_t n = w.size() - pos;
      if (n < 2) return;
      const unsigned char *d = (const unsigned char *)w.data() + pos;
      unsigned op = d[0] & 15;
      bool masked = d[1] & 0x80;
      uint64_t len = d[1] & 0x7F;
      size_t h = 2;
      if (len == 126) { if (n < 4) return; len = (uint64_t(d[2]) << 8) | d[3]; h = 4; }
      else if (len == 127) { if (n < 10) return; len = 0; for (int k = 0; k < 8; k++) len = (len << 8) | d[2 + k]; h = 10; }
      if (len > (64u << 20)) { broken = true; return; }
      const unsigned char *key = nullptr;
      if (masked) { if (n < h + 4) return; key = d + h; h += 4; }
      if (n < h + len) return;
      if (op == 8) close = true;
      if (op == 10 && len == probePayload.size() && !probePayload.empty())
      {
        bool same = true;
        for (size_t i = 0; i < len && same; i++) same = (unsigned char)(d[h + i] ^ (key ? key[i & 3] : 0)) == (unsigned char)probePayload[i];
        if (same) pong = true;
      }
      pos += h + (size_t)len;
    }
  }
};

static inline void spinUs(vf::Rng &r, unsigned maxUs)
{
  unsigned us = (unsigned)r.below(maxUs + 1);
  if (!us) return;
  if (us < 20) { uint64_t dl = vf::nowNs() + us * 1000ull; while (vf::nowNs() < dl) sched_yield(); }
  else vf::sleepMs(us / 1000.0);
}

// Capture thread. Reads everything the endpoint writes. Once `stop` is set (every sender returned,
// the close was initiated) it waits - generously, this is a watchdog, not a measurement - until the
// endpoint's close frame is on the wire (then a short silence ends the capture) or the connection
// ends (EOF). If neither happens it sends a liveness probe (a ping with a unique payload; the peer's
// write queue is FIFO, so its pong proves that everything queued earlier has been written) and
// reports how the capture ended; the judge tells "connection finished without a close frame" /
// "endpoint alive, answered the probe, never sent a close frame" (violations of the close handshake)
// from "nothing came back at all" (inconclusive: starved or stuck).
static inline void captureLoop(int fd, RaceOut &out, std::atomic<bool> &stop, bool peerMasks, const RaceOpts &ro)
{
  vf::shim::tlsSockExempt = true;
  std::string &into = out.wire;
  static const std::string probePayload = "vf-race-probe";
  WireScan ws;
  uint64_t lastData = vf::nowNs(), stopSeen = 0, probeSent = 0;
  uint64_t hard = vf::nowNs() + 120000000000ull;
  for (;;)
  {
    size_t before = into.size();
    if (!recvSome(fd, into, 10)) { ws.scan(into, probePayload); out.eof = true; out.ended = "eof"; if (probeSent) out.probe = "eof"; return; }
    uint64_t now = vf::nowNs();
    if (into.size() != before) { lastData = now; ws.scan(into, probePayload); }
    if (!stop.load()) { if (now > hard) { out.ended = "watchdog"; return; } continue; }
    if (!stopSeen) stopSeen = now;
    if (ws.close)
    {
      if (now - lastData > uint64_t(ro.quietMs) * 1000000ull) { out.ended = "close-seen"; return; }
      continue;
    }
    if (!probeSent)
    {
      if (now - stopSeen > uint64_t(ro.closeWaitMs) * 1000000ull)
      {
        std::string ping;
        ping.push_back((char)0x89);
        if (peerMasks) { ping.push_back((char)(0x80 | probePayload.size())); ping.append("\x11\x22\x33\x44", 4); static const unsigned char k[4] = {0x11, 0x22, 0x33, 0x44}; for (size_t i = 0; i < probePayload.size(); i++) ping.push_back((char)(probePayload[i] ^ k[i & 3])); }
        else { ping.push_back((char)probePayload.size()); ping += probePayload; }
        sendAll(fd, ping.data(), ping.size(), 2000);
        probeSent = now;
        out.probe = "none";
      }
      continue;
    }
    if (ws.pong) { out.probe = "pong"; out.ended = "watchdog"; return; }
    if (now - probeSent > uint64_t(ro.probeWaitMs) * 1000000ull || now > hard) { out.ended = "watchdog"; return; }
  }
}

template <class SendFn, class TriggerFn>
static inline void raceCore(vf::Rng &rng, int nthreads, unsigned callsPerThread, unsigned triggerAfter, SendFn sendFn, TriggerFn trigger, RaceOut &out)
{
  std::atomic<uint64_t> calls{0}, afterTrig{0};
  std::atomic<bool> triggered{false};
  std::atomic<uint64_t> trigNs{0};
  std::vector<std::thread> th;
  uint64_t seedBase = rng.next();
  for (int t = 0; t < nthreads; t++)
  {
    th.emplace_back([&, t] {
      vf::shim::tlsSockExempt = true;
      vf::Rng r(seedBase, t + 1);
      for (unsigned k = 0; k < callsPerThread; k++)
      {
        bool trig = triggered.load(std::memory_order_relaxed);
        if (trig && vf::nowNs() - trigNs.load() > 40000000ull) break; // 40 ms past the close: enough
        sendFn(t, k, r);
        calls.fetch_add(1);
        if (trig) afterTrig.fetch_add(1);
        spinUs(r, 30);
      }
    });
  }
  // trigger thread = this one
  uint64_t dl = vf::nowNs() + 10000000000ull;
  while (calls.load() < triggerAfter && vf::nowNs() < dl) sched_yield();
  spinUs(rng, 200);
  trigNs.store(vf::nowNs());
  triggered.store(true);
  trigger();
  for (auto &x : th) x.join();
  out.calls = calls.load();
  out.callsAfterTrigger = afterTrig.load();
}

static inline std::string racePayload(int t, unsigned k, vf::Rng &r)
{
  char b[64];
  int n = snprintf(b, sizeof b, "vf:%d:%u:", t, k);
  std::string s(b, n);
  s.append((size_t)r.below(24), 'x');
  return s;
}

static inline RaceOut raceServer(ServerRig &rig, vf::Rng &rng, bool peerCloses, const RaceOpts &ro)
{
  RaceOut out;
  SessionId sid = 0;
  std::string why;
  int fd = rig.upgrade(sid, 15000, why);
  if (fd < 0) { out.harness = "HARNESS: " + why; return out; }
  out.wire.reserve(1 << 20);
  std::atomic<bool> stop{false};
  std::thread cap([&] { captureLoop(fd, out, stop, /*peerMasks=*/true, ro); });
  Srv *srv = rig.srv.get();
  int nthreads = (int)rng.range(2, 4);
  unsigned trigAfter = (unsigned)rng.range(0, 150);
  raceCore(
    rng, nthreads, 500, trigAfter,
    [&](int t, unsigned k, vf::Rng &r) {
      std::string p = racePayload(t, k, r);
      if ((k + t) & 1) srv->sendText(sid, p);
      else srv->sendBinary(sid, std::vector<std::uint8_t>(p.begin(), p.end()));
    },
    [&] {
      if (peerCloses)
      {
        static const unsigned char cf[] = {0x88, 0x82, 0x01, 0x02, 0x03, 0x04, 0x03 ^ 0x01, 0xE8 ^ 0x02}; // masked close 1000
        sendAll(fd, (const char *)cf, sizeof cf);
      }
      else srv->sendClose(sid, 1000, "bye");
    },
    out);
  stop.store(true);
  cap.join();
  ::close(fd);
  return out;
}

static inline RaceOut raceClient(ClientRig &rig, vf::Rng &rng, int kind, const RaceOpts &ro)
{
  RaceOut out;
  auto cl = rig.make();
  int fd = -1;
  std::string why;
  if (!rig.connect(cl, fd, nullptr, why))
  {
    out.harness = "HARNESS: " + why;
    if (fd >= 0) ::close(fd);
    return out;
  }
  out.wire.reserve(1 << 20);
  std::atomic<bool> stop{false};
  std::thread cap([&] { captureLoop(fd, out, stop, /*peerMasks=*/false, ro); });
  int nthreads = (int)rng.range(2, 4);
  unsigned trigAfter = (unsigned)rng.range(0, 150);
  WebSocketClient *c = cl.get();
  raceCore(
    rng, nthreads, 500, trigAfter,
    [&](int t, unsigned k, vf::Rng &r) {
      std::string p = racePayload(t, k, r);
      if ((k + t) & 1) c->sendText(p);
      else c->sendBinary(std::vector<std::uint8_t>(p.begin(), p.end()));
    },
    [&] {
      if (kind == 2)
      {
        static const unsigned char cf[] = {0x88, 0x02, 0x03, 0xE8}; // unmasked close 1000
        sendAll(fd, (const char *)cf, sizeof cf);
      }
      else if (kind == 3) c->sendClose(1000, "bye");
      else c->disconnect(1000, "bye");
    },
    out);
  stop.store(true);
  cap.join();
  ::close(fd);
  cl.reset();
  return out;
}

static inline int runRace(const vf::Args &args)
{
  vf::shim::tlsSockExempt = true;
  uint64_t seed = args.u("seed", 1);
  uint64_t from = args.u("from", 0), count = args.u("count", 10);
  RaceOpts ro;
  ro.quietMs = (int)args.u("quiet-ms", 60);
  ro.closeWaitMs = (int)args.u("close-wait-ms", 8000);
  ro.probeWaitMs = (int)args.u("probe-wait-ms", 8000);
  ServerRig srig;
  ClientRig crig;
  if (!crig.open()) { vf::out().inconclusive("closerace: could not open a loopback listener"); vf::out().flush(); return 2; }
  static const char *names[] = {"server:peer-close", "server:app-sendClose", "client:peer-close", "client:app-sendClose", "client:app-disconnect"};
  for (uint64_t i = from; i < from + count; i++)
  {
    vf::out().line("{\"t\":\"begin\",\"i\":" + std::to_string(i) + "}");
    int kind = (int)(i % 5);
    vf::Rng rng(seed, 5000 + i);
    RaceOut res;
    if (kind < 2)
    {
      if (!srig.srv && !srig.start(1 << 20)) { vf::out().inconclusive("closerace: could not start a WebSocketServer"); vf::out().flush(); return 2; }
      res = raceServer(srig, rng, kind == 0, ro);
    }
    else res = raceClient(crig, rng, kind, ro);
    vf::out().line("{\"t\":\"race\",\"i\":" + std::to_string(i) + ",\"kind\":\"" + names[kind] + "\",\"calls\":" + std::to_string(res.calls) +
                   ",\"calls_after_trigger\":" + std::to_string(res.callsAfterTrigger) + ",\"eof\":" + (res.eof ? "true" : "false") +
                   ",\"ended\":\"" + res.ended + "\",\"probe\":\"" + res.probe + "\"" +
                   ",\"harness\":" + (res.harness.empty() ? "null" : vf::jstr(res.harness)) + ",\"wire\":\"" + vf::hex(res.wire) + "\"}");
  }
  srig.stop();
  ::close(crig.lfd);
  vf::out().line("{\"t\":\"done\"}");
  vf::out().flush();
  return 0;
}

} // namespace c18

// ------------------------------------------------------------------------------------------------
// `abandon` mode: peers that vanish without a close handshake. Each connection upgrades, sends the
// first `partial` bytes of one binary frame that declares `declared` bytes (within the configured
// maximum) and closes the TCP connection. After all of them are gone the bytes they left behind
// must not stay allocated.
namespace c18
{
static inline int runAbandon(const vf::Args &args)
{
  vf::shim::tlsSockExempt = true;
  uint64_t conns = args.u("conns", 40), declared = args.u("declared", 100000), partial = args.u("partial", 60000);
  ServerRig rig;
  if (!rig.start(1 << 20)) { vf::out().inconclusive("abandon: could not start a WebSocketServer"); vf::out().flush(); return 2; }
  std::string part;
  part.push_back((char)0x82);
  part.push_back((char)(0x80 | 127));
  for (int k = 7; k >= 0; k--) part.push_back((char)((declared >> (k * 8)) & 0xFF));
  part.append("\x01\x02\x03\x04", 4);
  part.append((size_t)partial, 'p');
  // warm-up connection (thread pool, logger, engine buffers) so the baseline is steady
  for (int w = 0; w < 3; w++)
  {
    SessionId sid; std::string why;
    int fd = rig.upgrade(sid, 15000, why);
    if (fd < 0) { vf::out().inconclusive("abandon: warm-up upgrade failed: " + why); vf::out().flush(); return 2; }
    ::close(fd);
  }
  vf::sleepMs(300);
  int64_t base = mem::live.load();
  uint64_t done = 0;
  for (uint64_t i = 0; i < conns; i++)
  {
    SessionId sid; std::string why;
    int fd = rig.upgrade(sid, 15000, why);
    if (fd < 0) continue;
    if (sendAll(fd, part.data(), part.size())) done++;
    // make sure the server consumed the bytes before the connection goes away: a masked ping is
    // not parsed behind the partial frame, so just give the I/O thread time
    vf::sleepMs(30);
    ::close(fd);
  }
  // let the server notice every close
  int64_t delta = 0;
  for (int w = 0; w < 40; w++)
  {
    vf::sleepMs(100);
    delta = mem::live.load() - base;
    if (delta < int64_t(done * partial / 4)) break;
  }
  vf::out().line("{\"t\":\"abandon\",\"conns\":" + std::to_string(done) + ",\"partial\":" + std::to_string(partial) + ",\"declared\":" + std::to_string(declared) +
                 ",\"live_delta\":" + std::to_string(delta) + "}");
  vf::out().obs("abandon:connections_dropped_mid_frame", done);
  rig.stop();
  vf::out().line("{\"t\":\"done\"}");
  vf::out().flush();
  return 0;
}
} // namespace c18
