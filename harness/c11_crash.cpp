// C11 harness: crash recovery of KVStore and JsonFileStore by fault enumeration.
//
//   --mode record  : run a seeded history against the real store in --dir with the fileio shim
//                    recording every file operation (tagged with the API-call index); emit the
//                    trace (--trace), the call log with per-call operation boundaries and the
//                    per-operation summary (--log). No verdicts here.
//   --mode judge   : read a trace, enumerate crash points (every operation boundary + byte cuts
//                    inside writes), materialise each image by replaying the trace prefix into a
//                    fresh directory (process-crash model), and open a fresh store on it IN A
//                    FORKED CHILD (a crash/abort/hang in recovery is an observation). The child
//                    dumps the recovered state, applies a seeded continuation, closes cleanly,
//                    reopens and dumps again. With --levels 2 the continuation itself is traced
//                    and crashed again (grandchild). Every observation goes to --obs as one JSON
//                    line; lib/c11_oracle.py (no iora code) decides.
//   --store kv|json selects KVStore or JsonFileStore.
#define VF_SHIM_FILEIO
#define VF_SHIM_CLOCK
#include "shim/shims.hpp"
#include "c11_fshim.hpp"
#include "vf.hpp"

#include <iora/storage/json_file_store.hpp>
#include <iora/storage/kvstore.hpp>

#include <algorithm>
#include <dirent.h>
#include <memory>
#include <signal.h>
#include <sys/wait.h>

using iora::storage::JsonFileStore;
using iora::storage::KVStore;
using iora::storage::KVStoreConfig;

namespace c11clk { int64_t nowNs(); }
// the wall clock iora sees (system_clock lives in the inline namespace std::chrono::_V2)
std::chrono::system_clock::time_point std::chrono::system_clock::now() noexcept
{
  return time_point(std::chrono::duration_cast<duration>(std::chrono::nanoseconds(c11clk::nowNs())));
}

namespace
{

// ------------------------------------------------------------------------------------ clock
// KVStore reads its expiry clock only through std::chrono::system_clock::now(). The shared clock shim can
// offset CLOCK_REALTIME but not stop it, so this executable additionally defines system_clock::now() itself
// (declared, not defined, in <chrono>; the executable's definition pre-empts libstdc++'s) and returns an
// exact frozen instant. Every process of a case runs at one instant chosen by the harness: the recorded
// history at T0, each recovery child at its own "time of recovery" R >= T0 (at the crash instant, or just
// before / exactly at / just after a deadline that occurs in the history, or after all of them). Nothing
// expires *during* a process, so no eviction 'D' record is ever written behind the harness's back.
constexpr int64_t T0_MS = 2000000000000ll;
std::atomic<int64_t> g_frozenNs{0};

int64_t rawRealNs()
{
  struct timespec ts;
  syscall(SYS_clock_gettime, CLOCK_REALTIME, &ts);
  return int64_t(ts.tv_sec) * 1000000000ll + ts.tv_nsec;
}
void freezeAtMs(int64_t ms)
{
  vf::shim::clockPolicy().realOffsetNs.store(ms * 1000000ll - rawRealNs()); // time()/gettimeofday() users agree (roughly)
  g_frozenNs.store(ms * 1000000ll);
}
int64_t shimNowMs()
{
  int64_t f = g_frozenNs.load();
  if (f) return f / 1000000;
  struct timespec ts;
  clock_gettime(CLOCK_REALTIME, &ts); // the shimmed one
  return int64_t(ts.tv_sec) * 1000ll + ts.tv_nsec / 1000000;
}

struct Exempt
{
  bool prev;
  Exempt() : prev(vf::shim::tlsFileExempt) { vf::shim::tlsFileExempt = true; }
  ~Exempt() { vf::shim::tlsFileExempt = prev; }
};

// ------------------------------------------------------------------------------------ trace
struct Op
{
  char kind = '?';
  uint64_t tag = 0, off = 0;
  int flags = 0;
  std::string path, path2, data;
};
using Trace = std::vector<Op>;
using Image = std::map<std::string, std::string>;

size_t shimTraceSize()
{
  auto &p = vf::shim::filePolicy();
  std::lock_guard<std::mutex> g(p.m);
  return p.trace.size();
}
Trace takeShimTrace(const std::string &prefix)
{
  auto &p = vf::shim::filePolicy();
  std::lock_guard<std::mutex> g(p.m);
  Trace t;
  for (auto &o : p.trace)
  {
    Op x;
    x.kind = o.kind; x.tag = o.tag; x.off = o.off; x.flags = o.flags; x.data = o.data;
    auto rel = [&](const std::string &s) { return s.compare(0, prefix.size(), prefix) == 0 ? s.substr(prefix.size()) : s; };
    x.path = rel(o.path); x.path2 = rel(o.path2);
    t.push_back(std::move(x));
  }
  return t;
}

// returns true iff the image changed
bool applyOp(Image &img, const Op &op, size_t nbytes = size_t(-1))
{
  switch (op.kind)
  {
  case 'o':
  {
    auto it = img.find(op.path);
    if (it == img.end())
    {
      if (op.flags & O_CREAT) { img[op.path] = ""; return true; }
      return false;
    }
    if ((op.flags & O_TRUNC) && !it->second.empty()) { it->second.clear(); return true; }
    return false;
  }
  case 'w':
  {
    size_t n = std::min(nbytes, op.data.size());
    if (!n) return false;
    auto &f = img[op.path];
    if (f.size() < op.off + n) f.resize(op.off + n, '\0');
    memcpy(&f[op.off], op.data.data(), n);
    return true;
  }
  case 'r':
  {
    auto it = img.find(op.path);
    if (it == img.end()) return false;
    std::string d = std::move(it->second);
    img.erase(it);
    img[op.path2] = std::move(d);
    return true;
  }
  case 't':
  {
    auto it = img.find(op.path);
    if (it == img.end() || it->second.size() == op.off) return false;
    it->second.resize(op.off, '\0');
    return true;
  }
  case 'u': return img.erase(op.path) > 0;
  default: return false;
  }
}

std::string hx(const std::string &s) { return s.empty() ? std::string("-") : vf::hex(s); }
std::string unhx(const std::string &s) { return s == "-" ? std::string() : vf::unhex(s); }

// deadlines a history attaches to keys: (index of the first file operation of the call, absolute epoch ms)
using Deadlines = std::vector<std::pair<size_t, int64_t>>;

void writeTraceFile(const std::string &fn, const Trace &t, const Deadlines *dl = nullptr)
{
  Exempt e;
  FILE *f = fopen(fn.c_str(), "w");
  if (!f) { perror("trace out"); exit(3); }
  if (dl) for (auto &d : *dl) fprintf(f, "D %zu %" PRId64 "\n", d.first, d.second);
  for (auto &o : t)
    fprintf(f, "O %c %" PRIu64 " %" PRIu64 " %d %s %s %s\n", o.kind, o.tag, o.off, o.flags, hx(o.path).c_str(),
            hx(o.path2).c_str(), hx(o.data).c_str());
  fclose(f);
}
Trace readTraceFile(const std::string &fn)
{
  Exempt e;
  Trace t;
  std::string all = vf::readFile(fn);
  size_t pos = 0;
  while (pos < all.size())
  {
    size_t nl = all.find('\n', pos);
    if (nl == std::string::npos) nl = all.size();
    std::string line = all.substr(pos, nl - pos);
    pos = nl + 1;
    if (line.size() < 3 || line[0] != 'O') continue;
    std::istringstream is(line);
    std::string o, kind, p1, p2, d;
    Op x;
    is >> o >> kind >> x.tag >> x.off >> x.flags >> p1 >> p2 >> d;
    x.kind = kind[0]; x.path = unhx(p1); x.path2 = unhx(p2); x.data = unhx(d);
    t.push_back(std::move(x));
  }
  return t;
}

Deadlines readDeadlines(const std::string &fn)
{
  Exempt e;
  Deadlines dl;
  std::string all = vf::readFile(fn);
  size_t pos = 0;
  while (pos < all.size())
  {
    size_t nl = all.find('\n', pos);
    if (nl == std::string::npos) nl = all.size();
    if (all.compare(pos, 2, "D ") == 0)
    {
      unsigned long long a = 0; long long b = 0;
      if (sscanf(all.c_str() + pos, "D %llu %lld", &a, &b) == 2) dl.push_back({size_t(a), int64_t(b)});
    }
    pos = nl + 1;
  }
  return dl;
}

// ------------------------------------------------------------------------------ directories
void clearDir(const std::string &dir)
{
  Exempt e;
  DIR *d = opendir(dir.c_str());
  if (!d) return;
  while (struct dirent *en = readdir(d))
  {
    if (!strcmp(en->d_name, ".") || !strcmp(en->d_name, "..")) continue;
    syscall(SYS_unlinkat, AT_FDCWD, (dir + "/" + en->d_name).c_str(), 0);
  }
  closedir(d);
}
void writeImage(const std::string &dir, const Image &img)
{
  Exempt e;
  mkdir(dir.c_str(), 0700);
  clearDir(dir);
  for (auto &kv : img)
  {
    int fd = (int)syscall(SYS_openat, AT_FDCWD, (dir + "/" + kv.first).c_str(), O_CREAT | O_WRONLY | O_TRUNC, 0600);
    if (fd < 0) { perror("image write"); exit(3); }
    size_t off = 0;
    while (off < kv.second.size())
    {
      ssize_t n = syscall(SYS_write, fd, kv.second.data() + off, kv.second.size() - off);
      if (n <= 0) { perror("image write"); exit(3); }
      off += size_t(n);
    }
    syscall(SYS_close, fd);
  }
}
Image readImage(const std::string &dir)
{
  Exempt e;
  Image img;
  DIR *d = opendir(dir.c_str());
  if (!d) return img;
  while (struct dirent *en = readdir(d))
  {
    if (!strcmp(en->d_name, ".") || !strcmp(en->d_name, "..")) continue;
    img[en->d_name] = vf::readFile(dir + "/" + en->d_name);
  }
  closedir(d);
  return img;
}

std::string roleOf(const std::string &path)
{
  auto ends = [&](const char *s) { size_t n = strlen(s); return path.size() >= n && path.compare(path.size() - n, n, s) == 0; };
  if (ends(".log")) return "log";
  if (ends(".tmp")) return "tmp";
  return "main";
}

// per-operation summary for the oracle: kind, file role, length, tag, did-the-image-change
std::string opsJson(const Trace &t, Image img /* image before the first op */)
{
  std::string s = "[";
  for (size_t i = 0; i < t.size(); i++)
  {
    bool mod = applyOp(img, t[i]);
    char buf[256];
    snprintf(buf, sizeof buf, "%s{\"k\":\"%c\",\"f\":\"%s\",\"f2\":\"%s\",\"n\":%zu,\"tag\":%" PRIu64 ",\"mod\":%d,\"fl\":%d}",
             i ? "," : "", t[i].kind, roleOf(t[i].path).c_str(), t[i].path2.empty() ? "" : roleOf(t[i].path2).c_str(),
             t[i].kind == 'w' ? t[i].data.size() : size_t(t[i].off), t[i].tag, mod ? 1 : 0, t[i].flags);
    s += buf;
  }
  return s + "]";
}

// ------------------------------------------------------------------------------------ calls
struct Val { std::string bytes; };
struct CallRec
{
  int idx = 0;
  std::string kind;
  std::vector<std::string> keys;
  std::vector<std::string> vals;   // kv: raw bytes; json: "s:<text>" or "i:<int>"
  int64_t ttl = 0, when = 0, t0 = 0, t1 = 0;
  bool threw = false;
  std::string err;
  size_t opStart = 0, opEnd = 0;
};

// keys in JSON: hex; long keys (boundary-size histories use 64 KiB keys) as <hex of first 8 bytes>~<len>~<fnv64>
std::string keyEnc(const std::string &k)
{
  if (k.size() <= 256) return vf::hex(k);
  char buf[64];
  snprintf(buf, sizeof buf, "~%zu~%016" PRIx64, k.size(), vf::fnv(k));
  return vf::hex(k.substr(0, 8)) + buf;
}

std::string valJson(const std::string &v)
{
  char buf[64];
  snprintf(buf, sizeof buf, "{\"n\":%zu,\"h\":\"%016" PRIx64 "\"", v.size(), vf::fnv(v));
  std::string s = buf;
  if (v.size() <= 24) s += ",\"x\":\"" + vf::hex(v) + "\"";
  return s + "}";
}
std::string callJson(const CallRec &c, bool jsonStore)
{
  std::string s = "{\"i\":" + std::to_string(c.idx) + ",\"kind\":\"" + c.kind + "\",\"keys\":[";
  for (size_t i = 0; i < c.keys.size(); i++) s += (i ? "," : "") + std::string("\"") + keyEnc(c.keys[i]) + "\"";
  s += "],\"vals\":[";
  for (size_t i = 0; i < c.vals.size(); i++) s += (i ? "," : "") + (jsonStore ? vf::jstr(c.vals[i]) : valJson(c.vals[i]));
  s += "],\"ttl\":" + std::to_string(c.ttl) + ",\"when\":" + std::to_string(c.when) + ",\"t0\":" + std::to_string(c.t0) +
       ",\"t1\":" + std::to_string(c.t1) + ",\"threw\":" + (c.threw ? "true" : "false") + ",\"err\":" + vf::jstr(c.err) +
       ",\"ops\":[" + std::to_string(c.opStart) + "," + std::to_string(c.opEnd) + "]}";
  return s;
}
std::string callsJson(const std::vector<CallRec> &cs, bool jsonStore)
{
  std::string s = "[";
  for (size_t i = 0; i < cs.size(); i++) s += (i ? "," : "") + callJson(cs[i], jsonStore);
  return s + "]";
}

struct Runner
{
  std::vector<CallRec> calls;
  bool dead = false; // a (re)open threw: history cannot continue
  template <class F> void call(CallRec c, F &&f)
  {
    c.idx = int(calls.size());
    vf::shim::filePolicy().tag.store(uint64_t(c.idx));
    c.opStart = shimTraceSize();
    c.t0 = shimNowMs();
    try { f(); }
    catch (const std::exception &e) { c.threw = true; c.err = e.what(); }
    catch (...) { c.threw = true; c.err = "non-std exception"; }
    c.t1 = shimNowMs();
    c.opEnd = shimTraceSize();
    calls.push_back(std::move(c));
  }
};

// ------------------------------------------------------------------------------- KV runner
struct KvParams
{
  int variant = 0;        // 0: background compaction off + small maxLogSizeBytes (compaction runs inside API calls)
                          // 1: library defaults (explicit compact() only)
  uint32_t maxLog = 600;
  // TTL wheel tick. TimingWheel::stopTickThread() clears its flag without the condvar mutex, so a
  // store closed right after the wheel started can sit out one full tick (observed: ~1 s stalls in
  // 1-2 % of closes with the default 1000 ms). Wall time only; the forked children use 10 ms.
  uint32_t tickMs = 1000;
  // Empty values (--empty 1). Switchable because replaying one used to call memcpy(nullptr, p, 0) in
  // KVStore::load() (fatal UBSan report in the asan flavor, fixed in /repo 3914c93): a driver can confine
  // them to a few histories so such a report cannot blind the rest of the enumeration.
  bool allowEmpty = false;
  // Boundary-size histories (--sizes 1): keys of 1 / 255 / 256 / 65534 / 65535 (= MAX_KEY_LENGTH, inclusive) bytes
  // incl. binary ones, a 65536-byte key that set() must refuse, values of 0 / 1 / 255 / 256 / 65535 / 65536 bytes and
  // (recorded history only) ~300 KiB; log limit sized so that compaction puts such keys into the snapshot.
  bool sizes = false;
};

struct KvRunner : Runner
{
  std::string path;
  KvParams prm;
  int level = 0;
  vf::Rng rng;
  std::unique_ptr<KVStore> st;
  std::vector<std::string> universe;
  bool allowBig = true;

  KvRunner(const std::string &dir, KvParams p, int lvl, uint64_t seed, uint64_t stream)
      : path(dir + "/st"), prm(p), level(lvl), rng(seed, stream)
  {
    for (int i = 0; i < 5; i++) universe.push_back("k" + std::to_string(i));
    universe.push_back("p:a"); universe.push_back("p:b"); universe.push_back("p:c");
    universe.push_back(std::string("b\0\xff\x01z", 5));
    universe.push_back("long/" + std::string(180, 'L') + "/end");
    if (prm.sizes)
    {
      auto mk = [](size_t n, char fill, const char *tag) {
        std::string k = std::string(tag) + std::to_string(n) + "/";
        if (k.size() > n) k.resize(n);
        k.resize(n, fill);
        return k;
      };
      universe.clear();
      universe.push_back("a");                                   // 1 byte
      universe.push_back(std::string(1, '\0'));                  // 1 byte, NUL
      universe.push_back(mk(255, 'x', "K"));
      universe.push_back(mk(256, 'y', "K"));
      { std::string b = mk(255, '\xff', "B"); b[40] = '\0'; b[41] = '\0'; b[254] = '\0'; universe.push_back(b); } // binary
      universe.push_back(mk(65534, 'm', "K"));
      universe.push_back(mk(65535, 'M', "K"));                   // exactly MAX_KEY_LENGTH
      { std::string b = mk(65535, '\xff', "B"); b[100] = '\0'; b[65534] = '\0'; universe.push_back(b); }           // MAX, binary
      universe.push_back("k0"); universe.push_back("p:a");
    }
  }
  KVStoreConfig cfg() const
  {
    KVStoreConfig c;
    if (prm.variant == 0) { c.enableBackgroundCompaction = false; c.maxLogSizeBytes = prm.maxLog; }
    c.ttlTickDuration = std::chrono::milliseconds(prm.tickMs);
    return c;
  }
  void open()
  {
    CallRec c; c.kind = "open";
    call(c, [&] { st = std::make_unique<KVStore>(path, cfg()); });
    if (calls.back().threw) { dead = true; st.reset(); }
  }
  void close()
  {
    CallRec c; c.kind = "close";
    call(c, [&] { st.reset(); });
  }
  std::string mkValue(int callIdx, int j)
  {
    size_t len;
    uint64_t r = rng.below(100);
    if (prm.sizes)
    {
      static const size_t edge[] = {0, 1, 255, 256, 65535, 65536};
      if (r < 40) len = rng.range(1, 40);
      else if (r < 52) len = 0;
      else if (r < 62) len = 1;
      else if (r < 72) len = 255;
      else if (r < 82) len = 256;
      else if (r < 89) len = 65535;
      else if (r < 96) len = 65536;
      else len = allowBig ? size_t(rng.range(290000, 310000)) : edge[rng.below(6)];
      std::string v = "L" + std::to_string(level) + "." + std::to_string(callIdx) + "." + std::to_string(j) + "." +
                      std::to_string(rng.next() & 0xffffff) + "|";
      if (v.size() > len) { v.clear(); for (size_t i = 0; i < len; i++) v += char(rng.below(256)); return v; }
      v.reserve(len);
      while (v.size() < len) { uint64_t w = rng.next(); v.append(reinterpret_cast<const char *>(&w), std::min<size_t>(8, len - v.size())); }
      return v;
    }
    if (r < 6) len = prm.allowEmpty ? 0 : 1;
    else if (r < 62) len = rng.range(1, 24);
    else if (r < 88) len = rng.range(25, 200);
    else if (r < 96 || !allowBig) len = rng.range(201, 600);
    else if (r < 99) len = rng.range(1024, 1500);   // >= 1024: libstdc++ filebuf bypasses its buffer (writev)
    else len = rng.range(8200, 9500);               // larger than the filebuf
    std::string v = "L" + std::to_string(level) + "." + std::to_string(callIdx) + "." + std::to_string(j) + "." +
                    std::to_string(rng.next() & 0xffffff) + "|";
    if (v.size() > len)
    {
      // short values: random bytes (tag would not fit); collisions only make the oracle more lenient
      v.clear();
      for (size_t i = 0; i < len; i++) v += char(rng.below(256));
      return v;
    }
    while (v.size() < len) v += char(rng.below(256));
    return v;
  }
  static std::vector<uint8_t> bytes(const std::string &s) { return std::vector<uint8_t>(s.begin(), s.end()); }
  int64_t uniq(int j) const { return int64_t(level) * 500 + int64_t(calls.size()) * 5 + j; }
  // Deadlines: always far from the process's frozen "now" (>= 20000 s) and at least 50 s away from every other
  // deadline of the case; "short" ones (20050 s + ...) lie before the "long" ones (100000 s + ...), so an
  // expireAt can both extend and shorten the deadline a key already has.
  int64_t pickTtl(int j) { return (rng.chance(0.35) ? 20050 : 100000) + 200 * uniq(j); }
  std::set<std::string> ttlKeys; // keys this runner gave a deadline to (persist/expireAt prefer them)
  const std::string &pickExpiryKey()
  {
    if (!ttlKeys.empty() && rng.chance(0.7))
    {
      auto it = ttlKeys.begin();
      std::advance(it, long(rng.below(ttlKeys.size())));
      return *it;
    }
    return rng.pick(universe);
  }

  // one random API call (a "reopen" is two calls: close, open)
  void step(bool continuation)
  {
    if (dead || !st) return;
    if (prm.sizes && rng.chance(0.04))
    {
      // MAX_KEY_LENGTH + 1: must be refused (recorded as threw; if it is accepted it is an acknowledged write like any other)
      CallRec c;
      c.kind = "set-oversize"; c.keys = {"OVER/" + std::string(65536 - 5, 'o')}; c.vals = {mkValue(int(calls.size()), 0)};
      call(c, [&] { st->set(c.keys[0], bytes(c.vals[0])); });
      return;
    }
    uint64_t r = rng.below(100);
    const std::string &key = rng.pick(universe);
    int idx = int(calls.size());
    CallRec c;
    if (r < (continuation ? 38u : 30u))
    {
      c.kind = "set"; c.keys = {key}; c.vals = {mkValue(idx, 0)};
      call(c, [&] { st->set(c.keys[0], bytes(c.vals[0])); });
    }
    else if (r < 44)
    {
      c.kind = "setttl"; c.keys = {key}; c.vals = {mkValue(idx, 0)}; c.ttl = pickTtl(0);
      ttlKeys.insert(key);
      call(c, [&] { st->set(c.keys[0], bytes(c.vals[0]), std::chrono::seconds(c.ttl)); });
    }
    else if (r < 52)
    {
      bool ttl = rng.chance(0.3);
      c.kind = ttl ? "batchttl" : "batch";
      size_t n = rng.range(2, 4);
      std::unordered_map<std::string, std::vector<uint8_t>> b;
      for (size_t j = 0; j < n; j++)
      {
        const std::string &k = rng.pick(universe);
        if (b.count(k)) continue;
        std::string v = mkValue(idx, int(j));
        b[k] = bytes(v); c.keys.push_back(k); c.vals.push_back(v);
      }
      if (ttl)
      {
        c.ttl = pickTtl(0);
        for (auto &k : c.keys) ttlKeys.insert(k);
        call(c, [&] { st->setBatch(b, std::chrono::seconds(c.ttl)); });
      }
      else call(c, [&] { st->setBatch(b); });
    }
    else if (r < 63)
    {
      c.kind = "remove"; c.keys = {key};
      call(c, [&] { st->remove(c.keys[0]); });
    }
    else if (r < 72)
    {
      c.kind = "expireat"; c.keys = {pickExpiryKey()}; c.when = shimNowMs() + (pickTtl(0) + 100) * 1000;
      ttlKeys.insert(c.keys[0]);
      call(c, [&] { st->expireAt(c.keys[0], std::chrono::system_clock::time_point(std::chrono::milliseconds(c.when))); });
    }
    else if (r < 79)
    {
      c.kind = "persist"; c.keys = {pickExpiryKey()};
      call(c, [&] { st->persist(c.keys[0]); });
    }
    else if (r < 82)
    {
      c.kind = "clear";
      call(c, [&] { st->clear(); });
    }
    else if (r < 84)
    {
      c.kind = "rmprefix"; c.keys = {"p:"};
      call(c, [&] { st->removeWithPrefix("p:"); });
    }
    else if (r < 91)
    {
      c.kind = "compact";
      call(c, [&] { st->compact(); });
    }
    else if (r < 93)
    {
      c.kind = "flush";
      call(c, [&] { st->flush(); });
    }
    else
    {
      close();
      open();
    }
  }

  std::string dump()
  {
    std::vector<std::string> keys = st->keys();
    std::sort(keys.begin(), keys.end());
    int64_t n0 = shimNowMs();
    std::string s;
    for (size_t i = 0; i < keys.size(); i++)
    {
      auto v = st->get(keys[i]);
      auto t = st->ttl(keys[i]);
      std::string val = v ? std::string(v->begin(), v->end()) : std::string();
      s += (i ? "," : "") + std::string("{\"k\":\"") + keyEnc(keys[i]) + "\",\"v\":" + valJson(val) +
           ",\"ttl\":" + (t ? std::to_string(t->count()) : std::string("null")) + (v ? "" : ",\"miss\":true") + "}";
    }
    int64_t n1 = shimNowMs();
    return "{\"now0\":" + std::to_string(n0) + ",\"now1\":" + std::to_string(n1) + ",\"size\":" + std::to_string(st->size()) +
           ",\"keys\":[" + s + "]}";
  }
};

// ----------------------------------------------------------------------------- JSON runner
struct JsRunner : Runner
{
  std::string path;
  int level = 0;
  vf::Rng rng;
  std::unique_ptr<JsonFileStore> st;
  std::vector<std::string> universe;

  JsRunner(const std::string &dir, int lvl, uint64_t seed, uint64_t stream) : path(dir + "/js.json"), level(lvl), rng(seed, stream)
  {
    for (int i = 0; i < 8; i++) universe.push_back("j" + std::to_string(i));
    universe.push_back("a key with spaces");
    universe.push_back("nested.like/key-9");
  }
  void open()
  {
    CallRec c; c.kind = "open";
    call(c, [&] { st = std::make_unique<JsonFileStore>(path); });
    if (calls.back().threw) { dead = true; st.reset(); }
  }
  void close()
  {
    CallRec c; c.kind = "close"; // destructor flushes
    call(c, [&] { st.reset(); });
  }
  std::string mkText(int callIdx)
  {
    static const char *alpha = "abcdefghijklmnopqrstuvwxyzABCDEFGHIJKLMNOPQRSTUVWXYZ0123456789 _.-:/";
    size_t len;
    uint64_t r = rng.below(100);
    if (r < 70) len = rng.range(0, 40);
    else if (r < 94) len = rng.range(41, 400);
    else len = rng.range(3000, 9500); // pushes a flush over the filebuf size: several writes per flush
    std::string v = "L" + std::to_string(level) + "." + std::to_string(callIdx) + "." + std::to_string(rng.next() & 0xffff) + " ";
    if (v.size() > len) v.resize(len);
    while (v.size() < len) v += alpha[rng.below(strlen(alpha))];
    return v;
  }
  void step(bool continuation)
  {
    if (dead || !st) return;
    uint64_t r = rng.below(100);
    const std::string &key = rng.pick(universe);
    int idx = int(calls.size());
    CallRec c;
    if (r < 40)
    {
      c.kind = "set"; c.keys = {key}; c.vals = {"s:" + mkText(idx)};
      call(c, [&] { st->set(c.keys[0], c.vals[0].substr(2)); });
    }
    else if (r < 50)
    {
      long long n = (long long)rng.below(2000000000ull) - 1000000000ll;
      c.kind = "set"; c.keys = {key}; c.vals = {"i:" + std::to_string(n)};
      call(c, [&] { st->set<long long>(c.keys[0], n); });
    }
    else if (r < 62)
    {
      c.kind = "remove"; c.keys = {key};
      call(c, [&] { st->remove(c.keys[0]); });
    }
    else if (r < (continuation ? 90u : 92u))
    {
      c.kind = "flush";
      call(c, [&] { st->flush(); });
    }
    else
    {
      close();
      open();
    }
  }
  std::string dump()
  {
    std::string s;
    bool first = true;
    for (auto &k : universe)
    {
      std::string enc;
      auto sv = st->get<std::string>(k);
      if (sv) enc = "s:" + *sv;
      else
      {
        auto iv = st->get<long long>(k);
        if (iv) enc = "i:" + std::to_string(*iv);
        else continue;
      }
      s += (first ? "" : ",") + std::string("{\"k\":\"") + vf::hex(k) + "\",\"v\":" + vf::jstr(enc) + "}";
      first = false;
    }
    return "{\"keys\":[" + s + "]}";
  }
};

// JsonFileStore::unregisterStore() sets shouldExit and notifies without holding the mutex the flusher
// waits under; when the last store of a process is destroyed while the flusher thread is between its
// flag check and wait_for(), the destructor blocks for a whole flush interval (seen here as a child that
// never finished with the interval at 1 h). Not a C11 matter: keep one never-dirty, never-destroyed store
// outside the case directory so the registry never empties, and leave the process with _exit().
void anchorJsonRegistry(const std::string &besideDir)
{
  static JsonFileStore *anchor = nullptr;
  if (!anchor) anchor = new JsonFileStore(besideDir + "-anchor.json");
}

void quietIora()
{
  iora::core::Logger::setLevel(iora::core::Logger::Level::Fatal);
  JsonFileStore::setFlushInterval(std::chrono::milliseconds(3600 * 1000)); // background flusher never fires
}

void armRecording(const std::string &dir)
{
  auto &p = vf::shim::filePolicy();
  std::lock_guard<std::mutex> g(p.m);
  p.prefix = dir + "/";
  p.trace.clear();
  p.fdPath.clear();
  p.fdFlags.clear();
  p.recording = true;
}
void stopRecording()
{
  auto &p = vf::shim::filePolicy();
  std::lock_guard<std::mutex> g(p.m);
  p.recording = false;
}

// ================================================================================== record
int modeRecord(const vf::Args &A)
{
  auto &O = vf::out();
  const bool js = A.s("store", "kv") == "json";
  const uint64_t seed = A.u("seed", 1), hist = A.u("hist", 0);
  const int nops = int(A.u("nops", 20));
  const std::string dir = A.s("dir");
  { Exempt e; mkdir(dir.c_str(), 0700); clearDir(dir); }
  freezeAtMs(T0_MS);
  armRecording(dir);

  std::string meta, calls;
  Deadlines deadlines;
  KvParams prm;
  if (!js)
  {
    prm.variant = int(A.u("variant", 0));
    prm.maxLog = uint32_t(A.u("maxlog", 600));
    prm.allowEmpty = A.u("empty", 0) != 0;
    prm.sizes = A.u("sizes", 0) != 0;
    KvRunner R(dir, prm, 0, seed, hist * 7 + 1);
    R.open();
    if (prm.sizes && !R.dead)
    {
      // deterministic prologue: every boundary-size key is written, then a compaction moves all of them into
      // the snapshot; the seeded part of the history (and every crash image after this point) starts from there
      for (auto &k : R.universe)
      {
        CallRec c; c.kind = "set"; c.keys = {k}; c.vals = {R.mkValue(int(R.calls.size()), 0)};
        R.call(c, [&] { R.st->set(c.keys[0], KvRunner::bytes(c.vals[0])); });
      }
      CallRec c; c.kind = "compact";
      R.call(c, [&] { R.st->compact(); });
    }
    for (int i = 0; i < nops && !R.dead; i++) R.step(false);
    if (R.st) R.close();
    calls = callsJson(R.calls, false);
    for (auto &c : R.calls)
    {
      if (c.threw) continue;
      if (c.kind == "setttl" || c.kind == "batchttl") deadlines.push_back({c.opStart, c.t0 + c.ttl * 1000});
      if (c.kind == "expireat") deadlines.push_back({c.opStart, c.when});
    }
    for (auto &c : R.calls) { O.obs("kv_rec_calls"); O.obs("kv_rec_call_" + c.kind); if (c.threw) O.obs("kv_rec_call_threw"); }
  }
  else
  {
    anchorJsonRegistry(dir);
    JsRunner R(dir, 0, seed, hist * 7 + 2);
    R.open();
    for (int i = 0; i < nops && !R.dead; i++) R.step(false);
    if (R.st) R.close();
    calls = callsJson(R.calls, true);
    for (auto &c : R.calls) { O.obs("json_rec_calls"); O.obs("json_rec_call_" + c.kind); if (c.threw) O.obs("json_rec_call_threw"); }
  }
  stopRecording();
  Trace t = takeShimTrace(dir + "/");
  writeTraceFile(A.s("trace"), t, &deadlines);

  // self-check of the machinery: replaying the whole trace must reproduce the directory exactly
  Image img;
  for (auto &o : t) applyOp(img, o);
  Image disk = readImage(dir);
  bool same = img == disk;
  if (same) O.obs("replay_selfcheck_ok");
  else
  {
    std::string d = "files(replayed)=";
    for (auto &kv : img) d += kv.first + ":" + std::to_string(kv.second.size()) + " ";
    d += "files(disk)=";
    for (auto &kv : disk) d += kv.first + ":" + std::to_string(kv.second.size()) + " ";
    O.inconclusive("trace replay does not reproduce the directory (seed " + std::to_string(seed) + " hist " + std::to_string(hist) + "): " + d);
  }
  size_t writes = 0;
  for (auto &o : t) if (o.kind == 'w') writes++;
  O.obs(js ? "json_rec_file_ops" : "kv_rec_file_ops", t.size());
  O.obs(js ? "json_rec_writes" : "kv_rec_writes", writes);

  {
    Exempt e;
    FILE *f = fopen(A.s("log").c_str(), "w");
    if (!f) { perror("log out"); return 3; }
    fprintf(f, "{\"store\":\"%s\",\"seed\":%" PRIu64 ",\"hist\":%" PRIu64 ",\"variant\":%d,\"maxlog\":%u,\"sizes\":%d,\"nops\":%d,\"selfcheck\":%s,\n\"calls\":%s,\n\"ops\":%s}\n",
            js ? "json" : "kv", seed, hist, prm.variant, prm.maxLog, prm.sizes ? 1 : 0, nops, same ? "true" : "false", calls.c_str(),
            opsJson(t, Image()).c_str());
    fclose(f);
  }
  O.flush();
  fflush(nullptr);
  _exit(0); // the anchored JsonFileStore (and its flusher thread) is never torn down
}

// =================================================================================== judge
struct ChildCfg
{
  bool js = false;
  KvParams prm;
  uint64_t seed = 1, stream = 0;
  int level = 1;
  int contOps = 4;
  int64_t recoverAtMs = T0_MS; // the child's frozen wall clock
  std::string imgDir, resPath, tracePath; // tracePath empty: do not keep the continuation trace
};

struct ResFile
{
  int fd = -1;
  explicit ResFile(const std::string &p) { fd = (int)syscall(SYS_openat, AT_FDCWD, p.c_str(), O_CREAT | O_WRONLY | O_TRUNC, 0600); }
  void line(const std::string &s)
  {
    std::string l = s + "\n";
    size_t off = 0;
    while (off < l.size()) { ssize_t n = syscall(SYS_write, fd, l.data() + off, l.size() - off); if (n <= 0) break; off += size_t(n); }
  }
};

// runs in the forked child; never returns
[[noreturn]] void childMain(const ChildCfg &C, const Image &img)
{
  const double tStart = vf::nowMs();
  freezeAtMs(C.recoverAtMs);
  armRecording(C.imgDir);
  ResFile R(C.resPath);
  auto openLine = [&](const char *sec, const CallRec &c) {
    R.line(std::string("{\"sec\":\"") + sec + "\",\"threw\":" + (c.threw ? "true" : "false") + ",\"err\":" + vf::jstr(c.err) +
           ",\"ms\":" + std::to_string(vf::nowMs() - tStart) + "}");
  };
  auto finishCont = [&](Runner &run, bool js) {
    Trace t = takeShimTrace(C.imgDir + "/");
    R.line("{\"sec\":\"cont\",\"calls\":" + callsJson(run.calls, js) + ",\"ops\":" + opsJson(t, img) + "}");
    if (!C.tracePath.empty()) writeTraceFile(C.tracePath, t);
  };
  if (!C.js)
  {
    KvRunner run(C.imgDir, C.prm, C.level, C.seed, C.stream);
    run.allowBig = false;
    run.open();
    openLine("open", run.calls.back());
    if (run.dead) _exit(0);
    R.line("{\"sec\":\"d0\",\"dump\":" + run.dump() + "}");
    for (int i = 0; i < C.contOps && !run.dead; i++) run.step(true);
    if (run.st) run.close();
    finishCont(run, false);
    stopRecording();
    if (!run.dead)
    {
      run.open();
      openLine("reopen", run.calls.back());
      if (!run.dead)
      {
        R.line("{\"sec\":\"d1\",\"dump\":" + run.dump() + "}");
        run.st.reset();
      }
    }
  }
  else
  {
    anchorJsonRegistry(C.imgDir);
    JsRunner run(C.imgDir, C.level, C.seed, C.stream);
    run.open();
    openLine("open", run.calls.back());
    if (run.dead) _exit(0);
    R.line("{\"sec\":\"d0\",\"dump\":" + run.dump() + "}");
    for (int i = 0; i < C.contOps && !run.dead; i++) run.step(true);
    if (run.st) run.close();
    finishCont(run, true);
    stopRecording();
    {
      Exempt e;
      std::string raw = vf::readFile(run.path);
      R.line("{\"sec\":\"file\",\"hex\":\"" + vf::hex(raw) + "\"}");
    }
    if (!run.dead)
    {
      run.open();
      openLine("reopen", run.calls.back());
      if (!run.dead)
      {
        R.line("{\"sec\":\"d1\",\"dump\":" + run.dump() + "}");
        run.st.reset();
      }
    }
  }
  R.line("{\"sec\":\"end\",\"ms\":" + std::to_string(vf::nowMs() - tStart) + "}");
  _exit(0);
}

struct ChildOutcome { std::string status; std::string sections; double ms = 0; };

ChildOutcome runChild(const ChildCfg &C, const Image &img, uint64_t timeoutMs)
{
  ChildOutcome out;
  { Exempt e; syscall(SYS_unlinkat, AT_FDCWD, C.resPath.c_str(), 0); if (!C.tracePath.empty()) syscall(SYS_unlinkat, AT_FDCWD, C.tracePath.c_str(), 0); }
  fflush(nullptr);
  double t0 = vf::nowMs();
  pid_t pid = fork();
  if (pid < 0) { perror("fork"); exit(3); }
  if (pid == 0) childMain(C, img);
  int st = 0;
  bool done = false;
  while (!done)
  {
    pid_t r = waitpid(pid, &st, WNOHANG);
    if (r == pid) { done = true; break; }
    double el = vf::nowMs() - t0;
    if (el > double(timeoutMs)) break;
    vf::sleepMs(el < 3 ? 0.05 : (el < 50 ? 0.3 : 2.0));
  }
  if (!done)
  {
    kill(pid, SIGKILL);
    waitpid(pid, &st, 0);
    out.status = "hung";
  }
  else if (WIFEXITED(st)) out.status = WEXITSTATUS(st) == 0 ? "ok" : "exit:" + std::to_string(WEXITSTATUS(st));
  else if (WIFSIGNALED(st)) out.status = "signal:" + std::to_string(WTERMSIG(st));
  else out.status = "unknown";
  out.ms = vf::nowMs() - t0;
  // collect complete result lines only
  std::string raw;
  { Exempt e; raw = vf::readFile(C.resPath); }
  size_t pos = 0;
  bool first = true;
  while (pos < raw.size())
  {
    size_t nl = raw.find('\n', pos);
    if (nl == std::string::npos) break; // incomplete last line: drop
    if (nl > pos + 1 && raw[pos] == '{' && raw[nl - 1] == '}')
    {
      out.sections += (first ? "" : ",") + raw.substr(pos, nl - pos);
      first = false;
    }
    pos = nl + 1;
  }
  return out;
}

// Used only to NAME the cut class (is the image's log left with an incomplete record at its end?),
// never for a verdict: walk the length prefixes of the .log file.
bool logHasTornTail(const Image &img)
{
  for (auto &kv : img)
  {
    if (roleOf(kv.first) != "log") continue;
    const std::string &d = kv.second;
    size_t pos = 0;
    while (pos < d.size())
    {
      if (pos + 4 > d.size()) return true;
      uint32_t len = 0;
      memcpy(&len, d.data() + pos, 4);
      if (len < 10 || len > 100u * 1024 * 1024) return true;
      if (pos + 4 + size_t(len) > d.size()) return true;
      pos += 4 + size_t(len);
    }
  }
  return false;
}

uint32_t rd32(const std::string &d, size_t pos)
{
  uint32_t v = 0;
  if (pos + 4 <= d.size()) memcpy(&v, d.data() + pos, 4);
  return v;
}

// byte offsets inside one write at which to cut (0 < b < L)
std::vector<size_t> byteCuts(const Op &op, bool everyByte, size_t maxFull, size_t cap, vf::Rng &rng, bool &wasFull)
{
  const size_t L = op.data.size();
  std::vector<size_t> res;
  wasFull = false;
  if (L <= 1) { wasFull = true; return res; }
  if (everyByte && L <= maxFull)
  {
    for (size_t b = 1; b < L; b++) res.push_back(b);
    wasFull = true;
    return res;
  }
  std::vector<size_t> cand = {1, L - 1};
  std::string role = roleOf(op.path);
  if (role == "log")
  {
    // one write normally carries one record: len(4) op(1) keyLen(4) key [expiry(8)] [valLen(4) value] crc(4)
    cand.push_back(4); cand.push_back(L - 4);
    uint32_t keyLen = rd32(op.data, 5);
    size_t afterKey = 9 + size_t(keyLen);
    if (afterKey < L) cand.push_back(afterKey);
    cand.push_back(5); cand.push_back(9);
    if (afterKey + 8 < L) cand.push_back(afterKey + 8);
    if (afterKey + 12 < L) cand.push_back(afterKey + 12);
    cand.push_back(3); cand.push_back(2);
  }
  else if (role == "tmp" || (role == "main" && !op.data.empty() && op.data[0] != '{'))
  {
    cand.push_back(8); cand.push_back(12); cand.push_back(4); cand.push_back(16); cand.push_back(L / 2);
  }
  else
  {
    cand.push_back(2); cand.push_back(L - 2); cand.push_back(L / 2); cand.push_back(L / 3);
  }
  size_t structured = std::min(cap > 2 ? cap - 2 : cap, cand.size());
  std::set<size_t> seen;
  for (size_t i = 0; i < cand.size() && res.size() < structured; i++)
    if (cand[i] > 0 && cand[i] < L && seen.insert(cand[i]).second) res.push_back(cand[i]);
  for (int tries = 0; tries < 32 && res.size() < cap && seen.size() < L - 1; tries++)
  {
    size_t b = 1 + rng.below(L - 1);
    if (seen.insert(b).second) res.push_back(b);
  }
  std::sort(res.begin(), res.end());
  return res;
}

int modeJudge(const vf::Args &A)
{
  auto &O = vf::out();
  ChildCfg base;
  base.js = A.s("store", "kv") == "json";
  base.prm.variant = int(A.u("variant", 0));
  base.prm.maxLog = uint32_t(A.u("maxlog", 600));
  base.prm.tickMs = uint32_t(A.u("tick-ms", 10));
  base.prm.allowEmpty = A.u("empty", 0) != 0;
  base.prm.sizes = A.u("sizes", 0) != 0;
  base.seed = A.u("seed", 1);
  const uint64_t hist = A.u("hist", 0);
  base.contOps = int(A.u("cont", 4));
  const std::string dir = A.s("dir");
  const bool everyByte = A.s("cuts", "quick") == "full";
  const size_t maxFull = A.u("maxfull", 256);
  const size_t cap = A.u("cap", everyByte ? 24 : 8);
  const int levels = int(A.u("levels", 1));
  const int l2cuts = int(A.u("l2cuts", 3));
  const uint64_t l2every = std::max<uint64_t>(1, A.u("l2every", 1)); // crash the continuation of every n-th image
  const uint64_t timeoutMs = A.u("timeout-ms", 30000);
  const std::string pre = base.js ? "json_" : "kv_";
  // --only k:b[:k2:b2]
  long onlyK = -1, onlyB = -1, onlyK2 = -1, onlyB2 = -1;
  if (A.has("only")) sscanf(A.s("only").c_str(), "%ld:%ld:%ld:%ld", &onlyK, &onlyB, &onlyK2, &onlyB2);
  const int64_t onlyR = A.has("only-r") ? int64_t(A.u("only-r", 0)) : -1;
  // time of recovery: besides "at the crash instant" (T0), operation-boundary images are recovered at up to
  // --tcap instants taken from {D-1 ms, D, D+1 ms : D a deadline the history had attached to a key by then
  // (also superseded ones)} + {one day after the last}; byte-cut images get one such instant with
  // probability --tbyte/1000.
  const size_t tcap = A.u("tcap", 10);
  const uint64_t tbyte = A.u("tbyte", 333);
  const Deadlines DL = readDeadlines(A.s("trace"));

  Trace T = readTraceFile(A.s("trace"));
  FILE *obs;
  { Exempt e; obs = fopen(A.s("obs").c_str(), "w"); }
  if (!obs) { perror("obs out"); return 3; }
  { Exempt e; mkdir(dir.c_str(), 0700); }
  base.imgDir = dir + "/img";
  base.resPath = dir + "/res.jsonl";
  vf::Rng cutRng(base.seed, hist * 7 + 3);
  freezeAtMs(T0_MS);
  quietIora();

  uint64_t nTimeVariants = 0;
  uint64_t nImages = 0, nL2 = 0, writesTotal = 0, writesFull = 0, boundaries = 0, skippedSame = 0, byteImages = 0;
  uint64_t nHung = 0; // children killed by the watchdog; after 3 the enumeration of this history stops (each costs a full
                      // watchdog period; the driver re-runs those images in isolation and only a reproduced hang is a verdict)
  const uint64_t maxHung = A.u("max-hung", 3);
  double childMsMax = 0, childMsSum = 0;

  auto judgeImageAt = [&](const Image &img, size_t k, size_t b, int64_t R) {
    if (onlyK >= 0 && (long(k) != onlyK || long(b) != onlyB)) return;
    if (onlyR >= 0 && R != onlyR) return;
    if (nHung >= maxHung) return;
    ChildCfg C = base;
    C.level = 1;
    C.recoverAtMs = R;
    C.stream = ((hist * 100003 + k) * 4099 + b + 11) ^ (R == T0_MS ? 0 : vf::shim::mix(uint64_t(R)));
    bool wantL2 = levels >= 2 && (onlyK2 >= 0 || (nImages % l2every) == 0);
    C.tracePath = wantL2 ? dir + "/trace2" : "";
    writeImage(C.imgDir, img);
    ChildOutcome r = runChild(C, img, timeoutMs);
    nImages++;
    if (r.status == "hung") nHung++;
    childMsSum += r.ms; if (r.ms > childMsMax) childMsMax = r.ms;
    fprintf(obs, "{\"lvl\":1,\"k\":%zu,\"b\":%zu,\"R\":%" PRId64 ",\"torn\":%d,\"st\":\"%s\",\"res\":[%s]}\n", k, b, R,
            logHasTornTail(img) ? 1 : 0, r.status.c_str(), r.sections.c_str());
    if (!wantL2 || r.status != "ok") return;
    // second level: crash the continuation of this image
    Trace T2;
    T2 = readTraceFile(C.tracePath);
    if (T2.empty()) return;
    std::vector<std::pair<size_t, size_t>> cuts2;
    if (onlyK2 >= 0) cuts2.push_back({size_t(onlyK2), size_t(onlyB2)});
    else
    {
      std::vector<size_t> wr;
      for (size_t i = 0; i < T2.size(); i++) if (T2[i].kind == 'w' && T2[i].data.size() > 1) wr.push_back(i);
      for (int c = 0; c < l2cuts; c++)
      {
        if (!wr.empty() && (c % 2 == 0))
        {
          size_t w = wr[cutRng.below(wr.size())];
          cuts2.push_back({w, 1 + cutRng.below(T2[w].data.size() - 1)});
        }
        else cuts2.push_back({1 + cutRng.below(T2.size()), 0});
      }
    }
    for (auto &c2 : cuts2)
    {
      Image img2 = img;
      for (size_t i = 0; i < c2.first && i < T2.size(); i++) applyOp(img2, T2[i]);
      if (c2.second && c2.first < T2.size()) applyOp(img2, T2[c2.first], c2.second);
      ChildCfg G = base;
      G.level = 2;
      G.recoverAtMs = R; // the second crash is recovered at the same instant the first recovery ran at
      G.stream = C.stream * 31 + c2.first * 131 + c2.second + 5;
      G.tracePath = "";
      writeImage(G.imgDir, img2);
      ChildOutcome r2 = runChild(G, img2, timeoutMs);
      nL2++;
      if (r2.status == "hung") nHung++;
      childMsSum += r2.ms; if (r2.ms > childMsMax) childMsMax = r2.ms;
      fprintf(obs, "{\"lvl\":2,\"k\":%zu,\"b\":%zu,\"k2\":%zu,\"b2\":%zu,\"R\":%" PRId64 ",\"torn\":%d,\"st\":\"%s\",\"res\":[%s]}\n", k, b,
              c2.first, c2.second, R, logHasTornTail(img2) ? 1 : 0, r2.status.c_str(), r2.sections.c_str());
      if (nHung >= maxHung) break;
    }
  };

  auto judgeImage = [&](const Image &img, size_t k, size_t b) {
    judgeImageAt(img, k, b, T0_MS);
    if (base.js) return;
    // candidate instants from the deadlines of calls that had started by operation k
    std::set<int64_t> ds;
    for (auto &d : DL) if (d.first <= k) ds.insert(d.second);
    if (ds.empty()) return;
    std::vector<int64_t> cand;
    for (int64_t d : ds) { cand.push_back(d - 1); cand.push_back(d); cand.push_back(d + 1); }
    cand.push_back(*ds.rbegin() + 86400000ll);
    if (onlyR >= 0) { if (onlyR != T0_MS) { nTimeVariants++; judgeImageAt(img, k, b, onlyR); } return; }
    size_t want = b == 0 ? tcap : (cutRng.below(1000) < tbyte ? 1 : 0);
    for (size_t i = 0; i < want && !cand.empty(); i++)
    {
      size_t j = cutRng.below(cand.size());
      int64_t R = cand[j];
      cand.erase(cand.begin() + long(j));
      nTimeVariants++;
      judgeImageAt(img, k, b, R);
    }
  };

  Image img;
  bool lastChanged = true;
  for (size_t k = 0; k <= T.size(); k++)
  {
    if (k == 0 || lastChanged) { boundaries++; judgeImage(img, k, 0); }
    else skippedSame++;
    if (k == T.size()) break;
    if (T[k].kind == 'w')
    {
      bool wasFull = false;
      writesTotal++;
      auto cuts = byteCuts(T[k], everyByte, maxFull, cap, cutRng, wasFull);
      if (wasFull) writesFull++;
      for (size_t b : cuts)
      {
        Image im2 = img;
        applyOp(im2, T[k], b);
        byteImages++;
        judgeImage(im2, k, b);
      }
    }
    lastChanged = applyOp(img, T[k]);
  }
  { Exempt e; fclose(obs); clearDir(base.imgDir); rmdir(base.imgDir.c_str()); }
  O.obs(pre + "images_level1", nImages);
  O.obs(pre + "images_level2", nL2);
  O.obs(pre + "images_recovered_at_a_deadline_instant", nTimeVariants);
  O.obs(pre + "boundary_images", boundaries);
  O.obs(pre + "byte_cut_images", byteImages);
  O.obs(pre + "boundaries_identical_to_previous_image", skippedSame);
  O.obs(pre + "writes_total", writesTotal);
  O.obs(pre + "writes_cut_at_every_byte", writesFull);
  O.obsMax(pre + "child_ms_max", uint64_t(childMsMax));
  O.line("{\"t\":\"judge\",\"store\":\"" + std::string(base.js ? "json" : "kv") + "\",\"hist\":" + std::to_string(hist) +
         ",\"ops\":" + std::to_string(T.size()) + ",\"images\":" + std::to_string(nImages) + ",\"images2\":" + std::to_string(nL2) +
         ",\"time_variants\":" + std::to_string(nTimeVariants) + ",\"boundaries\":" + std::to_string(boundaries) + ",\"byte_images\":" + std::to_string(byteImages) +
         ",\"writes\":" + std::to_string(writesTotal) + ",\"writes_full\":" + std::to_string(writesFull) +
         ",\"hung\":" + std::to_string(nHung) + ",\"stopped_early\":" + (nHung >= maxHung ? "1" : "0") +
         ",\"child_ms_avg\":" + std::to_string(nImages + nL2 ? childMsSum / double(nImages + nL2) : 0.0) + "}");
  O.flush();
  return 0;
}

} // namespace

int64_t c11clk::nowNs()
{
  int64_t f = g_frozenNs.load(std::memory_order_relaxed);
  if (f) return f;
  struct timespec ts;
  clock_gettime(CLOCK_REALTIME, &ts);
  return int64_t(ts.tv_sec) * 1000000000ll + ts.tv_nsec;
}

int main(int argc, char **argv)
{
  vf::Args A(argc, argv);
  quietIora();
  std::string mode = A.s("mode");
  if (mode == "record") return modeRecord(A);
  if (mode == "judge") return modeJudge(A);
  fprintf(stderr, "usage: c11_crash --mode record|judge --store kv|json ...\n");
  return 2;
}
