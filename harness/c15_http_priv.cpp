// /verif/harness/c15_http_priv.cpp — optional C15 build with -fno-access-control -DC15_PRIV=1:
// adds --mode client-inproc (direct calls of HttpClient::frameResponse with exact segmentations).
// A compile failure of this TU only skips that sub-run (lib/props/c15.py), it never fails the check.
// lib/props/c15.py passes -DC15_SRC_HASH=<sha of c15_http.cpp> so that the build cache sees edits there.
#ifndef C15_PRIV
#define C15_PRIV 1
#endif
#include "c15_http.cpp"
