// C07 harness: executes cells of the TLS configuration matrix for real and reports what was
// observed. It decides nothing: the expected outcome of a cell is computed in Python
// (lib/props/c07.py) from the cell's coordinates; this driver only
//   - configures the iora side (Transport client / Transport server / HttpClient / HttpServer)
//     exactly as the cell says,
//   - runs an *independent* peer written directly against libssl (own SSL_CTX, own verify
//     settings, own version limits), or a plaintext peer, or a garbage peer,
//   - puts an intercepting TCP relay between the two that records both directions, and
//   - prints one JSON line per cell: iora's callbacks / return values, the peer's own report
//     (negotiated version, client certificate seen, bytes it decrypted), the relay's capture
//     summary (is a 32-byte application token visible in clear, in which direction).
//
// modes:  --mode pki --dir D                       generate the PKI into D
//         --mode cells --pki D --cells FILE        run the cells listed in FILE (one per line,
//                                                  space separated key=value)
#define VF_SHIM_RESOLVE
#include "shim/shims.hpp"
#include "vf.hpp"
#include "c07_pki.hpp"

#include <iora/network/http_client.hpp>
#include <iora/network/http_server.hpp>

#include <openssl/err.h>
#include <openssl/ssl.h>

#include <arpa/inet.h>
#include <netinet/in.h>
#include <netinet/tcp.h>
#include <poll.h>
#include <signal.h>
#include <sys/socket.h>
#include <sys/stat.h>

#include <fstream>
#include <functional>
#include <memory>
#include <set>

using namespace iora::network;
using std::string;

// ============================================================================== small helpers
struct Cell
{
  std::map<string, string> kv;
  string s(const string &k, const string &d = "") const { auto it = kv.find(k); return it == kv.end() ? d : it->second; }
  long n(const string &k, long d = 0) const { auto it = kv.find(k); return it == kv.end() ? d : strtol(it->second.c_str(), nullptr, 10); }
  bool is(const string &k, const string &v) const { return s(k) == v; }
  string file(const string &k) const { string v = s(k, "-"); return v == "-" ? string() : v; }
};

static c07::Pki g_pki;
static uint64_t g_seed = 1;

static int protoOf(long v)
{
  switch (v)
  {
  case 10: return TLS1_VERSION;
  case 11: return TLS1_1_VERSION;
  case 12: return TLS1_2_VERSION;
  case 13: return TLS1_3_VERSION;
  default: return 0;
  }
}

static string makeToken(vf::Rng &r)
{
  static const char al[] = "ABCDEFGHIJKLMNOPQRSTUVWXYZabcdefghijklmnopqrstuvwxyz0123456789";
  string t;
  for (int i = 0; i < 32; i++) t += al[r.below(sizeof(al) - 1)];
  return t;
}

static void setTimeouts(int fd, int ms)
{
  timeval tv{ms / 1000, (ms % 1000) * 1000};
  setsockopt(fd, SOL_SOCKET, SO_RCVTIMEO, &tv, sizeof tv);
  setsockopt(fd, SOL_SOCKET, SO_SNDTIMEO, &tv, sizeof tv);
  int one = 1;
  setsockopt(fd, IPPROTO_TCP, TCP_NODELAY, &one, sizeof one);
}

static int listenLoopback(uint16_t &port)
{
  int fd = ::socket(AF_INET, SOCK_STREAM | SOCK_CLOEXEC, 0);
  if (fd < 0) return -1;
  sockaddr_in a{};
  a.sin_family = AF_INET;
  a.sin_addr.s_addr = htonl(INADDR_LOOPBACK);
  a.sin_port = 0; // the kernel picks
  if (::bind(fd, (sockaddr *)&a, sizeof a) != 0 || ::listen(fd, 16) != 0) { ::close(fd); return -1; }
  socklen_t l = sizeof a;
  getsockname(fd, (sockaddr *)&a, &l);
  port = ntohs(a.sin_port);
  return fd;
}

static int connectLoopback(uint16_t port, int timeoutMs)
{
  int fd = ::socket(AF_INET, SOCK_STREAM | SOCK_CLOEXEC, 0);
  if (fd < 0) return -1;
  setTimeouts(fd, timeoutMs);
  sockaddr_in a{};
  a.sin_family = AF_INET;
  a.sin_addr.s_addr = htonl(INADDR_LOOPBACK);
  a.sin_port = htons(port);
  if (::connect(fd, (sockaddr *)&a, sizeof a) != 0) { ::close(fd); return -1; }
  return fd;
}

static bool waitReadable(int fd, int ms)
{
  pollfd p{fd, POLLIN, 0};
  return ::poll(&p, 1, ms) > 0;
}

static bool sendAll(int fd, const void *buf, size_t n)
{
  const char *p = (const char *)buf;
  while (n)
  {
    ssize_t w = ::send(fd, p, n, MSG_NOSIGNAL);
    if (w <= 0) return false;
    p += w; n -= size_t(w);
  }
  return true;
}

template <class F> static bool waitUntil(F f, double ms)
{
  double end = vf::nowMs() + ms;
  for (;;)
  {
    if (f()) return true;
    if (vf::nowMs() >= end) return false;
    vf::sleepMs(0.5);
  }
}

static string sslErrText()
{
  unsigned long e = ERR_get_error();
  if (!e) return "";
  char buf[200];
  ERR_error_string_n(e, buf, sizeof buf);
  ERR_clear_error();
  return buf;
}

static string garbageBytes(int variant, bool serverRole, const string &peerToken, vf::Rng &r)
{
  auto rnd = [&](size_t n) { string s; for (size_t i = 0; i < n; i++) s += char(r.below(256)); return s; };
  switch (variant & 3)
  {
  case 0: { string s = rnd(220); s[0] = char(0x80 | r.below(0x70)); return s + peerToken; } // noise, token in clear at the end
  case 1: return string("\x16\x03\x03\x00\x80", 5) + rnd(128);                                  // handshake record, junk body
  case 2:
  { // a hello skeleton that claims TLS 1.0, junk after the random
    string body;
    body += char(serverRole ? 2 : 1);
    string inner = string("\x03\x01", 2) + rnd(32) + string("\x00", 1) + string("\x00\x2f\x00", 3) + rnd(6);
    body += char(0); body += char(inner.size() >> 8); body += char(inner.size() & 255);
    body += inner;
    string rec = string("\x16\x03\x01", 3);
    rec += char(body.size() >> 8); rec += char(body.size() & 255);
    return rec + body;
  }
  default: // an application-data record carrying the token before any handshake, then a fatal alert
    return string("\x17\x03\x03\x00\x20", 5) + peerToken + string("\x15\x03\x03\x00\x02\x02\x28", 7);
  }
}

// ================================================================================ the relay
// Sits between the connecting side and the listening side, forwards every byte, keeps both
// directions. "c2s" = bytes sent by whoever connected to the relay, "s2c" = bytes sent by the
// upstream (listening) side.
class Relay
{
public:
  string c2s, s2c;
  int conns = 0;
  std::atomic<int> active{0};

  bool start(uint16_t targetPort)
  {
    _target = targetPort;
    _lfd = listenLoopback(_port);
    if (_lfd < 0) return false;
    _th = std::thread([this] { loop(); });
    return true;
  }
  uint16_t port() const { return _port; }
  void stop()
  {
    _stop = true;
    if (_th.joinable()) _th.join();
    if (_lfd >= 0) { ::close(_lfd); _lfd = -1; }
  }
  ~Relay() { stop(); }

private:
  struct Pair { int a = -1, b = -1; bool aEof = false, bEof = false; };
  uint16_t _port = 0, _target = 0;
  int _lfd = -1;
  std::thread _th;
  std::atomic<bool> _stop{false};
  std::vector<Pair> _pairs;

  void closePair(Pair &p)
  {
    if (p.a >= 0) ::close(p.a);
    if (p.b >= 0) ::close(p.b);
    p.a = p.b = -1;
    active--;
  }
  // returns false when the pair is finished
  bool pump(Pair &p, bool fromA)
  {
    char buf[16384];
    int from = fromA ? p.a : p.b, to = fromA ? p.b : p.a;
    ssize_t n = ::recv(from, buf, sizeof buf, MSG_DONTWAIT);
    if (n < 0 && (errno == EAGAIN || errno == EWOULDBLOCK || errno == EINTR)) return true;
    if (n > 0)
    {
      string &cap = fromA ? c2s : s2c;
      if (cap.size() < (1u << 20)) cap.append(buf, size_t(n));
      if (!sendAll(to, buf, size_t(n))) { closePair(p); return false; }
      return true;
    }
    if (n == 0)
    {
      (fromA ? p.aEof : p.bEof) = true;
      ::shutdown(to, SHUT_WR);
      if (p.aEof && p.bEof) { closePair(p); return false; }
      return true;
    }
    closePair(p); // reset: drop both sides
    return false;
  }
  void loop()
  {
    while (!_stop)
    {
      std::vector<pollfd> pf;
      pf.push_back({_lfd, POLLIN, 0});
      for (auto &p : _pairs)
      {
        if (p.a < 0) continue;
        pf.push_back({p.a, short(p.aEof ? 0 : POLLIN), 0});
        pf.push_back({p.b, short(p.bEof ? 0 : POLLIN), 0});
      }
      int rc = ::poll(pf.data(), pf.size(), 10);
      if (rc <= 0) continue;
      size_t idx = 1;
      for (auto &p : _pairs)
      {
        if (p.a < 0) continue;
        short ra = pf[idx].revents, rb = pf[idx + 1].revents;
        idx += 2;
        bool alive = true;
        if (ra & (POLLIN | POLLHUP | POLLERR)) { if (!p.aEof) alive = pump(p, true); else if (ra & (POLLHUP | POLLERR)) { closePair(p); alive = false; } }
        if (alive && (rb & (POLLIN | POLLHUP | POLLERR))) { if (!p.bEof) pump(p, false); else if (rb & (POLLHUP | POLLERR)) closePair(p); }
      }
      if (pf[0].revents & POLLIN)
      {
        int a = ::accept4(_lfd, nullptr, nullptr, SOCK_CLOEXEC);
        if (a >= 0)
        {
          conns++;
          int b = connectLoopback(_target, 3000);
          if (b < 0) { ::close(a); continue; }
          setTimeouts(a, 3000);
          Pair p; p.a = a; p.b = b;
          active++;
          _pairs.push_back(p);
        }
      }
    }
    for (auto &p : _pairs) if (p.a >= 0) closePair(p);
  }
};

// ================================================================= independent peers (servers)
struct ConnReport
{
  bool hsOk = false;
  string version;
  int versionNum = 0;
  bool gotCert = false;
  long verify = -1;
  string rx;       // bytes the peer obtained as application data (decrypted, or raw for the plaintext peer)
  string err;
  bool wrote = false;
};

static string reportsJson(const std::vector<ConnReport> &v, const string &wantedToken)
{
  int hs = 0; bool got = false, tok = false; size_t rx = 0; long verify = -1; string ver, err; int minver = 0; bool wrote = false;
  for (auto &c : v)
  {
    if (c.hsOk) { hs++; ver = c.version; if (!minver || c.versionNum < minver) minver = c.versionNum; }
    got = got || c.gotCert;
    if (c.gotCert) verify = c.verify;
    rx += c.rx.size();
    tok = tok || (c.rx.find(wantedToken) != string::npos);
    if (!c.err.empty()) err = c.err;
    wrote = wrote || c.wrote;
  }
  char b[64];
  snprintf(b, sizeof b, "0x%04x", minver);
  return "{\"conns\":" + std::to_string(v.size()) + ",\"hs_ok\":" + std::to_string(hs) + ",\"version\":" + vf::jstr(ver) +
         ",\"min_version\":\"" + b + "\",\"got_cert\":" + (got ? "true" : "false") + ",\"verify\":" + std::to_string(verify) +
         ",\"rx_bytes\":" + std::to_string(rx) + ",\"rx_has_token\":" + (tok ? "true" : "false") +
         ",\"wrote\":" + (wrote ? "true" : "false") + ",\"err\":" + vf::jstr(err) + "}";
}

struct PeerCfg
{
  string kind;     // openssl | plaintext | garbage
  int garbage = 0;
  string certFile, keyFile, caFile; // own cert/key; CA used for the peer's *own* verification
  string auth;     // server role: none|request|require ; client role: verify on|off (own check of the server)
  string verifyHost; // client role: name the raw client insists on (empty: none)
  int maxProto = TLS1_3_VERSION;
  bool lvl0 = false;
  bool http = false;
  string myToken, otherToken;
  uint64_t rngStream = 0;
};

static SSL_CTX *peerCtx(const PeerCfg &c, bool server, string &err)
{
  SSL_CTX *ctx = SSL_CTX_new(server ? TLS_server_method() : TLS_client_method());
  if (!ctx) { err = "SSL_CTX_new"; return nullptr; }
  if (c.lvl0)
  {
    SSL_CTX_set_security_level(ctx, 0);
    SSL_CTX_set_cipher_list(ctx, "ALL:@SECLEVEL=0");
  }
  SSL_CTX_set_min_proto_version(ctx, TLS1_VERSION);
  SSL_CTX_set_max_proto_version(ctx, c.maxProto);
  if (!c.certFile.empty())
  {
    if (SSL_CTX_use_certificate_file(ctx, c.certFile.c_str(), SSL_FILETYPE_PEM) != 1 ||
        SSL_CTX_use_PrivateKey_file(ctx, c.keyFile.c_str(), SSL_FILETYPE_PEM) != 1)
    {
      err = "peer cert/key load: " + sslErrText();
      SSL_CTX_free(ctx);
      return nullptr;
    }
  }
  if (!c.caFile.empty()) SSL_CTX_load_verify_locations(ctx, c.caFile.c_str(), nullptr);
  if (server)
  {
    if (c.auth == "request") SSL_CTX_set_verify(ctx, SSL_VERIFY_PEER, nullptr);
    else if (c.auth == "require") SSL_CTX_set_verify(ctx, SSL_VERIFY_PEER | SSL_VERIFY_FAIL_IF_NO_PEER_CERT, nullptr);
  }
  else if (c.auth == "on") SSL_CTX_set_verify(ctx, SSL_VERIFY_PEER, nullptr);
  return ctx;
}

class PeerServer
{
public:
  std::vector<ConnReport> conns;
  std::atomic<int> finished{0};
  string startErr;

  bool start(const PeerCfg &cfg)
  {
    _cfg = cfg;
    if (cfg.kind == "openssl")
    {
      _ctx = peerCtx(cfg, true, startErr);
      if (!_ctx) return false;
    }
    _lfd = listenLoopback(_port);
    if (_lfd < 0) { startErr = "listen"; return false; }
    _th = std::thread([this] { loop(); });
    return true;
  }
  uint16_t port() const { return _port; }
  void stop()
  {
    _stop = true;
    if (_th.joinable()) _th.join();
    if (_lfd >= 0) { ::close(_lfd); _lfd = -1; }
    if (_ctx) { SSL_CTX_free(_ctx); _ctx = nullptr; }
  }
  ~PeerServer() { stop(); }
  std::vector<ConnReport> snapshot() { std::lock_guard<std::mutex> g(_m); return conns; }

private:
  PeerCfg _cfg;
  SSL_CTX *_ctx = nullptr;
  int _lfd = -1;
  uint16_t _port = 0;
  std::thread _th;
  std::atomic<bool> _stop{false};
  std::mutex _m;

  void loop()
  {
    while (!_stop)
    {
      if (!waitReadable(_lfd, 10)) continue;
      int fd = ::accept4(_lfd, nullptr, nullptr, SOCK_CLOEXEC);
      if (fd < 0) continue;
      setTimeouts(fd, 4000);
      ConnReport r;
      if (_cfg.kind == "openssl") serveTls(fd, r);
      else if (_cfg.kind == "plaintext") servePlain(fd, r);
      else serveGarbage(fd, r);
      ::close(fd);
      { std::lock_guard<std::mutex> g(_m); conns.push_back(r); }
      finished++;
    }
  }
  string httpResponse() const
  {
    return "HTTP/1.1 200 OK\r\nContent-Type: text/plain\r\nContent-Length: " + std::to_string(_cfg.myToken.size()) +
           "\r\nConnection: close\r\n\r\n" + _cfg.myToken;
  }
  void serveTls(int fd, ConnReport &r)
  {
    SSL *ssl = SSL_new(_ctx);
    SSL_set_fd(ssl, fd);
    ERR_clear_error();
    int rc = SSL_accept(ssl);
    if (rc != 1)
    {
      r.err = "accept: " + sslErrText();
      SSL_free(ssl);
      return;
    }
    r.hsOk = true;
    r.version = SSL_get_version(ssl);
    r.versionNum = SSL_version(ssl);
    if (X509 *pc = SSL_get_peer_certificate(ssl)) { r.gotCert = true; r.verify = SSL_get_verify_result(ssl); X509_free(pc); }
    char buf[4096];
    if (!_cfg.http)
    {
      // raw mode: talk first (application bytes flow towards iora as soon as the handshake is done)
      r.wrote = SSL_write(ssl, _cfg.myToken.data(), int(_cfg.myToken.size())) > 0;
      double end = vf::nowMs() + 3000;
      while (r.rx.find(_cfg.otherToken) == string::npos && vf::nowMs() < end && !_stop)
      {
        int n = SSL_read(ssl, buf, sizeof buf);
        if (n <= 0) { int ge = SSL_get_error(ssl, n); if (ge != SSL_ERROR_ZERO_RETURN) r.err = "read: " + std::to_string(ge) + " " + sslErrText(); break; }
        r.rx.append(buf, size_t(n));
      }
    }
    else
    {
      double end = vf::nowMs() + 3000;
      while (r.rx.find("\r\n\r\n") == string::npos && vf::nowMs() < end && !_stop)
      {
        int n = SSL_read(ssl, buf, sizeof buf);
        if (n <= 0) { int ge = SSL_get_error(ssl, n); if (ge != SSL_ERROR_ZERO_RETURN) r.err = "read: " + std::to_string(ge) + " " + sslErrText(); break; }
        r.rx.append(buf, size_t(n));
      }
      if (r.rx.find("\r\n\r\n") != string::npos)
      {
        string resp = httpResponse();
        r.wrote = SSL_write(ssl, resp.data(), int(resp.size())) > 0;
      }
    }
    SSL_shutdown(ssl);
    // give the other side a moment to read what we wrote before the FIN/RST
    waitReadable(fd, 200);
    SSL_free(ssl);
  }
  void servePlain(int fd, ConnReport &r)
  {
    char buf[4096];
    // wait for whatever the client sends first (a ClientHello, if it speaks TLS)
    if (waitReadable(fd, 1500))
    {
      ssize_t n = ::recv(fd, buf, sizeof buf, 0);
      if (n > 0) r.rx.append(buf, size_t(n));
    }
    string resp = httpResponse();
    r.wrote = sendAll(fd, resp.data(), resp.size());
    double end = vf::nowMs() + 2000;
    while (vf::nowMs() < end && !_stop)
    {
      if (!waitReadable(fd, 20)) continue;
      ssize_t n = ::recv(fd, buf, sizeof buf, 0);
      if (n <= 0) break;
      r.rx.append(buf, size_t(n));
    }
  }
  void serveGarbage(int fd, ConnReport &r)
  {
    char buf[4096];
    vf::Rng rng(g_seed, _cfg.rngStream);
    if (waitReadable(fd, 1500))
    {
      ssize_t n = ::recv(fd, buf, sizeof buf, 0);
      if (n > 0) r.rx.append(buf, size_t(n));
    }
    string g = garbageBytes(_cfg.garbage, true, _cfg.myToken, rng);
    r.wrote = sendAll(fd, g.data(), g.size());
    double end = vf::nowMs() + 2000;
    while (vf::nowMs() < end && !_stop)
    {
      if (!waitReadable(fd, 20)) continue;
      ssize_t n = ::recv(fd, buf, sizeof buf, 0);
      if (n <= 0) break;
      r.rx.append(buf, size_t(n));
    }
  }
};

// ================================================================= independent peers (clients)
static ConnReport runPeerClient(const PeerCfg &cfg, uint16_t port)
{
  ConnReport r;
  int fd = connectLoopback(port, 4000);
  if (fd < 0) { r.err = "tcp connect failed"; return r; }
  char buf[4096];
  string request = cfg.http ? "GET /t/" + cfg.myToken + " HTTP/1.1\r\nHost: localhost\r\nConnection: close\r\n\r\n" : cfg.myToken;
  if (cfg.kind == "openssl")
  {
    string e;
    SSL_CTX *ctx = peerCtx(cfg, false, e);
    if (!ctx) { r.err = e; ::close(fd); return r; }
    SSL *ssl = SSL_new(ctx);
    SSL_set_fd(ssl, fd);
    if (!cfg.verifyHost.empty())
    {
      SSL_set_hostflags(ssl, X509_CHECK_FLAG_NO_PARTIAL_WILDCARDS); // the reference checks names "as configured" in iora
      SSL_set1_host(ssl, cfg.verifyHost.c_str());
      SSL_set_tlsext_host_name(ssl, cfg.verifyHost.c_str());
    }
    ERR_clear_error();
    int rc = SSL_connect(ssl);
    if (rc != 1) r.err = "connect: " + sslErrText();
    else
    {
      r.hsOk = true;
      r.version = SSL_get_version(ssl);
      r.versionNum = SSL_version(ssl);
      r.verify = SSL_get_verify_result(ssl);
      r.wrote = SSL_write(ssl, request.data(), int(request.size())) > 0;
      double end = vf::nowMs() + 3000;
      while (r.rx.find(cfg.otherToken) == string::npos && vf::nowMs() < end)
      {
        int n = SSL_read(ssl, buf, sizeof buf);
        if (n <= 0) { int ge = SSL_get_error(ssl, n); if (ge != SSL_ERROR_ZERO_RETURN) r.err = "read: " + std::to_string(ge) + " " + sslErrText(); break; }
        r.rx.append(buf, size_t(n));
      }
      SSL_shutdown(ssl);
    }
    SSL_free(ssl);
    SSL_CTX_free(ctx);
  }
  else
  {
    string out = request;
    if (cfg.kind == "garbage") { vf::Rng rng(g_seed, cfg.rngStream); out = garbageBytes(cfg.garbage, false, cfg.myToken, rng); }
    else if (!cfg.http) out = "GET /t/" + cfg.myToken + " HTTP/1.1\r\nHost: localhost\r\n\r\n"; // clear text, token inside
    r.wrote = sendAll(fd, out.data(), out.size());
    double end = vf::nowMs() + 2000;
    while (vf::nowMs() < end)
    {
      if (!waitReadable(fd, 20)) continue;
      ssize_t n = ::recv(fd, buf, sizeof buf, 0);
      if (n <= 0) break;
      r.rx.append(buf, size_t(n));
    }
  }
  ::close(fd);
  return r;
}

// =========================================================================== the iora side
struct IoraObs
{
  std::mutex m;
  int onConnect = 0, onAccept = 0, onClose = 0, onError = 0;
  std::set<SessionId> closed, connected;
  string rx;
  int closeCode = -1;
  string closeMsg;
  string lastError;
  int handlerCalls = 0;
  string handlerPaths;
};

static void applyDefaultStoreEnv(const Cell &c)
{
  string def = c.file("defstore");
  string f = def.empty() ? g_pki.p("no-such-store.pem") : g_pki.cert(def);
  setenv("SSL_CERT_FILE", f.c_str(), 1);
  setenv("SSL_CERT_DIR", g_pki.p("capath-empty").c_str(), 1);
}

static void fillTls(const Cell &c, TransportConfig::TlsConfig &t, TlsMode mode)
{
  // tlscfg: how the TLS block of the configuration relates to the TLS mode the session asks for
  //   enabled     enabled=true,  defaultMode = the requested mode      (a TLS context exists)
  //   disabled    enabled=false                                        (no context)
  //   mode-none   enabled=true,  defaultMode = None (the default)      (no context: initTls builds one only for the matching mode)
  //   mode-other  enabled=true,  defaultMode = the opposite role       (no context)
  string tc = c.s("tlscfg", "enabled");
  if (tc == "enabled") { t.enabled = true; t.defaultMode = mode; }
  else if (tc == "mode-none") { t.enabled = true; t.defaultMode = TlsMode::None; }
  else if (tc == "mode-other") { t.enabled = true; t.defaultMode = (mode == TlsMode::Client ? TlsMode::Server : TlsMode::Client); }
  t.verifyPeer = c.is("verify", "on");
  if (!c.file("cafile").empty()) t.caFile = g_pki.cert(c.file("cafile"));
  if (!c.file("capath").empty()) t.caPath = g_pki.p(c.file("capath"));
  if (!c.file("icertf").empty()) t.certFile = g_pki.cert(c.file("icertf"));
  if (!c.file("ikeyf").empty()) t.keyFile = g_pki.key(c.file("ikeyf"));
  t.minVersion = protoOf(c.n("imin", 0));
  if (c.n("lvl0")) t.ciphers = "DEFAULT:@SECLEVEL=0";
}

// ---- lifecycle coordinate ("life") of the Transport entries
//   fresh              start() once on a correctly provisioned transport
//   retry-provisioned  iora's own certificate/key files do not exist yet: the first start() must fail at the
//                      cert/key load; the files appear; start() is retried on the SAME transport object
//   retry-missing      the same, but the files are still missing at the retry
//   restart            start(), stop(), start() again, then the connection
struct LifeState
{
  string kind = "fresh", dir, realCert, realKey, lateCert, lateKey;
};
static void copyFile(const string &from, const string &to)
{
  string data = vf::readFile(from);
  FILE *f = fopen(to.c_str(), "w");
  if (f) { fwrite(data.data(), 1, data.size(), f); fclose(f); }
}
static LifeState prepareLife(const Cell &c, TransportConfig::TlsConfig &t)
{
  LifeState L;
  L.kind = c.s("life", "fresh");
  if (L.kind.rfind("retry-", 0) != 0 || t.certFile.empty()) return L;
  L.dir = g_pki.p("late-" + std::to_string(getpid()) + "-" + std::to_string(c.n("id")));
  mkdir(L.dir.c_str(), 0755);
  L.realCert = t.certFile; L.realKey = t.keyFile;
  L.lateCert = t.certFile = L.dir + "/own.pem";
  L.lateKey = t.keyFile = L.dir + "/own.key";
  return L;
}
struct CellOut;
static void lifeNote(CellOut &o, const char *k, bool v);
static void lifeNoteS(CellOut &o, const char *k, const string &v);
static StartResult startWithLife(const LifeState &L, Transport &t, CellOut &o)
{
  if (L.kind == "fresh") return t.start();
  auto r = t.start();
  lifeNote(o, "first_start_ok", r.isOk());
  if (L.kind == "restart")
  {
    if (r.isErr()) return r;
    t.stop();
    return t.start();
  }
  if (r.isOk()) return r; // nothing went missing (no own certificate configured)
  lifeNoteS(o, "first_start_err", r.error().message);
  if (L.kind == "retry-provisioned") { copyFile(L.realCert, L.lateCert); copyFile(L.realKey, L.lateKey); }
  return t.start();
}
static void cleanupLife(const LifeState &L)
{
  if (L.dir.empty()) return;
  ::unlink(L.lateCert.c_str()); ::unlink(L.lateKey.c_str()); ::rmdir(L.dir.c_str());
}

static PeerCfg peerCfgOf(const Cell &c, bool peerIsServer, const string &myTok, const string &otherTok, bool http)
{
  PeerCfg p;
  p.kind = c.s("peer", "openssl");
  p.garbage = int(c.n("garbage", 0));
  if (!c.file("pcertf").empty()) { p.certFile = g_pki.cert(c.file("pcertf")); p.keyFile = g_pki.key(c.file("pkeyf")); }
  if (!c.file("pca").empty()) p.caFile = g_pki.cert(c.file("pca"));
  p.auth = peerIsServer ? c.s("pauth", "none") : c.s("pverify", "off");
  p.verifyHost = peerIsServer ? "" : c.file("pverifyhost");
  p.maxProto = protoOf(c.n("pmax", 13));
  p.lvl0 = c.n("lvl0") != 0;
  p.http = http;
  p.myToken = myTok;
  p.otherToken = otherTok;
  p.rngStream = uint64_t(c.n("id")) * 7 + 3;
  return p;
}

struct CellOut
{
  std::vector<std::pair<string, string>> f; // key -> JSON value
  void b(const string &k, bool v) { f.emplace_back(k, v ? "true" : "false"); }
  void i(const string &k, long long v) { f.emplace_back(k, std::to_string(v)); }
  void s(const string &k, const string &v) { f.emplace_back(k, vf::jstr(v.size() > 300 ? v.substr(0, 300) : v)); }
  void j(const string &k, const string &json) { f.emplace_back(k, json); }
  string str() const
  {
    string o = "{";
    for (size_t i = 0; i < f.size(); i++) { if (i) o += ","; o += vf::jstr(f[i].first) + ":" + f[i].second; }
    return o + "}";
  }
};

static void lifeNote(CellOut &o, const char *k, bool v) { o.b(k, v); }
static void lifeNoteS(CellOut &o, const char *k, const string &v) { o.s(k, v); }

static void relayJson(CellOut &o, Relay &r, const string &ctok, const string &stok)
{
  auto has = [](const string &h, const string &n) { return h.find(n) != string::npos; };
  string first = r.c2s.substr(0, 6), firstS = r.s2c.substr(0, 6);
  o.j("relay", "{\"conns\":" + std::to_string(r.conns) + ",\"c2s\":" + std::to_string(r.c2s.size()) + ",\"s2c\":" + std::to_string(r.s2c.size()) +
                 ",\"c2s_has_ctok\":" + (has(r.c2s, ctok) ? "true" : "false") + ",\"c2s_has_stok\":" + (has(r.c2s, stok) ? "true" : "false") +
                 ",\"s2c_has_ctok\":" + (has(r.s2c, ctok) ? "true" : "false") + ",\"s2c_has_stok\":" + (has(r.s2c, stok) ? "true" : "false") +
                 ",\"c2s_first\":\"" + vf::hex(first) + "\",\"s2c_first\":\"" + vf::hex(firstS) + "\"}");
}

static void ioraJson(CellOut &o, IoraObs &I, const string &peerToken)
{
  std::lock_guard<std::mutex> g(I.m);
  o.i("onconnect", I.onConnect);
  o.i("onaccept", I.onAccept);
  o.i("onclose", I.onClose);
  o.i("close_code", I.closeCode);
  o.s("close_msg", I.closeMsg);
  o.i("ondata_bytes", (long long)I.rx.size());
  o.b("ondata_has_token", I.rx.find(peerToken) != string::npos);
  o.s("last_error", I.lastError);
}

// ---- iora Transport as the TLS client
static void runTransportClient(const Cell &c, CellOut &o, const string &ctok, const string &stok)
{
  applyDefaultStoreEnv(c); // before any thread of this cell exists (setenv is not thread-safe)
  PeerServer peer;
  PeerCfg pc = peerCfgOf(c, true, stok, ctok, false);
  if (!peer.start(pc)) { o.s("harness_error", "peer start: " + peer.startErr); return; }
  Relay relay;
  if (!relay.start(peer.port())) { o.s("harness_error", "relay start"); return; }

  TransportConfig cfg;
  cfg.connectTimeout = std::chrono::milliseconds(6000);
  cfg.handshakeTimeout = std::chrono::milliseconds(6000);
  fillTls(c, cfg.clientTls, TlsMode::Client);
  LifeState life = prepareLife(c, cfg.clientTls);
  auto I = std::make_shared<IoraObs>();
  auto t = Transport::tcp(cfg);
  t->onConnect([I](SessionId sid, const TransportAddress &) { std::lock_guard<std::mutex> g(I->m); I->onConnect++; I->connected.insert(sid); });
  t->onData([I](SessionId, iora::core::BufferView d, std::chrono::steady_clock::time_point) { std::lock_guard<std::mutex> g(I->m); I->rx.append((const char *)d.data(), d.size()); });
  t->onClose([I](SessionId sid, const TransportErrorInfo &e) { std::lock_guard<std::mutex> g(I->m); I->onClose++; I->closed.insert(sid); I->closeCode = int(e.code); I->closeMsg = e.message; });
  t->onError([I](TransportError, const string &m) { std::lock_guard<std::mutex> g(I->m); I->onError++; I->lastError = m; });
  auto st = startWithLife(life, *t, o);
  o.b("start_ok", st.isOk());
  if (st.isErr()) o.s("start_err", st.error().message);
  string host = c.s("host", "127.0.0.1");
  bool sync = c.is("api", "sync") || c.is("api", "sync-tlsname"), early = c.is("send", "early");
  string syncRes = "na";
  bool watchdog = false;
  if (st.isOk())
  {
    SessionId sid = 0;
    bool sent = false, over = false;
    if (sync)
    {
      // sync-tlsname: the caller resolved the name itself (as HttpClient does) and hands over the address
      // plus the name the address stands for
      auto r = c.is("api", "sync-tlsname")
                 ? t->connectSync("127.0.0.1", relay.port(), TlsMode::Client, std::chrono::milliseconds(7000), host)
                 : t->connectSync(host, relay.port(), TlsMode::Client, std::chrono::milliseconds(7000));
      if (r.isOk()) { sid = r.value(); syncRes = "ok"; sent = t->send(sid, ctok.data(), ctok.size()); }
      else { syncRes = "err:" + std::to_string(int(r.error().code)) + ":" + r.error().message; over = true; }
    }
    else
    {
      auto r = t->connect(host, relay.port(), TlsMode::Client);
      if (r.isOk()) { sid = r.value(); if (early) sent = t->send(sid, ctok.data(), ctok.size()); }
      else { syncRes = "connect-err:" + r.error().message; over = true; }
    }
    if (!over)
    {
      bool done = waitUntil([&] {
        bool needSend = false;
        {
          std::lock_guard<std::mutex> g(I->m);
          if (I->closed.count(sid)) return true;
          needSend = !sent && I->connected.count(sid);
        }
        if (needSend) { sent = true; t->send(sid, ctok.data(), ctok.size()); }
        return false;
      }, 9000);
      if (!done) watchdog = true;
    }
    o.b("sent", sent);
  }
  o.s("connectsync", syncRes);
  t->stop();
  t.reset();
  cleanupLife(life);
  waitUntil([&] { return relay.active.load() == 0; }, 1500);
  relay.stop();
  peer.stop();
  o.b("watchdog", watchdog);
  ioraJson(o, *I, stok);
  o.j("peer", reportsJson(peer.conns, ctok));
  relayJson(o, relay, ctok, stok);
}

// ---- iora HttpClient
static void runHttpClient(const Cell &c, CellOut &o, const string &ctok, const string &stok)
{
  applyDefaultStoreEnv(c);
  PeerServer peer;
  PeerCfg pc = peerCfgOf(c, true, stok, ctok, true);
  if (!peer.start(pc)) { o.s("harness_error", "peer start: " + peer.startErr); return; }
  Relay relay;
  if (!relay.start(peer.port())) { o.s("harness_error", "relay start"); return; }

  HttpClient::Config hc;
  hc.connectTimeout = std::chrono::milliseconds(5000);
  hc.requestTimeout = std::chrono::milliseconds(5000);
  hc.reuseConnections = false;
  int status = 0;
  bool bodyTok = false;
  string err;
  {
    HttpClient cli(hc);
    HttpClient::TlsConfig tc;
    tc.verifyPeer = c.is("verify", "on");
    if (!c.file("cafile").empty()) tc.caFile = g_pki.cert(c.file("cafile"));
    if (!c.file("icertf").empty()) tc.clientCertFile = g_pki.cert(c.file("icertf"));
    if (!c.file("ikeyf").empty()) tc.clientKeyFile = g_pki.key(c.file("ikeyf"));
    cli.setTlsConfig(tc);
    string url = "https://" + c.s("host", "127.0.0.1") + ":" + std::to_string(relay.port()) + "/t/" + ctok;
    try
    {
      auto resp = cli.get(url);
      status = resp.statusCode;
      bodyTok = resp.body.find(stok) != string::npos;
    }
    catch (const std::exception &e) { err = e.what(); }
    catch (...) { err = "unknown exception"; }
  }
  waitUntil([&] { return relay.active.load() == 0; }, 1500);
  relay.stop();
  peer.stop();
  o.b("start_ok", true);
  o.i("http_status", status);
  o.b("http_body_has_token", bodyTok);
  o.s("http_err", err);
  o.b("watchdog", false);
  o.j("peer", reportsJson(peer.conns, ctok));
  relayJson(o, relay, ctok, stok);
}

// ---- iora HttpClient, two requests on ONE client object (sequence cells)
// The peer listens on one port and serves whatever arrives: a connection that opens with a TLS
// ClientHello is served over TLS (when the peer has a certificate: "dual"), anything else as clear-text
// HTTP; keep-alive, one thread per connection. It records, per request, whether it arrived over TLS.
struct SeqReq { bool tls; string text; };
class SeqHttpPeer
{
public:
  std::vector<SeqReq> reqs;
  int conns = 0, tlsConns = 0, hsFail = 0;
  string startErr;

  bool start(const PeerCfg &cfg, bool dual)
  {
    _cfg = cfg;
    if (dual)
    {
      _ctx = peerCtx(cfg, true, startErr);
      if (!_ctx) return false;
    }
    _lfd = listenLoopback(_port);
    if (_lfd < 0) { startErr = "listen"; return false; }
    _th = std::thread([this] { loop(); });
    return true;
  }
  uint16_t port() const { return _port; }
  void stop()
  {
    _stop = true;
    if (_th.joinable()) _th.join();
    for (auto &w : _workers) if (w.joinable()) w.join();
    _workers.clear();
    if (_lfd >= 0) { ::close(_lfd); _lfd = -1; }
    if (_ctx) { SSL_CTX_free(_ctx); _ctx = nullptr; }
  }
  ~SeqHttpPeer() { stop(); }

private:
  PeerCfg _cfg;
  SSL_CTX *_ctx = nullptr;
  int _lfd = -1;
  uint16_t _port = 0;
  std::thread _th;
  std::vector<std::thread> _workers;
  std::atomic<bool> _stop{false};
  std::mutex _m;

  void loop()
  {
    while (!_stop)
    {
      if (!waitReadable(_lfd, 10)) continue;
      int fd = ::accept4(_lfd, nullptr, nullptr, SOCK_CLOEXEC);
      if (fd < 0) continue;
      { std::lock_guard<std::mutex> g(_m); conns++; }
      _workers.emplace_back([this, fd] { serve(fd); ::close(fd); });
    }
  }
  string response(bool close) const
  {
    return "HTTP/1.1 200 OK\r\nContent-Type: text/plain\r\nContent-Length: " + std::to_string(_cfg.myToken.size()) +
           "\r\nConnection: " + (close ? "close" : "keep-alive") + "\r\n\r\n" + _cfg.myToken;
  }
  bool waitIn(int fd, SSL *ssl, int ms)
  {
    double end = vf::nowMs() + ms;
    while (!_stop && vf::nowMs() < end)
    {
      if (ssl && SSL_pending(ssl) > 0) return true;
      if (waitReadable(fd, 20)) return true;
    }
    return false;
  }
  void serve(int fd)
  {
    setTimeouts(fd, 3000);
    if (!waitIn(fd, nullptr, 4000)) return;
    unsigned char first = 0;
    if (::recv(fd, &first, 1, MSG_PEEK) != 1) return;
    SSL *ssl = nullptr;
    if (first == 0x16)
    {
      if (!_ctx)
      { // a TLS client reached a peer that only speaks clear-text HTTP
        char junk[2048];
        (void)!::recv(fd, junk, sizeof junk, 0);
        string r = response(true);
        sendAll(fd, r.data(), r.size());
        { std::lock_guard<std::mutex> g(_m); hsFail++; }
        waitIn(fd, nullptr, 500);
        return;
      }
      ssl = SSL_new(_ctx);
      SSL_set_fd(ssl, fd);
      ERR_clear_error();
      if (SSL_accept(ssl) != 1)
      {
        ERR_clear_error();
        { std::lock_guard<std::mutex> g(_m); hsFail++; }
        SSL_free(ssl);
        return;
      }
      { std::lock_guard<std::mutex> g(_m); tlsConns++; }
    }
    char buf[4096];
    for (;;)
    {
      string req;
      bool eof = false;
      while (req.find("\r\n\r\n") == string::npos)
      {
        if (!waitIn(fd, ssl, 4000)) { eof = true; break; }
        int n = ssl ? SSL_read(ssl, buf, sizeof buf) : int(::recv(fd, buf, sizeof buf, 0));
        if (n <= 0) { eof = true; break; }
        req.append(buf, size_t(n));
      }
      if (!req.empty()) { std::lock_guard<std::mutex> g(_m); reqs.push_back({ssl != nullptr, req}); }
      if (eof) break;
      bool close = req.find("Connection: close") != string::npos;
      string r = response(close);
      bool ok = ssl ? SSL_write(ssl, r.data(), int(r.size())) > 0 : sendAll(fd, r.data(), r.size());
      if (!ok || close) { if (ssl) SSL_shutdown(ssl); waitIn(fd, ssl, 200); break; }
    }
    if (ssl) { ERR_clear_error(); SSL_free(ssl); }
  }
};

static void runHttpClientSeq(const Cell &c, CellOut &o, const string &ctok, const string &stok, const string &ctok2)
{
  applyDefaultStoreEnv(c);
  SeqHttpPeer peer;
  PeerCfg pc = peerCfgOf(c, true, stok, ctok, true);
  if (!peer.start(pc, c.is("speer", "dual"))) { o.s("harness_error", "peer start: " + peer.startErr); return; }
  Relay relay;
  if (!relay.start(peer.port())) { o.s("harness_error", "relay start"); return; }

  HttpClient::Config hc;
  hc.connectTimeout = std::chrono::milliseconds(5000);
  hc.requestTimeout = std::chrono::milliseconds(5000);
  hc.reuseConnections = c.n("reuse", 1) != 0;
  auto tlsOf = [&](const char *v, const char *ca) {
    HttpClient::TlsConfig tc;
    tc.verifyPeer = c.is(v, "on");
    if (!c.file(ca).empty()) tc.caFile = g_pki.cert(c.file(ca));
    return tc;
  };
  struct R { int status = 0; bool tok = false; string err; } r[2];
  {
    HttpClient cli(hc);
    bool settls = c.n("settls", 0) != 0;
    cli.setTlsConfig(settls ? tlsOf("verify1", "cafile1") : tlsOf("verify", "cafile"));
    string base = c.s("host", "127.0.0.1") + ":" + std::to_string(relay.port()) + "/t/";
    const string toks[2] = {ctok, ctok2};
    const string schemes[2] = {c.s("s1", "https"), c.s("s2", "https")};
    for (int i = 0; i < 2; i++)
    {
      if (i == 1 && settls) cli.setTlsConfig(tlsOf("verify", "cafile")); // the configuration in force for request 2
      try
      {
        auto resp = cli.get(schemes[i] + "://" + base + toks[i]);
        r[i].status = resp.statusCode;
        r[i].tok = resp.body.find(stok) != string::npos;
      }
      catch (const std::exception &e) { r[i].err = e.what(); }
      catch (...) { r[i].err = "unknown exception"; }
    }
  }
  waitUntil([&] { return relay.active.load() == 0; }, 1500);
  relay.stop();
  peer.stop();
  o.b("start_ok", true);
  o.b("watchdog", false);
  for (int i = 0; i < 2; i++)
  {
    string k = "r" + std::to_string(i + 1);
    o.i(k + "_status", r[i].status);
    o.b(k + "_body_has_token", r[i].tok);
    o.s(k + "_err", r[i].err);
  }
  string pj = "{\"conns\":" + std::to_string(peer.conns) + ",\"tls_conns\":" + std::to_string(peer.tlsConns) +
              ",\"hs_fail\":" + std::to_string(peer.hsFail) + ",\"reqs\":[";
  bool firstReq = true;
  for (auto &q : peer.reqs)
  {
    int which = q.text.find(ctok2) != string::npos ? 2 : (q.text.find(ctok) != string::npos ? 1 : 0);
    pj += string(firstReq ? "" : ",") + "{\"tok\":" + std::to_string(which) + ",\"tls\":" + (q.tls ? "true" : "false") + "}";
    firstReq = false;
  }
  o.j("peer", pj + "]}");
  auto has = [](const string &h, const string &n) { return h.find(n) != string::npos; };
  o.j("relay", "{\"conns\":" + std::to_string(relay.conns) + ",\"c2s\":" + std::to_string(relay.c2s.size()) + ",\"s2c\":" + std::to_string(relay.s2c.size()) +
                 ",\"c2s_has_tok1\":" + (has(relay.c2s, ctok) ? "true" : "false") + ",\"c2s_has_tok2\":" + (has(relay.c2s, ctok2) ? "true" : "false") +
                 ",\"s2c_has_stok\":" + (has(relay.s2c, stok) ? "true" : "false") + "}");
}

// ---- iora Transport as the TLS server
static void runTransportServer(const Cell &c, CellOut &o, const string &ctok, const string &stok)
{
  applyDefaultStoreEnv(c);
  TransportConfig cfg;
  cfg.handshakeTimeout = std::chrono::milliseconds(6000);
  fillTls(c, cfg.serverTls, TlsMode::Server);
  LifeState life = prepareLife(c, cfg.serverTls);
  auto I = std::make_shared<IoraObs>();
  auto t = Transport::tcp(cfg);
  bool early = c.is("send", "early");
  std::weak_ptr<Transport> wt = t;
  t->onAccept([I, wt, early, stok](SessionId sid, const TransportAddress &) {
    { std::lock_guard<std::mutex> g(I->m); I->onAccept++; }
    if (early) if (auto s = wt.lock()) s->send(sid, stok.data(), stok.size()); // before the handshake has run
  });
  t->onConnect([I, wt, early, stok](SessionId sid, const TransportAddress &) {
    { std::lock_guard<std::mutex> g(I->m); I->onConnect++; I->connected.insert(sid); }
    if (!early) if (auto s = wt.lock()) s->send(sid, stok.data(), stok.size());
  });
  t->onData([I](SessionId, iora::core::BufferView d, std::chrono::steady_clock::time_point) { std::lock_guard<std::mutex> g(I->m); I->rx.append((const char *)d.data(), d.size()); });
  t->onClose([I](SessionId sid, const TransportErrorInfo &e) { std::lock_guard<std::mutex> g(I->m); I->onClose++; I->closed.insert(sid); I->closeCode = int(e.code); I->closeMsg = e.message; });
  t->onError([I](TransportError, const string &m) { std::lock_guard<std::mutex> g(I->m); I->onError++; I->lastError = m; });
  auto st = startWithLife(life, *t, o);
  o.b("start_ok", st.isOk());
  if (st.isErr()) o.s("start_err", st.error().message);
  bool watchdog = false;
  ConnReport cr;
  Relay relay;
  bool ran = false;
  if (st.isOk())
  {
    auto lr = t->addListener("127.0.0.1", 0, TlsMode::Server);
    o.b("listen_ok", lr.isOk());
    if (lr.isOk())
    {
      uint16_t port = t->getListenerAddress(lr.value()).port;
      if (!port || !relay.start(port)) { o.s("harness_error", "no listener port / relay"); }
      else
      {
        PeerCfg pc = peerCfgOf(c, false, ctok, stok, false);
        cr = runPeerClient(pc, relay.port());
        ran = true;
        // let the server see the end of the connection, so that everything it would deliver has been delivered
        bool settled = waitUntil([&] { std::lock_guard<std::mutex> g(I->m); return I->onAccept >= 1 && I->onClose >= I->onAccept; }, 4000);
        if (!settled) watchdog = true;
      }
    }
    else o.s("listen_err", lr.error().message);
  }
  t->stop();
  t.reset();
  cleanupLife(life);
  if (ran) { waitUntil([&] { return relay.active.load() == 0; }, 1500); }
  relay.stop();
  o.b("watchdog", watchdog);
  o.b("peer_ran", ran);
  ioraJson(o, *I, ctok);
  o.j("peer", reportsJson(ran ? std::vector<ConnReport>{cr} : std::vector<ConnReport>{}, stok));
  relayJson(o, relay, ctok, stok);
}

// ---- iora HttpServer
static std::set<int> listeningSockets()
{
  std::set<int> r;
  for (int fd = 3; fd < 1024; fd++)
  {
    int v = 0; socklen_t l = sizeof v;
    if (getsockopt(fd, SOL_SOCKET, SO_ACCEPTCONN, &v, &l) == 0 && v) r.insert(fd);
  }
  return r;
}

static void runHttpServer(const Cell &c, CellOut &o, const string &ctok, const string &stok)
{
  applyDefaultStoreEnv(c);
  auto I = std::make_shared<IoraObs>();
  bool enableOk = false, startOk = false;
  string err;
  ConnReport cr;
  Relay relay;
  bool ran = false;
  {
    auto before = listeningSockets();
    HttpServer srv("127.0.0.1", 0);
    HttpServer::TlsConfig tc;
    if (!c.file("icertf").empty()) tc.certFile = g_pki.cert(c.file("icertf"));
    if (!c.file("ikeyf").empty()) tc.keyFile = g_pki.key(c.file("ikeyf"));
    if (!c.file("cafile").empty()) tc.caFile = g_pki.cert(c.file("cafile"));
    tc.requireClientCert = c.is("verify", "on");
    auto handler = [I, stok](const HttpServer::Request &req, HttpServer::Response &res) {
      { std::lock_guard<std::mutex> g(I->m); I->handlerCalls++; I->handlerPaths += req.path + "\n"; }
      res.status = 200;
      res.set_content(stok, "text/plain");
    };
    try { srv.enableTls(tc); enableOk = true; }
    catch (const std::exception &e) { err = string("enableTls: ") + e.what(); }
    if (enableOk)
    {
      srv.onGet("/t/:tok", handler);
      srv.setDefaultHandler(handler);
      try { srv.start(); startOk = true; }
      catch (const std::exception &e) { err = string("start: ") + e.what(); }
    }
    if (startOk)
    {
      uint16_t port = 0;
      for (int fd : listeningSockets())
        if (!before.count(fd))
        {
          sockaddr_in a{}; socklen_t l = sizeof a;
          if (getsockname(fd, (sockaddr *)&a, &l) == 0 && a.sin_family == AF_INET) port = ntohs(a.sin_port);
        }
      if (!port || !relay.start(port)) o.s("harness_error", "http server port not found / relay");
      else
      {
        PeerCfg pc = peerCfgOf(c, false, ctok, stok, true);
        cr = runPeerClient(pc, relay.port());
        ran = true;
        waitUntil([&] { return relay.active.load() == 0; }, 1500);
      }
    }
    try { srv.stop(); } catch (...) {}
  }
  relay.stop();
  o.b("start_ok", enableOk && startOk);
  o.s("start_err", err);
  o.b("watchdog", false);
  o.b("peer_ran", ran);
  {
    std::lock_guard<std::mutex> g(I->m);
    o.i("handler_calls", I->handlerCalls);
    o.b("handler_saw_token", I->handlerPaths.find(ctok) != string::npos);
  }
  o.j("peer", reportsJson(ran ? std::vector<ConnReport>{cr} : std::vector<ConnReport>{}, stok));
  relayJson(o, relay, ctok, stok);
}

// ---- reference cell: independent client against independent server (no iora): validates the
// PKI material and that a sub-1.2 handshake is negotiable in this process (floor observability)
static void runRawRaw(const Cell &c, CellOut &o, const string &ctok, const string &stok)
{
  PeerServer peer;
  PeerCfg ps = peerCfgOf(c, true, stok, ctok, false);
  if (!peer.start(ps)) { o.s("harness_error", "peer start: " + peer.startErr); return; }
  Relay relay;
  if (!relay.start(peer.port())) { o.s("harness_error", "relay start"); return; }
  PeerCfg pcl;
  pcl.kind = "openssl";
  if (!c.file("icertf").empty()) { pcl.certFile = g_pki.cert(c.file("icertf")); pcl.keyFile = g_pki.key(c.file("ikeyf")); }
  if (!c.file("cafile").empty()) pcl.caFile = g_pki.cert(c.file("cafile"));
  pcl.auth = c.is("verify", "on") ? "on" : "off";
  string host = c.s("host", "127.0.0.1");
  pcl.verifyHost = (c.is("verify", "on") && host != "127.0.0.1") ? host : "";
  pcl.maxProto = TLS1_3_VERSION;
  pcl.lvl0 = c.n("lvl0") != 0;
  pcl.myToken = ctok; pcl.otherToken = stok;
  ConnReport cr = runPeerClient(pcl, relay.port());
  waitUntil([&] { return relay.active.load() == 0; }, 1500);
  relay.stop();
  peer.stop();
  o.b("start_ok", true);
  o.b("watchdog", false);
  o.j("rawclient", reportsJson({cr}, stok));
  o.j("peer", reportsJson(peer.conns, ctok));
  relayJson(o, relay, ctok, stok);
}

// ======================================================================================= main
static bool parseCell(const string &line, Cell &c)
{
  std::istringstream is(line);
  string tok;
  while (is >> tok)
  {
    auto eq = tok.find('=');
    if (eq == string::npos) continue;
    c.kv[tok.substr(0, eq)] = tok.substr(eq + 1);
  }
  return c.kv.count("id") && c.kv.count("entry");
}

int main(int argc, char **argv)
{
  signal(SIGPIPE, SIG_IGN);
  vf::Args a(argc, argv);
  auto &O = vf::out();
  string mode = a.s("mode", "cells");
  g_seed = a.u("seed", 1);
  if (mode == "pki")
  {
    try { c07::generatePki(a.s("dir")); }
    catch (const std::exception &e) { fprintf(stderr, "%s\n", e.what()); return 3; }
    O.obs("pki_generated", 1);
    O.flush();
    return 0;
  }
  g_pki.dir = a.s("pki");
  iora::core::Logger::setLevel(iora::core::Logger::Level::Fatal);
  {
    auto &rp = vf::shim::resolvePolicy();
    std::lock_guard<std::mutex> g(rp.m);
    rp.alias["localhost"] = "127.0.0.1";
    rp.alias["evil.example"] = "127.0.0.1";
    for (const char *n : {"api.example.test", "API.Example.Test", "api.example.test.", "a.b.example.test", "a.b.example.test.",
                          "x.y.z.example.test", "example.test", "api.other.test", "abc.example.test", "www.foo.example.test",
                          "sub.api.example.test"})
      rp.alias[n] = "127.0.0.1";
  }
  std::ifstream in(a.s("cells"));
  if (!in) { fprintf(stderr, "cannot read cells file\n"); return 3; }
  string line;
  while (std::getline(in, line))
  {
    Cell c;
    if (!parseCell(line, c)) continue;
    vf::Rng rng(g_seed, uint64_t(c.n("id")) + 1000003);
    string ctok = makeToken(rng), stok = makeToken(rng);
    CellOut o;
    double t0 = vf::nowMs();
    string entry = c.s("entry");
    O.line("{\"t\":\"begin\",\"id\":" + std::to_string(c.n("id")) + "}");
    try
    {
      if (entry == "transport-client") runTransportClient(c, o, ctok, stok);
      else if (entry == "http-client") runHttpClient(c, o, ctok, stok);
      else if (entry == "http-client-seq") { string ctok2 = makeToken(rng); runHttpClientSeq(c, o, ctok, stok, ctok2); }
      else if (entry == "transport-server") runTransportServer(c, o, ctok, stok);
      else if (entry == "http-server") runHttpServer(c, o, ctok, stok);
      else if (entry == "raw-raw") runRawRaw(c, o, ctok, stok);
      else o.s("harness_error", "unknown entry " + entry);
    }
    catch (const std::exception &e) { o.s("harness_error", string("exception: ") + e.what()); }
    ERR_clear_error();
    o.f.emplace_back("ms", std::to_string(int(vf::nowMs() - t0)));
    O.line("{\"t\":\"cell\",\"id\":" + std::to_string(c.n("id")) + ",\"o\":" + o.str() + "}");
    O.obs("harness_cells_run");
  }
  O.obs("getaddrinfo_calls", vf::shim::resolvePolicy().calls.load());
  O.flush();
  return 0;
}
