// C03 harness: synchronous receive over Transport — lossless, ordered, drains before EOF,
// flush-before-later-bytes on the switch to Async, Disabled delivers nothing, sticky overflow.
//
// Modes (all drive the real iora Transport; the verdict comes from c03_checker.hpp, which only
// sees the recorded log):
//   --mode conc  seeded concurrent histories: scripted I/O thread (arrivals in exact chunkings,
//                close), application reader in receiveSync (seeded buffer lengths 1 B..64 KiB,
//                timeouts 0 / 1 ms / long), mode switcher (Async/Sync/Disabled, local close),
//                late caller after the close. Condvar shim delays the reader before it parks.
//   --mode seq   seeded sequential histories (one director thread, every step completes before the
//                next starts: no ambiguity at all in the oracle).
//   --mode exh   exhaustive small scope: all chunkings of 6 bytes x buffer lengths 1..6 x close
//                position x switch position/kind x read pattern x {unbounded, 3-byte} buffer bound.
//                --count-only prints the size of the space.
//   --mode tcp   end to end: real TcpEngine + raw loopback peer that sends data and FIN back to back.
//   --mode multi several Sync sessions on one Transport with a tiny syncBufferGcThreshold closing with undrained
//                tails while unrelated sessions open/close (tombstone GC), late drains with small buffers.
//   --mode cancel reader in receiveSyncCancellable, token.cancel() placed exactly around scripted arrivals
//   --mode probe second concurrent reader must be rejected loudly (Cancelled), not served.
#define VF_SHIM_CONDVAR
#include "shim/shims.hpp"
#include "vf.hpp"

#include <iora/network/transport.hpp>
#include <iora/network/transport_impl.hpp>

#include "c03_hist.hpp"

#include <arpa/inet.h>
#include <netinet/in.h>
#include <netinet/tcp.h>
#include <poll.h>
#include <sys/socket.h>

using namespace c03h;
using c03::M_ASYNC;
using c03::M_DISABLED;
using c03::M_SYNC;

static const uint64_t WATCHDOG_NS = 180ull * 1000000000ull;

static void stoppedAt(uint64_t idx, const std::string &why)
{
  auto &O = vf::out();
  O.inconclusive("C03 watchdog: " + why + " (history " + std::to_string(idx) + ")");
  O.line("{\"t\":\"stopped\",\"at\":" + std::to_string(idx) + "}");
  O.flush();
  fflush(nullptr);
  _exit(0);
}

template <class F> static bool waitFor(F cond, uint64_t limitNs = WATCHDOG_NS)
{
  uint64_t t0 = vf::nowNs();
  int spins = 0;
  while (!cond())
  {
    if (++spins < 50) std::this_thread::yield();
    else vf::sleepMs(0.05);
    if ((spins & 1023) == 0 && vf::nowNs() - t0 > limitNs) return false;
  }
  return true;
}

static void armShim(vf::Rng &rng, uint64_t seed)
{
#if !VF_TSAN
  auto &p = vf::shim::condvarPolicy();
  p.seed = seed;
  p.permille = uint32_t(rng.range(100, 1000));
  p.maxDelayUs = rng.below(4) == 0 ? 0 : uint32_t(rng.range(30, 1500));
#else
  (void)rng; (void)seed;
#endif
}
static void disarmShim()
{
#if !VF_TSAN
  vf::shim::condvarPolicy().maxDelayUs = 0;
#endif
}

static std::vector<uint32_t> genChunks(vf::Rng &rng, uint32_t maxChunks)
{
  uint32_t n;
  int b = int(rng.below(10));
  if (b < 2) n = uint32_t(rng.range(1, 3));
  else if (b < 7) n = uint32_t(rng.range(4, 12));
  else n = uint32_t(rng.range(13, maxChunks));
  int profile = int(rng.below(6));
  std::vector<uint32_t> lens;
  for (uint32_t i = 0; i < n; i++)
  {
    uint32_t l;
    switch (profile)
    {
    case 0: l = uint32_t(rng.range(1, 8)); break;
    case 1: l = uint32_t(rng.range(1, 64)); break;
    case 2: l = rng.chance(0.5) ? uint32_t(rng.range(1, 8)) : uint32_t(rng.range(50, 2000)); break;
    case 3: l = uint32_t(rng.range(100, 5000)); break;
    case 4: l = rng.chance(0.15) ? uint32_t(rng.range(20000, 65536)) : uint32_t(rng.range(1, 300)); break;
    default: l = uint32_t(1u << rng.below(11)); break;
    }
    lens.push_back(l);
  }
  return lens;
}
static uint64_t genMaxBuf(vf::Rng &rng, uint32_t total, const std::vector<uint32_t> &lens)
{
  int b = int(rng.below(20));
  if (b < 9) return b < 3 ? total : b < 6 ? uint64_t(total) + 1 : (1u << 20);
  if (b < 13) return rng.range(1, std::max<uint32_t>(1, total));
  if (b < 15) return std::max<uint32_t>(1, lens[rng.below(lens.size())]);           // exactly one chunk fits
  if (b < 17) return std::max<uint32_t>(1, total / 2);
  static const uint64_t small[] = {1, 2, 3, 4, 16, 100};
  return small[rng.below(6)];
}
static uint32_t genLen(vf::Rng &rng, int profile, uint32_t total)
{
  switch (profile)
  {
  case 0: return 1;
  case 1: return uint32_t(rng.range(1, 4));
  case 2: return uint32_t(rng.range(1, 16));
  case 3: return uint32_t(rng.range(1, std::max<uint32_t>(2, total * 2)));
  case 4: return uint32_t(rng.range(16, 1024));
  case 5: return uint32_t(rng.range(1024, 65536));
  default: return 65536;
  }
}
static int genLenProfile(vf::Rng &rng, uint32_t total)
{
  if (total <= 300) { static const int p[] = {0, 1, 2, 3, 3, 6}; return p[rng.below(6)]; }
  if (total <= 5000) { static const int p[] = {2, 3, 4, 4, 5, 6}; return p[rng.below(6)]; }
  static const int p[] = {4, 5, 5, 6};
  return p[rng.below(4)];
}

// ================================================================================ concurrent
struct SwItem { uint32_t trigger; int what; uint32_t delayUs; int gate; }; // what: 0..2 mode, 3 local close
// gate: the arrival stream pauses before chunk #trigger until this item 0 = not at all (free running), 1 = is about to be
// called (the call races with the arrival), 2 = has returned (placed exactly between two arrivals)

static void runConc(uint64_t seed, uint64_t idx, Totals &T, bool isolated)
{
  vf::Rng rng(seed, idx * 8 + 1);
  auto Hp = std::make_unique<Hist>();
  Hist &H = *Hp;
  Spec &S = H.spec;
  S.kind = "conc"; S.seed = seed; S.idx = idx;
  auto lens = genChunks(rng, 36);
  S.layout(lens);
  S.maxBuf = genMaxBuf(rng, S.total, lens);
  const uint32_t n = uint32_t(lens.size());
  int initial = rng.chance(0.75) ? M_SYNC : rng.chance(0.6) ? M_ASYNC : M_DISABLED;
  // close plan: 0 peer at end, 1 peer after chunk p, 2 local by switcher at trigger p, 3 local at end
  int closePlan = int(rng.below(10)); closePlan = closePlan < 5 ? 0 : closePlan < 7 ? 1 : closePlan < 9 ? 2 : 3;
  uint32_t closePos = uint32_t(rng.range(0, n));
  std::vector<SwItem> sw;
  uint32_t nsw = rng.chance(0.35) ? 0 : uint32_t(rng.range(1, 5));
  for (uint32_t i = 0; i < nsw; i++)
  {
    int b = int(rng.below(20));
    sw.push_back({uint32_t(rng.range(0, n)), b < 8 ? M_ASYNC : b < 15 ? M_SYNC : M_DISABLED, rng.chance(0.6) ? 0u : uint32_t(rng.below(200)), int(rng.below(3))});
  }
  if (closePlan == 2) sw.push_back({closePos, 3, rng.chance(0.6) ? 0u : uint32_t(rng.below(200)), int(rng.below(3))});
  std::stable_sort(sw.begin(), sw.end(), [](const SwItem &a, const SwItem &b) { return a.trigger < b.trigger; });
  bool readerOn = rng.chance(0.9);
  int lenProfile = genLenProfile(rng, S.total);
  int toProfile = int(rng.below(4)); // 0 zero only, 1 zero/1ms, 2 mixed with long, 3 mostly long
  uint32_t readerPauseUs = rng.chance(0.5) ? 0 : uint32_t(rng.below(150));
  H.cbDelayMaxUs = rng.chance(0.5) ? 0 : uint32_t(rng.range(20, 300));
  H.cbDelaySeed = rng.next();
  int pace = int(rng.below(5)); // 0,1 none 2 yield 3 short sleeps 4 bursts with sleeps
  uint32_t window = uint32_t(rng.below(4));
  bool viaConnect = rng.chance(0.5);
  uint64_t readerSeed = rng.next(), lateSeed = rng.next(), paceSeed = rng.next();
  uint32_t maxCalls = 600 + 3 * (S.total / std::max<uint32_t>(1, lenProfile == 0 ? 1 : lenProfile == 1 ? 2 : 8));
  if (maxCalls > 6000) maxCalls = 6000;
  {
    std::ostringstream d;
    d << "init=" << c03::modeName(initial) << " close=" << (closePlan == 0 ? "peer@end" : closePlan == 1 ? "peer@" : closePlan == 2 ? "local@" : "local@end");
    if (closePlan == 1 || closePlan == 2) d << closePos;
    d << " switches=[";
    for (auto &s : sw) d << (s.what == 3 ? "close" : c03::modeName(s.what)) << "@" << s.trigger << (s.gate == 0 ? "~" : s.gate == 1 ? "!" : "") << " ";
    d << "] reader=" << (readerOn ? 1 : 0) << " lenProfile=" << lenProfile << " toProfile=" << toProfile << " cbDelayUs<=" << H.cbDelayMaxUs << " pace=" << pace
      << " via=" << (viaConnect ? "connectSync" : "accept");
    S.desc = d.str();
  }

  bindThread(H, T_DIRECTOR);
  exemptFromCondvarShim(true);
  armShim(rng, seed * 7919 + idx);
  if (!setup(H, viaConnect)) { vf::out().inconclusive("C03 setup failed (scripted engine)"); disarmShim(); return; }
  if (initial != M_ASYNC || rng.chance(0.3)) doMode(H, initial);

  std::atomic<bool> feederDone{false};
  std::atomic<uint32_t> swStarted{0}, swDone{0}, ready{0};
  std::thread reader, switcher;
  if (readerOn)
    reader = std::thread([&H, &ready, readerSeed, lenProfile, toProfile, readerPauseUs, maxCalls] {
      bindThread(H, T_READER);
      vf::Rng r(readerSeed);
      ready++;
      uint32_t calls = 0; int afterPc = 0, ovStreak = 0;
      std::vector<std::unique_ptr<iora::network::CancellationToken>> tokens;
      while (!H.stop.load() && calls < maxCalls)
      {
        uint32_t len = genLen(r, lenProfile, H.spec.total);
        int to = 0;
        int k = int(r.below(10));
        if (toProfile == 1) to = k < 5 ? 0 : 1;
        else if (toProfile == 2) to = k < 3 ? 0 : k < 6 ? 1 : H.spec.longTimeoutMs;
        else if (toProfile == 3) to = k < 1 ? 0 : k < 2 ? 1 : H.spec.longTimeoutMs;
        if (to == H.spec.longTimeoutMs && (H.closeSeen.load() || afterPc)) to = int(r.below(2));
        int c;
        if (to == H.spec.longTimeoutMs && r.chance(0.3))
        {
          tokens.emplace_back(new iora::network::CancellationToken());
          int id = int(tokens.size());
          if (r.chance(0.15)) { logCancel(id); tokens.back()->cancel(); } // pre-cancelled: must return Cancelled, take nothing
          c = doRecv(H, len, to, tokens.back().get(), id);
        }
        else c = doRecv(H, len, to);
        calls++;
        if (c == int(TransportError::PeerClosed)) { if (++afterPc > 2) break; }
        else if (c == int(TransportError::BufferOverflow)) { if (++ovStreak > 3) vf::sleepMs(0.2); }
        else if (c != c03::RES_OK) vf::sleepMs(0.02 + 0.001 * double(r.below(150)));
        else ovStreak = 0;
        if (readerPauseUs) vf::sleepMs(double(r.below(readerPauseUs + 1)) / 1000.0);
      }
    });
  switcher = std::thread([&H, &sw, &feederDone, &swStarted, &swDone, &ready] {
    bindThread(H, T_SWITCH);
    exemptFromCondvarShim(true);
    ready++;
    for (auto &s : sw)
    {
      waitFor([&] { return H.progress.load() >= s.trigger || feederDone.load() || H.closeDone.load(); });
      if (s.delayUs) vf::sleepMs(double(s.delayUs) / 1000.0);
      swStarted++;
      if (s.what == 3) doLocalClose(H); else doMode(H, s.what);
      swDone++;
    }
  });
  waitFor([&] { return ready.load() == (readerOn ? 2u : 1u); });

  // feeder: keeps at most `window`+1 deliveries queued so that a local close lands mid-stream
  Hist *hp = &H;
  uint32_t posted = 0;
  bool peerClosePosted = false;
  for (uint32_t k = 0; k < n; k++)
  {
    if (closePlan == 1 && k == closePos) break;
    if (!waitFor([&] { return H.progress.load() + window >= k || H.closeDone.load(); })) stoppedAt(idx, "I/O script made no progress");
    for (uint32_t i = 0; i < sw.size(); i++)
      if (sw[i].trigger <= k && sw[i].gate)
        if (!waitFor([&] { return (sw[i].gate == 1 ? swStarted.load() : swDone.load()) > i || H.closeDone.load(); })) stoppedAt(idx, "switcher made no progress");
    if (H.closeDone.load()) break; // a local close already happened: the engine would refuse further data
    uint64_t r = vf::shim::mix(paceSeed + k);
    uint32_t sleepUs = pace == 3 ? uint32_t(r % 200) : (pace == 4 && (r & 7) == 0) ? uint32_t(200 + r % 1500) : 0;
    bool yieldFirst = pace == 2;
    H.ctl->post([hp, k, sleepUs, yieldFirst] {
      if (yieldFirst) std::this_thread::yield();
      if (sleepUs) vf::sleepMs(double(sleepUs) / 1000.0);
      ioDeliver(*hp, k);
    });
    posted++;
  }
  if (closePlan == 0 || closePlan == 1) { H.ctl->post([hp] { ioClose(*hp, false); }); peerClosePosted = true; }
  feederDone = true;
  if (closePlan == 3) { if (rng.chance(0.5)) H.ctl->quiesce(); doLocalClose(H); }
  (void)posted; (void)peerClosePosted;
  if (!waitFor([&] { return H.closeDone.load(); })) stoppedAt(idx, "close never processed");
  switcher.join();
  H.stop = true;
  if (reader.joinable())
  {
    // the reader is woken by the close; a stuck reader is a lost wake-up (judged in isolation)
    std::atomic<bool> joined{false};
    std::thread w([&] { if (!waitFor([&] { return joined.load(); }, 60ull * 1000000000ull)) stoppedAt(idx, "reader did not return after the close"); });
    reader.join();
    joined = true;
    w.join();
  }
  H.ctl->quiesce();
  // late caller
  vf::Rng lr(lateSeed);
  if (lr.chance(0.3)) doMode(H, int(lr.below(3)));
  lateDrain(H, lr);
  if (lr.chance(0.3)) { doMode(H, lr.chance(0.5) ? M_ASYNC : M_SYNC); lateDrain(H, lr); }
  disarmShim();
  judge(H, T, isolated);
  H.tr.reset();
}

// ================================================================================ sequential
struct Step { int type; uint32_t a; int b; }; // 0 deliver(k) 1 recv(len,to) 2 mode(m) 3 close peer 4 close local

static void execSteps(Hist &H, const std::vector<Step> &steps)
{
  Hist *hp = &H;
  for (auto &s : steps)
  {
    switch (s.type)
    {
    case 0: { uint32_t k = s.a; H.ctl->postWait([hp, k] { ioDeliver(*hp, k); }); break; }
    case 1: doRecv(H, s.a, s.b); break;
    case 2: doMode(H, int(s.a)); break;
    case 3: H.ctl->postWait([hp] { ioClose(*hp, false); }); break;
    case 4: doLocalClose(H); H.ctl->quiesce(); break;
    }
  }
}

static void runSeq(uint64_t seed, uint64_t idx, Totals &T)
{
  vf::Rng rng(seed, idx * 8 + 3);
  auto Hp = std::make_unique<Hist>();
  Hist &H = *Hp;
  Spec &S = H.spec;
  S.kind = "seq"; S.seed = seed; S.idx = idx;
  auto lens = genChunks(rng, 24);
  S.layout(lens);
  S.maxBuf = genMaxBuf(rng, S.total, lens);
  const uint32_t n = uint32_t(lens.size());
  int lenProfile = genLenProfile(rng, S.total);
  std::vector<Step> steps;
  std::ostringstream d;
  if (rng.chance(0.8)) { steps.push_back({2, uint32_t(M_SYNC), 0}); d << "S "; }
  uint32_t next = 0; bool closed = false;
  int wD = int(rng.range(2, 6)), wR = int(rng.range(1, 6)), wM = int(rng.range(0, 3)), wC = 1;
  int budget = int(rng.range(6, 40));
  while (budget-- > 0)
  {
    int wClose = closed ? 0 : next >= n ? 3 : (rng.chance(0.12) ? wC : 0);
    int tot = (next < n && !closed ? wD : 0) + wR + wM + wClose;
    int x = int(rng.below(uint64_t(tot)));
    if (next < n && !closed) { if (x < wD) { steps.push_back({0, next, 0}); d << "D" << next << " "; next++; continue; } x -= wD; }
    if (x < wR) { uint32_t l = genLen(rng, lenProfile, S.total); int to = rng.chance(0.85) ? 0 : 1; steps.push_back({1, l, to}); d << "R" << l << (to ? "t " : " "); continue; }
    x -= wR;
    if (x < wM) { int m = int(rng.below(3)); steps.push_back({2, uint32_t(m), 0}); d << "M" << c03::modeName(m)[0] << " "; continue; }
    bool local = rng.chance(0.3);
    steps.push_back({local ? 4 : 3, 0, 0}); d << (local ? "Cl " : "Cp "); closed = true;
  }
  if (!closed) { steps.push_back({3, 0, 0}); d << "Cp "; }
  S.desc = d.str();
  bindThread(H, T_DIRECTOR);
  exemptFromCondvarShim(true);
  if (!setup(H, rng.chance(0.5))) { vf::out().inconclusive("C03 setup failed (scripted engine)"); return; }
  execSteps(H, steps);
  vf::Rng lr(rng.next());
  if (lr.chance(0.25)) doMode(H, int(lr.below(3)));
  lateDrain(H, lr);
  judge(H, T, false);
  H.tr.reset();
}

// ================================================================================ exhaustive small scope
struct ExhTuple { uint8_t chunking, buf, maxSel, readPat, swKind, closePos, swPos; };
static const std::vector<ExhTuple> &exhSpace()
{
  static std::vector<ExhTuple> sp;
  if (!sp.empty()) return sp;
  for (int c = 0; c < 32; c++)
  {
    int n = 1 + __builtin_popcount(unsigned(c));
    for (int b = 1; b <= 6; b++)
      for (int mx = 0; mx < 2; mx++)
        for (int rp = 0; rp < 3; rp++)
          for (int p = 0; p <= n; p++)
            for (int sk = 0; sk < 6; sk++)
              for (int q = 0; q <= (sk == 0 ? 0 : n); q++)
                sp.push_back({uint8_t(c), uint8_t(b), uint8_t(mx), uint8_t(rp), uint8_t(sk), uint8_t(p), uint8_t(q)});
  }
  return sp;
}
static void runExh(uint64_t idx, Totals &T)
{
  const ExhTuple &t = exhSpace()[idx];
  auto Hp = std::make_unique<Hist>();
  Hist &H = *Hp;
  Spec &S = H.spec;
  S.kind = "exh"; S.seed = 0; S.idx = idx;
  std::vector<uint32_t> lens; // composition of 6: bit i of `chunking` set = cut after byte i+1
  uint32_t cur = 1;
  for (int i = 0; i < 5; i++) { if (t.chunking & (1 << i)) { lens.push_back(cur); cur = 1; } else cur++; }
  lens.push_back(cur);
  S.layout(lens);
  S.maxBuf = t.maxSel ? 3 : (1u << 20);
  const int n = int(lens.size());
  // switch kinds: 0 none, 1 ->Async, 2 ->Disabled, 3 ->Async,->Sync, 4 ->Disabled,->Sync, 5 ->Disabled,->Async
  static const int first[] = {-1, M_ASYNC, M_DISABLED, M_ASYNC, M_DISABLED, M_DISABLED};
  static const int second[] = {-1, -1, -1, M_SYNC, M_SYNC, M_ASYNC};
  std::vector<Step> steps;
  steps.push_back({2, uint32_t(M_SYNC), 0});
  bool closed = false, secondPending = false;
  for (int i = 0; i <= n; i++)
  {
    if (secondPending) { steps.push_back({2, uint32_t(second[t.swKind]), 0}); secondPending = false; }
    if (t.swKind && t.swPos == i) { steps.push_back({2, uint32_t(first[t.swKind]), 0}); secondPending = second[t.swKind] >= 0; }
    if (t.closePos == i) { steps.push_back({3, 0, 0}); closed = true; }
    if (i < n && !closed) steps.push_back({0, uint32_t(i), 0});
    if (i < n) for (int r = 0; r < (t.readPat == 0 ? 1 : t.readPat == 2 ? 2 : 0); r++) steps.push_back({1, t.buf, 0});
  }
  if (secondPending) steps.push_back({2, uint32_t(second[t.swKind]), 0});
  {
    std::ostringstream d;
    d << "chunks=";
    for (auto l : lens) d << l << ",";
    d << " buf=" << int(t.buf) << " max=" << S.maxBuf << " readPat=" << int(t.readPat) << " switchKind=" << int(t.swKind) << "@" << int(t.swPos) << " close@" << int(t.closePos);
    S.desc = d.str();
  }
  bindThread(H, T_DIRECTOR);
  exemptFromCondvarShim(true);
  if (!setup(H, false)) { vf::out().inconclusive("C03 setup failed (scripted engine)"); return; }
  execSteps(H, steps);
  vf::Rng lr(1);
  lateDrain(H, lr, t.buf);
  judge(H, T, false);
  H.tr.reset();
}

// ================================================================================ second reader probe
static void runProbe(uint64_t seed, uint64_t idx)
{
  auto &O = vf::out();
  vf::Rng rng(seed, idx * 8 + 5);
  auto Hp = std::make_unique<Hist>();
  Hist &H = *Hp;
  H.spec.kind = "probe"; H.spec.seed = seed; H.spec.idx = idx;
  H.spec.layout({8});
  bindThread(H, T_DIRECTOR);
  exemptFromCondvarShim(true);
  if (!setup(H, rng.chance(0.5))) { O.inconclusive("C03 setup failed (scripted engine)"); return; }
  doMode(H, M_SYNC);
  // The first reader parks on the empty Sync session; a second call must then be refused with an
  // error (Cancelled), never served or silently queued behind the first. The two calls are started
  // from two threads, so the "second" (zero-timeout) call can win the race for the buffer: then the
  // *first* is the one that is refused and the attempt is simply repeated.
  bool rejected = false, decided = false; int lastCode = -100, firstCode = -100, attempts = 0;
  Hist *hp = &H;
  while (!decided && attempts++ < 40)
  {
    std::atomic<int> firstResult{-100};
    std::thread first([&] { bindThread(H, T_READER); firstResult = doRecv(H, 64, 20000); });
    uint64_t t0 = vf::nowNs();
    bool firstLostRace = false;
    while (vf::nowNs() - t0 < 15ull * 1000000000ull)
    {
      vf::sleepMs(0.3);
      if (firstResult.load() != -100) { firstLostRace = firstResult.load() == int(TransportError::Cancelled); break; }
      int c = doRecv(H, 64, 0);
      lastCode = c;
      if (c == int(TransportError::Cancelled)) { rejected = true; break; }
      if (c != int(TransportError::Timeout)) break; // Timeout = the first reader had not parked yet
    }
    if (firstLostRace) { first.join(); O.obs("probe_first_reader_lost_race"); continue; }
    decided = true;
    H.ctl->postWait([hp] { ioDeliver(*hp, 0); });
    H.ctl->postWait([hp] { ioClose(*hp, false); });
    first.join();
    firstCode = firstResult.load();
  }
  if (!decided) { O.inconclusive("C03 probe: the first reader never got to park in 40 attempts"); H.tr.reset(); return; }
  if (!rejected)
    O.viol("C03:second-reader:not-rejected", "a second receiveSync on a session with a parked reader was not refused with Cancelled",
           "{\"second_call_result\":" + std::to_string(lastCode) + ",\"first_result\":" + std::to_string(firstCode) + "}");
  else O.obs("second_reader_rejected");
  if (firstCode != c03::RES_OK)
    O.viol("C03:second-reader:first-reader-disturbed", "the parked first reader did not receive the data that arrived after the rejected second call",
           "{\"first_result\":" + std::to_string(firstCode) + "}");
  vf::Rng lr(3);
  lateDrain(H, lr);
  O.obs("histories_probe");
  O.caseSig(vf::fnv(std::string("probe ") + (rejected ? "rejected" : "not")));
  H.tr.reset();
}

// ================================================================================ cancellable receive
// The reader sits in receiveSyncCancellable (100 ms receiveSync slices inside); the director places
// token.cancel() and the scripted arrivals around each other exactly: cancel then an arrival within the
// same slice, arrival then cancel, cancel then nothing, cancel at a seeded offset, pre-cancelled token,
// no cancel. One fact judges it: a call that returns an error returned no bytes, so every byte of the
// stream must still come out of some ok() result, once, in order.
struct CancelSlot { iora::network::CancellationToken *tok = nullptr; int id = 0; };

static void runCancel(uint64_t seed, uint64_t idx, Totals &T)
{
  vf::Rng rng(seed, idx * 8 + 2);
  auto Hp = std::make_unique<Hist>();
  Hist &H = *Hp;
  Spec &S = H.spec;
  S.kind = "cancel"; S.seed = seed; S.idx = idx;
  std::vector<uint32_t> lens;
  uint32_t n = uint32_t(rng.range(2, 5));
  for (uint32_t i = 0; i < n; i++) lens.push_back(rng.chance(0.5) ? uint32_t(rng.range(1, 16)) : uint32_t(rng.range(17, 300)));
  S.layout(lens);
  S.maxBuf = 1u << 20;
  int lenProfile = rng.chance(0.5) ? 2 : (rng.chance(0.5) ? 4 : 3);
  std::vector<int> kinds;
  std::ostringstream d;
  d << "kinds=";
  for (uint32_t i = 0; i < n; i++)
  {
    int b = int(rng.below(20));
    int k = b < 9 ? 0 : b < 12 ? 1 : b < 14 ? 2 : b < 17 ? 3 : 4; // 0 cancel->arrival 1 arrival->cancel 2 cancel->nothing 3 no cancel 4 cancel at offset
    kinds.push_back(k);
    d << "ABCDE"[k];
  }
  d << " (A cancel then arrival in the slice, B arrival then cancel, C cancel then nothing, D no cancel, E cancel at a seeded offset) lenProfile=" << lenProfile;
  S.desc = d.str();
  bindThread(H, T_DIRECTOR);
  exemptFromCondvarShim(true);
  armShim(rng, seed * 104729 + idx);
  if (!setup(H, rng.chance(0.5))) { vf::out().inconclusive("C03 setup failed (scripted engine)"); disarmShim(); return; }
  doMode(H, M_SYNC);

  std::atomic<CancelSlot *> slot{nullptr};
  std::atomic<int> returned{0}; // id of the last call that has returned
  uint64_t readerSeed = rng.next();
  std::thread reader([&H, &slot, &returned, readerSeed, lenProfile] {
    bindThread(H, T_READER);
    vf::Rng r(readerSeed);
    std::vector<std::unique_ptr<iora::network::CancellationToken>> tokens;
    std::vector<std::unique_ptr<CancelSlot>> slots;
    int afterPc = 0;
    for (int calls = 0; calls < 4000 && !H.stop.load(); calls++)
    {
      tokens.emplace_back(new iora::network::CancellationToken());
      slots.emplace_back(new CancelSlot{tokens.back().get(), int(tokens.size())});
      int id = slots.back()->id;
      uint32_t len = genLen(r, lenProfile, H.spec.total);
      int to = H.closeSeen.load() ? 150 : int(r.range(400, 1500));
      if (r.chance(0.06)) { logCancel(id); tokens.back()->cancel(); } // pre-cancelled
      slot.store(slots.back().get());
      int c = doRecv(H, len, to, tokens.back().get(), id);
      returned.store(id);
      if (c == int(TransportError::PeerClosed) && ++afterPc >= 1) break;
    }
    slot.store(nullptr);
  });
  Hist *hp = &H;
  auto liveCall = [&]() -> CancelSlot * { CancelSlot *cs = slot.load(); return cs && returned.load() < cs->id ? cs : nullptr; };
  auto cancelNow = [&](CancelSlot *cs) { logCancel(cs->id); cs->tok->cancel(); };
  bool stuck = false;
  for (uint32_t k = 0; k < n && !stuck; k++)
  {
    int kind = kinds[k];
    CancelSlot *cs = nullptr;
    if (kind != 3)
    {
      if (!waitFor([&] { return (cs = liveCall()) != nullptr; })) { stuck = true; break; }
    }
    switch (kind)
    {
    case 0:
      vf::sleepMs(0.3 + double(rng.below(2700)) / 1000.0); // let the reader park in its slice
      cancelNow(cs);
      { int b = int(rng.below(3)); if (b == 1) vf::sleepMs(double(rng.below(5000)) / 1000.0); else if (b == 2) vf::sleepMs(double(rng.below(60))); }
      break;
    case 1: break;
    case 2:
      vf::sleepMs(0.3 + double(rng.below(2000)) / 1000.0);
      cancelNow(cs);
      { int id = cs->id; if (!waitFor([&] { return returned.load() >= id; })) stuck = true; }
      break;
    case 4:
      vf::sleepMs(double(rng.below(150)));
      cancelNow(cs);
      vf::sleepMs(double(rng.below(30)));
      break;
    }
    H.ctl->postWait([hp, k] { ioDeliver(*hp, k); });
    if (kind == 1) cancelNow(cs);
    if (rng.chance(0.3)) vf::sleepMs(double(rng.below(3000)) / 1000.0);
  }
  if (stuck) stoppedAt(idx, "cancellable reader never entered / left a call");
  H.ctl->postWait([hp] { ioClose(*hp, false); });
  {
    std::atomic<bool> joined{false};
    std::thread w([&] { if (!waitFor([&] { return joined.load(); }, 120ull * 1000000000ull)) stoppedAt(idx, "cancellable reader did not finish after the close"); });
    reader.join();
    joined = true;
    w.join();
  }
  H.stop = true;
  vf::Rng lr(rng.next());
  lateDrain(H, lr);
  disarmShim();
  judge(H, T, false);
  H.tr.reset();
}

// ================================================================================ multi-session
// Several Sync-mode sessions on ONE Transport with a small syncBufferGcThreshold, closing in a seeded
// order with undrained bytes buffered, unrelated sessions opening/closing in between (each close runs
// the tombstone GC over every other session's buffer), late drains with small buffers afterwards.
// Sequential (one director); every main session is judged by the ordinary per-session checker.
struct Multi
{
  std::shared_ptr<Transport> tr;
  std::shared_ptr<vf::ScriptedEngine::Control> ctl;
  std::vector<std::unique_ptr<Hist>> hs;
  std::mutex m;
  std::map<SessionId, Hist *> bySid;
  std::atomic<uint64_t> fillerBytes{0};
  Hist *find(SessionId sid) { std::lock_guard<std::mutex> g(m); auto it = bySid.find(sid); return it == bySid.end() ? nullptr : it->second; }
};
static thread_local Hist *tlsHist = nullptr;
static void bindM(Hist &H, int t) { bindThread(H, t); tlsHist = &H; }

static void runMulti(uint64_t seed, uint64_t idx, Totals &T, bool big)
{
  auto &O = vf::out();
  vf::Rng rng(seed, idx * 8 + 6);
  auto Mp = std::make_unique<Multi>();
  Multi &M = *Mp;
  Multi *mp = &M;
  exemptFromCondvarShim(true);
  tlsThread = T_DIRECTOR;
  auto eng = std::make_unique<vf::ScriptedEngine>();
  M.ctl = eng->control();
  M.ctl->threadInit = [] { tlsThread = T_IO; tlsLog = nullptr; tlsHist = nullptr; exemptFromCondvarShim(true); };
  M.ctl->localCloseHook = [mp](SessionId sid, bool after, bool flag) {
    Hist *h = mp->find(sid);
    if (!h) return;
    if (!after) { bindM(*h, T_IO); Ev e; e.type = EV_CLOSE; e.thread = T_IO; e.a = 1; e.s0 = seq(); tlsLog->ev.push_back(e); }
    else { Ev &e = h->logs[T_IO].ev.back(); e.s1 = seq(); e.b = flag ? 1 : 0; if (flag) h->closeDone = true; }
  };
  iora::network::TransportConfig cfg;
  size_t threshold = big ? cfg.syncBufferGcThreshold : size_t(rng.range(1, 8));
  cfg.syncBufferGcThreshold = threshold;
  cfg.maxSyncReceiveBuffer = rng.chance(0.85) ? (1u << 20) : size_t(rng.range(4, 60));
  M.tr = iora::network::test::TransportEngineInjector::withEngine(std::move(eng), cfg);
  M.tr->onData([mp](SessionId sid, iora::core::BufferView data, std::chrono::steady_clock::time_point) {
    Hist *h = mp->find(sid);
    if (!h) { mp->fillerBytes += data.size(); return; }
    if (tlsThread < 0) { h->strayCallbacks++; return; }
    ThreadLog &L = h->logs[tlsThread];
    Ev e; e.type = EV_CB; e.thread = uint8_t(tlsThread);
    e.s0 = seq(); e.t0 = vf::nowNs();
    e.payOff = uint32_t(L.arena.size()); e.payLen = uint32_t(data.size());
    L.arena.insert(L.arena.end(), data.data(), data.data() + data.size());
    e.encl = tlsHist == h ? tlsCurOp : -1;
    e.a = 1;
    e.t1 = vf::nowNs(); e.s1 = seq();
    L.ev.push_back(e);
  });
  M.tr->onClose([mp](SessionId sid, const iora::network::TransportErrorInfo &) { if (Hist *h = mp->find(sid)) h->closeSeen = true; });
  if (!M.tr->start().isOk()) { O.inconclusive("C03 multi: scripted engine did not start"); return; }
  auto openSession = [&]() { SessionId s = M.ctl->acceptSession({"10.9.8.7", 1}); M.ctl->quiesce(); return s; };

  const uint32_t nMain = uint32_t(rng.range(2, 6));
  struct Plan { std::vector<Step> ops; size_t cur = 0; uint32_t lateLen = 1; uint64_t pending = 0; bool closed = false, sync = false; int nonData = 0; };
  std::vector<Plan> plans(nMain);
  std::ostringstream desc;
  desc << "gcThreshold=" << threshold << " max=" << cfg.maxSyncReceiveBuffer << " mains=" << nMain << (big ? " big" : "");
  for (uint32_t j = 0; j < nMain; j++)
  {
    auto H = std::make_unique<Hist>();
    H->spec.kind = "multi"; H->spec.seed = seed; H->spec.idx = idx;
    std::vector<uint32_t> lens;
    uint32_t nc = uint32_t(rng.range(1, 5));
    for (uint32_t i = 0; i < nc; i++) lens.push_back(rng.chance(0.7) ? uint32_t(rng.range(1, 12)) : uint32_t(rng.range(13, 90)));
    H->spec.layout(lens);
    H->spec.maxBuf = cfg.maxSyncReceiveBuffer;
    H->tr = M.tr; H->ctl = M.ctl;
    H->sid = openSession();
    { std::lock_guard<std::mutex> g(M.m); M.bySid[H->sid] = H.get(); }
    Plan &P = plans[j];
    P.sync = rng.chance(0.9);
    if (P.sync) P.ops.push_back({2, uint32_t(M_SYNC), 0});
    double readP = rng.chance(0.5) ? 0.0 : 0.35;
    for (uint32_t i = 0; i < nc; i++)
    {
      P.ops.push_back({0, i, 0});
      if (rng.chance(readP)) P.ops.push_back({1, uint32_t(rng.range(1, 8)), 0});
    }
    P.ops.push_back({rng.chance(0.3) ? 4 : 3, 0, 0});
    P.lateLen = uint32_t(rng.range(1, 8));
    M.hs.push_back(std::move(H));
  }
  std::vector<SessionId> fillers;
  uint64_t otherCloseWhileTail = 0, fillerCloses = 0;
  auto noteOtherClose = [&](int self) {
    for (uint32_t j = 0; j < nMain; j++)
      if (int(j) != self && plans[j].closed && plans[j].pending > 0 && plans[j].sync) otherCloseWhileTail++;
  };
  auto fillerStep = [&](bool forceClose) {
    if (!forceClose && (fillers.empty() || rng.chance(0.5)))
    {
      SessionId s = openSession();
      if (rng.chance(0.4)) M.tr->setReadMode(s, ReadMode::Sync);
      if (rng.chance(0.3)) { static const uint8_t junk[5] = {1, 2, 3, 4, 5}; auto c = M.ctl.get(); M.ctl->postWait([c, s] { c->fireData(s, junk, 5); }); }
      fillers.push_back(s);
      return;
    }
    if (fillers.empty()) { fillers.push_back(openSession()); }
    size_t k = size_t(rng.below(fillers.size()));
    SessionId s = fillers[k];
    fillers.erase(fillers.begin() + long(k));
    auto c = M.ctl.get();
    M.ctl->postWait([c, s] { c->fireClose(s, {TransportError::PeerClosed, "filler closed", 0, 0}); });
    fillerCloses++;
    noteOtherClose(-1);
  };
  auto mainStep = [&](uint32_t j) {
    Plan &P = plans[j];
    Hist &H = *M.hs[j];
    Hist *hp = &H;
    const Step &s = P.ops[P.cur++];
    bindM(H, T_DIRECTOR);
    switch (s.type)
    {
    case 0: { uint32_t k = s.a; M.ctl->postWait([hp, k] { bindM(*hp, T_IO); ioDeliver(*hp, k); }); if (P.sync) P.pending += H.spec.chunks[k].second; break; }
    case 1: { size_t before = H.logs[T_DIRECTOR].ev.size(); doRecv(H, s.a, 0); auto &e = H.logs[T_DIRECTOR].ev[before]; if (e.c == c03::RES_OK) P.pending -= std::min<uint64_t>(P.pending, e.payLen); break; }
    case 2: doMode(H, int(s.a)); break;
    case 3: M.ctl->postWait([hp] { bindM(*hp, T_IO); ioClose(*hp, false); }); P.closed = true; noteOtherClose(int(j)); break;
    case 4: doLocalClose(H); M.ctl->quiesce(); P.closed = true; noteOtherClose(int(j)); break;
    }
  };
  // phase A: interleave the mains' scripts and filler traffic
  for (;;)
  {
    std::vector<uint32_t> live;
    for (uint32_t j = 0; j < nMain; j++) if (plans[j].cur < plans[j].ops.size()) live.push_back(j);
    if (live.empty()) break;
    if (rng.chance(0.25)) fillerStep(false);
    else mainStep(live[rng.below(live.size())]);
  }
  // every main is closed now; more unrelated closes so that the GC threshold is certainly crossed
  uint32_t extra = big ? 1100 : uint32_t(rng.range(threshold + 1, threshold + 4));
  for (uint32_t i = 0; i < extra; i++) { fillers.push_back(openSession()); fillerStep(true); }
  // phase B: late drains with small buffers, a few calls per session per round, unrelated closes in between
  for (int round = 0; round < 100000; round++)
  {
    bool any = false;
    for (uint32_t j = 0; j < nMain; j++)
    {
      Plan &P = plans[j];
      if (P.nonData >= 2) continue;
      any = true;
      Hist &H = *M.hs[j];
      bindM(H, T_DIRECTOR);
      int calls = int(rng.range(1, 3));
      for (int c = 0; c < calls && P.nonData < 2; c++)
      {
        size_t before = H.logs[T_DIRECTOR].ev.size();
        doRecv(H, P.lateLen, 0);
        auto &e = H.logs[T_DIRECTOR].ev[before];
        if (e.c == c03::RES_OK) { P.nonData = 0; P.pending -= std::min<uint64_t>(P.pending, e.payLen); } else P.nonData++;
      }
      if (rng.chance(0.5)) { fillers.push_back(openSession()); fillerStep(true); }
    }
    if (!any) break;
  }
  O.obs("multi_transports");
  O.obs("multi_filler_closes", fillerCloses);
  O.obs("multi_other_close_while_closed_tail_undrained", otherCloseWhileTail);
  if (big) O.obs("multi_big_default_threshold");
  for (uint32_t j = 0; j < nMain; j++)
  {
    M.hs[j]->spec.desc = desc.str() + " session#" + std::to_string(j) + " lateLen=" + std::to_string(plans[j].lateLen);
    judge(*M.hs[j], T, false);
  }
  for (auto &h : M.hs) h->tr.reset();
  M.tr.reset();
}

#include "c03_tcp.hpp"

int main(int argc, char **argv)
{
  vf::Args a(argc, argv);
  std::string mode = a.s("mode", "conc");
  uint64_t seed = a.u("seed", 1), from = a.u("from", 0), count = a.u("count", 10), stride = a.u("stride", 1);
  bool isolated = a.u("isolated", 0) != 0;
  auto &O = vf::out();
  Totals T;
  if (mode == "exh" && a.has("count-only"))
  {
    O.line("{\"t\":\"space\",\"n\":" + std::to_string(exhSpace().size()) + "}");
    O.flush();
    return 0;
  }
  for (uint64_t j = 0; j < count; j++)
  {
    uint64_t i = from + j * stride;
    if (mode == "conc") runConc(seed, i, T, isolated);
    else if (mode == "seq") runSeq(seed, i, T);
    else if (mode == "exh") { if (i < exhSpace().size()) runExh(i, T); }
    else if (mode == "probe") runProbe(seed, i);
    else if (mode == "cancel") runCancel(seed, i, T);
    else if (mode == "multi") { uint64_t be = a.u("big-every", 0); runMulti(seed, i, T, be && i % be == 0); }
    else if (mode == "tcp") runTcp(seed, i, from, count);
    else { fprintf(stderr, "unknown mode\n"); return 3; }
  }
  if (mode == "tcp") tcpFinish();
  for (auto s : T.suspectIdx) O.line("{\"t\":\"suspect\",\"idx\":" + std::to_string(s) + "}");
#if !VF_TSAN
  O.obs("condvar_waits", vf::shim::condvarPolicy().waits);
  O.obs("condvar_prepark_delays", vf::shim::condvarPolicy().delayed);
#endif
  O.flush();
  return 0;
}
