// /verif/harness/c07_pki.hpp — test PKI for C07, generated at run time with the OpenSSL C API
// (no dependency on an `openssl` CLI, nothing checked in). Everything is written as PEM files
// into one directory (ctx.tmp/pki); both iora (through its *File/*Path configuration) and the
// independent peers load from there.
//
//   ca-right.pem/.key      root CA "A"  (the issuer of every "valid" leaf)
//   ca-wrong.pem/.key      root CA "B"  (a second, unrelated root)
//   ca-forged.pem/.key     a root with the *same subject DN* as CA A but another key
//   srv-valid              CN=localhost  SAN DNS:localhost, IP:127.0.0.1   issued by A
//   srv-dnsonly            CN=localhost  SAN DNS:localhost                 issued by A
//   srv-wrongname          CN=evil.example SAN DNS:evil.example            issued by A
//   srv-expired            like srv-valid, validity [-2d, -1d]             issued by A
//   srv-notyet             like srv-valid, validity [+1d, +2d]             issued by A
//   srv-selfsigned         like srv-valid, self-signed
//   srv-wrongca            like srv-valid, issued by B
//   srv-forged             like srv-valid, issued by the forged CA (issuer DN == A's DN)
//   cli-trusted            CN=client-trusted, clientAuth, issued by A
//   cli-untrusted          issued by B;  cli-selfsigned; cli-expired / cli-notyet / cli-forged (as above)
//   other.key              a fresh key that matches no certificate (cert/key mismatch cells)
//   capath-right/<hash>.0  hashed directory holding CA A;  capath-empty/  an empty directory
#pragma once
#include <openssl/bn.h>
#include <openssl/ec.h>
#include <openssl/err.h>
#include <openssl/evp.h>
#include <openssl/pem.h>
#include <openssl/x509.h>
#include <openssl/x509v3.h>

#include <cstdio>
#include <initializer_list>
#include <stdexcept>
#include <string>
#include <vector>
#include <sys/stat.h>

namespace c07 {

struct Pki
{
  std::string dir;
  std::string p(const std::string &name) const { return dir + "/" + name; }
  std::string cert(const std::string &name) const { return name.empty() ? std::string() : dir + "/" + name + ".pem"; }
  std::string key(const std::string &name) const { return name.empty() ? std::string() : dir + "/" + name + ".key"; }
};

namespace detail {

inline void die(const std::string &what)
{
  char buf[256] = {0};
  ERR_error_string_n(ERR_get_error(), buf, sizeof buf);
  throw std::runtime_error("pki: " + what + ": " + buf);
}

inline EVP_PKEY *genKey()
{
  EVP_PKEY *k = EVP_EC_gen("P-256");
  if (!k) die("EVP_EC_gen");
  return k;
}

inline void addExt(X509 *cert, X509 *issuer, int nid, const char *value)
{
  X509V3_CTX ctx;
  X509V3_set_ctx_nodb(&ctx);
  X509V3_set_ctx(&ctx, issuer, cert, nullptr, nullptr, 0);
  X509_EXTENSION *ex = X509V3_EXT_conf_nid(nullptr, &ctx, nid, value);
  if (!ex) die(std::string("extension ") + OBJ_nid2sn(nid) + "=" + value);
  X509_add_ext(cert, ex, -1);
  X509_EXTENSION_free(ex);
}

struct Spec
{
  std::string cn;
  std::string san;        // "DNS:localhost,IP:127.0.0.1" or empty
  long notBeforeS = -3600;
  long notAfterS = 30L * 86400;
  bool ca = false;
  const char *eku = nullptr; // "serverAuth" / "clientAuth"
};

inline X509 *makeCert(const Spec &sp, EVP_PKEY *subjectKey, X509 *issuerCert, EVP_PKEY *issuerKey, long serial)
{
  X509 *x = X509_new();
  if (!x) die("X509_new");
  X509_set_version(x, 2);
  ASN1_INTEGER_set(X509_get_serialNumber(x), serial);
  X509_gmtime_adj(X509_getm_notBefore(x), sp.notBeforeS);
  X509_gmtime_adj(X509_getm_notAfter(x), sp.notAfterS);
  X509_set_pubkey(x, subjectKey);
  X509_NAME *n = X509_get_subject_name(x);
  X509_NAME_add_entry_by_txt(n, "O", MBSTRING_ASC, (const unsigned char *)"vf-c07", -1, -1, 0);
  X509_NAME_add_entry_by_txt(n, "CN", MBSTRING_ASC, (const unsigned char *)sp.cn.c_str(), -1, -1, 0);
  X509_set_issuer_name(x, issuerCert ? X509_get_subject_name(issuerCert) : n);
  X509 *iss = issuerCert ? issuerCert : x;
  if (sp.ca)
  {
    addExt(x, iss, NID_basic_constraints, "critical,CA:TRUE");
    addExt(x, iss, NID_key_usage, "critical,keyCertSign,cRLSign");
  }
  else
  {
    addExt(x, iss, NID_basic_constraints, "critical,CA:FALSE");
    addExt(x, iss, NID_key_usage, "critical,digitalSignature,keyAgreement");
    if (sp.eku) addExt(x, iss, NID_ext_key_usage, sp.eku);
    if (!sp.san.empty()) addExt(x, iss, NID_subject_alt_name, sp.san.c_str());
  }
  // deliberately no subject/authority key identifiers: the issuer is then found by name and
  // the *signature* decides (the forged-issuer leaf must fail on the signature, not on a hint)
  if (!X509_sign(x, issuerKey ? issuerKey : subjectKey, EVP_sha256())) die("X509_sign");
  return x;
}

inline void writeCert(const std::string &path, X509 *x)
{
  FILE *f = fopen(path.c_str(), "w");
  if (!f) throw std::runtime_error("pki: cannot write " + path);
  if (!PEM_write_X509(f, x)) { fclose(f); die("PEM_write_X509"); }
  fclose(f);
}
inline void writeKey(const std::string &path, EVP_PKEY *k)
{
  FILE *f = fopen(path.c_str(), "w");
  if (!f) throw std::runtime_error("pki: cannot write " + path);
  if (!PEM_write_PrivateKey(f, k, nullptr, nullptr, 0, nullptr, nullptr)) { fclose(f); die("PEM_write_PrivateKey"); }
  fclose(f);
  chmod(path.c_str(), 0600);
}

} // namespace detail

// Generates the whole PKI into `dir` (which must exist). Throws std::runtime_error on failure.
inline void generatePki(const std::string &dir)
{
  using namespace detail;
  Pki P{dir};
  long serial = 1000;
  const long D = 86400;

  auto mkCa = [&](const std::string &file, const std::string &cn, EVP_PKEY *&key, X509 *&cert)
  {
    key = genKey();
    Spec s; s.cn = cn; s.ca = true; s.notAfterS = 3650 * D;
    cert = makeCert(s, key, nullptr, nullptr, ++serial);
    writeCert(P.cert(file), cert);
    writeKey(P.key(file), key);
  };
  EVP_PKEY *kA, *kB, *kF, *kC; X509 *cA, *cB, *cF, *cC;
  mkCa("ca-third", "vf-c07 root C", kC, cC);   // a third, unrelated root (never configured as an anchor)
  mkCa("ca-right", "vf-c07 root A", kA, cA);
  mkCa("ca-wrong", "vf-c07 root B", kB, cB);
  mkCa("ca-forged", "vf-c07 root A", kF, cF); // same DN as A, other key

  auto leaf = [&](const std::string &file, Spec s, X509 *issuer, EVP_PKEY *issuerKey)
  {
    EVP_PKEY *k = genKey();
    X509 *x = makeCert(s, k, issuer, issuerKey, ++serial);
    writeCert(P.cert(file), x);
    writeKey(P.key(file), k);
    X509_free(x); EVP_PKEY_free(k);
  };
  const std::string full = "DNS:localhost,IP:127.0.0.1";
  Spec srv; srv.cn = "localhost"; srv.san = full; srv.eku = "serverAuth";
  leaf("srv-valid", srv, cA, kA);
  { Spec s = srv; s.san = "DNS:localhost"; leaf("srv-dnsonly", s, cA, kA); }
  { Spec s = srv; s.cn = "evil.example"; s.san = "DNS:evil.example"; leaf("srv-wrongname", s, cA, kA); }
  { Spec s = srv; s.notBeforeS = -2 * D; s.notAfterS = -1 * D; leaf("srv-expired", s, cA, kA); }
  { Spec s = srv; s.notBeforeS = 1 * D; s.notAfterS = 2 * D; leaf("srv-notyet", s, cA, kA); }
  // name-matching family (all issued by A, valid now): what the certificate is issued FOR
  { Spec s = srv; s.cn = "vf-c07 wild"; s.san = "DNS:*.example.test"; leaf("srv-wild", s, cA, kA); }              // one-label wildcard
  { Spec s = srv; s.cn = "vf-c07 exact"; s.san = "DNS:api.example.test"; leaf("srv-exact", s, cA, kA); }           // exact name
  { Spec s = srv; s.cn = "vf-c07 partial"; s.san = "DNS:a*.example.test"; leaf("srv-partial", s, cA, kA); }        // partial wildcard
  { Spec s = srv; s.cn = "vf-c07 midwild"; s.san = "DNS:www.*.example.test"; leaf("srv-midwild", s, cA, kA); }     // wildcard not in the leftmost label
  { Spec s = srv; s.cn = "vf-c07 iponly"; s.san = "IP:127.0.0.1"; leaf("srv-iponly", s, cA, kA); }                 // iPAddress SAN only
  { Spec s = srv; s.cn = "api.example.test"; s.san = ""; leaf("srv-cnonly", s, cA, kA); }                          // no SAN at all, name in the CN
  leaf("srv-selfsigned", srv, nullptr, nullptr);
  leaf("srv-wrongca", srv, cB, kB);
  leaf("srv-forged", srv, cF, kF);

  Spec cli; cli.cn = "client-trusted"; cli.eku = "clientAuth"; cli.san = "DNS:client.vf-c07";
  leaf("cli-trusted", cli, cA, kA);
  { Spec s = cli; s.cn = "client-untrusted"; leaf("cli-untrusted", s, cB, kB); }
  { Spec s = cli; s.cn = "client-selfsigned"; leaf("cli-selfsigned", s, nullptr, nullptr); }
  { Spec s = cli; s.cn = "client-expired"; s.notBeforeS = -2 * D; s.notAfterS = -1 * D; leaf("cli-expired", s, cA, kA); }
  { Spec s = cli; s.cn = "client-notyet"; s.notBeforeS = 1 * D; s.notAfterS = 2 * D; leaf("cli-notyet", s, cA, kA); }
  { Spec s = cli; s.cn = "client-forged"; leaf("cli-forged", s, cF, kF); }

  leaf("srv-third", srv, cC, kC);
  { Spec s = cli; s.cn = "client-third"; leaf("cli-third", s, cC, kC); }
  // certificate FILE SHAPES: bundles as an operator would deploy them (key file = the leaf's key)
  auto bundle = [&](const std::string &out, std::initializer_list<const char *> parts)
  {
    FILE *f = fopen(P.cert(out).c_str(), "w");
    if (!f) throw std::runtime_error("pki: cannot write bundle " + out);
    for (const char *part : parts)
    {
      FILE *in = fopen(P.cert(part).c_str(), "r");
      if (!in) { fclose(f); throw std::runtime_error(std::string("pki: cannot read ") + part); }
      char buf[4096]; size_t n;
      while ((n = fread(buf, 1, sizeof buf, in)) > 0) fwrite(buf, 1, n, f);
      fclose(in);
    }
    fclose(f);
  };
  bundle("srv-valid+ca-right", {"srv-valid", "ca-right"});   // fullchain: leaf + its issuing root
  bundle("srv-valid+ca-third", {"srv-valid", "ca-third"});   // leaf + an unrelated root
  bundle("ca-right+srv-valid", {"ca-right", "srv-valid"});   // CA first, then the leaf
  bundle("cli-trusted+ca-right", {"cli-trusted", "ca-right"});
  bundle("cli-trusted+ca-third", {"cli-trusted", "ca-third"});
  bundle("ca-right+cli-trusted", {"ca-right", "cli-trusted"});

  { EVP_PKEY *k = genKey(); writeKey(P.key("other"), k); EVP_PKEY_free(k); }

  // hashed CA directory (what c_rehash would produce) and an empty one
  mkdir(P.p("capath-right").c_str(), 0755);
  mkdir(P.p("capath-empty").c_str(), 0755);
  {
    char name[64];
    snprintf(name, sizeof name, "%08lx.0", X509_subject_name_hash(cA));
    writeCert(P.p("capath-right") + "/" + name, cA);
  }
  X509_free(cA); X509_free(cB); X509_free(cF); X509_free(cC);
  EVP_PKEY_free(kA); EVP_PKEY_free(kB); EVP_PKEY_free(kF); EVP_PKEY_free(kC);
}

} // namespace c07
