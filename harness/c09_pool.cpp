// C09 harness: ThreadPool — every accepted task exactly once, bounded threads, clean shutdown.
// Oracle: per-task counters and stamps recorded by the task bodies themselves, submission
// results recorded at the client boundary, a fence stamped when stop()/~ThreadPool returned,
// and an exact high-water mark of concurrently executing workers.
#define VF_SHIM_CONDVAR
#include "shim/shims.hpp"
#include "vf.hpp"

#include <iora/core/thread_pool.hpp>

#include <future>
#include <memory>

using iora::core::ThreadPool;

// ---- pthread_create interposer (harness-local): a submitter can be held just before the thread
// it decided to spawn is created — a legal pre-emption point — so that "spawn decided, worker not
// yet registered" overlaps stop()/drain(). Not compiled under TSan (it owns pthread_create there).
static thread_local uint32_t tlsCreateDelayUs = 0;
// pre-lock delay: a flagged (submitter) thread is held just BEFORE it acquires a mutex, i.e. between
// a lock-free check and the critical section that follows it
static thread_local uint32_t tlsPreLockDelayUs = 0;
static std::atomic<uint64_t> gPreLockDelays{0};
static std::atomic<uint64_t> gCreateDelays{0};
// ---- pthread_mutex_unlock interposer (harness-local): pool worker threads (every thread that is
// not a harness thread) are occasionally held right AFTER releasing a mutex — e.g. between taking a
// task off the queue and marking themselves active — a legal pre-emption point.
static thread_local bool tlsHarnessThread = false;
static std::atomic<uint32_t> gUnlockDelayUs{0};
static std::atomic<uint64_t> gUnlockDelays{0}, gUnlockCalls{0}, gLongHolds{0};
static std::atomic<uint32_t> gHoldNextUnlockUs{0};
#if !VF_TSAN
extern "C" int pthread_mutex_unlock(pthread_mutex_t *m)
{
  using Fn = int (*)(pthread_mutex_t *);
  static Fn real = vf::shim::real<Fn>("pthread_mutex_unlock");
  int r = real(m);
  uint32_t d = gUnlockDelayUs.load(std::memory_order_relaxed);
  if (!tlsHarnessThread && gHoldNextUnlockUs.load(std::memory_order_relaxed))
  {
    // one long hold armed when teardown begins: longer than the pool's own 200 ms shutdown barrier
    uint32_t h = gHoldNextUnlockUs.exchange(0);
    if (h) { gUnlockDelays.fetch_add(1, std::memory_order_relaxed); gLongHolds.fetch_add(1, std::memory_order_relaxed); vf::shim::rawSleepUs(h); }
  }
  else if (d && !tlsHarnessThread)
  {
    uint64_t n = gUnlockCalls.fetch_add(1, std::memory_order_relaxed);
    if (vf::shim::mix(n) % 23 == 0) { gUnlockDelays.fetch_add(1, std::memory_order_relaxed); vf::shim::rawSleepUs(d); }
  }
  return r;
}
extern "C" int pthread_mutex_lock(pthread_mutex_t *m)
{
  using Fn = int (*)(pthread_mutex_t *);
  static Fn real = vf::shim::real<Fn>("pthread_mutex_lock");
  if (tlsPreLockDelayUs) { gPreLockDelays.fetch_add(1, std::memory_order_relaxed); vf::shim::rawSleepUs(tlsPreLockDelayUs); }
  return real(m);
}
extern "C" int pthread_create(pthread_t *t, const pthread_attr_t *a, void *(*fn)(void *), void *arg)
{
  using Fn = int (*)(pthread_t *, const pthread_attr_t *, void *(*)(void *), void *);
  static Fn real = vf::shim::real<Fn>("pthread_create");
  if (tlsCreateDelayUs) { gCreateDelays.fetch_add(1); vf::shim::rawSleepUs(tlsCreateDelayUs); }
  return real(t, a, fn, arg);
}
#endif

enum Api { ENQ = 0, TRY = 1, RES = 2 };
enum Kind { QUICK = 0, SLEEP = 1, THROW = 2, NEST = 3, LATCH = 4, LONG = 5, THROWINT = 6, THROWSTR = 7 };

struct TaskRec
{
  std::atomic<int> runs{0};
  std::atomic<uint64_t> entryNs{0}, exitNs{0};
  std::atomic<int> accepted{0}; // 0 not submitted, 1 accepted, 2 refused
  std::atomic<uint64_t> callNs{0}, retNs{0};
  int api = 0, kind = 0;
  std::string refusal;
  std::future<int> fut;
  bool hasFut = false;
};

struct Scn
{
  ThreadPool *pool = nullptr;
  size_t minT = 0, maxT = 0, qsize = 0;
  std::vector<std::unique_ptr<TaskRec>> recs;
  std::atomic<uint64_t> nextChild{0};
  size_t childBase = 0;
  std::atomic<int> running{0};
  std::atomic<int> hwRunning{0};
  std::atomic<bool> latch{false};
  std::atomic<uint64_t> stopBeganNs{0}, fenceNs{0};
  std::atomic<int> errHandlerCalls{0};
  std::atomic<int> badException{0};
  std::atomic<uint64_t> sampledMaxThreads{0};
  std::atomic<uint64_t> argMismatch{0}, viaArgs{0};
};

static Scn *G = nullptr;

static void submit(Scn *S, size_t id, int api, int kind, uint64_t salt);

static int taskBody(Scn *S, size_t id, int kind, uint64_t salt)
{
  TaskRec &r = *S->recs[id];
  r.entryNs.store(vf::nowNs());
  r.runs.fetch_add(1);
  int c = S->running.fetch_add(1) + 1;
  int hw = S->hwRunning.load();
  while (c > hw && !S->hwRunning.compare_exchange_weak(hw, c)) {}
  struct Exit { Scn *S; TaskRec &r; ~Exit() { S->running.fetch_sub(1); r.exitNs.store(vf::nowNs()); } } ex{S, r};
  switch (kind)
  {
  case SLEEP: vf::sleepMs(0.05 * double(salt % 40)); break;
  case LONG: vf::sleepMs(double(salt)); break; // salt = duration in ms
  case THROW: throw std::runtime_error("task-" + std::to_string(id));
  case THROWINT: throw int(id) * 5 + 2;                       // not derived from std::exception
  case THROWSTR: throw std::string("task-" + std::to_string(id));
  case NEST:
  {
    size_t child = S->childBase + size_t(S->nextChild.fetch_add(1));
    if (child < S->recs.size()) submit(S, child, int(salt % 2), QUICK, salt * 31 + 7);
    break;
  }
  case LATCH:
  {
    uint64_t t0 = vf::nowNs();
    while (!S->latch.load() && vf::nowNs() - t0 < 20ull * 1000000000ull) vf::sleepMs(0.2);
    break;
  }
  default: break;
  }
  return int(id) * 3 + 1;
}

// the same body, submitted as function + argument pack (the pool must own COPIES of the arguments: the
// submitter's variables change / die as soon as the submission call has returned)
static int taskBodyArgs(Scn *S, size_t id, int kind, uint64_t salt, std::string tag)
{
  if (id >= S->recs.size() || tag != "t" + std::to_string(id)) { S->argMismatch++; return -1; }
  return taskBody(S, id, kind, salt);
}

static void submit(Scn *S, size_t id, int api, int kind, uint64_t salt)
{
  TaskRec &r = *S->recs[id];
  r.api = api; r.kind = kind;
  r.callNs.store(vf::nowNs());
  bool ok = false;
  if ((salt >> 41) % 3 == 0)
  {
    // argument-pack form; every argument is a local that is overwritten right after the call returned
    size_t idv = id; int kv = kind; uint64_t sv = salt; std::string tag = "t" + std::to_string(id);
    S->viaArgs++;
    try
    {
      if (api == ENQ) { S->pool->enqueue(&taskBodyArgs, S, idv, kv, sv, tag); ok = true; }
      else if (api == TRY) { ok = S->pool->tryEnqueue(&taskBodyArgs, S, idv, kv, sv, tag); if (!ok) r.refusal = "false"; }
      else { r.fut = S->pool->enqueueWithResult(&taskBodyArgs, S, idv, kv, sv, tag); r.hasFut = true; ok = true; }
    }
    catch (const std::runtime_error &e) { ok = false; r.refusal = e.what(); r.hasFut = false; }
    catch (...) { ok = false; r.refusal = "(non-runtime_error exception)"; S->badException++; r.hasFut = false; }
    idv = S->recs.size() + 7; kv = QUICK; sv = 0; tag.assign(64, 'x');
    r.retNs.store(vf::nowNs());
    r.accepted.store(ok ? 1 : 2);
    return;
  }
  try
  {
    if (api == ENQ) { S->pool->enqueue([S, id, kind, salt]() { taskBody(S, id, kind, salt); }); ok = true; }
    else if (api == TRY) { ok = S->pool->tryEnqueue([S, id, kind, salt]() { taskBody(S, id, kind, salt); }); if (!ok) r.refusal = "false"; }
    else { r.fut = S->pool->enqueueWithResult([S, id, kind, salt]() { return taskBody(S, id, kind, salt); }); r.hasFut = true; ok = true; }
  }
  catch (const std::runtime_error &e) { ok = false; r.refusal = e.what(); r.hasFut = false; }
  catch (...) { ok = false; r.refusal = "(non-runtime_error exception)"; S->badException++; r.hasFut = false; }
  r.retNs.store(vf::nowNs());
  r.accepted.store(ok ? 1 : 2);
}

// returns false when the process must end (hung shutdown)
static bool runScenario(uint64_t seed, uint64_t idx)
{
  auto &O = vf::out();
  vf::Rng rng(seed, idx);
  auto S = new Scn();
  G = S;
  static const size_t mins[] = {0, 1, 2, 4, 1, 0, 1};
  static const size_t maxs[] = {1, 2, 8, 4, 1, 4, 3};
  int shape = int(rng.below(7));
  S->minT = mins[shape]; S->maxT = maxs[shape];
  static const int idles[] = {1, 2, 5, 20, 500};
  int idleMs = idles[rng.below(5)];
  static const size_t qs[] = {1, 4, 16, 64, 1024};
  S->qsize = qs[rng.below(5)];
  int pattern = int(rng.below(4)); // 0 tight burst (one submission per submitter) 1 streams 2 streams+stop race 3 idle-exit race
  int nSub = int(rng.range(1, VF_TSAN ? 8 : 16));
  int perSub = pattern == 0 ? 1 : int(rng.range(3, 60));
  if (pattern == 3) { nSub = int(rng.range(1, 4)); perSub = int(rng.range(10, 40)); idleMs = idles[rng.below(3)]; }
  if (pattern == 0 && rng.chance(0.5)) idleMs = 500; // keep an overshoot visible to the sampler
  int shutdownKind = int(rng.below(4)); // 0 destructor 1 stop() 2 drain()+stop() 3 stop() racing submitters (pattern 2 forces 3)
  if (pattern == 2) shutdownKind = rng.chance(0.5) ? 3 : 4; // 4: direct shutdown() racing submitters
  else if (shutdownKind == 3) shutdownKind = 1;
  size_t planned = size_t(nSub) * perSub;
  S->childBase = planned;
  size_t total = planned * 2 + 4;
  for (size_t i = 0; i < total; i++) S->recs.emplace_back(new TaskRec());
  bool neverFull = planned * 2 <= S->qsize;
  uint32_t parkDelay = uint32_t(rng.below(3) == 0 ? rng.range(20, 400) : 0);
#if !VF_TSAN
  vf::shim::condvarPolicy().seed = seed * 104729 + idx;
  vf::shim::condvarPolicy().permille = 300;
  vf::shim::condvarPolicy().maxDelayUs = parkDelay;
#endif
  gUnlockDelayUs = rng.chance(0.4) ? uint32_t(rng.range(50, 1500)) : 0;
  auto onErr = [S](std::exception_ptr) { S->errHandlerCalls++; };
  // a third of the pools have NO task-error handler (throwing tasks then take the pool's default path)
  bool noHandler = rng.chance(0.33);
  // shutdown mode: IMMEDIATE (default) or GRACEFUL, given to the constructor or set afterwards; both must join
  // their workers (DETACHED is documented as leaking and excluded)
  int modeHow = int(rng.below(4)); // 0,1 default IMMEDIATE  2 GRACEFUL by constructor  3 GRACEFUL by setShutdownMode
  if (modeHow == 2)
    S->pool = new ThreadPool(S->minT, S->maxT, std::chrono::milliseconds(idleMs), S->qsize, noHandler ? std::function<void(std::exception_ptr)>() : std::function<void(std::exception_ptr)>(onErr), ThreadPool::ShutdownMode::GRACEFUL);
  else
  S->pool = noHandler ? new ThreadPool(S->minT, S->maxT, std::chrono::milliseconds(idleMs), S->qsize)
                      : new ThreadPool(S->minT, S->maxT, std::chrono::milliseconds(idleMs), S->qsize, onErr);
  if (modeHow == 3) S->pool->setShutdownMode(ThreadPool::ShutdownMode::GRACEFUL);
  if (modeHow >= 2) O.obs("scenarios_in_graceful_shutdown_mode");
  // a quarter of the scenarios run in the SECOND life of the pool (stop -> reset -> start after a short earlier
  // life): the restarted pool owes the same guarantees, and nothing of the first life may leak into the second
  bool secondLife = rng.chance(0.25);
  std::atomic<int> earlyRan{0};
  int earlyAccepted = 0, earlyAtRestart = 0;
  if (secondLife)
  {
    int ne = int(rng.range(0, 12));
    for (int i = 0; i < ne; i++)
    {
      bool ok = false;
      int kind = int(rng.below(3));
      try { ok = S->pool->tryEnqueue([&earlyRan, kind]() { if (kind == 1) vf::sleepMs(0.3); earlyRan++; if (kind == 2) throw std::runtime_error("early"); }); } catch (...) { ok = false; }
      if (ok) earlyAccepted++;
    }
    if (rng.chance(0.5)) vf::sleepMs(double(idleMs <= 20 ? idleMs : 2) * 1.6); // let surplus workers idle-exit first
    auto sr = S->pool->stop();
    earlyAtRestart = earlyRan.load();
    auto rr = S->pool->reset();
    auto st = S->pool->start();
    if (!sr.success || !rr.success || !st.success)
      O.viol("C09:restart-failed", "stop() -> reset() -> start() on a pool with bounded tasks reported failure: stop: " + sr.message + " reset: " + rr.message + " start: " + st.message,
             "{\"scenario\":" + std::to_string(idx) + ",\"seed\":" + std::to_string(seed) + "}");
    if (earlyAtRestart != earlyAccepted)
      O.viol("C09:accepted-task-never-ran", "task accepted in the pool's first life had not run when stop() returned", "{\"scenario\":" + std::to_string(idx) + ",\"seed\":" + std::to_string(seed) +
             ",\"accepted\":" + std::to_string(earlyAccepted) + ",\"ran\":" + std::to_string(earlyAtRestart) + ",\"first_life\":1}");
    S->errHandlerCalls = 0;
  }
  if (pattern == 3) vf::sleepMs(double(idleMs) * 0.9); // submissions land around the idle-exit instant

  // sampler: thread count while the pool accepts work
  std::atomic<bool> sampling{true};
  std::thread sampler([S, &sampling]() {
    tlsHarnessThread = true;
    while (sampling.load())
    {
      uint64_t n = S->pool->getTotalThreadCount();
      uint64_t m = S->sampledMaxThreads.load();
      while (n > m && !S->sampledMaxThreads.compare_exchange_weak(m, n)) {}
      vf::sleepMs(0.2);
    }
  });

  vf::SpinBarrier bar(nSub);
  std::vector<std::thread> subs;
  std::atomic<int> subsDone{0};
  std::vector<uint64_t> sseeds;
  for (int s = 0; s < nSub; s++) sseeds.push_back(rng.next());
  bool useLatch = pattern == 0 || rng.chance(0.3);
  for (int s = 0; s < nSub; s++)
    subs.emplace_back([S, s, perSub, pattern, useLatch, idleMs, &bar, &subsDone, ss = sseeds[s]]() {
      tlsHarnessThread = true;
      vf::Rng r(ss);
      bar.wait();
      for (int k = 0; k < perSub; k++)
      {
        size_t id = size_t(s) * perSub + k;
        int api = int(r.below(3));
        int kind;
        if (pattern == 0) kind = useLatch ? LATCH : QUICK;
        else { uint64_t x = r.below(20); kind = x < 9 ? QUICK : x < 13 ? SLEEP : x < 16 ? (x == 14 ? THROWINT : x == 15 ? THROWSTR : THROW) : x < 19 ? NEST : (useLatch ? LATCH : QUICK); }
        // racing stop(): hold some submitters between "spawn decided" and "worker created"
        tlsCreateDelayUs = (pattern == 2 && r.chance(0.25)) ? uint32_t(r.range(5000, 90000)) : 0;
        tlsPreLockDelayUs = (pattern == 2 && r.chance(0.5)) ? uint32_t(r.range(20, 600))
                            // idle-exit race: hold the submitter (e.g. between creating a worker and registering it)
                            // for longer than the idle timeout
                            : (pattern == 3 && r.chance(0.5)) ? uint32_t(r.range(300, uint64_t(idleMs) * 2500)) : 0;
        submit(S, id, api, kind, r.next());
        tlsCreateDelayUs = 0; tlsPreLockDelayUs = 0;
        if (pattern == 3) vf::sleepMs(double(idleMs) * (0.5 + 0.1 * double(r.below(10))));
        else if (r.chance(0.1)) vf::sleepMs(0.02 * double(r.below(30)));
      }
      subsDone++;
    });

  // after the burst: look at the thread count, then release latched tasks
  if (shutdownKind < 3)
  {
    while (subsDone.load() < nSub) vf::sleepMs(0.1);
    // tight bursts: watch the thread count for a moment; otherwise (half of the time) go straight
    // to teardown so that it begins with tasks still queued and workers between pop and run
    for (int i = 0; i < ((pattern == 0 || rng.chance(0.5)) ? 20 : 0); i++)
    {
      uint64_t n = S->pool->getTotalThreadCount();
      uint64_t m = S->sampledMaxThreads.load();
      while (n > m && !S->sampledMaxThreads.compare_exchange_weak(m, n)) {}
      vf::sleepMs(0.1);
    }
  }
  else vf::sleepMs(0.05 * double(rng.below(100)));
  S->latch = true;
  if (shutdownKind < 3) for (auto &t : subs) t.join();
  sampling = false; sampler.join();

  // ---- shutdown under a watchdog
  std::atomic<bool> shutdownDone{false};
  std::string stopMsg;
  bool stopOk = true;
  std::thread wd([&shutdownDone, idx, shutdownKind]() {
    tlsHarnessThread = true;
    uint64_t t0 = vf::nowNs();
    while (!shutdownDone.load())
    {
      vf::sleepMs(5);
      if (vf::nowNs() - t0 > 90ull * 1000000000ull)
      {
        vf::out().viol(std::string("C09:shutdown-hang:") + (shutdownKind == 0 ? "destructor" : "stop"), "shutdown did not return within 90 s (tasks are bounded to 20 s)",
                       "{\"scenario\":" + std::to_string(idx) + "}");
        vf::out().line("{\"t\":\"stopped\",\"at\":" + std::to_string(idx) + "}");
        vf::out().flush(); fflush(nullptr); _exit(0);
      }
    }
  });
  if (rng.chance(0.5)) gHoldNextUnlockUs = uint32_t(rng.range(230000, 330000));
  S->stopBeganNs = vf::nowNs();
  if (shutdownKind == 0) { delete S->pool; S->pool = nullptr; }
  else if (shutdownKind == 4) S->pool->shutdown();
  else
  {
    if (shutdownKind == 2) { auto dr = S->pool->drain(60000); if (!dr.success) { stopOk = false; stopMsg = "drain: " + dr.message; } }
    auto sr = S->pool->stop();
    if (!sr.success) { stopOk = false; stopMsg += " stop: " + sr.message; }
  }
  S->fenceNs = vf::nowNs();
  shutdownDone = true; wd.join();
  if (shutdownKind >= 3) for (auto &t : subs) t.join();
  // operations after stop must be refused cleanly
  int lateRefusedOk = 0;
  if (S->pool)
  {
    size_t id = total - 1;
    submit(S, id, int(rng.below(3)), QUICK, 1);
    if (S->recs[id]->accepted.load() == 1) O.viol("C09:accepted-after-stop", "submission accepted after stop() had returned", "{\"scenario\":" + std::to_string(idx) + "}");
    else lateRefusedOk = 1;
    vf::sleepMs(2);
    delete S->pool; S->pool = nullptr; // destructor after stop
  }
  uint64_t endNs = vf::nowNs();
  (void)endNs;
  gUnlockDelayUs = 0; gHoldNextUnlockUs = 0;
  vf::sleepMs(1);
#if !VF_TSAN
  vf::shim::condvarPolicy().maxDelayUs = 0;
#endif

  // ---- offline checks
  auto det = [&](const std::string &extra) {
    std::ostringstream d;
    d << "{\"scenario\":" << idx << ",\"seed\":" << seed << ",\"min\":" << S->minT << ",\"max\":" << S->maxT << ",\"queue\":" << S->qsize
      << ",\"idle_ms\":" << idleMs << ",\"pattern\":" << pattern << ",\"submitters\":" << nSub << ",\"per\":" << perSub << ",\"shutdown\":" << shutdownKind << "," << extra << "}";
    return d.str();
  };
  if (!stopOk) O.viol("C09:stop-reported-failure", "drain()/stop() reported failure although every task is bounded: " + stopMsg, det("\"x\":0"));
  uint64_t accepted = 0, refused = 0, ran0 = 0, ranMany = 0, lateStart = 0, lateExit = 0, refusedRan = 0, futBad = 0, thrown = 0, thrownNonStd = 0, badReason = 0, fullUnjust = 0, drainUnjust = 0;
  std::string badReasonText;
  for (size_t i = 0; i < S->recs.size(); i++)
  {
    TaskRec &r = *S->recs[i];
    int acc = r.accepted.load();
    if (!acc) continue;
    int runs = r.runs.load();
    if (acc == 1)
    {
      accepted++;
      if (runs == 0) ran0++;
      if (runs > 1) ranMany++;
      if (r.kind == THROW || r.kind == THROWINT || r.kind == THROWSTR) thrown++;
      if (r.kind == THROWINT || r.kind == THROWSTR) thrownNonStd++;
      if (runs && r.entryNs.load() > S->fenceNs.load()) lateStart++;
      if (runs && r.exitNs.load() > S->fenceNs.load()) lateExit++;
      if (r.hasFut)
      {
        if (!r.fut.valid() || r.fut.wait_for(std::chrono::seconds(0)) != std::future_status::ready) futBad++;
        else
        {
          bool threw = r.kind == THROW || r.kind == THROWINT || r.kind == THROWSTR;
          try { int v = r.fut.get(); if (threw || v != int(i) * 3 + 1) futBad++; }
          catch (const std::runtime_error &e) { if (r.kind != THROW || std::string(e.what()) != "task-" + std::to_string(i)) futBad++; }
          catch (int v) { if (r.kind != THROWINT || v != int(i) * 5 + 2) futBad++; }
          catch (const std::string &w) { if (r.kind != THROWSTR || w != "task-" + std::to_string(i)) futBad++; }
          catch (...) { futBad++; } // e.g. future_error(broken_promise): the task's own exception was lost
        }
      }
    }
    else
    {
      refused++;
      if (runs) refusedRan++;
      const std::string &w = r.refusal;
      bool full = w.find("queue is full") != std::string::npos;
      bool draining = w.find("draining") != std::string::npos || w.find("shutting down") != std::string::npos;
      if (w == "false")
      {
        // tryEnqueue gives no reason: justified if the queue could have been full or shutdown had begun
        if (neverFull && r.retNs.load() < S->stopBeganNs.load()) { fullUnjust++; }
      }
      else if (full) { if (neverFull) fullUnjust++; }
      else if (draining) { if (r.retNs.load() < S->stopBeganNs.load()) drainUnjust++; }
      else { badReason++; badReasonText = w; }
    }
  }
  if (ran0) O.viol("C09:accepted-task-never-ran", "accepted task was not executed before shutdown completed", det("\"count\":" + std::to_string(ran0) + ",\"accepted\":" + std::to_string(accepted)));
  if (ranMany) O.viol("C09:task-ran-twice", "accepted task executed more than once", det("\"count\":" + std::to_string(ranMany)));
  if (refusedRan) O.viol("C09:refused-task-ran", "a refused submission was executed", det("\"count\":" + std::to_string(refusedRan)));
  if (lateStart) O.viol("C09:task-started-after-shutdown", "task body entered after stop()/destructor returned", det("\"count\":" + std::to_string(lateStart)));
  else if (lateExit) O.viol("C09:task-running-after-shutdown", "task body still running after stop()/destructor returned", det("\"count\":" + std::to_string(lateExit)));
  if (S->argMismatch.load()) O.viol("C09:task-arguments-not-copied", "a task submitted as function + arguments ran with argument values other than those passed at submission (the submitter's variables were overwritten after the call returned)",
                                    det("\"count\":" + std::to_string(S->argMismatch.load()) + ",\"submitted_with_arguments\":" + std::to_string(S->viaArgs.load())));
  O.obs("tasks_submitted_with_argument_pack", S->viaArgs.load());
  if (futBad) O.viol("C09:future-wrong", "future not ready after shutdown or wrong value/exception", det("\"count\":" + std::to_string(futBad)));
  if (badReason || S->badException.load()) O.viol("C09:refusal-reason", "submission refused for a reason other than full/draining/shut down: " + badReasonText, det("\"count\":" + std::to_string(badReason)));
  if (fullUnjust) O.viol("C09:refused-full-unjustified", "submission refused as queue-full although fewer tasks than the queue size were ever submitted", det("\"count\":" + std::to_string(fullUnjust)));
  if (drainUnjust) O.viol("C09:refused-draining-unjustified", "submission refused as draining/shutting down before any shutdown call began", det("\"count\":" + std::to_string(drainUnjust)));
  if (size_t(S->hwRunning.load()) > S->maxT)
    O.viol("C09:threads-exceed-max", "more worker threads executed tasks concurrently than the configured maximum", det("\"concurrent\":" + std::to_string(S->hwRunning.load()) + ",\"sampled_total\":" + std::to_string(S->sampledMaxThreads.load())));
  else if (S->sampledMaxThreads.load() > S->maxT)
    O.viol("C09:threads-exceed-max", "getTotalThreadCount() exceeded the configured maximum while accepting", det("\"sampled_total\":" + std::to_string(S->sampledMaxThreads.load())));

  if (noHandler) O.obs("scenarios_without_error_handler");
  if (secondLife)
  {
    O.obs("scenarios_in_second_life");
    if (earlyRan.load() != earlyAtRestart) O.viol("C09:first-life-task-ran-in-second-life", "a task of the pool's first life ran after stop() -> reset() -> start()", det("\"count\":" + std::to_string(earlyRan.load() - earlyAtRestart)));
  }
  O.obs("scenarios"); O.obs("tasks_accepted", accepted); O.obs("tasks_refused", refused); O.obs("tasks_throwing", thrown); O.obs("tasks_throwing_non_std_exception", thrownNonStd);
  O.obs("late_submission_refused_cleanly", lateRefusedOk);
  O.obs(std::string("shutdown_kind_") + (shutdownKind == 0 ? "destructor" : shutdownKind == 1 ? "stop" : shutdownKind == 2 ? "drain_stop" : shutdownKind == 3 ? "stop_racing_submitters" : "shutdown_racing_submitters"));
  O.obs(std::string("pattern_") + (pattern == 0 ? "tight_burst" : pattern == 1 ? "streams" : pattern == 2 ? "stop_race" : "idle_exit_race"));
  O.obsMax("max_concurrent_workers_seen", uint64_t(S->hwRunning.load()));
  if (size_t(S->hwRunning.load()) == S->maxT) O.obs("scenarios_reaching_max_threads");
  char sig[160];
  snprintf(sig, sizeof sig, "min=%zu max=%zu q=%zu idle=%d pat=%d sd=%d ref=%d thr=%d hw=%d life=%d", S->minT, S->maxT, S->qsize, idleMs, pattern, shutdownKind, refused ? 1 : 0, thrown ? 1 : 0, S->hwRunning.load(), secondLife ? 2 : 1);
  O.caseSig(vf::fnv(sig, strlen(sig)));
  if (idx % 40 == 0) O.sample("{\"kind\":\"thread-pool scenario\",\"sig\":" + vf::jstr(sig) + ",\"accepted\":" + std::to_string(accepted) + ",\"refused\":" + std::to_string(refused) + "}");
  delete S;
  G = nullptr;
  return true;
}

// ---- long tasks -------------------------------------------------------------------------------
// The shutdown paths contain fixed waits (shutdown(): 5 s for active tasks + 1 s re-check; the
// destructor's drain phase: 5 s; drain(timeout)). A task that outlives such a wait must still be
// waited for (the join does that): "stopping or destroying the pool returns only after every
// accepted task has finished, and no task starts afterwards". Variants place the long task on
// either side of each threshold and reach shutdown() directly, through stop() from Draining after
// a timed-out drain(), through stop() from Running, and through the destructor.
static const int kLongVariants = 8;
static bool runLong(uint64_t seed, uint64_t variant)
{
  auto &O = vf::out();
  vf::Rng rng(seed, 7700 + variant);
  auto S = new Scn();
  G = S;
  //                       0     1     2     3     4     5     6     7
  static const int how[] = {4,    2,    0,    4,    1,    2,    0,    4};   // 4 shutdown() 2 drain(short)+stop() 0 destructor 1 stop() from Running
  static const int dur[] = {6600, 6600, 6600, 5350, 6600, 5350, 5350, 7300};
  static const size_t mn[] = {1,  1,    1,    2,    1,    0,    2,    0};
  static const size_t mx[] = {1,  1,    1,    2,    2,    1,    2,    3};
  int v = int(variant % kLongVariants);
  int shutdownKind = how[v];
  S->minT = mn[v]; S->maxT = mx[v]; S->qsize = 64;
  int nLong = int(S->maxT);                       // every worker busy with a long task
  int nQueued = int(rng.range(1, 6));             // quick tasks queued behind them
  int jitter = int(rng.below(300));
  size_t total = size_t(nLong + nQueued) + 2;
  for (size_t i = 0; i < total; i++) S->recs.emplace_back(new TaskRec());
  auto onErr = [S](std::exception_ptr) { S->errHandlerCalls++; };
  bool graceful = (v == 2 || v == 7 || v == 1); // GRACEFUL shutdown mode must wait just like IMMEDIATE
  S->pool = graceful ? new ThreadPool(S->minT, S->maxT, std::chrono::milliseconds(500), S->qsize, onErr, ThreadPool::ShutdownMode::GRACEFUL)
                     : new ThreadPool(S->minT, S->maxT, std::chrono::milliseconds(500), S->qsize, onErr);
  if (graceful) O.obs("long_graceful_mode");
  for (int i = 0; i < nLong; i++) submit(S, size_t(i), int(rng.below(3)), LONG, uint64_t(dur[v] + jitter));
  // wait until the long tasks are really running, so that the quick ones stay queued behind them
  for (int i = 0; i < 4000 && S->running.load() < nLong; i++) vf::sleepMs(0.5);
  for (int i = 0; i < nQueued; i++) submit(S, size_t(nLong + i), int(rng.below(3)), QUICK, 1);
  vf::sleepMs(double(rng.range(20, 200)));
  std::atomic<bool> shutdownDone{false};
  std::thread wd([&shutdownDone, variant]() {
    tlsHarnessThread = true;
    uint64_t t0 = vf::nowNs();
    while (!shutdownDone.load())
    {
      vf::sleepMs(5);
      if (vf::nowNs() - t0 > 120ull * 1000000000ull)
      {
        vf::out().viol("C09:shutdown-hang:long-task", "shutdown did not return within 120 s (tasks are bounded to 8 s)", "{\"variant\":" + std::to_string(variant) + "}");
        vf::out().line("{\"t\":\"stopped\",\"at\":" + std::to_string(variant) + "}");
        vf::out().flush(); fflush(nullptr); _exit(0);
      }
    }
  });
  std::string msgs;
  bool stopOk = true, drainTimedOut = false;
  S->stopBeganNs = vf::nowNs();
  if (shutdownKind == 0) { delete S->pool; S->pool = nullptr; }
  else if (shutdownKind == 4) S->pool->shutdown();
  else
  {
    if (shutdownKind == 2) { auto dr = S->pool->drain(uint32_t(rng.range(100, 400))); drainTimedOut = !dr.success; msgs += "drain: " + dr.message + "; "; }
    auto sr = S->pool->stop();
    stopOk = sr.success; msgs += "stop: " + sr.message;
  }
  S->fenceNs = vf::nowNs();
  shutdownDone = true; wd.join();
  uint64_t tookMs = (S->fenceNs.load() - S->stopBeganNs.load()) / 1000000;
  vf::sleepMs(300); // a task that starts late would start about now
  uint64_t accepted = 0, ran0 = 0, ranMany = 0, lateStart = 0, lateExit = 0, running = 0;
  for (size_t i = 0; i < size_t(nLong + nQueued); i++)
  {
    TaskRec &r = *S->recs[i];
    if (r.accepted.load() != 1) continue;
    accepted++;
    int runs = r.runs.load();
    if (runs == 0) ran0++;
    if (runs > 1) ranMany++;
    if (runs && r.entryNs.load() > S->fenceNs.load()) lateStart++;
    if (runs && (r.exitNs.load() == 0 || r.exitNs.load() > S->fenceNs.load())) { lateExit++; if (r.exitNs.load() == 0) running++; }
  }
  auto det = [&](const std::string &extra) {
    std::ostringstream d;
    d << "{\"variant\":" << v << ",\"seed\":" << seed << ",\"min\":" << S->minT << ",\"max\":" << S->maxT << ",\"long_tasks\":" << nLong << ",\"long_ms\":" << dur[v] + jitter
      << ",\"queued_quick\":" << nQueued << ",\"shutdown\":" << shutdownKind << ",\"shutdown_took_ms\":" << tookMs << ",\"messages\":" << vf::jstr(msgs) << "," << extra << "}";
    return d.str();
  };
  const char *hn = shutdownKind == 0 ? "destructor" : shutdownKind == 4 ? "shutdown" : shutdownKind == 2 ? "stop-after-timed-out-drain" : "stop";
  // a stop() that REPORTS failure has not claimed that the pool stopped; every other return is a claim
  bool claimed = shutdownKind == 0 || shutdownKind == 4 || stopOk;
  if (claimed)
  {
    if (lateStart || ran0) O.viol(std::string("C09:long-task:") + hn + ":task-started-after-shutdown", "with a task outliving the internal waits, shutdown returned while accepted tasks had not started; they started afterwards or never ran",
                                  det("\"late_start\":" + std::to_string(lateStart) + ",\"never_ran_within_300ms\":" + std::to_string(ran0)));
    if (lateExit) O.viol(std::string("C09:long-task:") + hn + ":task-running-after-shutdown", "with a task outliving the internal waits, shutdown returned while an accepted task was still executing",
                         det("\"still_running_or_finished_late\":" + std::to_string(lateExit) + ",\"still_running_300ms_later\":" + std::to_string(running)));
  }
  else O.obs("long_stop_reported_failure");
  if (ranMany) O.viol("C09:task-ran-twice", "accepted task executed more than once", det("\"count\":" + std::to_string(ranMany)));
  if (accepted != uint64_t(nLong + nQueued)) O.viol("C09:refused-full-unjustified", "submission refused on a running pool whose queue (64) was never full", det("\"accepted\":" + std::to_string(accepted)));
  // let everything end before the objects go away (a violating tree may still be running tasks)
  for (int i = 0; i < 20000 && S->running.load() > 0; i++) vf::sleepMs(1);
  if (S->pool) { delete S->pool; S->pool = nullptr; }
  O.obs("long_scenarios"); O.obs(std::string("long_") + hn); O.obs("tasks_accepted", accepted);
  if (drainTimedOut) O.obs("long_drain_timed_out_before_stop");
  O.obsMax("long_shutdown_took_ms_max", tookMs);
  char sig[160];
  snprintf(sig, sizeof sig, "long v=%d sd=%d min=%zu max=%zu dur=%d claimed=%d graceful=%d", v, shutdownKind, S->minT, S->maxT, dur[v], claimed ? 1 : 0, graceful ? 1 : 0);
  O.caseSig(vf::fnv(sig, strlen(sig)));
  O.sample("{\"kind\":\"long-task shutdown\",\"sig\":" + vf::jstr(sig) + ",\"shutdown_took_ms\":" + std::to_string(tookMs) + ",\"accepted\":" + std::to_string(accepted) + "}");
  delete S;
  G = nullptr;
  return true;
}

int main(int argc, char **argv)
{
  tlsHarnessThread = true;
  vf::Args a(argc, argv);
  uint64_t seed = a.u("seed", 1), from = a.u("from", 0), count = a.u("count", 10);
  bool longMode = a.u("long", 0) != 0;
  auto &O = vf::out();
  for (uint64_t i = from; i < from + count; i++)
  {
    O.line("{\"t\":\"begin\",\"i\":" + std::to_string(i) + "}");
    if (longMode) runLong(seed, i); else
    runScenario(seed, i);
  }
#if !VF_TSAN
  O.obs("condvar_prepark_delays", vf::shim::condvarPolicy().delayed);
  O.obs("thread_create_delays", gCreateDelays.load());
  O.obs("submitter_pre_lock_delays", gPreLockDelays.load());
  O.obs("worker_post_unlock_delays", gUnlockDelays.load());
  O.obs("worker_long_holds_during_teardown", gLongHolds.load());
#endif
  O.flush();
  O.line("{\"t\":\"done\"}");
  return 0;
}
