// C08 harness: TimingWheel, TimerService, TimerServicePool — never early, never twice, never
// after a successful cancel, never dropped, nothing after stop/drain.
// History is recorded at the client boundary (call/return of schedule/cancel/reschedule/drain/
// stop) and at the first/last statement of every handler, all on the un-shimmed monotonic clock.
#define VF_SHIM_CLOCK
#define VF_SHIM_CONDVAR
#include "shim/shims.hpp"
#include "vf.hpp"

#include <iora/core/timer.hpp>
#include <iora/core/timing_wheel.hpp>

#include <memory>

using namespace iora::core;

static const int MAXF = 48;

struct Rec
{
  std::atomic<uint64_t> callNs{0}, retNs{0}, id{0};
  uint64_t delayNs = 0, intervalNs = 0;
  bool periodic = false;
  std::atomic<int> fires{0};
  std::atomic<uint64_t> entry[MAXF];
  std::atomic<uint64_t> lastExitNs{0};
  std::atomic<uint64_t> cancelCallNs{0}, cancelRetNs{0};
  std::atomic<int> cancelRes{-1};
  std::atomic<uint64_t> reschedCallNs{0}, reschedRetNs{0}, reschedDelayNs{0};
  std::atomic<int> reschedRes{-1};
  std::atomic<bool> destroyed{false};
  int behaviour = 0; // 0 quick 1 slow 2 throw 3 nested schedule 4 nested cancel
  Rec() { for (auto &e : entry) e.store(0); }
};

struct Sentinel
{
  Rec *r;
  explicit Sentinel(Rec *r_) : r(r_) {}
  ~Sentinel() { r->destroyed.store(true); }
};

// ---- uniform façade over the three services
struct Svc
{
  virtual ~Svc() {}
  virtual uint64_t schedule(uint64_t delayUs, std::function<void()> fn) = 0;   // microseconds
  virtual uint64_t schedulePeriodic(uint64_t, std::function<void()>) { return 0; }
  virtual bool subMillisecond() { return false; } // accepts delays/intervals with a sub-millisecond fraction
  virtual bool cancel(uint64_t id) = 0;
  virtual int reschedule(uint64_t, uint64_t) { return -1; } // -1 unsupported
  virtual void drain() = 0;
  virtual void stop() = 0;
  virtual size_t pending() = 0;
  virtual uint64_t tickNs() = 0; // allowed earliness
  virtual const char *name() = 0;
  virtual bool hasPeriodic() { return false; }
  // previous life: schedule `n` timers (delays 150..900 ms) whose handler bumps `fired`, end that life in
  // a way that leaves them pending-but-cancelled, then stop -> reset -> start. Returns false if unsupported.
  virtual bool restartAfterEarlierLife(int, std::atomic<int> &) { return false; }
};

struct WheelSvc : Svc
{
  TimingWheel w;
  uint64_t tick;
  std::string nm;
  // dispatched: the wheel hands every callback to a user-supplied dispatcher; ours runs it inline, on the
  // wheel's own thread, so every rule (including "nothing after stop/drain") still applies unchanged
  std::atomic<uint64_t> dispatched{0};
  WheelSvc(int tickMs, size_t tpw, size_t levels, bool withDispatcher = false)
    : w(std::chrono::milliseconds(tickMs), tpw, levels,
        withDispatcher ? TimingWheel::Dispatcher([this](TimingWheel::Callback cb) { dispatched++; cb(); }) : TimingWheel::Dispatcher(nullptr)),
      tick(uint64_t(tickMs) * 1000000ull),
      nm("wheel" + std::to_string(levels)) { w.start(); }
  uint64_t schedule(uint64_t us, std::function<void()> fn) override { return w.schedule(std::chrono::milliseconds(us / 1000), std::move(fn)); }
  bool cancel(uint64_t id) override { return w.cancel(id); }
  int reschedule(uint64_t id, uint64_t d) override { return w.reschedule(id, std::chrono::milliseconds(d)) ? 1 : 0; }
  void drain() override { w.drain(std::chrono::milliseconds(20000)); }
  void stop() override { w.stop(); }
  size_t pending() override { return w.pendingCount(); }
  uint64_t tickNs() override { return tick; }
  const char *name() override { return nm.c_str(); }
  bool restartAfterEarlierLife(int n, std::atomic<int> &fired) override
  {
    for (int i = 0; i < n; i++) w.schedule(std::chrono::milliseconds(150 + 37 * i), [&fired]() { fired++; });
    if (n & 1) w.drain(std::chrono::milliseconds(1000)); else w.stop();
    if (w.getState() != TimingWheelState::STOPPED) w.stop();
    w.reset();
    w.start();
    return true;
  }
};

struct NullLogger : TimerLogger
{
  void log(Level, const std::string &, TimerError, int) override {}
};

struct TsSvc : Svc
{
  std::unique_ptr<TimerService> s;
  // cfgBits: bit0 statistics off, bit1 one epoll event per wait, bit2 detailed logging on (into the null logger)
  explicit TsSvc(unsigned cfgBits = 0)
  {
    TimerServiceConfig c;
    if (cfgBits & 1) c.enableStatistics = false;
    if (cfgBits & 2) c.maxEpollEvents = 1;
    if (cfgBits & 4) c.enableDetailedLogging = true;
    s.reset(new TimerService(c, std::make_shared<NullLogger>()));
    s->setErrorHandler([](TimerError, const std::string &, int) {});
  }
  uint64_t schedule(uint64_t us, std::function<void()> fn) override { return s->scheduleAfter(std::chrono::microseconds(us), std::move(fn)); }
  uint64_t schedulePeriodic(uint64_t us, std::function<void()> fn) override { return s->schedulePeriodic(std::chrono::microseconds(us), std::move(fn)); }
  bool subMillisecond() override { return true; }
  bool cancel(uint64_t id) override { return s->cancel(id); }
  void drain() override { s->drain(20000); }
  void stop() override { s->stop(); }
  size_t pending() override { return s->getInFlightCount(); }
  uint64_t tickNs() override { return 0; }
  const char *name() override { return "timerservice"; }
  bool hasPeriodic() override { return true; }
  bool restartAfterEarlierLife(int n, std::atomic<int> &fired) override
  {
    // deadlines just beyond the drain window, so that they fall INSIDE the span of the second life's timers
    for (int i = 0; i < n; i++) s->scheduleAfter(std::chrono::milliseconds(45 + 5 * i), [&fired]() { fired++; });
    if (n & 1) s->schedulePeriodic(std::chrono::milliseconds(60), [&fired]() { fired++; });
    s->drain(40);   // cancels everything due later than 40 ms from now; the entries stay behind until collected
    s->stop();
    if (!s->reset().success) return false;
    return s->start().success;
  }
};

struct PoolSvc : Svc
{
  std::unique_ptr<TimerServicePool> p;
  std::mutex m;
  std::map<uint64_t, std::pair<TimerService *, uint64_t>> ids; // our id -> (service, its id)
  uint64_t next = 1;
  explicit PoolSvc(size_t n, unsigned cfgBits = 0)
  {
    TimerServiceConfig c;
    if (cfgBits & 1) c.enableStatistics = false;
    if (cfgBits & 2) c.maxEpollEvents = 1;
    if (cfgBits & 4) c.enableDetailedLogging = true;
    p.reset(new TimerServicePool(n, c, std::make_shared<NullLogger>()));
  }
  uint64_t reg(TimerService *s, uint64_t id) { if (!id) return 0; std::lock_guard<std::mutex> g(m); ids[next] = {s, id}; return next++; }
  uint64_t schedule(uint64_t us, std::function<void()> fn) override { auto &s = p->getService(); return reg(&s, s.scheduleAfter(std::chrono::microseconds(us), std::move(fn))); }
  uint64_t schedulePeriodic(uint64_t us, std::function<void()> fn) override { auto &s = p->getLeastLoadedService(); return reg(&s, s.schedulePeriodic(std::chrono::microseconds(us), std::move(fn))); }
  bool subMillisecond() override { return true; }
  bool cancel(uint64_t id) override
  {
    std::pair<TimerService *, uint64_t> e;
    { std::lock_guard<std::mutex> g(m); auto it = ids.find(id); if (it == ids.end()) return false; e = it->second; }
    return e.first->cancel(e.second);
  }
  void drain() override { p->stop(); }
  void stop() override { p->stop(); }
  size_t pending() override { return 0; }
  uint64_t tickNs() override { return 0; }
  const char *name() override { return "timerpool"; }
  bool hasPeriodic() override { return true; }
};

struct Scn
{
  Svc *svc = nullptr;
  std::vector<std::unique_ptr<Rec>> recs;
  std::atomic<size_t> nextRec{0};
  std::atomic<uint64_t> shutdownCallNs{0}, shutdownRetNs{0};
  std::atomic<bool> shutdownBegan{false};
  std::atomic<int> inHandlers{0};
  uint64_t seed = 0;
  std::atomic<uint64_t> lateScheduleAttempts{0}, lateScheduleRefused{0}, subMsTimers{0};
  uint64_t probeCallNs = 0;
  std::atomic<uint64_t> probeFiredNs{0};
};

static Rec *newRec(Scn *S)
{
  size_t i = S->nextRec.fetch_add(1);
  return i < S->recs.size() ? S->recs[i].get() : nullptr;
}

static void doSchedule(Scn *S, Rec *r, uint64_t delayMs, bool periodic, int behaviour, uint64_t salt);

static std::function<void()> makeHandler(Scn *S, Rec *r, uint64_t salt)
{
  auto sent = std::make_shared<Sentinel>(r);
  return [S, r, salt, sent]() {
    uint64_t t = vf::nowNs();              // first statement: entry stamp
    int k = r->fires.fetch_add(1);
    if (k < MAXF) r->entry[k].store(t);
    S->inHandlers.fetch_add(1);
    struct Ex { Scn *S; Rec *r; ~Ex() { r->lastExitNs.store(vf::nowNs()); S->inHandlers.fetch_sub(1); } } ex{S, r};
    switch (r->behaviour)
    {
    case 1: vf::sleepMs(double(S->svc->tickNs() ? S->svc->tickNs() / 1000000.0 : 2.0) * double(2 + salt % 3)); break;
    case 2: throw std::runtime_error("timer handler");
    case 3: { Rec *c = newRec(S); if (c) doSchedule(S, c, salt % 20, false, 0, salt * 7 + 1); break; }
    case 4:
    {
      size_t n = std::min(S->nextRec.load(), S->recs.size());
      if (n)
      {
        Rec *o = S->recs[salt % n].get();
        uint64_t id = o->id.load();
        int expected = -1;
        if (id && o != r && !o->periodic && o->reschedRes.load() == -1 && o->cancelRes.compare_exchange_strong(expected, -2))
        {
          o->cancelCallNs.store(vf::nowNs());
          bool ok = S->svc->cancel(id);
          o->cancelRetNs.store(vf::nowNs());
          o->cancelRes.store(ok ? 1 : 0);
        }
      }
      break;
    }
    default: break;
    }
  };
}

static void doSchedule(Scn *S, Rec *r, uint64_t delayMs, bool periodic, int behaviour, uint64_t salt)
{
  // services that take a full-resolution duration get a sub-millisecond fraction half of the time
  // (a period of e.g. 2750 us must not be rounded down to 2 ms when the timer is re-armed)
  uint64_t delayUs = delayMs * 1000 + ((S->svc->subMillisecond() && (salt >> 17) % 2) ? (salt >> 23) % 1000 : 0);
  if (delayUs % 1000) S->subMsTimers++;
  r->delayNs = delayUs * 1000ull; r->periodic = periodic; r->intervalNs = r->delayNs; r->behaviour = behaviour;
  auto fn = makeHandler(S, r, salt);
  bool late = S->shutdownRetNs.load() != 0;
  r->callNs.store(vf::nowNs());
  uint64_t id = periodic ? S->svc->schedulePeriodic(delayUs, std::move(fn)) : S->svc->schedule(delayUs, std::move(fn));
  r->retNs.store(vf::nowNs());
  r->id.store(id);
  if (late) { S->lateScheduleAttempts++; if (!id) S->lateScheduleRefused++; }
}

static uint64_t pickDelay(vf::Rng &r, Svc *svc, uint64_t spanTicks, uint64_t tickMs)
{
  // boundary-biased: past/zero, sub-tick, equal deadlines, level and cascade boundaries, beyond span
  switch (r.below(10))
  {
  case 0: return 0;
  case 1: return 1;
  case 2: return tickMs ? tickMs * r.range(1, 3) : r.range(1, 5);
  case 3: return 7; // many timers share this deadline bucket
  case 4: if (tickMs) { uint64_t tpw = 8; return tickMs * (tpw * r.range(1, 3) + r.range(0, 2)) - r.below(2); } return r.range(5, 40);
  case 5: if (tickMs && spanTicks) return std::min<uint64_t>(tickMs * (spanTicks + r.range(0, 3)), 400); return r.range(20, 120);
  case 6: if (tickMs && spanTicks) return std::min<uint64_t>(tickMs * spanTicks * r.range(1, 2) + tickMs * r.below(spanTicks + 1), 400); return r.range(1, 10);
  default: return r.range(0, 60);
  }
}

static bool runScenario(uint64_t seed, uint64_t idx, int which)
{
  auto &O = vf::out();
  vf::Rng rng(seed, idx * 3 + uint64_t(which));
  auto S = new Scn();
  S->seed = seed;
  uint64_t tickMs = 0, spanTicks = 0;
  size_t levels = 0, tpw = 0;
  if (which == 0)
  {
    tickMs = rng.range(1, 4);
    levels = size_t(rng.range(1, 3));
    static const size_t tp[] = {4, 8, 16};
    tpw = tp[rng.below(3)];
    spanTicks = 1; for (size_t l = 0; l < levels; l++) spanTicks *= tpw;
    S->svc = new WheelSvc(int(tickMs), tpw, levels, rng.chance(0.3));
  }
  unsigned cfgBits = 0;
  if (which != 0)
  {
    // the service's behaviour must not depend on its observability settings: half of the scenarios run with
    // statistics disabled, some with a one-event epoll batch or with detailed logging
    if (rng.chance(0.5)) cfgBits |= 1;
    if (rng.chance(0.25)) cfgBits |= 2;
    if (rng.chance(0.2)) cfgBits |= 4;
  }
  if (which == 1) S->svc = new TsSvc(cfgBits);
  else if (which == 2) S->svc = new PoolSvc(size_t(rng.range(1, 4)), cfgBits);
  Svc *svc = S->svc;
  // a third of the scenarios run in the SECOND life of the service (stop -> reset -> start after a life that
  // ended with cancelled timers still pending): nothing of the first life may leak into the second
  std::atomic<int> earlierLifeFired{0};
  bool restarted = rng.chance(0.34) && svc->restartAfterEarlierLife(int(rng.range(3, 24)), earlierLifeFired);
  int earlierAtRestart = earlierLifeFired.load();
  int nThreads = int(rng.range(2, 6));
  int perThread = int(rng.range(20, 120));
  int shutdownKind = int(rng.below(4)); // 0 stop at quiescence 1 drain at quiescence 2 stop racing schedulers 3 drain racing schedulers
  size_t total = size_t(nThreads) * perThread * 2 + 16 + 600;
  for (size_t i = 0; i < total; i++) S->recs.emplace_back(new Rec());
  uint32_t clockDelayUs = (shutdownKind >= 2 && rng.chance(0.7)) ? uint32_t(rng.range(50, 500)) : 0;
#if !VF_TSAN
  vf::shim::condvarPolicy().seed = seed * 31 + idx;
  vf::shim::condvarPolicy().permille = 200;
  vf::shim::condvarPolicy().maxDelayUs = rng.chance(0.3) ? uint32_t(rng.range(20, 300)) : 0;
#endif
  std::atomic<int> running{nThreads};
  std::atomic<bool> stopSchedulers{false};
  std::vector<std::thread> th;
  std::vector<uint64_t> seeds; for (int t = 0; t < nThreads; t++) seeds.push_back(rng.next());
  for (int t = 0; t < nThreads; t++)
    th.emplace_back([S, svc, t, perThread, tickMs, spanTicks, clockDelayUs, &running, &stopSchedulers, sd = seeds[t]]() {
      vf::Rng r(sd);
      std::vector<Rec *> mine;
      for (int k = 0; k < perThread && !stopSchedulers.load(); k++)
      {
        Rec *rec = newRec(S);
        if (!rec) break;
        uint64_t d = pickDelay(r, svc, spanTicks, tickMs);
        bool periodic = svc->hasPeriodic() && r.chance(0.06);
        if (periodic) d = r.range(2, 12);
        uint64_t x = r.below(100);
        int beh = x < 80 ? 0 : x < 84 ? 1 : x < 88 ? 2 : x < 94 ? 3 : 4;
        if (periodic && beh == 1) beh = 0;
        vf::shim::tlsDelayAfterClockReadUs = (clockDelayUs && r.chance(0.3)) ? clockDelayUs : 0;
        doSchedule(S, rec, d, periodic, beh, r.next());
        vf::shim::tlsDelayAfterClockReadUs = 0;
        if (rec->id.load()) mine.push_back(rec);
        // cancel / reschedule one of my earlier timers
        if (!mine.empty() && r.chance(0.35))
        {
          Rec *o = mine[r.below(mine.size())];
          if (r.chance(0.5)) vf::sleepMs(double(r.below(uint64_t(o->delayNs / 1000000 + 2))) * (r.chance(0.5) ? 1.0 : 0.5));
          if (r.chance(0.65) || o->periodic)
          {
            int expected = -1;
            if (o->reschedRes.load() == -1 && o->cancelRes.compare_exchange_strong(expected, -2))
            {
              o->cancelCallNs.store(vf::nowNs());
              bool ok = svc->cancel(o->id.load());
              o->cancelRetNs.store(vf::nowNs());
              o->cancelRes.store(ok ? 1 : 0);
            }
          }
          else if (o->cancelRes.load() == -1 && o->reschedRes.load() == -1)
          {
            uint64_t nd = pickDelay(r, svc, spanTicks, tickMs);
            o->reschedRes.store(-2);
            o->reschedDelayNs.store(nd * 1000000ull);
            o->reschedCallNs.store(vf::nowNs());
            int ok = svc->reschedule(o->id.load(), nd);
            o->reschedRetNs.store(vf::nowNs());
            o->reschedRes.store(ok < 0 ? -3 : ok);
          }
        }
        if (r.chance(0.2)) vf::sleepMs(0.1 * double(r.below(30)));
      }
      running--;
    });

  // ---- when to shut down
  if (shutdownKind >= 2) vf::sleepMs(double(rng.range(1, 40)));
  else
  {
    // schedulers only ever block inside the service's own API: no progress for 30 s means a call
    // (schedule/cancel/reschedule) is stuck, i.e. the service is wedged and fires nothing any more
    size_t lastSeen = 0; uint64_t lastChange = vf::nowNs();
    while (running.load() > 0)
    {
      vf::sleepMs(1);
      size_t cur = S->nextRec.load();
      if (cur != lastSeen) { lastSeen = cur; lastChange = vf::nowNs(); }
      else if (vf::nowNs() - lastChange > 30ull * 1000000000ull)
      {
        O.viol(std::string("C08:") + svc->name() + ":api-call-stuck", "scheduler threads made no progress for 30 s: a schedule/cancel/reschedule call never returned (service wedged, no timer fires any more)",
               "{\"scenario\":" + std::to_string(idx) + ",\"seed\":" + std::to_string(seed) + ",\"tick_ms\":" + std::to_string(tickMs) + ",\"levels\":" + std::to_string(levels) + ",\"ticks_per_wheel\":" + std::to_string(tpw) + ",\"timers_scheduled\":" + std::to_string(cur) + "}");
        O.line("{\"t\":\"stopped\",\"at\":" + std::to_string(idx) + "}");
        O.flush(); fflush(nullptr); _exit(0);
      }
    }
    // quiescence: every one-shot deadline (<= 400 ms, + reschedules) has passed with slack
    vf::sleepMs(400 + 400 + 250);
    // progress probe (wheel): TimingWheel::stop() discards whatever has not fired, so "due long ago and never fired"
    // proves a drop only if the tick thread had really got that far. A probe scheduled now and seen firing shows that
    // the wheel has processed every tick up to this instant (a lagging tick thread on a loaded machine just takes longer).
    if (which == 0)
    {
      S->probeCallNs = vf::nowNs();
      uint64_t pid = svc->schedule(1000, [S]() { S->probeFiredNs.store(vf::nowNs()); });
      for (int i = 0; pid && i < 20000 && !S->probeFiredNs.load(); i++) vf::sleepMs(1);
    }
  }
  // burst with (nearly) one common deadline landing around the shutdown call: the service collects the
  // whole burst in one pass, so stop()/drain() must wait for handlers that are collected but not yet started
  if (rng.chance(0.5))
  {
    int burst = int(rng.range(50, 500));
    uint64_t d = rng.range(4, 20);
    for (int i = 0; i < burst; i++) { Rec *r = newRec(S); if (!r) break; doSchedule(S, r, d, false, (i == 0 && rng.chance(0.5)) ? 1 : 0, rng.next()); }
    double lead = double(rng.below(4000)) / 1000.0; // begin shutdown 0..4 ms before the burst is due
    vf::sleepMs(std::max(0.0, double(d) - lead));
    O.obs("bursts_due_around_shutdown");
  }
  uint64_t quiescentNs = vf::nowNs();
  // late (periodic) timers: cancel the remaining periodic ones before a quiescent stop so the rule
  // "cancel true -> no later start" gets exercised at least once per periodic timer
  S->shutdownCallNs = vf::nowNs();
  S->shutdownBegan = true;
  std::atomic<bool> sdDone{false};
  std::thread wd([&sdDone, idx, svc]() {
    uint64_t t0 = vf::nowNs();
    while (!sdDone.load())
    {
      vf::sleepMs(5);
      if (vf::nowNs() - t0 > 60ull * 1000000000ull)
      {
        vf::out().viol(std::string("C08:") + svc->name() + ":shutdown-hang", "stop()/drain() did not return within 60 s", "{\"scenario\":" + std::to_string(idx) + "}");
        vf::out().line("{\"t\":\"stopped\",\"at\":" + std::to_string(idx) + "}");
        vf::out().flush(); fflush(nullptr); _exit(0);
      }
    }
  });
  if (shutdownKind == 0 || shutdownKind == 2) svc->stop(); else svc->drain();
  S->shutdownRetNs = vf::nowNs();
  int inHandlersAtReturn = S->inHandlers.load();
  sdDone = true; wd.join();
  // schedulers may still be running (racing kinds): let them observe the stopped service
  vf::sleepMs(3);
  stopSchedulers = true;
  for (auto &t : th) t.join();
  // schedule on a stopped service must be refused
  { Rec *r = newRec(S); if (r) doSchedule(S, r, 1, false, 0, 1); }
  vf::sleepMs(double(tickMs ? tickMs * 4 : 8) + 30);
  size_t pendingAfter = svc->pending();
  uint64_t endNs = vf::nowNs();
#if !VF_TSAN
  vf::shim::condvarPolicy().maxDelayUs = 0;
#endif

  // ---- offline checker over the history
  const std::string N = svc->name();
  uint64_t tick = svc->tickNs();
  auto det = [&](Rec *r, const std::string &extra) {
    std::ostringstream d;
    d << "{\"scenario\":" << idx << ",\"seed\":" << seed << ",\"service\":" << vf::jstr(N) << ",\"tick_ms\":" << tickMs << ",\"levels\":" << levels << ",\"ticks_per_wheel\":" << tpw
      << ",\"shutdown_kind\":" << shutdownKind;
    if (r) d << ",\"delay_ms\":" << r->delayNs / 1000000 << ",\"periodic\":" << (r->periodic ? 1 : 0) << ",\"fires\":" << r->fires.load()
             << ",\"cancel\":" << r->cancelRes.load() << ",\"resched\":" << r->reschedRes.load() << ",\"resched_delay_ms\":" << r->reschedDelayNs.load() / 1000000;
    d << "," << extra << "}";
    return d.str();
  };
  size_t n = std::min(S->nextRec.load(), S->recs.size());
  // complete executions of one-shot handlers (entry, exit), for "did another handler run in between?"
  std::vector<std::pair<uint64_t, uint64_t>> oneShotRuns;
  for (size_t i = 0; i < n; i++)
  {
    Rec *r = S->recs[i].get();
    if (!r->periodic && r->fires.load() == 1 && r->entry[0].load() && r->lastExitNs.load() >= r->entry[0].load()) oneShotRuns.emplace_back(r->entry[0].load(), r->lastExitNs.load());
  }
  std::sort(oneShotRuns.begin(), oneShotRuns.end());
  // latest deadline among the one-shot timers that fired before the shutdown call (progress evidence for the wheel)
  uint64_t maxFiredDueNs = 0, nUnjudgedLagging = 0;
  for (size_t i = 0; i < n; i++)
  {
    Rec *r = S->recs[i].get();
    if (r->periodic || !r->id.load() || r->fires.load() != 1 || r->reschedRes.load() == 1) continue;
    if (r->entry[0].load() && r->entry[0].load() < S->shutdownCallNs.load()) maxFiredDueNs = std::max(maxFiredDueNs, r->callNs.load() + r->delayNs); // LOWER bound of its real deadline
  }
  uint64_t nValid = 0, nFired = 0, nCancelTrue = 0, nCancelFalse = 0, nReschedTrue = 0, nPeriodic = 0, nDiscarded = 0, nRefused = 0, cancelLostRace = 0;
  for (size_t i = 0; i < n; i++)
  {
    Rec *r = S->recs[i].get();
    uint64_t id = r->id.load();
    if (!r->callNs.load()) continue;
    if (!id)
    {
      nRefused++;
      // refusal is legitimate only once shutdown has begun
      if (r->retNs.load() < S->shutdownCallNs.load()) O.viol("C08:" + N + ":schedule-refused-while-running", "schedule returned an invalid id before any stop/drain began", det(r, "\"x\":0"));
      if (r->fires.load()) O.viol("C08:" + N + ":refused-timer-fired", "a refused schedule fired", det(r, "\"x\":0"));
      continue;
    }
    nValid++;
    int fires = r->fires.load();
    if (fires) nFired++;
    int cres = r->cancelRes.load(), rres = r->reschedRes.load();
    uint64_t base = r->callNs.load();
    bool wheelSpan = (which == 0 && spanTicks && r->delayNs / 1000000 >= tickMs * spanTicks);
    // (1) never early / periodic k-th firing
    for (int k = 0; k < std::min(fires, MAXF); k++)
    {
      uint64_t e = r->entry[k].load();
      uint64_t due = r->periodic ? base + uint64_t(k + 1) * r->intervalNs : base + r->delayNs;
      bool resched = rres == 1 && e > r->reschedCallNs.load();
      if (resched) due = r->reschedCallNs.load() + r->reschedDelayNs.load();
      if (rres == 1 && !resched && r->reschedDelayNs.load() < r->delayNs) due = std::min(due, r->reschedCallNs.load() + r->reschedDelayNs.load());
      if (e + tick < due)
      {
        bool beyond = wheelSpan || (resched && which == 0 && r->reschedDelayNs.load() / 1000000 >= tickMs * spanTicks);
        std::string key = "C08:" + N + (r->periodic ? ":periodic-fired-early" : resched ? ":fired-early-after-reschedule" : ":fired-early") + (beyond ? ":delay-beyond-wheel-span" : "");
        O.viol(key, "handler started before its deadline (minus one tick for the wheel)", det(r, "\"early_by_us\":" + std::to_string((due - e - tick) / 1000) + ",\"k\":" + std::to_string(k)));
        break;
      }
    }
    // (2) one-shot at most once
    if (!r->periodic && fires > 1) O.viol("C08:" + N + ":one-shot-fired-twice", "one-shot timer handler ran more than once", det(r, "\"x\":0"));
    // (3) nothing starts after a successful cancel returned
    if (cres == 1)
    {
      nCancelTrue++;
      // A late start is split by a purely logical criterion: was firing k already due (nominally,
      // schedule call + (k+1)*interval) when cancel() returned? If yes it may have been collected
      // before the cancel (a narrower defect); if no, the timer simply kept firing.
      int late = 0, lateNotDue = 0, lateBehindAnother = 0;
      for (int k = 0; k < std::min(fires, MAXF); k++)
        if (r->entry[k].load() > r->cancelRetNs.load())
        {
          late++;
          if (r->periodic && r->callNs.load() + uint64_t(k + 1) * r->intervalNs > r->cancelRetNs.load()) lateNotDue++;
          // TimerService runs every handler on its one thread: if a one-shot handler ran from start to end between
          // cancel()'s return and this start, the firing had not even been looked at when cancel() returned
          if (which == 1)
          {
            auto it = std::upper_bound(oneShotRuns.begin(), oneShotRuns.end(), std::pair<uint64_t, uint64_t>(r->cancelRetNs.load(), UINT64_MAX));
            for (; it != oneShotRuns.end() && it->first < r->entry[k].load(); ++it)
              if (it->second < r->entry[k].load()) { lateBehindAnother++; break; }
          }
        }
      if (late)
      {
        // The already-due case is split once more, again logically: since 8c61823 the service looks the timer up again
        // right before it runs a collected firing, so at most ONE firing (the one already past that look-up) can still
        // start after cancel() returned, and no other handler of a single-threaded service can run in between. Two or
        // more late starts, or a late start behind a complete other handler, is the old, broad defect coming back.
        bool broad = r->periodic && !lateNotDue && (late >= 2 || lateBehindAnother);
        std::string key = "C08:" + N + (r->periodic ? (lateNotDue ? ":periodic:fired-for-interval-not-due-at-successful-cancel"
                                                        : broad ? ":periodic:collected-firings-started-long-after-successful-cancel"
                                                                : ":periodic:already-due-firing-started-after-successful-cancel") : ":start-after-successful-cancel");
        O.viol(key, "handler started after cancel() had returned true", det(r, "\"late_starts\":" + std::to_string(late) + ",\"late_not_due_at_cancel\":" + std::to_string(lateNotDue) +
                                                                               ",\"late_behind_another_complete_handler\":" + std::to_string(lateBehindAnother)));
      }
      if (!r->periodic && fires > 0 && r->entry[0].load() < r->cancelCallNs.load())
        O.viol("C08:" + N + ":cancel-true-after-fire", "cancel() returned true for a one-shot timer whose handler had already started", det(r, "\"x\":0"));
    }
    // (4) cancel false on a running service => handler has run or will run exactly once
    if (cres == 0 && !r->periodic)
    {
      nCancelFalse++;
      if (fires) cancelLostRace++;
      bool serviceRunning = r->cancelRetNs.load() < S->shutdownCallNs.load();
      if (serviceRunning && rres != 1 && fires != 1 && shutdownKind < 2)
        O.viol("C08:" + N + ":cancel-false-but-never-fired", "cancel() returned false on a running service but the handler did not run exactly once", det(r, "\"x\":0"));
    }
    if (rres == 1) nReschedTrue++;
    if (r->periodic) nPeriodic++;
    // (5) never silently dropped while the service runs
    if (!r->periodic && fires == 0 && cres != 1)
    {
      uint64_t due = (rres == 1 ? r->reschedCallNs.load() + r->reschedDelayNs.load() : r->retNs.load() + r->delayNs);
      bool dueWellBeforeShutdown = due + 1000000000ull < S->shutdownCallNs.load();
      if (which == 0 && dueWellBeforeShutdown)
      {
        // wheel: TimingWheel::stop() discards whatever has not fired, so "due > 1 s ago and never fired" proves a drop
        // only if the tick thread was not simply lagging on a loaded machine. At a quiescent shutdown the probe scheduled
        // 1 ms ahead must have fired within 500 ms (the thread is alive and up to date: everything overdue by a second
        // would have been caught up with); at a racing shutdown (no probe) the margin is 3 s instead of 1 s.
        // (A multi-level wheel may fire a timer of a higher level later than a younger level-0 timer, so "a later
        // timer fired" is NOT evidence that this one's turn had come — tried and withdrawn, see DESIGN 6.4.)
        bool responsive = S->probeFiredNs.load() && S->probeFiredNs.load() - S->probeCallNs < 500000000ull;
        bool judged = (shutdownKind < 2) ? responsive : due + 3000000000ull < S->shutdownCallNs.load();
        if (!judged) { nUnjudgedLagging++; dueWellBeforeShutdown = false; }
      }
      if (dueWellBeforeShutdown)
        O.viol("C08:" + N + ":timer-dropped", "valid timer neither fired nor was cancelled although its deadline passed > 1 s before stop/drain began",
               det(r, "\"due_before_shutdown_call_us\":" + std::to_string((int64_t(S->shutdownCallNs.load()) - int64_t(due)) / 1000) + ",\"latest_fired_deadline_after_this_due_us\":" + std::to_string((int64_t(maxFiredDueNs) - int64_t(due)) / 1000) +
                          ",\"probe_fired\":" + std::to_string(S->probeFiredNs.load() ? 1 : 0) + ",\"schedule_call_took_us\":" + std::to_string((r->retNs.load() - r->callNs.load()) / 1000)));
      else nDiscarded++;
    }
    // (6) nothing after stop/drain returned
    if (r->lastExitNs.load() > S->shutdownRetNs.load() || (fires && r->entry[std::min(fires, MAXF) - 1].load() > S->shutdownRetNs.load()))
      O.viol("C08:" + N + ":handler-after-shutdown", "handler started or was still running after stop()/drain() had returned", det(r, "\"x\":0"));
    // (7) accepted after the service stopped
    if (r->callNs.load() > S->shutdownRetNs.load())
      O.viol("C08:" + N + ":accepted-after-shutdown", "schedule returned a valid id after stop()/drain() had returned", det(r, "\"x\":0"));
  }
  if (restarted)
  {
    O.obs("scenarios_in_second_life_" + N);
    if (earlierLifeFired.load() != earlierAtRestart)
      O.viol("C08:" + N + ":timer-of-earlier-life-fired-after-restart", "a timer scheduled before stop()/reset() fired in the restarted service", det(nullptr, "\"count\":" + std::to_string(earlierLifeFired.load() - earlierAtRestart)));
  }
  if (inHandlersAtReturn) O.viol("C08:" + N + ":handler-after-shutdown", "a handler was executing when stop()/drain() returned", det(nullptr, "\"in_handlers\":" + std::to_string(inHandlersAtReturn)));
  if (pendingAfter) O.viol("C08:" + N + ":accepted-during-shutdown-never-fired", "after stop()/drain() returned and schedulers quiesced, timers are still pending in a service that no longer fires them",
                           det(nullptr, "\"pending\":" + std::to_string(pendingAfter)));
  if (S->lateScheduleAttempts.load() != S->lateScheduleRefused.load())
    O.viol("C08:" + N + ":accepted-after-shutdown", "schedule on a stopped service returned a valid id", det(nullptr, "\"attempts\":" + std::to_string(S->lateScheduleAttempts.load())));
  (void)quiescentNs; (void)endNs;

  O.obs("timers_with_sub_millisecond_delay", S->subMsTimers.load());
  if (which == 0) { auto *ws = static_cast<WheelSvc *>(svc); if (ws->dispatched.load()) { O.obs("wheel_scenarios_with_dispatcher"); O.obs("wheel_callbacks_through_dispatcher", ws->dispatched.load()); } }
  if (which == 0) { if (S->probeFiredNs.load()) O.obs("wheel_progress_probe_fired"); if (nUnjudgedLagging) O.obs("wheel_unfired_timers_not_judged_tick_thread_lagging", nUnjudgedLagging); }
  if (cfgBits & 1) O.obs("scenarios_with_statistics_disabled");
  if (cfgBits & 2) O.obs("scenarios_with_one_event_epoll_batch");
  O.obs("scenarios_" + N); O.obs("timers_valid", nValid); O.obs("timers_fired", nFired); O.obs("cancel_true", nCancelTrue); O.obs("cancel_false", nCancelFalse);
  O.obs("cancel_lost_race_to_fire", cancelLostRace); O.obs("reschedule_true", nReschedTrue); O.obs("periodic_timers", nPeriodic);
  O.obs("discarded_by_shutdown", nDiscarded); O.obs("refused_after_shutdown", nRefused); O.obs("late_schedule_refused", S->lateScheduleRefused.load());
  O.obs(std::string("shutdown_") + (shutdownKind == 0 ? "stop_quiescent" : shutdownKind == 1 ? "drain_quiescent" : shutdownKind == 2 ? "stop_racing" : "drain_racing"));
  char sig[160];
  snprintf(sig, sizeof sig, "%s tick=%d lv=%zu tpw=%zu sd=%d thr=%d cT=%d cF=%d rs=%d per=%d disc=%d cfg=%u", N.c_str(), int(tickMs), levels, tpw, shutdownKind, nThreads, nCancelTrue ? 1 : 0, cancelLostRace ? 1 : 0, nReschedTrue ? 1 : 0, nPeriodic ? 1 : 0, nDiscarded ? 1 : 0, cfgBits);
  O.caseSig(vf::fnv(sig, strlen(sig)));
  if (idx % 16 == 0)
  {
    // a few per-timer histories of this scenario, times in microseconds relative to the schedule() call
    std::ostringstream h;
    int shown = 0;
    for (size_t i = 0; i < n && shown < 5; i += std::max<size_t>(1, n / 5))
    {
      Rec *r = S->recs[i].get();
      if (!r->id.load()) continue;
      int f = r->fires.load();
      h << (shown++ ? "," : "") << "{\"delay_ms\":" << r->delayNs / 1000000 << ",\"periodic\":" << (r->periodic ? 1 : 0) << ",\"fires\":" << f
        << ",\"first_entry_after_call_us\":" << (f ? int64_t(r->entry[0].load() - r->callNs.load()) / 1000 : -1)
        << ",\"cancel\":" << r->cancelRes.load() << ",\"cancel_returned_after_call_us\":" << (r->cancelRes.load() >= 0 ? int64_t(r->cancelRetNs.load() - r->callNs.load()) / 1000 : -1)
        << ",\"reschedule\":" << r->reschedRes.load() << ",\"reschedule_delay_ms\":" << r->reschedDelayNs.load() / 1000000 << "}";
    }
    O.sample("{\"kind\":\"timer scenario\",\"sig\":" + vf::jstr(sig) + ",\"timers\":" + std::to_string(nValid) + ",\"fired\":" + std::to_string(nFired) + ",\"second_life\":" + (restarted ? "true" : "false") + ",\"timer_histories\":[" + h.str() + "]}");
  }
  // destruction under a watchdog: a service whose internal lists were corrupted can loop forever here
  {
    std::atomic<bool> destroyed{false};
    std::thread dwd([&destroyed, idx, N]() {
      uint64_t t0 = vf::nowNs();
      while (!destroyed.load())
      {
        vf::sleepMs(5);
        if (vf::nowNs() - t0 > 60ull * 1000000000ull)
        {
          vf::out().viol("C08:" + N + ":destructor-hang", "destroying the stopped service did not return within 60 s", "{\"scenario\":" + std::to_string(idx) + "}");
          vf::out().line("{\"t\":\"stopped\",\"at\":" + std::to_string(idx) + "}");
          vf::out().flush(); fflush(nullptr); _exit(0);
        }
      }
    });
    delete S->svc;
    destroyed = true; dwd.join();
  }
  // every handler object must be gone now (fired, cancelled or discarded)
  vf::sleepMs(1);
  delete S;
  return true;
}

// ---- long handlers ----------------------------------------------------------------------------
// TimerService::stop() drains for at most 5 s before it forces the shutdown, drain(timeout) gives up
// after its timeout, the wheel's drain stops firing at its timeout. A handler that outlives such a
// wait must still be waited for by whatever call then claims that the service stopped, nothing may
// start afterwards, and a schedule() accepted while (or after) the service goes down must not be lost.
struct LRec
{
  std::atomic<uint64_t> id{0}, callNs{0}, retNs{0}, entryNs{0}, exitNs{0};
  std::atomic<int> fires{0};
  uint64_t delayMs = 0;
};
static const int kLongVariants = 10;
static bool runLongHandler(uint64_t seed, uint64_t variant)
{
  auto &O = vf::out();
  int v = int(variant % kLongVariants);
  vf::Rng rng(seed, 9100 + variant);
  // v: 0 TimerService stop()            long handler 5.6 s (outlives stop()'s 5 s drain)
  //    1 TimerService drain(300) fails, service keeps running, later stop()      long handler 1.6 s
  //    2 TimerServicePool(2) stop()     long handler 5.6 s on one service
  //    3 TimerService destructor        long handler 5.6 s
  //    4 TimingWheel stop()             long callback 2.5 s
  //    5 TimingWheel drain(300)         long callback 2.5 s due at the drain
  //    6 TimerService: stop() while ANOTHER thread's drain(300) is waiting and then times out   long handler 1.3 s
  //    7 TimerService: a SECOND, concurrent stop() while another thread's stop() (whose 5 s drain has timed out) is joining    long handler 5.7 s
  //    8 TimingWheel: stop() while ANOTHER thread's drain() is firing a 1 s callback (the tick thread was kept busy
  //      300 ms so that due timers piled up for the drain to fire)
  static const int longMs[] = {5600, 1600, 5600, 5600, 2500, 2500, 1300, 5700, 300, 1};
  //    9 TimerServicePool(2): pool.stop() while another thread is inside drain(1500) on one of its services, with
  //      timers of that service pending inside the drain window (no long handler: the pool has to stop a DRAINING service too)
  const char *names[] = {"timerservice", "timerservice", "timerpool", "timerservice", "wheel1", "wheel1", "timerservice", "timerservice", "wheel1", "timerpool"};
  const char *hows[] = {"stop", "stop-after-timed-out-drain", "stop", "destructor", "stop", "drain-with-timeout",
                        "stop-during-drain-of-another-thread", "second-concurrent-stop", "stop-during-drain-of-another-thread", "pool-stop-during-drain-of-a-service"};
  std::string N = names[v];
  std::unique_ptr<TimerService> ts;
  std::unique_ptr<TimerServicePool> pool;
  std::unique_ptr<TimingWheel> wheel;
  TimerServiceConfig cfg;
  if (v & 1) cfg.enableStatistics = false; // odd variants run with statistics disabled
  if (v == 0 || v == 1 || v == 3 || v == 6 || v == 7) { ts.reset(new TimerService(cfg, std::make_shared<NullLogger>())); ts->setErrorHandler([](TimerError, const std::string &, int) {}); }
  else if (v == 2 || v == 9) pool.reset(new TimerServicePool(2, cfg, std::make_shared<NullLogger>()));
  else { wheel.reset(new TimingWheel(std::chrono::milliseconds(2), 16, 2)); wheel->start(); }
  std::atomic<bool> gone{false}; // the service object no longer exists (destructor variant)
  TimerService *tsp = ts.get(); TimerServicePool *poolp = pool.get(); TimingWheel *wheelp = wheel.get();
  auto sched = [&gone, tsp, poolp, wheelp](uint64_t ms, std::function<void()> fn) -> uint64_t {
    if (gone.load()) return 0;
    if (tsp) return tsp->scheduleAfter(std::chrono::milliseconds(ms), std::move(fn));
    if (poolp) { auto &sv = poolp->getService(); uint64_t id = sv.scheduleAfter(std::chrono::milliseconds(ms), std::move(fn)); return id; }
    return wheelp->schedule(std::chrono::milliseconds(ms), std::move(fn));
  };
  const size_t NREC = 6000;
  std::vector<std::unique_ptr<LRec>> recs;
  for (size_t i = 0; i < NREC; i++) recs.emplace_back(new LRec());
  std::atomic<size_t> nextRec{0};
  std::atomic<int> inHandlers{0};
  std::atomic<uint64_t> longEntryNs{0}, longExitNs{0};
  std::atomic<uint64_t> shutdownCallNs{0}, fenceNs{0}, drainCallNs{0}, drainRetNs{0}, otherStopCallNs{0};
  auto body = [&inHandlers](LRec *r) {
    uint64_t t = vf::nowNs();
    if (r->fires.fetch_add(1) == 0) r->entryNs.store(t);
    inHandlers.fetch_add(1);
    r->exitNs.store(vf::nowNs());
    inHandlers.fetch_sub(1);
  };
  auto schedRec = [&](uint64_t ms) {
    size_t i = nextRec.fetch_add(1);
    if (i >= NREC) return;
    LRec *r = recs[i].get();
    r->delayMs = ms;
    r->callNs.store(vf::nowNs());
    uint64_t id = sched(ms, [r, &body]() { body(r); });
    r->retNs.store(vf::nowNs());
    r->id.store(id ? id : ~0ull); // ~0 = refused
  };
  // the long handler, due at once
  int lm = longMs[v] + int(rng.below(200));
  sched(1, [&, lm]() {
    longEntryNs.store(vf::nowNs());
    inHandlers.fetch_add(1);
    vf::sleepMs(double(lm));
    longExitNs.store(vf::nowNs());
    inHandlers.fetch_sub(1);
  });
  for (int i = 0; i < 2000 && !longEntryNs.load(); i++) vf::sleepMs(0.5);
  // timers due while the long handler occupies the timer thread, and one far beyond every drain window
  for (int i = 0; i < 6; i++) schedRec(uint64_t(10 + 40 * i));
  schedRec(20000);
  // schedulers keep going until well after the shutdown call has returned
  std::atomic<bool> stopSched{false};
  std::vector<std::thread> th;
  for (int t = 0; t < 2; t++)
    th.emplace_back([&, t]() {
      vf::Rng r(seed * 31 + variant, 50 + uint64_t(t));
      static const uint64_t ds[] = {0, 1, 5, 40, 200};
      while (!stopSched.load()) { schedRec(ds[r.below(5)]); vf::sleepMs(double(r.range(2, 9))); }
    });
  vf::sleepMs(double(rng.range(80, 250)));
  std::atomic<bool> done{false};
  std::thread wd([&]() {
    uint64_t t0 = vf::nowNs();
    while (!done.load())
    {
      vf::sleepMs(5);
      if (vf::nowNs() - t0 > 90ull * 1000000000ull)
      {
        vf::out().viol("C08:" + N + ":shutdown-hang", "stop()/drain() did not return within 90 s (long-handler family, handlers bounded to 6 s)", "{\"long_variant\":" + std::to_string(v) + "}");
        vf::out().line("{\"t\":\"stopped\",\"at\":" + std::to_string(variant) + "}");
        vf::out().flush(); fflush(nullptr); _exit(0);
      }
    }
  });
  bool claimed = true; // the call returned normally / reported success: "the service has stopped"
  std::string msg;
  if (v == 1)
  {
    drainCallNs.store(vf::nowNs());
    auto dr = ts->drain(300);
    drainRetNs.store(vf::nowNs());
    if (dr.success) O.obs("long_drain_unexpectedly_succeeded"); else O.obs("long_drain_timed_out");
    // a drain that reported failure leaves the service running: it must keep firing what it accepts
    vf::sleepMs(double(lm) + 900.0 - double((vf::nowNs() - longEntryNs.load()) / 1000000));
  }
  // concurrent lifecycle calls: another thread is inside drain() / stop() when the judged stop() is called
  std::thread other;
  std::atomic<uint64_t> secondLongEntryNs{0}, secondLongExitNs{0};
  if (v == 6)
  {
    other = std::thread([&]() { drainCallNs.store(vf::nowNs()); auto dr = ts->drain(300); drainRetNs.store(vf::nowNs()); if (!dr.success) O.obs("long_drain_timed_out"); });
    for (int i = 0; i < 2000 && !drainCallNs.load(); i++) vf::sleepMs(0.1);
    vf::sleepMs(double(rng.range(40, 150))); // the other thread's drain is waiting; it will time out while our stop() joins
  }
  else if (v == 7)
  {
    other = std::thread([&]() { otherStopCallNs.store(vf::nowNs()); ts->stop(); });
    for (int i = 0; i < 2000 && !otherStopCallNs.load(); i++) vf::sleepMs(0.1);
    // the other stop() drains for 5 s, gives up and joins the timer thread, whose handler runs until ~5.7 s: call ours in that window
    vf::sleepMs(5000.0 + double(rng.range(150, 450)) - double((vf::nowNs() - otherStopCallNs.load()) / 1000000));
  }
  else if (v == 9)
  {
    // timers due 900-1250 ms from now on ONE service (inside the window of the drain(1500) another thread then starts on
    // it); the other service has nothing pending for long, so pool.stop() does not linger on it
    TimerService *svc0 = &poolp->getService();
    for (int i = 0; i < 8; i++)
    {
      size_t k = nextRec.fetch_add(1);
      if (k >= NREC) break;
      LRec *r = recs[k].get();
      r->delayMs = uint64_t(900 + 50 * i);
      r->callNs.store(vf::nowNs());
      uint64_t id = svc0->scheduleAfter(std::chrono::milliseconds(r->delayMs), [r, &body]() { body(r); });
      r->retNs.store(vf::nowNs());
      r->id.store(id ? id : ~0ull);
    }
    other = std::thread([&, svc0]() { drainCallNs.store(vf::nowNs()); auto dr = svc0->drain(1500); drainRetNs.store(vf::nowNs()); (void)dr; });
    for (int i = 0; i < 20000 && svc0->getState() != iora::common::LifecycleState::Draining; i++) vf::sleepMs(0.1);
    if (svc0->getState() == iora::common::LifecycleState::Draining) O.obs("long_pool_service_draining_when_pool_stop_called");
    vf::sleepMs(double(rng.range(10, 80)));
  }
  else if (v == 8)
  {
    // a second, 1 s callback that is due while the tick thread is busy: the other thread's drain() will fire it
    sched(40, [&]() { secondLongEntryNs.store(vf::nowNs()); inHandlers.fetch_add(1); vf::sleepMs(1000); secondLongExitNs.store(vf::nowNs()); inHandlers.fetch_sub(1); });
    other = std::thread([&]() { drainCallNs.store(vf::nowNs()); wheel->drain(std::chrono::milliseconds(5000)); drainRetNs.store(vf::nowNs()); });
    for (int i = 0; i < 40000 && !secondLongEntryNs.load() && !drainRetNs.load(); i++) vf::sleepMs(0.1);
    if (secondLongEntryNs.load()) O.obs("long_wheel_drain_firing_when_stop_called");
    vf::sleepMs(double(rng.range(50, 300)));
  }
  int inAtReturn = 0;
  shutdownCallNs.store(vf::nowNs());
  if (v == 0 || v == 1 || v == 6 || v == 7) { auto r = ts->stop(); claimed = r.success; msg = r.message; }
  else if (v == 8) wheel->stop();
  else if (v == 2 || v == 9) pool->stop();
  else if (v == 3) { TimerService *p = ts.get(); gone.store(true); vf::sleepMs(30); shutdownCallNs.store(vf::nowNs()); ts.release(); delete p; }
  else if (v == 4) wheel->stop();
  else { auto st = wheel->drain(std::chrono::milliseconds(300)); msg = "fired=" + std::to_string(st.fired) + " remaining=" + std::to_string(st.remaining) + " cancelled=" + std::to_string(st.cancelled); }
  inAtReturn = inHandlers.load();
  fenceNs.store(vf::nowNs());
  done = true; wd.join();
  if (other.joinable()) other.join();
  uint64_t tookMs = (fenceNs.load() - shutdownCallNs.load()) / 1000000;
  vf::sleepMs(500); // schedulers go on for a while: everything they get accepted now is "after stop returned"
  stopSched = true;
  for (auto &t : th) t.join();
  vf::sleepMs(450); // > the longest scheduler delay (200 ms): a late start would have happened by now
  // ---- verdicts
  uint64_t acceptedBefore = 0, acceptedDuring = 0, acceptedAfter = 0, refused = 0, fired = 0, lostDuring = 0, droppedDue = 0, lateStart = 0, twice = 0, early = 0, judgedDue = 0;
  LRec *wLost = nullptr, *wAfter = nullptr, *wDrop = nullptr;
  size_t n = std::min(nextRec.load(), NREC);
  for (size_t i = 0; i < n; i++)
  {
    LRec *r = recs[i].get();
    uint64_t id = r->id.load();
    if (!id) continue;
    if (id == ~0ull) { refused++; continue; }
    int f = r->fires.load();
    if (f) fired++;
    if (f > 1) twice++;
    if (f && r->entryNs.load() + 1000000 < r->callNs.load() + r->delayMs * 1000000ull - (wheel ? 2000000ull : 0)) early++;
    if (f && r->entryNs.load() > fenceNs.load()) lateStart++;
    uint64_t deadline = r->retNs.load() + r->delayMs * 1000000ull;
    if (r->callNs.load() > fenceNs.load()) { acceptedAfter++; if (!wAfter) wAfter = r; }
    else if (r->callNs.load() > shutdownCallNs.load()) { acceptedDuring++; if (!f) { lostDuring++; if (!wLost) wLost = r; } }
    else
    {
      acceptedBefore++;
      // due >= 300 ms before the shutdown call began, on a running service whose timer thread was FREE at the
      // time (i.e. after the long handler had ended: while it runs nothing else can fire, and what is still
      // unfired at stop() may be discarded by it): must have fired. A timed-out drain() legitimately cancelled
      // what lay beyond its window: not judged.
      bool cancelledByFailedDrain = drainCallNs.load() && r->callNs.load() < drainRetNs.load() && deadline > drainCallNs.load();
      bool threadFree = longExitNs.load() && deadline > longExitNs.load();
      if (!f && !cancelledByFailedDrain && threadFree && deadline + 300000000ull < shutdownCallNs.load()) { droppedDue++; if (!wDrop) wDrop = r; }
      if (threadFree && deadline + 300000000ull < shutdownCallNs.load()) judgedDue++;
    }
  }
  auto det = [&](LRec *r, const std::string &extra) {
    std::ostringstream d;
    d << "{\"long_variant\":" << v << ",\"seed\":" << seed << ",\"service\":" << vf::jstr(N) << ",\"how\":" << vf::jstr(hows[v]) << ",\"long_handler_ms\":" << lm
      << ",\"shutdown_took_ms\":" << tookMs << ",\"message\":" << vf::jstr(msg);
    if (r) d << ",\"delay_ms\":" << r->delayMs << ",\"schedule_call_rel_shutdown_call_us\":" << (int64_t(r->callNs.load()) - int64_t(shutdownCallNs.load())) / 1000
             << ",\"schedule_call_rel_shutdown_return_us\":" << (int64_t(r->callNs.load()) - int64_t(fenceNs.load())) / 1000 << ",\"fires\":" << r->fires.load();
    d << "," << extra << "}";
    return d.str();
  };
  std::string K = "C08:" + N + ":long-handler:" + hows[v];
  if (claimed)
  {
    bool longRunning = longEntryNs.load() && (!longExitNs.load() || longExitNs.load() > fenceNs.load());
    if (inAtReturn || longRunning) O.viol(K + ":handler-running-after-shutdown", "with a handler outliving the internal drain wait, the call returned while a handler was still executing", det(nullptr, "\"in_handlers_at_return\":" + std::to_string(inAtReturn)));
    if (lateStart) O.viol(K + ":handler-started-after-shutdown", "a handler started after the call had returned", det(nullptr, "\"count\":" + std::to_string(lateStart)));
    if (acceptedAfter) O.viol(K + ":accepted-after-shutdown", "schedule returned a valid id after the stop had returned (the timer can never fire)", det(wAfter, "\"count\":" + std::to_string(acceptedAfter)));
    if (lostDuring) O.viol(K + ":accepted-during-shutdown-never-fired", "schedule returned a valid id while the stop was in progress and the timer never fired", det(wLost, "\"count\":" + std::to_string(lostDuring)));
  }
  else O.obs("long_stop_reported_failure");
  if (droppedDue) O.viol(K + ":timer-dropped", "timer due well before the shutdown call on a running service never fired", det(wDrop, "\"count\":" + std::to_string(droppedDue)));
  if (twice) O.viol("C08:" + N + ":fired-twice", "one-shot handler ran more than once (long-handler family)", det(nullptr, "\"count\":" + std::to_string(twice)));
  if (early) O.viol("C08:" + N + ":fired-early", "handler ran before its deadline (long-handler family)", det(nullptr, "\"count\":" + std::to_string(early)));
  O.obs("long_handler_scenarios"); O.obs(std::string("long_") + N + "_" + hows[v]);
  O.obs("long_accepted_before", acceptedBefore); O.obs("long_accepted_during_shutdown", acceptedDuring); O.obs("long_refused", refused); O.obs("timers_fired", fired); O.obs("long_due_on_free_thread_judged", judgedDue);
  O.obsMax("long_shutdown_took_ms_max", tookMs);
  char sig[160];
  snprintf(sig, sizeof sig, "long-handler v=%d %s %s during=%d refused=%d", v, N.c_str(), hows[v], acceptedDuring ? 1 : 0, refused ? 1 : 0);
  O.caseSig(vf::fnv(sig, strlen(sig)));
  O.sample("{\"kind\":\"long-handler shutdown\",\"sig\":" + vf::jstr(sig) + ",\"shutdown_took_ms\":" + std::to_string(tookMs) + ",\"accepted_before\":" + std::to_string(acceptedBefore) +
           ",\"accepted_during\":" + std::to_string(acceptedDuring) + ",\"refused\":" + std::to_string(refused) + ",\"fired\":" + std::to_string(fired) + "}");
  // let a violating tree finish its handlers before the records go away
  for (int i = 0; i < 8000 && (inHandlers.load() > 0 || (longEntryNs.load() && !longExitNs.load())); i++) vf::sleepMs(1);
  gone.store(true);
  ts.reset(); pool.reset(); wheel.reset();
  return true;
}

int main(int argc, char **argv)
{
  vf::Args a(argc, argv);
  uint64_t seed = a.u("seed", 1), from = a.u("from", 0), count = a.u("count", 4);
  bool longMode = a.u("long", 0) != 0;
  auto &O = vf::out();
  for (uint64_t i = from; i < from + count; i++)
  {
    O.line("{\"t\":\"begin\",\"i\":" + std::to_string(i) + "}");
    if (longMode) runLongHandler(seed, i); else
    runScenario(seed, i, int(i % 3));
  }
  O.obs("clock_reads_delayed", vf::shim::clockPolicy().delayedReads);
#if !VF_TSAN
  O.obs("condvar_prepark_delays", vf::shim::condvarPolicy().delayed);
#endif
  O.flush();
  O.line("{\"t\":\"done\"}");
  return 0;
}
