// /verif/harness/c12_hist.hpp — sequential seeded histories for C12 (included by c12_kvmodel.cpp).
#pragma once

namespace hist {

enum Kind { SET, SET_TTL, BATCH, BATCH_TTL, REMOVE, REMOVE_PREFIX, CLEAR, EXPIRE_AT, PERSIST, COMPACT,
            RESTART, ADV_REAL, PROBE_EXPIRY, ADV_BOTH, ADV_MONO, WARM, NKIND };
static const char *kindName[NKIND] = {"set", "setTtl", "setBatch", "setBatchTtl", "remove", "removeWithPrefix",
                                      "clear", "expireAt", "persist", "compact", "restart", "advReal",
                                      "probeExpiry", "advBoth", "advMono", "warm"};

struct Step
{
  int kind = SET;
  int key = 0;               // index into the key universe
  std::vector<int> keys;     // batch
  int64_t ttl = 1;           // seconds
  int64_t delta = 0;         // ms (expireAt: relative to now unless sub==1; advances; restart clock jump)
  int sub = 0;               // expireAt: 1 = absolute `when`; restart: 0 none 1 E-1 2 E 3 E+1 4 +delta, |8 = advance mono too
  int vlen = -1;             // value length hint (-1 random)
  std::string prefix;
  Step() {}
  Step(int k, int key_ = 0, int64_t ttl_ = 1, int64_t delta_ = 0, int sub_ = 0) : kind(k), key(key_), ttl(ttl_), delta(delta_), sub(sub_) {}
};

struct KeyDiag
{
  std::string lastOp = "never-set"; // last operation that changed the key in the model
  std::vector<int64_t> recExp;      // expiries carried by E/X records of the current incarnation
  std::string postExpiryOp;         // expireAt/persist issued while the model says "expired"
  int restartsSince = 0, compactsSince = 0;
  int64_t lastRestartNow = 0;
  bool dropped = false;             // expired entry known to be gone from the store (restart/compact/eviction seen)
};

// directed prefixes: shapes the design names explicitly (guaranteed in every tier, then random steps follow)
static std::vector<std::vector<Step>> directedScripts()
{
  std::vector<std::vector<Step>> s;
  auto R = [](int sub, int64_t delta = 0) { return Step(RESTART, 0, 1, delta, sub); };
  s.push_back({Step(SET_TTL, 0, 1), Step(PERSIST, 0), Step(ADV_REAL, 0, 1, 2000), R(0)});                       // 0 persist, restart after first expiry
  s.push_back({Step(SET_TTL, 0, 1), Step(EXPIRE_AT, 0, 1, 100000), Step(ADV_REAL, 0, 1, 2000), R(0)});           // 1 expireAt extends
  s.push_back({Step(SET, 0), Step(EXPIRE_AT, 0, 1, 1000), Step(EXPIRE_AT, 0, 1, 50000), Step(ADV_REAL, 0, 1, 1500), R(0)}); // 2 expireAt twice
  s.push_back({Step(SET_TTL, 0, 1), Step(COMPACT), Step(PERSIST, 0), Step(ADV_REAL, 0, 1, 2000), R(0)});         // 3 snapshot path
  s.push_back({Step(SET_TTL, 0, 1), Step(PERSIST, 0), R(4, 2000)});                                              // 4 clock moves while closed
  s.push_back({Step(SET_TTL, 0, 2), Step(SET, 0), Step(COMPACT), Step(ADV_REAL, 0, 1, 5000), R(0)});             // 5 TTL, overwrite, compact, restart
  s.push_back({Step(SET_TTL, 0, 1), Step(ADV_REAL, 0, 1, 1000), Step(COMPACT), R(0)});                           // 6 expired-not-evicted at compaction
  s.push_back({Step(SET_TTL, 0, 1), Step(ADV_REAL, 0, 1, 1500), Step(PERSIST, 0)});                              // 7 persist on expired key
  s.push_back({Step(SET_TTL, 0, 1), Step(ADV_REAL, 0, 1, 1500), Step(EXPIRE_AT, 0, 1, 10000)});                  // 8 expireAt on expired key
  s.push_back({Step(SET_TTL, 0, 1), Step(ADV_REAL, 0, 1, 1500), Step(SET, 0)});                                  // 9 re-set after expiry
  s.push_back({Step(SET, 0), Step(SET_TTL, 1, 5), Step(SET, 2), Step(CLEAR), R(0)});                             // 10 clear then restart
  s.push_back({Step(SET_TTL, 0, 1), Step(WARM, 0), Step(PROBE_EXPIRY)});                                         // 11 cache entry across expiry
  { Step b(BATCH_TTL, 0, 2); b.keys = {0, 1, 2, 3}; s.push_back({b, Step(PROBE_EXPIRY), Step(ADV_BOTH, 0, 1, 1)}); } // 12 batch ttl, size
  s.push_back({Step(SET_TTL, 0, 1), Step(ADV_BOTH, 0, 1, 500), R(0), Step(COMPACT), R(0)});                      // 13 evicted stays gone
  s.push_back({Step(SET_TTL, 0, 1), Step(SET_TTL, 0, 100), Step(ADV_BOTH, 0, 1, 500)});                          // 14 re-set before stale timer
  s.push_back({Step(SET_TTL, 0, 3), Step(ADV_MONO, 0, 1, 2000), Step(ADV_BOTH, 0, 1, 0)});                       // 15 early fire -> re-arm
  s.push_back({Step(SET, 0), Step(EXPIRE_AT, 0, 1, -1000), R(0)});                                               // 16 past expireAt
  s.push_back({Step(SET, 0), Step(EXPIRE_AT, 0, 1, 0, 1), R(0)});                                                // 17 expireAt(epoch 0)
  s.push_back({Step(SET_TTL, 0, 1), Step(REMOVE, 0), Step(ADV_REAL, 0, 1, 3000), R(0)});                         // 18
  s.push_back({Step(SET_TTL, 0, 1), Step(COMPACT), Step(ADV_REAL, 0, 1, 2000), Step(COMPACT), R(0)});            // 19 snapshot entry expires, compact again
  s.push_back({Step(SET_TTL, 0, 10), R(0), Step(ADV_REAL, 0, 1, 9999), Step(PROBE_EXPIRY)});                     // 20 absolute deadline across restart
  s.push_back({Step(SET_TTL, 0, 1), Step(EXPIRE_AT, 0, 1, 5000), Step(PERSIST, 0), Step(ADV_REAL, 0, 1, 7000), R(0)}); // 21
  s.push_back({Step(SET, 0), Step(EXPIRE_AT, 0, 1, 1000), Step(COMPACT), Step(EXPIRE_AT, 0, 1, 60000), Step(ADV_REAL, 0, 1, 2000), R(0)}); // 22
  s.push_back({Step(SET_TTL, 0, 1), Step(WARM, 0), Step(PERSIST, 0), Step(ADV_REAL, 0, 1, 1000), Step(WARM, 0)}); // 23 cache entry older than a persist
  s.push_back({Step(SET_TTL, 0, 1), Step(WARM, 0), Step(EXPIRE_AT, 0, 1, 5000), Step(ADV_REAL, 0, 1, 1000), Step(WARM, 0)}); // 24 cache entry older than expireAt
  s.push_back({Step(SET_TTL, 0, 2), Step(SET, 0), Step(ADV_REAL, 0, 1, 2000), Step(PROBE_EXPIRY)});              // 25 plain overwrite clears expiry
  { Step b(BATCH_TTL, 0, 1); b.keys = {0, 1}; Step p(BATCH, 0); p.keys = {1, 2}; s.push_back({b, p, Step(ADV_REAL, 0, 1, 1000), R(0)}); } // 26 plain batch clears expiry
  s.push_back({Step(SET_TTL, 0, 1), R(2), Step(SET_TTL, 1, 1), R(1), R(3)});                                     // 27 restart exactly at / around expiry
  return s;
}

struct Hist
{
  vf::Rng rng;
  uint64_t seed, index;
  std::string path;
  bool nomono;
  KVStoreConfig cfg;
  std::unique_ptr<KVStore> st;
  c12::Model model;
  std::vector<std::string> keys, probeAbsent, prefixes;
  std::map<std::string, KeyDiag> diag;
  int64_t now = 0;
  std::vector<std::string> trail;
  std::set<std::string> reported;
  std::set<std::string> tainted; // keys whose store state is unknown after a reported discrepancy (until the next value write)
  int stepNo = 0, scriptId = -1;
  uint32_t kindMask = 0;
  int restarts = 0, compacts = 0;
  uint64_t readsCompared = 0;
  bool dead = false; // store unusable (open failed)

  Hist(uint64_t seed_, uint64_t index_, const std::string &dir, bool nomono_)
      : rng(seed_, index_ * 2 + 1), seed(seed_), index(index_), path(dir + "/h" + std::to_string(index_)), nomono(nomono_) {}

  int64_t rangeMs() const
  {
    int64_t r = cfg.ttlTickDuration.count();
    for (size_t i = 0; i < cfg.ttlNumWheels; i++) r *= int64_t(cfg.ttlTicksPerWheel);
    return r;
  }
  void randomConfig(bool first)
  {
    static const uint32_t caches[] = {1, 2, 3, 4};
    cfg.maxCacheSize = rng.chance(0.85) ? caches[rng.below(4)] : 1000;
    cfg.ttlTickDuration = std::chrono::milliseconds(10);
    static const size_t tpw[] = {2, 4, 128, 256};
    static const size_t nw[] = {1, 1, 2, 4};
    cfg.ttlTicksPerWheel = tpw[rng.below(4)];
    cfg.ttlNumWheels = nw[rng.below(4)];
    if (first)
    {
      cfg.enableBackgroundCompaction = rng.chance(0.2);
      cfg.compactionInterval = std::chrono::milliseconds(rng.chance(0.5) ? 3 : 10);
      static const uint32_t logs[] = {200, 600, 2000, 70000};
      cfg.maxLogSizeBytes = rng.chance(0.4) ? logs[rng.below(4)] : 10 * 1024 * 1024;
    }
  }
  std::string cfgJson() const
  {
    char b[256];
    snprintf(b, sizeof b, "{\"cache\":%u,\"tickMs\":%lld,\"ticksPerWheel\":%zu,\"wheels\":%zu,\"bgCompaction\":%d,\"maxLog\":%u}",
             cfg.maxCacheSize, (long long)cfg.ttlTickDuration.count(), cfg.ttlTicksPerWheel, cfg.ttlNumWheels,
             int(cfg.enableBackgroundCompaction), cfg.maxLogSizeBytes);
    return b;
  }
  void makeKeys()
  {
    std::vector<std::string> fams = {"a", "a:", "ab", std::string("\0", 1), "\xff\xfe", std::string("k\0", 2), "user:"};
    // pick 3..4 families
    for (size_t i = fams.size(); i > 1; i--) std::swap(fams[i - 1], fams[rng.below(i)]);
    fams.resize(3 + rng.below(2));
    std::set<std::string> seen;
    while (keys.size() < 16)
    {
      std::string k = fams[rng.below(fams.size())];
      size_t extra = rng.below(4);
      for (size_t i = 0; i < extra; i++) k += char(rng.below(256));
      if (k.empty() || seen.count(k)) continue;
      seen.insert(k); keys.push_back(k);
    }
    auto pad = [&](size_t idx, size_t len) {
      std::string k = keys[idx];
      while (k.size() < len) k += char(rng.below(256));
      if (!seen.count(k)) { seen.erase(keys[idx]); seen.insert(k); keys[idx] = k; }
    };
    if (rng.chance(0.35)) { pad(5, 255); pad(6, 256); }
    if (rng.chance(0.06)) pad(7, 65535);
    prefixes = {""};
    for (auto &f : fams) prefixes.push_back(f);
    prefixes.push_back(keys[0]);
    prefixes.push_back(keys[0] + "zz");
    prefixes.push_back(keys[3].substr(0, 1));
    probeAbsent = {fams[0] + "\x01nope", "zz-never"};
    for (auto &k : keys) diag[k] = KeyDiag();
  }
  Bytes genValue(int hint)
  {
    size_t len;
    if (hint >= 0) len = size_t(hint);
    else
    {
      uint64_t r = rng.below(100);
      if (r < 14) len = 0; else if (r < 24) len = 1; else if (r < 70) len = 2 + rng.below(39);
      else if (r < 78) len = 255; else if (r < 86) len = 256; else if (r < 95) len = 257 + rng.below(2744);
      else if (r < 99) len = 65535; else len = 65536;
    }
    Bytes v(len, '\0');
    int style = int(rng.below(10));
    for (size_t i = 0; i < len; i++)
      v[i] = style == 0 ? '\0' : style == 1 ? char(0xff) : char(rng.next() >> 56);
    return v;
  }

  // ---- reporting
  std::string phaseOf(const std::string &k)
  {
    auto &d = diag[k];
    return d.restartsSince ? "after-restart" : d.compactsSince ? "after-compact" : "same-session";
  }
  void report(const std::string &key, const std::string &what, const std::string &k = std::string())
  {
    if (!reported.insert(key).second) return;
    if (!firstFewOfKey(key)) return;
    std::string d = "{\"seed\":" + std::to_string(seed) + ",\"history\":" + std::to_string(index) + ",\"step\":" + std::to_string(stepNo) +
                    ",\"script\":" + std::to_string(scriptId) + ",\"nowMs\":" + std::to_string(now) + ",\"cfg\":" + cfgJson();
    if (!k.empty())
    {
      auto *e = model.find(k);
      d += ",\"key\":" + vf::jstr(shortHex(k)) + ",\"model\":" +
           vf::jstr(e ? (std::string("value=") + shortHex(e->value) + " expiry=" + (e->expiryMs == c12::kNone ? "none" : std::to_string(e->expiryMs))) : "absent");
      d += ",\"lastOp\":" + vf::jstr(diag[k].lastOp);
    }
    d += ",\"replay\":" + vf::jstr("c12_kvmodel --mode hist --seed " + std::to_string(seed) + " --from " + std::to_string(index) + " --count 1") + ",\"trail\":[";
    size_t from = trail.size() > 16 ? trail.size() - 16 : 0;
    for (size_t i = from; i < trail.size(); i++) d += (i > from ? "," : "") + vf::jstr(trail[i]);
    d += "]}";
    vf::out().viol(key, what, d);
  }

  // a model-live key the store does not show
  void missing(const char *pathName, const std::string &k)
  {
    auto &d = diag[k];
    tainted.insert(k);
    if (d.restartsSince)
    {
      bool extendOp = d.lastOp == "persist" || d.lastOp == "expireAt";
      bool earlierExpired = false;
      size_t n = d.recExp.size();
      size_t upto = (d.lastOp == "expireAt" && n) ? n - 1 : n; // records before the extending one
      for (size_t i = 0; i < upto; i++) if (d.recExp[i] <= d.lastRestartNow) earlierExpired = true;
      std::string shape = (extendOp && earlierExpired) ? d.lastOp + "-after-first-expiry" : d.lastOp;
      report("C12:restart:" + shape + ":key-lost",
             std::string("live key missing after clean close + reopen (seen through ") + pathName + "); last op on key: " + d.lastOp +
                 (earlierExpired ? ", an earlier E/X record of the key was already expired at reopen" : ""), k);
    }
    else
      report(std::string("C12:") + pathName + ":live-key-missing:" + d.lastOp + ":" + phaseOf(k),
             std::string(pathName) + " does not show a key the model holds as live", k);
  }
  // the store shows a key the model does not hold as live
  void visible(const char *pathName, const std::string &k, bool cachePathOnly = false)
  {
    auto *e = model.find(k);
    tainted.insert(k);
    if (e)
    {
      auto &d = diag[k];
      if (!d.postExpiryOp.empty())
        report(std::string("C12:") + pathName + ":expired-resurrected:" + d.postExpiryOp + "-on-expired",
               std::string(pathName) + " shows a key whose expiry had passed before " + d.postExpiryOp + "() was called on it (expired-not-yet-evicted key brought back)", k);
      else if (cachePathOnly)
        report("C12:get:expired-visible:cache-hit", "get() returns an expired key that exists()/getBatch() no longer show (read cache ignores expiry)", k);
      else
        report(std::string("C12:") + pathName + ":expired-visible:" + phaseOf(k),
               std::string(pathName) + " shows a key whose expiry has passed (expiry " + std::to_string(e->expiryMs) + " <= now " + std::to_string(now) + ")", k);
    }
    else
    {
      std::string why = diag.count(k) ? diag[k].lastOp : "never-set";
      std::string ph = diag.count(k) ? phaseOf(k) : "same-session";
      report(std::string("C12:") + pathName + ":absent-key-visible:" + why + ":" + ph, std::string(pathName) + " shows a key that is absent in the model (" + why + ")", k);
    }
  }

  // ---- the oracle: every read API vs the model at the frozen instant
  void compareAll(const char *label)
  {
    if (dead || !st) return;
    (void)label;
    std::vector<std::string> probes = keys;
    for (auto &a : probeAbsent) probes.push_back(a);
    probes.push_back(std::string());
    for (size_t i = probes.size(); i > 1; i--) std::swap(probes[i - 1], probes[rng.below(i)]);
    bool exact = false, zombieRead = false;
    try
    {
      for (auto &k : probes)
      {
        if (tainted.count(k)) { vf::out().obs("hist_reads_skipped_on_tainted_key"); continue; }
        const Bytes *m = model.get(k, now);
        auto *e = model.find(k);
        if (e && e->expiryMs == now) exact = true;
        if (e && !m && !diag[k].dropped) zombieRead = true;
        int order = int(rng.below(3));
        std::optional<Vec> g; bool ex = false; std::optional<std::chrono::seconds> t;
        for (int j = 0; j < 3; j++)
        {
          int which = (order + j) % 3;
          if (which == 0) g = st->get(k); else if (which == 1) ex = st->exists(k); else t = st->ttl(k);
        }
        readsCompared += 3;
        // get
        if (g.has_value() && !m) visible("get", k, /*cachePathOnly=*/e && !ex);
        else if (!g.has_value() && m) missing("get", k);
        else if (g.has_value() && m && toBytes(*g) != *m && tainted.insert(k).second)
          report("C12:get:value-mismatch:" + diag[k].lastOp + ":" + phaseOf(k), "get() value differs from the bytes written: got " + shortHex(toBytes(*g)) + " want " + shortHex(*m), k);
        if (e && !m && !g.has_value() && !ex) diag[k].postExpiryOp.clear(); // the op did not bring it back
        if (tainted.count(k)) continue; // one report per key and round: the first read path that shows it
        // exists
        if (ex && !m) visible("exists", k);
        else if (!ex && m) missing("exists", k);
        if (tainted.count(k)) continue;
        // ttl
        int64_t mt = model.ttlSec(k, now);
        if (t.has_value() && !m) visible("ttl", k);
        else if (m && mt == c12::kNoTtl && t.has_value() && tainted.insert(k).second)
          report("C12:ttl:expiry-on-permanent-key:" + diag[k].lastOp + ":" + phaseOf(k), "ttl() reports " + std::to_string(t->count()) + " s for a key without expiry in the model", k);
        else if (m && mt != c12::kNoTtl && !t.has_value())
        {
          if (ex && tainted.insert(k).second) report("C12:ttl:none-on-ttl-key:" + diag[k].lastOp + ":" + phaseOf(k), "ttl() reports no expiry for a key with expiry (model remaining " + std::to_string(mt) + " s)", k);
          // !ex: already reported as missing
        }
        else if (m && mt != c12::kNoTtl && t.has_value() && t->count() != mt && tainted.insert(k).second)
          report("C12:ttl:wrong-remaining:" + phaseOf(k), "ttl() = " + std::to_string(t->count()) + " s, model floor((expiry-now)/1s) = " + std::to_string(mt) + " s", k);
      }
      // getBatch
      {
        std::vector<std::string> req = probes;
        req.push_back(probes[0]);
        auto res = st->getBatch(req);
        readsCompared += req.size();
        for (auto &kv : res)
        {
          if (tainted.count(kv.first)) continue;
          if (std::find(req.begin(), req.end(), kv.first) == req.end()) { report("C12:getBatch:unrequested-key", "getBatch returned a key that was not requested", kv.first); continue; }
          const Bytes *m = model.get(kv.first, now);
          if (!m) visible("getBatch", kv.first);
          else if (toBytes(kv.second) != *m && tainted.insert(kv.first).second)
            report("C12:getBatch:value-mismatch:" + diag[kv.first].lastOp + ":" + phaseOf(kv.first), "getBatch value differs: got " + shortHex(toBytes(kv.second)) + " want " + shortHex(*m), kv.first);
        }
        for (auto &k : probes)
          if (!tainted.count(k) && model.get(k, now) && !res.count(k)) missing("getBatch", k);
      }
      // keys / prefix scans
      size_t storeKeyCount = 0; bool keysMismatch = false;
      auto cmpList = [&](const char *pathName, std::vector<std::string> got, const std::vector<std::string> &want) {
        std::sort(got.begin(), got.end());
        for (size_t i = 1; i < got.size(); i++) if (got[i] == got[i - 1]) report(std::string("C12:") + pathName + ":duplicate-key", std::string(pathName) + " lists a key twice", got[i]);
        got.erase(std::unique(got.begin(), got.end()), got.end());
        std::vector<std::string> extra, lost;
        std::set_difference(got.begin(), got.end(), want.begin(), want.end(), std::back_inserter(extra));
        std::set_difference(want.begin(), want.end(), got.begin(), got.end(), std::back_inserter(lost));
        size_t n = 0;
        for (auto &k : extra) if (!tainted.count(k)) { visible(pathName, k); n++; }
        for (auto &k : lost) if (!tainted.count(k)) { missing(pathName, k); n++; }
        return n;
      };
      {
        auto got = st->keys();
        storeKeyCount = got.size();
        readsCompared++;
        keysMismatch = cmpList("keys", got, model.keys(now)) != 0;
      }
      for (auto &p : prefixes)
      {
        readsCompared++;
        cmpList("keysWithPrefix", st->keysWithPrefix(p), model.keysWithPrefix(p, now));
      }
      // size
      {
        size_t sz = st->size(), want = model.size(now);
        readsCompared++;
        size_t tl = 0; // tainted keys: state unknown, each may or may not be counted
        for (auto &k : tainted) if (model.live(k, now)) tl++;
        bool inRange = sz + tl >= want && sz <= want - tl + tainted.size();
        if (sz != want && !inRange && !(sz == storeKeyCount && keysMismatch))
        {
          size_t expiredEntries = 0;
          for (auto &kv : model.raw()) if (!kv.second.liveAt(now)) expiredEntries++;
          if (sz > want && expiredEntries)
            report("C12:size:counts-expired", "size() = " + std::to_string(sz) + " but only " + std::to_string(want) + " keys are live (keys() lists " + std::to_string(storeKeyCount) + "); expired-not-evicted keys are counted");
          else
            report("C12:size:mismatch", "size() = " + std::to_string(sz) + ", model " + std::to_string(want) + ", keys() lists " + std::to_string(storeKeyCount));
        }
      }
    }
    catch (const std::exception &ex)
    {
      report("C12:read:unexpected-exception", std::string("a read API threw: ") + ex.what());
    }
    if (exact) vf::out().obs("hist_compare_rounds_exactly_at_an_expiry");
    if (zombieRead) vf::out().obs("hist_compare_rounds_with_expired_not_dropped_key");
    vf::out().obs("hist_compare_rounds");
  }

  // ---- store lifecycle
  void openStore()
  {
    try { st = std::make_unique<KVStore>(path, cfg); }
    catch (const std::exception &ex)
    {
      report("C12:restart:open-failed", std::string("KVStore constructor threw on files written by a clean close: ") + ex.what());
      dead = true;
    }
  }
  void setNow(int64_t ms) { now = ms; c12clk::freezeRealMs(ms); }
  size_t undroppedExpired(int64_t at)
  {
    size_t n = 0;
    for (auto &kv : model.raw()) if (!kv.second.liveAt(at) && !diag[kv.first].dropped) n++;
    return n;
  }
  void markExpiredDropped()
  {
    for (auto &kv : model.raw()) if (!kv.second.liveAt(now)) diag[kv.first].dropped = true;
  }
  void touched(const std::string &k, const char *op, bool valueWrite)
  {
    auto &d = diag[k];
    d.lastOp = op;
    if (valueWrite) { d.recExp.clear(); d.postExpiryOp.clear(); tainted.erase(k); }
    d.restartsSince = d.compactsSince = 0;
    d.dropped = false;
  }

  // ---- step generation
  int pickKey(bool preferTtl)
  {
    if (preferTtl && rng.chance(0.65))
    {
      std::vector<int> c;
      for (size_t i = 0; i < keys.size(); i++) { auto *e = model.find(keys[i]); if (e && e->expiryMs != c12::kNone) c.push_back(int(i)); }
      if (!c.empty()) return c[rng.below(c.size())];
    }
    // small working set most of the time so keys get overwritten / re-read often
    return int(rng.chance(0.6) ? rng.below(6) : rng.below(keys.size()));
  }
  Step randomStep()
  {
    static const int weights[NKIND] = {14, 16, 4, 5, 5, 2, 1, 10, 7, 6, 8, 6, 8, 6, 2, 0};
    int total = 0; for (int w : weights) total += w;
    int r = int(rng.below(total)), k = 0;
    while (r >= weights[k]) { r -= weights[k]; k++; }
    Step s; s.kind = k;
    int64_t rng_ms = rangeMs();
    switch (k)
    {
    case SET: s.key = pickKey(rng.chance(0.4)); break;
    case SET_TTL: case BATCH_TTL:
    {
      std::vector<int64_t> ttls = {1, 1, 2, 3, 5, 10, 60, 3600, 86400ll * 400};
      if (rng_ms >= 1000 && rng_ms < 4000000) { ttls.push_back(rng_ms / 1000); ttls.push_back(rng_ms / 1000 + 1); ttls.push_back((rng_ms + 999) / 1000); }
      s.ttl = ttls[rng.below(ttls.size())];
      s.key = pickKey(rng.chance(0.3));
      break;
    }
    case REMOVE: s.key = pickKey(rng.chance(0.5)); break;
    case REMOVE_PREFIX: s.prefix = prefixes[1 + rng.below(prefixes.size() - 1)]; break;
    case EXPIRE_AT:
    {
      s.key = pickKey(true);
      if (rng.chance(0.04)) { static const int64_t abs[] = {0, -5, 1}; s.sub = 1; s.delta = abs[rng.below(3)]; }
      else
      {
        std::vector<int64_t> d = {-86400000, -1000, -1, 0, 1, 2, 10, 500, 999, 1000, 1001, 10000, 3600000, rng_ms - 1, rng_ms, rng_ms + 1};
        s.delta = d[rng.below(d.size())];
      }
      break;
    }
    case PERSIST: s.key = pickKey(true); break;
    case RESTART:
    {
      s.sub = int(rng.below(5));
      static const int64_t d[] = {1, 1000, 2500, 60000, 86400000};
      s.delta = d[rng.below(5)];
      if (rng.chance(0.3)) s.sub |= 8;
      break;
    }
    case ADV_REAL:
    {
      static const int64_t d[] = {1, 10, 999, 1000, 1001, 2500, 60000, 3600000, 86400000, 86400000ll * 400};
      s.delta = d[rng.below(10)];
      break;
    }
    case ADV_BOTH: { static const int64_t d[] = {0, 1, 500, 5000}; s.delta = d[rng.below(4)]; break; }
    case ADV_MONO: { static const int64_t d[] = {50, 1000, 3000, 10000, 700000}; s.delta = d[rng.below(5)]; break; }
    default: break;
    }
    if (k == BATCH || k == BATCH_TTL)
    {
      size_t n = 1 + rng.below(5);
      std::set<int> ks; while (ks.size() < n) ks.insert(pickKey(false));
      s.keys.assign(ks.begin(), ks.end());
    }
    return s;
  }

  // ---- eviction wait (observation only, never a verdict)
  void waitEviction(size_t dBefore, size_t recBefore, size_t expect)
  {
    vf::out().obs("hist_eviction_waits");
    bool seen = false;
    for (int i = 0; i < 300; i++)
    {
      size_t rec = 0, d = countLogD(path + ".log", &rec);
      if (rec < recBefore) { seen = true; vf::out().obs("hist_eviction_wait_cut_by_compaction"); break; }
      if (d > dBefore) seen = true;
      if (d >= dBefore + expect) break;
      vf::sleepMs(1);
    }
    if (seen) { vf::out().obs("hist_evictions_observed_in_log"); markExpiredDropped(); }
    else vf::out().obs("hist_eviction_wait_timeouts");
  }

  // ---- execute one step (store + model), then compare
  void exec(const Step &s)
  {
    if (dead) return;
    stepNo++;
    kindMask |= 1u << s.kind;
    std::string desc = std::string(kindName[s.kind]);
    auto K = [&](int i) -> const std::string & { return keys[size_t(i) % keys.size()]; };
    try
    {
      switch (s.kind)
      {
      case SET:
      {
        Bytes v = genValue(s.vlen);
        desc += " k=" + shortHex(K(s.key), 8) + " len=" + std::to_string(v.size());
        st->set(K(s.key), toVec(v));
        model.set(K(s.key), v); touched(K(s.key), "set", true);
        break;
      }
      case SET_TTL:
      {
        Bytes v = genValue(s.vlen);
        desc += " k=" + shortHex(K(s.key), 8) + " len=" + std::to_string(v.size()) + " ttl=" + std::to_string(s.ttl) + "s";
        st->set(K(s.key), toVec(v), std::chrono::seconds(s.ttl));
        model.setTtl(K(s.key), v, now, s.ttl); touched(K(s.key), "setTtl", true);
        diag[K(s.key)].recExp.push_back(now + s.ttl * 1000);
        break;
      }
      case BATCH: case BATCH_TTL:
      {
        std::unordered_map<std::string, Vec> b; c12::Model::Batch mb;
        for (int i : s.keys) { Bytes v = genValue(-1); b[K(i)] = toVec(v); mb.push_back({K(i), v}); desc += " " + shortHex(K(i), 6); }
        if (s.kind == BATCH) { st->setBatch(b); model.setBatch(mb); }
        else { desc += " ttl=" + std::to_string(s.ttl) + "s"; st->setBatch(b, std::chrono::seconds(s.ttl)); model.setBatchTtl(mb, now, s.ttl); }
        for (int i : s.keys)
        {
          touched(K(i), s.kind == BATCH ? "setBatch" : "setBatchTtl", true);
          if (s.kind == BATCH_TTL) diag[K(i)].recExp.push_back(now + s.ttl * 1000);
        }
        break;
      }
      case REMOVE:
        desc += " k=" + shortHex(K(s.key), 8);
        st->remove(K(s.key)); model.remove(K(s.key)); touched(K(s.key), "remove", true);
        break;
      case REMOVE_PREFIX:
      {
        desc += " p=" + shortHex(s.prefix, 8);
        std::vector<std::string> affected;
        for (auto &kv : model.raw()) if (kv.first.size() >= s.prefix.size() && kv.first.compare(0, s.prefix.size(), s.prefix) == 0 && kv.second.liveAt(now)) affected.push_back(kv.first);
        size_t got = st->removeWithPrefix(s.prefix);
        // tainted keys (state unknown after a reported discrepancy) stay tainted and widen the admissible count
        size_t tIn = 0, tLive = 0;
        for (auto &k : tainted) if (k.size() >= s.prefix.size() && k.compare(0, s.prefix.size(), s.prefix) == 0) { tIn++; if (std::find(affected.begin(), affected.end(), k) != affected.end()) tLive++; }
        // expired model entries under the prefix are kept (they are absent anyway; kept for diagnostics)
        for (auto &k : affected) if (!tainted.count(k)) { model.remove(k); touched(k, "removeWithPrefix", true); }
        if (got + tLive < affected.size() || got > affected.size() - tLive + tIn)
          report("C12:removeWithPrefix:wrong-count", "removeWithPrefix returned " + std::to_string(got) + ", model has " + std::to_string(affected.size()) + " live keys under the prefix");
        break;
      }
      case CLEAR:
        st->clear(); model.clear();
        for (auto &k : keys) touched(k, "clear", true);
        break;
      case EXPIRE_AT:
      {
        int64_t when = s.sub == 1 ? s.delta : now + s.delta;
        desc += " k=" + shortHex(K(s.key), 8) + (s.sub == 1 ? " when(abs)=" : " when=now") + (s.sub == 1 ? std::to_string(when) : (s.delta >= 0 ? "+" : "") + std::to_string(s.delta)) + "ms";
        bool entry = model.find(K(s.key)) != nullptr;
        st->expireAt(K(s.key), tpMs(when));
        if (model.expireAt(K(s.key), when, now)) { touched(K(s.key), "expireAt", false); diag[K(s.key)].recExp.push_back(when); }
        else if (entry) { diag[K(s.key)].postExpiryOp = "expireAt"; vf::out().obs("hist_expireAt_on_expired_key"); }
        break;
      }
      case PERSIST:
      {
        desc += " k=" + shortHex(K(s.key), 8);
        auto *e = model.find(K(s.key));
        bool expiredEntry = e && !e->liveAt(now);
        st->persist(K(s.key));
        if (model.persist(K(s.key), now)) touched(K(s.key), "persist", false);
        else if (expiredEntry) { diag[K(s.key)].postExpiryOp = "persist"; vf::out().obs("hist_persist_on_expired_key"); }
        break;
      }
      case COMPACT:
        if (undroppedExpired(now)) vf::out().obs("hist_compactions_with_expired_not_evicted_keys");
        st->compact(); compacts++;
        for (auto &kv : diag) kv.second.compactsSince++;
        markExpiredDropped();
        break;
      case WARM:
        desc += " k=" + shortHex(K(s.key), 8);
        (void)st->get(K(s.key));
        break;
      case ADV_REAL:
        desc += " +" + std::to_string(s.delta) + "ms";
        setNow(now + s.delta);
        break;
      case ADV_MONO:
        desc += " +" + std::to_string(s.delta) + "ms";
        if (!nomono) { c12clk::advanceMonoMs(s.delta); vf::sleepMs(12); vf::out().obs("hist_mono_only_advances"); }
        break;
      case ADV_BOTH:
      {
        int64_t e = model.nextExpiryAfter(now);
        int64_t target = (e == c12::kNone ? now + 1000 : e) + s.delta;
        int64_t x = target - now;
        desc += " to next expiry +" + std::to_string(s.delta) + "ms (real +" + std::to_string(x) + "ms)";
        size_t rec = 0, d0 = countLogD(path + ".log", &rec);
        size_t expect = undroppedExpired(target);
        setNow(target);
        if (!nomono)
        {
          c12clk::advanceMonoMs(std::min<int64_t>(2 * x + 10000, 1800000));
          if (expect) waitEviction(d0, rec, expect);
        }
        break;
      }
      case PROBE_EXPIRY:
      {
        int64_t e = model.nextExpiryAfter(now);
        if (e == c12::kNone) { desc += " (no pending expiry) +1000ms"; setNow(now + 1000); break; }
        desc += " E=now+" + std::to_string(e - now) + "ms";
        trail.push_back(std::to_string(stepNo) + ":" + desc);
        setNow(e - 1); compareAll("just-before"); vf::out().obs("hist_probe_just_before");
        setNow(e); compareAll("exactly-at"); vf::out().obs("hist_probe_exactly_at");
        setNow(e + 1); compareAll("just-after"); vf::out().obs("hist_probe_just_after");
        return;
      }
      case RESTART:
      {
        int mode = s.sub & 7;
        st.reset();
        int64_t e = model.nextExpiryAfter(now);
        int64_t before = now;
        if (mode >= 1 && mode <= 3 && e != c12::kNone) setNow(e - 2 + mode);
        else if (mode == 4) setNow(now + s.delta);
        if ((s.sub & 8) && !nomono) c12clk::advanceMonoMs(std::max<int64_t>(now - before, 100));
        desc += " mode=" + std::to_string(mode) + " clock +" + std::to_string(now - before) + "ms while closed";
        // classify what this restart exercises
        for (auto &kv : model.raw())
        {
          auto &d = diag[kv.first];
          if (kv.second.liveAt(now) && (d.lastOp == "persist" || d.lastOp == "expireAt"))
          {
            size_t n = d.recExp.size(), upto = (d.lastOp == "expireAt" && n) ? n - 1 : n;
            for (size_t i = 0; i < upto; i++) if (d.recExp[i] <= now) { vf::out().obs("hist_restarts_after_first_expiry_of_extended_key"); break; }
          }
          if (kv.second.expiryMs == now) vf::out().obs("hist_restarts_exactly_at_an_expiry");
        }
        if (undroppedExpired(now)) vf::out().obs("hist_restarts_with_expired_not_evicted_keys");
        if (rng.chance(0.5)) randomConfig(false);
        openStore();
        restarts++;
        for (auto &kv : diag) { kv.second.restartsSince++; kv.second.lastRestartNow = now; }
        markExpiredDropped();
        break;
      }
      }
    }
    catch (const std::exception &ex)
    {
      report(std::string("C12:") + kindName[s.kind] + ":unexpected-exception", std::string(kindName[s.kind]) + " threw: " + ex.what());
    }
    trail.push_back(std::to_string(stepNo) + ":" + desc);
    compareAll(kindName[s.kind]);
  }

  void run(int steps, int script)
  {
    rmStore(path);
    randomConfig(true);
    makeKeys();
    // start instant: ms-aligned, different per history
    setNow(1800000000000ll + int64_t(rng.below(1000000000ull)));
    openStore();
    compareAll("empty");
    static const auto scripts = directedScripts();
    if (script >= 0)
    {
      scriptId = script % int(scripts.size());
      for (auto &s : scripts[size_t(scriptId)]) exec(s);
    }
    while (stepNo < steps && !dead) exec(randomStep());
    // always finish with a clean restart + compare (state after close + reopen)
    if (!dead) exec(Step(RESTART, 0, 1, 0, 0));
    st.reset();
    rmStore(path);
    vf::out().obs("hist_histories");
    vf::out().obs("hist_steps", uint64_t(stepNo));
    vf::out().obs("hist_reads_compared", readsCompared);
    vf::out().obs("hist_restarts", uint64_t(restarts));
    vf::out().obs("hist_compactions", uint64_t(compacts));
    uint64_t sig = vf::fnv(cfgJson());
    sig = vf::fnv(&kindMask, sizeof kindMask, sig);
    sig = vf::fnv(&scriptId, sizeof scriptId, sig);
    int flags = (restarts > 1) | ((compacts > 0) << 1);
    sig = vf::fnv(&flags, sizeof flags, sig);
    vf::out().caseSig(sig);
    std::string sj = "{\"mode\":\"hist\",\"history\":" + std::to_string(index) + ",\"script\":" + std::to_string(scriptId) + ",\"cfg\":" + cfgJson() + ",\"steps\":[";
    for (size_t i = 0; i < trail.size() && i < 10; i++) sj += (i ? "," : "") + vf::jstr(trail[i]);
    sj += "]}";
    vf::out().sample(sj);
  }
};

} // namespace hist

static int runHist(const vf::Args &args)
{
  uint64_t seed = args.u("seed", 1), from = args.u("from", 0), count = args.u("count", 10);
  int steps = int(args.u("steps", 40));
  int directedEvery = int(args.u("directed-every", 3));
  bool nomono = args.u("nomono", 0) != 0 || VF_TSAN;
  std::string dir = args.s("dir", "/tmp");
  for (uint64_t i = from; i < from + count; i++)
  {
    vf::out().line("{\"t\":\"begin\",\"i\":" + std::to_string(i) + "}");
    hist::Hist h(seed, i, dir, nomono);
    int script = (directedEvery > 0 && i % uint64_t(directedEvery) == 0) ? int(i / uint64_t(directedEvery)) : -1;
    h.run(steps, script);
  }
  c12clk::unfreeze();
  return 0;
}
