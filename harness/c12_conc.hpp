// /verif/harness/c12_conc.hpp — concurrent part of C12 (included by c12_kvmodel.cpp).
// Writers (exactly one per key, so the writes on a key are totally ordered), readers on every read
// path, an admin thread (compact / flush / wall-clock jumps) and iora's own eviction worker + wheel
// run on a RUNNING clock. Every call is stamped [inv, ret] with the same (shimmed) wall clock
// KVStore reads. Afterwards each read is checked per key (P-compositional linearizability):
// it must be explained by the state after some write that may precede it, evaluated at some
// instant inside the read; a read overlapping a write or an expiry instant may see either side.
#pragma once

namespace conc {

static const int64_t INF = std::numeric_limits<int64_t>::max();
enum WOp { W_SET, W_SET_TTL, W_EXPIRE_AT, W_PERSIST, W_REMOVE };
static const char *wopName[] = {"set", "setTtl", "expireAt", "persist", "remove"};
enum RPath { R_GET, R_EXISTS, R_TTL, R_GETBATCH, R_KEYS, R_PREFIX, R_SIZE };
static const char *rpathName[] = {"get", "exists", "ttl", "getBatch", "keys", "keysWithPrefix", "size"};

struct WriteRec { int op; uint64_t valId; int64_t ttlNs; int64_t whenNs; int64_t inv, ret; };
struct ReadRec
{
  int path; int key; int64_t inv, ret;
  bool present = false; uint64_t valId = 0; bool corrupt = false; // get/getBatch carry a value; others valId=0
  bool ttlHas = false; int64_t ttlSec = 0; size_t size = 0;
};
struct State
{
  bool present; uint64_t valId; int64_t expLo, expHi;
  bool operator==(const State &o) const { return present == o.present && valId == o.valId && expLo == o.expLo && expHi == o.expHi; }
};

static uint64_t mix64(uint64_t x) { return vf::shim::mix(x); }
static Vec encodeValue(uint64_t valId)
{
  size_t len = size_t(mix64(valId) % 7 == 0 ? 0 : mix64(valId ^ 0x55) % 300);
  Vec v(8 + len);
  memcpy(v.data(), &valId, 8);
  for (size_t i = 0; i < len; i++) v[8 + i] = uint8_t(mix64(valId + i * 0x9e37ull));
  return v;
}
static bool decodeValue(const Vec &v, uint64_t &valId)
{
  if (v.size() < 8) return false;
  memcpy(&valId, v.data(), 8);
  return encodeValue(valId) == v; // byte-exact
}

struct Run
{
  uint64_t seed, index;
  std::string path;
  KVStoreConfig cfg;
  std::vector<std::string> keys;          // contended keys
  std::string permKey = "d:perm", absentKey = "c:none";
  int nWriters = 2, nReaders = 3, opsPerWriter = 150, compactionMode = 0;
  std::unique_ptr<KVStore> st;
  std::vector<std::vector<WriteRec>> wlog; // per key
  std::vector<std::vector<ReadRec>> rlog;  // per reader
  std::atomic<bool> stop{false};
  std::atomic<int> removesIssued{0}, compactions{0}, jumps{0};
  std::atomic<int> apiExceptions{0};
  std::string firstException;
  std::mutex exMutex;

  Run(uint64_t s, uint64_t i, const std::string &dir) : seed(s), index(i), path(dir + "/c" + std::to_string(i)) {}

  void noteException(const char *where, const std::exception &e)
  {
    apiExceptions++;
    std::lock_guard<std::mutex> g(exMutex);
    if (firstException.empty()) firstException = std::string(where) + ": " + e.what();
  }

  void writer(int w)
  {
    vf::Rng rng(seed, index * 64 + 10 + uint64_t(w));
    std::vector<int> own;
    for (size_t k = 0; k < keys.size(); k++) if (int(k) % nWriters == w) own.push_back(int(k));
    uint64_t seq = 0;
    auto newVal = [&]() { return (uint64_t(w + 1) << 48) | (uint64_t(index & 0xffff) << 32) | ++seq; };
    for (int i = 0; i < opsPerWriter && !own.empty(); i++)
    {
      int k = own[rng.below(own.size())];
      int r = int(rng.below(100));
      try
      {
        if (r < 24)
        {
          WriteRec wr{W_SET, newVal(), 0, 0, 0, 0};
          Vec v = encodeValue(wr.valId);
          wr.inv = c12clk::nowRealNs(); st->set(keys[k], v); wr.ret = c12clk::nowRealNs();
          wlog[k].push_back(wr);
        }
        else if (r < 38)
        {
          WriteRec wr{W_SET_TTL, newVal(), 1000000000ll, 0, 0, 0};
          Vec v = encodeValue(wr.valId);
          wr.inv = c12clk::nowRealNs(); st->set(keys[k], v, std::chrono::seconds(1)); wr.ret = c12clk::nowRealNs();
          wlog[k].push_back(wr);
        }
        else if (r < 70)
        {
          static const int64_t dMs[] = {-5, 0, 1, 2, 3, 5, 8, 12, 20, 30, 45, 1000, 5000};
          WriteRec wr{W_EXPIRE_AT, 0, 0, 0, 0, 0};
          wr.inv = c12clk::nowRealNs();
          wr.whenNs = wr.inv + dMs[rng.below(13)] * 1000000 + int64_t(rng.below(1000000));
          st->expireAt(keys[k], tpNs(wr.whenNs)); wr.ret = c12clk::nowRealNs();
          wlog[k].push_back(wr);
        }
        else if (r < 78)
        {
          WriteRec wr{W_PERSIST, 0, 0, 0, 0, 0};
          wr.inv = c12clk::nowRealNs(); st->persist(keys[k]); wr.ret = c12clk::nowRealNs();
          wlog[k].push_back(wr);
        }
        else if (r < 82)
        {
          WriteRec wr{W_REMOVE, 0, 0, 0, 0, 0};
          removesIssued++;
          wr.inv = c12clk::nowRealNs(); st->remove(keys[k]); wr.ret = c12clk::nowRealNs();
          wlog[k].push_back(wr);
        }
        else if (r < 91)
        {
          // batch over all own keys (plain or TTL): one write record per key, same interval
          bool ttl = rng.chance(0.5);
          std::unordered_map<std::string, Vec> b; std::vector<std::pair<int, uint64_t>> ids;
          for (int kk : own) { uint64_t id = newVal(); b[keys[kk]] = encodeValue(id); ids.push_back({kk, id}); }
          int64_t inv = c12clk::nowRealNs();
          if (ttl) st->setBatch(b, std::chrono::seconds(1)); else st->setBatch(b);
          int64_t ret = c12clk::nowRealNs();
          for (auto &p : ids) wlog[p.first].push_back(WriteRec{ttl ? W_SET_TTL : W_SET, p.second, ttl ? 1000000000ll : 0, 0, inv, ret});
        }
      }
      catch (const std::exception &e) { noteException("writer", e); }
      int z = int(rng.below(10));
      if (z < 5) vf::sleepMs(0.05 + double(rng.below(1500)) / 1000.0);
      else if (z < 7) vf::sleepMs(2 + double(rng.below(9)));
    }
  }

  void reader(int r)
  {
    vf::Rng rng(seed, index * 64 + 30 + uint64_t(r));
    auto &log = rlog[size_t(r)];
    std::vector<std::string> all = keys; all.push_back(permKey); all.push_back(absentKey);
    auto keyIndex = [&](const std::string &k) -> int { for (size_t i = 0; i < all.size(); i++) if (all[i] == k) return int(i); return -1; };
    while (!stop.load(std::memory_order_acquire))
    {
      int p = int(rng.below(100));
      int k = int(rng.below(all.size()));
      try
      {
        if (p < 40)
        {
          ReadRec rr; rr.path = R_GET; rr.key = k;
          rr.inv = c12clk::nowRealNs(); auto g = st->get(all[size_t(k)]); rr.ret = c12clk::nowRealNs();
          rr.present = g.has_value();
          if (g) rr.corrupt = !decodeValue(*g, rr.valId);
          log.push_back(rr);
        }
        else if (p < 55)
        {
          ReadRec rr; rr.path = R_EXISTS; rr.key = k;
          rr.inv = c12clk::nowRealNs(); rr.present = st->exists(all[size_t(k)]); rr.ret = c12clk::nowRealNs();
          log.push_back(rr);
        }
        else if (p < 70)
        {
          ReadRec rr; rr.path = R_TTL; rr.key = k;
          rr.inv = c12clk::nowRealNs(); auto t = st->ttl(all[size_t(k)]); rr.ret = c12clk::nowRealNs();
          rr.ttlHas = t.has_value(); rr.ttlSec = t ? t->count() : 0;
          log.push_back(rr);
        }
        else if (p < 80)
        {
          int64_t inv = c12clk::nowRealNs(); auto res = st->getBatch(all); int64_t ret = c12clk::nowRealNs();
          for (size_t i = 0; i < all.size(); i++)
          {
            ReadRec rr; rr.path = R_GETBATCH; rr.key = int(i); rr.inv = inv; rr.ret = ret;
            auto it = res.find(all[i]);
            rr.present = it != res.end();
            if (rr.present) rr.corrupt = !decodeValue(it->second, rr.valId);
            log.push_back(rr);
          }
        }
        else if (p < 92)
        {
          bool pre = p >= 86;
          int64_t inv = c12clk::nowRealNs();
          auto res = pre ? st->keysWithPrefix("c:") : st->keys();
          int64_t ret = c12clk::nowRealNs();
          std::vector<bool> seen(all.size(), false);
          for (auto &kk : res)
          {
            int i = keyIndex(kk);
            if (i < 0 || seen[size_t(i)]) { ReadRec rr; rr.path = pre ? R_PREFIX : R_KEYS; rr.key = -1; rr.inv = inv; rr.ret = ret; rr.corrupt = true; log.push_back(rr); continue; }
            seen[size_t(i)] = true;
          }
          for (size_t i = 0; i < all.size(); i++)
          {
            if (pre && all[i].compare(0, 2, "c:") != 0) { if (seen[i]) { ReadRec rr; rr.path = R_PREFIX; rr.key = -1; rr.inv = inv; rr.ret = ret; rr.corrupt = true; log.push_back(rr); } continue; }
            ReadRec rr; rr.path = pre ? R_PREFIX : R_KEYS; rr.key = int(i); rr.inv = inv; rr.ret = ret; rr.present = seen[i];
            log.push_back(rr);
          }
        }
        else
        {
          ReadRec rr; rr.path = R_SIZE; rr.key = -1;
          rr.inv = c12clk::nowRealNs(); rr.size = st->size(); rr.ret = c12clk::nowRealNs();
          log.push_back(rr);
        }
      }
      catch (const std::exception &e) { noteException("reader", e); }
      if (rng.below(4) == 0) vf::sleepMs(0.02 + double(rng.below(300)) / 1000.0);
    }
  }

  void admin()
  {
    vf::Rng rng(seed, index * 64 + 50);
    int jumpsLeft = 3;
    while (!stop.load(std::memory_order_acquire))
    {
      vf::sleepMs(2 + double(rng.below(7)));
      int a = int(rng.below(100));
      try
      {
        if (a < 35 && compactionMode == 1) { st->compact(); compactions++; }
        else if (a < 50 && jumpsLeft > 0)
        {
          static const int64_t j[] = {400, 990, 1000, 1010, 2500};
          c12clk::jumpRealMs(j[rng.below(5)]); jumpsLeft--; jumps++;
        }
        else if (a < 60) st->flush();
      }
      catch (const std::exception &e) { noteException("admin", e); }
    }
  }

  // ---- checker
  std::vector<std::vector<std::vector<State>>> states; // [key][writeIndex+1] -> possible states after that write ([0] = initial)
  std::vector<std::vector<char>> unknownAfter;          // state set overflowed: unknown until next value write

  static void addState(std::vector<State> &v, const State &s) { if (std::find(v.begin(), v.end(), s) == v.end()) v.push_back(s); }
  void computeStates()
  {
    size_t nk = keys.size();
    states.assign(nk, {}); unknownAfter.assign(nk, {});
    for (size_t k = 0; k < nk; k++)
    {
      auto &w = wlog[k];
      states[k].resize(w.size() + 1); unknownAfter[k].assign(w.size() + 1, 0);
      states[k][0] = {State{false, 0, INF, INF}};
      for (size_t j = 0; j < w.size(); j++)
      {
        auto &prev = states[k][j]; auto &next = states[k][j + 1];
        const WriteRec &x = w[j];
        bool unk = unknownAfter[k][j];
        if (x.op == W_SET) { next = {State{true, x.valId, INF, INF}}; unk = false; }
        else if (x.op == W_SET_TTL) { next = {State{true, x.valId, x.inv + x.ttlNs, x.ret + x.ttlNs}}; unk = false; }
        else if (x.op == W_REMOVE) { next = {State{false, 0, INF, INF}}; unk = false; }
        else
        {
          for (auto &s : prev)
          {
            if (!s.present) { addState(next, s); continue; }
            bool mayLive = x.inv < s.expHi, mayExpired = s.expLo != INF && x.ret >= s.expLo;
            if (x.op == W_EXPIRE_AT)
            {
              if (mayLive) addState(next, State{true, s.valId, x.whenNs, x.whenNs});
              if (mayExpired) addState(next, s);
            }
            else // persist
            {
              if (s.expHi == INF) { addState(next, s); continue; }
              if (mayLive) addState(next, State{true, s.valId, INF, INF});
              if (mayExpired) addState(next, s);
            }
          }
          if (next.size() > 12) unk = true;
        }
        unknownAfter[k][j + 1] = unk;
      }
    }
  }

  struct Verdict { bool presentOK = false, absentOK = false, valueOK = false, ttlNoneOK = false, ttlValOK = false, unknown = false; bool resurrect = false; int resOp = 0; bool staleOlder = false; bool overlapWrite = false, overlapExpiry = false, lazyExpired = false; };

  Verdict judge(int k, const ReadRec &r, std::vector<size_t> &skipUntil)
  {
    Verdict v;
    if (size_t(k) >= keys.size())
    {
      // permKey: one permanent value written before the threads start; absentKey: never written
      bool perm = size_t(k) == keys.size();
      v.presentOK = perm; v.absentOK = !perm; v.valueOK = perm && r.valId == permId; v.ttlNoneOK = true;
      return v;
    }
    auto &w = wlog[size_t(k)];
    // a = number of writes that returned before the read began; b = number of writes begun before the read ended
    size_t a = size_t(std::partition_point(w.begin(), w.end(), [&](const WriteRec &x) { return x.ret < r.inv; }) - w.begin());
    size_t b = size_t(std::partition_point(w.begin(), w.end(), [&](const WriteRec &x) { return x.inv <= r.ret; }) - w.begin());
    if (a < skipUntil[size_t(k)]) { v.unknown = true; return v; }
    v.overlapWrite = b > a;
    for (size_t j = a; j <= b; j++) // state index j = after write j-1
    {
      if (unknownAfter[size_t(k)][j]) { v.unknown = true; return v; }
      int64_t lo = r.inv, hi = r.ret;
      if (j >= 1) lo = std::max(lo, w[j - 1].inv);
      if (j < w.size()) hi = std::min(hi, w[j].ret);
      if (lo > hi) continue;
      for (auto &s : states[size_t(k)][j])
      {
        if (!s.present) { v.absentOK = true; v.ttlNoneOK = true; continue; }
        bool canLive = lo < s.expHi, canExpired = s.expLo != INF && hi >= s.expLo;
        if (canLive)
        {
          v.presentOK = true;
          if (s.valId == r.valId) v.valueOK = true;
          if (s.expHi == INF) v.ttlNoneOK = true;
          else if (r.ttlHas)
          {
            int64_t tmin = (s.expLo - hi) / 1000000000ll, tmax = (s.expHi - lo) / 1000000000ll;
            if (tmin < 0) tmin = 0;
            if (r.ttlSec >= tmin && r.ttlSec <= tmax) v.ttlValOK = true;
          }
        }
        if (canExpired) { v.absentOK = true; v.ttlNoneOK = true; if (!canLive) v.lazyExpired = true; }
        if (canLive && canExpired) v.overlapExpiry = true;
      }
    }
    // classification helpers for an inadmissible "present": was it brought back by expireAt/persist on an expired key?
    if (r.present || r.ttlHas || r.path == R_SIZE)
    {
      for (size_t j = (a ? a - 1 : 0); j < b && j < w.size(); j++)
      {
        if (w[j].op != W_EXPIRE_AT && w[j].op != W_PERSIST) continue;
        if (w[j].op == W_EXPIRE_AT && r.inv >= w[j].whenNs) continue; // even a revived key would be expired again by now
        for (auto &s : states[size_t(k)][j])
          if (s.present && (r.valId == 0 || s.valId == r.valId) && s.expLo != INF && w[j].ret >= s.expLo) { v.resurrect = true; v.resOp = w[j].op; }
      }
      // chains: the write before `a` may itself be the resurrecting one
      for (size_t j = 0; j < a && !v.resurrect; j++)
      {
        size_t jj = a - 1 - j;
        if (w[jj].op == W_SET || w[jj].op == W_SET_TTL || w[jj].op == W_REMOVE) break;
        if (w[jj].op == W_EXPIRE_AT && r.inv >= w[jj].whenNs) continue;
        for (auto &s : states[size_t(k)][jj])
          if (s.present && (r.valId == 0 || s.valId == r.valId) && s.expLo != INF && w[jj].ret >= s.expLo) { v.resurrect = true; v.resOp = w[jj].op; }
      }
      if (r.valId)
        for (size_t j = 0; j + 1 < a; j++) if (w[j].valId == r.valId) v.staleOlder = true;
    }
    return v;
  }

  uint64_t permId = 0;
  std::set<std::string> reported;

  void report(const std::string &key, const std::string &what, int k, const ReadRec *r)
  {
    if (!reported.insert(key).second) return;
    if (!firstFewOfKey(key)) return;
    std::string d = "{\"seed\":" + std::to_string(seed) + ",\"run\":" + std::to_string(index) + ",\"cfg\":{\"cache\":" + std::to_string(cfg.maxCacheSize) +
                    ",\"ticksPerWheel\":" + std::to_string(cfg.ttlTicksPerWheel) + ",\"wheels\":" + std::to_string(cfg.ttlNumWheels) +
                    ",\"compactionMode\":" + std::to_string(compactionMode) + ",\"tickMs\":" + std::to_string(cfg.ttlTickDuration.count()) + "}";
    if (r)
    {
      d += ",\"read\":{\"path\":" + vf::jstr(rpathName[r->path]) + ",\"inv\":" + std::to_string(r->inv) + ",\"ret\":" + std::to_string(r->ret) + ",\"present\":" + (r->present ? "true" : "false") +
           ",\"valId\":" + std::to_string(r->valId) + ",\"ttlHas\":" + (r->ttlHas ? "true" : "false") + ",\"ttl\":" + std::to_string(r->ttlSec) + ",\"size\":" + std::to_string(r->size) + "}";
      if (k >= 0 && size_t(k) < keys.size())
      {
        auto &w = wlog[size_t(k)];
        size_t b = size_t(std::partition_point(w.begin(), w.end(), [&](const WriteRec &x) { return x.inv <= r->ret; }) - w.begin());
        d += ",\"writes_before\":[";
        size_t from = b > 6 ? b - 6 : 0;
        for (size_t j = from; j < b; j++)
          d += std::string(j > from ? "," : "") + "{\"i\":" + std::to_string(j) + ",\"op\":" + vf::jstr(wopName[w[j].op]) + ",\"valId\":" + std::to_string(w[j].valId) +
               ",\"when\":" + std::to_string(w[j].whenNs) + ",\"inv\":" + std::to_string(w[j].inv) + ",\"ret\":" + std::to_string(w[j].ret) + "}";
        d += "]";
      }
    }
    d += ",\"replay\":" + vf::jstr("c12_kvmodel --mode conc --seed " + std::to_string(seed) + " --from " + std::to_string(index) + " --count 1 (schedule-dependent)") + "}";
    vf::out().viol(key, what, d);
  }

  void check()
  {
    computeStates();
    // merge all reads, ordered by invocation
    std::vector<ReadRec> reads;
    for (auto &l : rlog) reads.insert(reads.end(), l.begin(), l.end());
    std::sort(reads.begin(), reads.end(), [](const ReadRec &x, const ReadRec &y) { return x.inv < y.inv; });
    std::vector<size_t> skipUntil(keys.size(), 0);
    uint64_t checked = 0, overlapW = 0, overlapE = 0, lazy = 0, unknown = 0;
    auto taint = [&](int k, const ReadRec &r) {
      if (k < 0 || size_t(k) >= keys.size()) return;
      auto &w = wlog[size_t(k)];
      size_t b = size_t(std::partition_point(w.begin(), w.end(), [&](const WriteRec &x) { return x.inv <= r.ret; }) - w.begin());
      size_t j = b;
      while (j < w.size() && !(w[j].op == W_SET || w[j].op == W_SET_TTL || w[j].op == W_REMOVE)) j++;
      skipUntil[size_t(k)] = std::max(skipUntil[size_t(k)], j + 1); // reads must begin after that value write returned
    };
    for (auto &r : reads)
    {
      std::string P = rpathName[r.path];
      if (r.path == R_SIZE)
      {
        size_t lo = 0, hi = 0, hiRes = 0; int resOp = W_EXPIRE_AT;
        for (size_t k = 0; k <= keys.size(); k++) // contended keys + permKey
        {
          ReadRec q = r; q.present = false; q.valId = 0;
          Verdict v = judge(int(k), q, skipUntil);
          if (v.unknown) { hi++; hiRes++; continue; }
          if (v.presentOK) { hi++; hiRes++; }
          else if (v.resurrect) { hiRes++; resOp = v.resOp; }
          if (!v.absentOK) lo++;
        }
        checked++;
        if (r.size > hi && r.size <= hiRes)
          report(std::string("C12:size:expired-resurrected:") + wopName[resOp] + "-on-expired",
                 "size() counts a key whose expiry had passed before " + std::string(wopName[resOp]) + "() was called on it (concurrent run)", -1, &r);
        else if (r.size < lo || r.size > hi)
          report(r.size > hi ? "C12:conc:size:counts-expired-or-absent" : "C12:conc:size:misses-live-keys",
                 "size() = " + std::to_string(r.size) + " outside the admissible range [" + std::to_string(lo) + "," + std::to_string(hi) + "] for the instant of the call", -1, &r);
        continue;
      }
      if (r.key < 0) { report("C12:conc:" + P + ":foreign-or-duplicate-key", P + " listed a key twice or a key nobody wrote", -1, &r); continue; }
      Verdict v = judge(r.key, r, skipUntil);
      if (v.unknown) { unknown++; continue; }
      checked++;
      overlapW += v.overlapWrite; overlapE += v.overlapExpiry; lazy += (v.lazyExpired && !r.present && r.path != R_TTL);
      if (r.corrupt) { report("C12:conc:" + P + ":value-corrupt", P + " returned bytes that no writer ever wrote (not byte-exact)", r.key, &r); taint(r.key, r); continue; }
      if (r.path == R_TTL)
      {
        if (!r.ttlHas) { if (!v.ttlNoneOK) { report("C12:conc:ttl:none-on-ttl-key", "ttl() reported no expiry although every admissible state has a live key with an expiry", r.key, &r); taint(r.key, r); } }
        else if (!v.ttlValOK)
        {
          if (v.resurrect) report(std::string("C12:ttl:expired-resurrected:") + wopName[v.resOp] + "-on-expired", "ttl() shows a key whose expiry had passed before " + std::string(wopName[v.resOp]) + "() was called on it (concurrent run)", r.key, &r);
          else if (!v.presentOK) report("C12:conc:ttl:expired-or-absent-visible", "ttl() reported a remaining time for a key that is absent or expired in every admissible state", r.key, &r);
          else report("C12:conc:ttl:wrong-remaining", "ttl() = " + std::to_string(r.ttlSec) + " s is outside floor((expiry-now)/1s) for every admissible state", r.key, &r);
          taint(r.key, r);
        }
        continue;
      }
      if (r.present)
      {
        bool carriesValue = r.path == R_GET || r.path == R_GETBATCH;
        if (!v.presentOK || (carriesValue && !v.valueOK))
        {
          if (v.resurrect) // the observed value is exactly the one an expireAt/persist found expired
            report("C12:" + P + ":expired-resurrected:" + wopName[v.resOp] + "-on-expired", P + " shows a key whose expiry had passed before " + std::string(wopName[v.resOp]) + "() was called on it (concurrent run)", r.key, &r);
          else if (carriesValue && v.presentOK)
            report("C12:conc:" + P + (v.staleOlder ? ":stale-value" : ":wrong-value"), P + " returned a value that no admissible state holds" + (v.staleOlder ? " (an older, overwritten value)" : ""), r.key, &r);
          else
            report("C12:conc:" + P + ":expired-or-absent-visible", P + " shows a key that is removed/expired in every admissible state", r.key, &r);
          taint(r.key, r);
        }
      }
      else if (!v.absentOK)
      {
        report("C12:conc:" + P + ":live-key-missing", P + " does not show a key that is live in every admissible state", r.key, &r);
        taint(r.key, r);
      }
    }
    vf::out().obs("conc_reads_checked", checked);
    vf::out().obs("conc_reads_overlapping_a_write", overlapW);
    vf::out().obs("conc_reads_overlapping_an_expiry_instant", overlapE);
    vf::out().obs("conc_reads_of_expired_key_judged_absent", lazy);
    vf::out().obs("conc_reads_skipped_state_unknown", unknown);
  }

  void run()
  {
    vf::Rng rng(seed, index * 64 + 1);
    rmStore(path);
    static const uint32_t caches[] = {1, 2, 3, 4, 1000};
    cfg.maxCacheSize = caches[rng.below(5)];
    static const int ticks[] = {1, 2, 5, 10};
    cfg.ttlTickDuration = std::chrono::milliseconds(ticks[rng.below(4)]);
    static const size_t tpw[] = {2, 4, 256};
    cfg.ttlTicksPerWheel = tpw[rng.below(3)];
    cfg.ttlNumWheels = rng.chance(0.5) ? 1 : 2;
    // compaction mode: 0 none (the final log then holds every record: evictions can be counted),
    // 1 explicit compact() from the admin thread, 2 background thread + tiny log, 3 inline (maybeCompact) + tiny log
    compactionMode = int(rng.below(4));
    cfg.enableBackgroundCompaction = compactionMode == 2;
    cfg.compactionInterval = std::chrono::milliseconds(4);
    cfg.maxLogSizeBytes = compactionMode >= 2 ? 2000 : 10 * 1024 * 1024;
    keys = {"c:0", "c:1", "c:2"};
    nWriters = 2 + int(rng.below(2));
    wlog.assign(keys.size(), {}); rlog.assign(size_t(nReaders), {});
    try
    {
      st = std::make_unique<KVStore>(path, cfg);
      permId = (uint64_t(0xee) << 48) | index;
      st->set(permKey, encodeValue(permId));
    }
    catch (const std::exception &e) { vf::out().viol("C12:conc:open-failed", std::string("KVStore open/set threw: ") + e.what()); return; }
    std::vector<std::thread> th;
    for (int r = 0; r < nReaders; r++) th.emplace_back([this, r] { reader(r); });
    std::thread adm([this] { admin(); });
    std::vector<std::thread> wr;
    for (int w = 0; w < nWriters; w++) wr.emplace_back([this, w] { writer(w); });
    for (auto &t : wr) t.join();
    vf::sleepMs(25); // let pending short expiries fire while readers still run
    stop.store(true, std::memory_order_release);
    for (auto &t : th) t.join();
    adm.join();
    size_t dTotal = countLogD(path + ".log");
    st.reset();
    check();
    if (apiExceptions.load()) report("C12:conc:unexpected-exception", "an API call threw during the concurrent run: " + firstException, -1, nullptr);
    uint64_t writes = 0; for (auto &w : wlog) writes += w.size();
    int evLower = compactionMode == 0 ? int(dTotal) - removesIssued.load() : 0;
    vf::out().obs(std::string("conc_runs_compaction_mode_") + std::to_string(compactionMode));
    vf::out().obs("conc_runs");
    vf::out().obs("conc_writes", writes);
    vf::out().obs("conc_compactions", uint64_t(compactions.load()));
    vf::out().obs("conc_wall_clock_jumps", uint64_t(jumps.load()));
    if (evLower > 0) vf::out().obs("conc_evictions_seen_in_log_lower_bound", uint64_t(evLower));
    uint64_t sig = vf::fnv(&cfg.maxCacheSize, sizeof cfg.maxCacheSize);
    sig = vf::fnv(&cfg.ttlTicksPerWheel, sizeof(size_t), sig); sig = vf::fnv(&cfg.ttlNumWheels, sizeof(size_t), sig);
    int fl = compactionMode | (nWriters << 2) | ((jumps.load() > 0) << 4) | ((evLower > 0) << 5) | (int(cfg.ttlTickDuration.count()) << 6);
    sig = vf::fnv(&fl, sizeof fl, sig);
    vf::out().caseSig(sig);
    vf::out().sample("{\"mode\":\"conc\",\"run\":" + std::to_string(index) + ",\"writers\":" + std::to_string(nWriters) + ",\"readers\":" + std::to_string(nReaders) +
                     ",\"writes\":" + std::to_string(writes) + ",\"cache\":" + std::to_string(cfg.maxCacheSize) + ",\"compactionMode\":" + std::to_string(compactionMode) + "}");
    rmStore(path);
  }
};

} // namespace conc

static int runConc(const vf::Args &args)
{
  uint64_t seed = args.u("seed", 1), from = args.u("from", 0), count = args.u("count", 4);
  std::string dir = args.s("dir", "/tmp");
  c12clk::unfreeze();
  for (uint64_t i = from; i < from + count; i++)
  {
    vf::out().line("{\"t\":\"begin\",\"i\":" + std::to_string(i) + "}");
    conc::Run r(seed, i, dir);
    r.opsPerWriter = int(args.u("ops", 150));
    r.run();
  }
  return 0;
}
