// /verif/harness/c11_fshim.hpp — C11 only: stdio-level companions of the fileio shim.
// libstdc++'s basic_filebuf opens and closes through fopen64()/fclose() (glibc then calls its
// *internal* open/close, which an interposed open()/close() never sees) and does all data
// transfer with write()/writev() on the fd. shims.hpp records write/writev/rename/truncate/unlink
// but learns the fd->path mapping only from open(); without the two interposers below no
// std::ofstream traffic of KVStore / JsonFileStore would be attributed to a path. They feed the
// same vf::shim::FilePolicy (same trace, same tags), so the rest of the machinery is unchanged.
// Include after "shim/shims.hpp" with VF_SHIM_FILEIO defined (same single TU).
#pragma once
#ifndef VF_SHIM_FILEIO
#error "c11_fshim.hpp needs VF_SHIM_FILEIO"
#endif
#include <cstdio>

namespace vf { namespace c11 {
inline int flagsFromMode(const char *m)
{
  // "r" "w" "a" with optional "b" and "+"
  bool plus = strchr(m, '+') != nullptr;
  switch (m[0])
  {
  case 'w': return (plus ? O_RDWR : O_WRONLY) | O_CREAT | O_TRUNC;
  case 'a': return (plus ? O_RDWR : O_WRONLY) | O_CREAT | O_APPEND;
  default: return plus ? O_RDWR : O_RDONLY;
  }
}
}} // namespace vf::c11

extern "C" {

FILE *fopen64(const char *path, const char *mode)
{
  static auto fn = vf::shim::real<FILE *(*)(const char *, const char *)>("fopen64");
  bool rel = vf::shim::underPrefix(path) && !vf::shim::tlsFileExempt;
  vf::shim::countCall(rel);
  FILE *f = fn(path, mode);
  if (f && rel) vf_record_open(fileno(f), path, vf::c11::flagsFromMode(mode));
  return f;
}
FILE *fopen(const char *path, const char *mode)
{
  static auto fn = vf::shim::real<FILE *(*)(const char *, const char *)>("fopen");
  bool rel = vf::shim::underPrefix(path) && !vf::shim::tlsFileExempt;
  vf::shim::countCall(rel);
  FILE *f = fn(path, mode);
  if (f && rel) vf_record_open(fileno(f), path, vf::c11::flagsFromMode(mode));
  return f;
}
int fclose(FILE *f)
{
  static auto fn = vf::shim::real<int (*)(FILE *)>("fclose");
  auto &p = vf::shim::filePolicy();
  int fd = f ? fileno(f) : -1;
  bool tr = false;
  if (!vf::shim::tlsFileExempt && fd > 2)
  {
    std::lock_guard<std::mutex> g(p.m);
    auto it = p.fdPath.find(fd);
    if (it != p.fdPath.end())
    {
      tr = true;
      if (p.recording) { vf::shim::FileOp op; op.kind = 'c'; op.path = it->second; op.tag = p.tag.load(); p.trace.push_back(std::move(op)); }
      p.fdPath.erase(it); p.fdFlags.erase(fd);
    }
  }
  vf::shim::countCall(tr);
  return fn(f);
}

// fsync/fdatasync: in the process-crash model (everything handed to the OS survives) they change
// nothing about any crash image, but on a disk-backed scratch directory each costs 10-50 ms of
// wall time (KVStore::flush() runs one per shutdown). Record them ('s') and skip the kernel call.
int fsync(int fd)
{
  std::string path; int flags = 0;
  bool tr = !vf::shim::tlsFileExempt && fd > 2 && vf_fd_tracked(fd, path, flags);
  vf::shim::countCall(tr);
  if (!tr) return (int)syscall(SYS_fsync, fd);
  auto &p = vf::shim::filePolicy();
  if (p.recording)
  {
    vf::shim::FileOp op; op.kind = 's'; op.path = path; op.tag = p.tag.load();
    std::lock_guard<std::mutex> g(p.m); p.trace.push_back(std::move(op));
  }
  return 0;
}
int fdatasync(int fd)
{
  std::string path; int flags = 0;
  bool tr = !vf::shim::tlsFileExempt && fd > 2 && vf_fd_tracked(fd, path, flags);
  if (!tr) return (int)syscall(SYS_fdatasync, fd);
  return fsync(fd);
}

} // extern "C"
