// /verif/harness/c12_model.hpp — reference model for iora::storage::KVStore (properties C12, C11).
//
// A plain ordered map  key -> (value bytes, absolute expiry in epoch milliseconds | none).
// It shares no code with iora: only <map>/<string>/<vector>/<cstdint>. Every call that depends on
// time takes the wall-clock instant `nowMs` (epoch milliseconds) as an explicit argument; the
// model never reads a clock itself. Callers evaluate it at the (shimmed) CLOCK_REALTIME instant
// of the corresponding KVStore call.
//
// Conventions (taken from the property text and from kvstore.hpp's own definition, which is the
// same on every read path: `expiry <= now` means expired):
//   * a key with expiry E is live at instant t  iff  t < E   (expired iff now >= E);
//   * an expired key is ABSENT for every purpose: reads do not see it, expireAt()/persist() on it
//     are no-ops (exactly like on a key that was never set), a later set() creates a fresh key;
//   * set()/setBatch() without TTL clear any expiry; with TTL the expiry is nowMs + ttl*1000;
//   * expireAt(k, when) on a live key sets expiry = when (a `when` <= now makes it expired at
//     once); persist(k) on a live key removes the expiry;
//   * remaining TTL = floor((E - now) / 1 s) for a live key with an expiry, "none" otherwise;
//   * values are opaque byte strings compared byte for byte; the empty key is never present;
//   * resolution is 1 ms (KVStore persists expiries as epoch milliseconds): drive the store at
//     millisecond-aligned instants, or treat reads inside the expiry's millisecond as "either".
//   * compaction, flush and clean close/reopen do not change the model.
//
// Interface (all in namespace c12):
//   Model m;
//   m.set(k, v)                      m.setTtl(k, v, nowMs, ttlSec)
//   m.setBatch({{k,v}...})           m.setBatchTtl({{k,v}...}, nowMs, ttlSec)
//   m.remove(k)                      m.removePrefix(prefix, nowMs) -> #live keys removed
//   m.clear()                        m.expireAt(k, whenMs, nowMs)      m.persist(k, nowMs)
//   m.live(k, nowMs) -> bool         m.get(k, nowMs) -> const Bytes* (nullptr if not live)
//   m.ttlSec(k, nowMs) -> int64 (kNoTtl if not live or no expiry)
//   m.keys(nowMs) / m.keysWithPrefix(p, nowMs) -> sorted vector of live keys
//   m.size(nowMs) -> number of live keys
//   m.find(k) -> const Entry* including expired-but-not-purged entries (diagnostics only)
//   m.nextExpiryAfter(nowMs) -> smallest expiry > nowMs among stored entries, or kNone
//   m.purge(nowMs) -> drops entries expired at nowMs (optional; reads never need it)
//   m.raw() -> the underlying std::map (for crash-image oracles that need to copy states)
#pragma once
#include <cstdint>
#include <limits>
#include <map>
#include <string>
#include <utility>
#include <vector>

namespace c12 {

using Bytes = std::string; // raw bytes, may contain NUL

constexpr int64_t kNone = std::numeric_limits<int64_t>::min();  // "no expiry"
constexpr int64_t kNoTtl = std::numeric_limits<int64_t>::min(); // ttlSec(): not live / permanent

struct Entry
{
  Bytes value;
  int64_t expiryMs = kNone; // absolute epoch ms, or kNone
  bool liveAt(int64_t nowMs) const { return expiryMs == kNone || nowMs < expiryMs; }
};

class Model
{
public:
  using Map = std::map<std::string, Entry>;
  using Batch = std::vector<std::pair<std::string, Bytes>>;

  // ---- mutators -------------------------------------------------------------------------
  void set(const std::string &k, const Bytes &v)
  {
    if (k.empty()) return;
    _m[k] = Entry{v, kNone};
  }
  void setTtl(const std::string &k, const Bytes &v, int64_t nowMs, int64_t ttlSec)
  {
    if (k.empty()) return;
    _m[k] = Entry{v, nowMs + ttlSec * 1000};
  }
  void setBatch(const Batch &b)
  {
    for (auto &kv : b) set(kv.first, kv.second);
  }
  void setBatchTtl(const Batch &b, int64_t nowMs, int64_t ttlSec)
  {
    for (auto &kv : b) setTtl(kv.first, kv.second, nowMs, ttlSec);
  }
  void remove(const std::string &k) { _m.erase(k); }
  size_t removePrefix(const std::string &prefix, int64_t nowMs)
  {
    size_t n = 0;
    for (auto it = _m.begin(); it != _m.end();)
    {
      if (it->first.compare(0, prefix.size(), prefix) == 0 && it->first.size() >= prefix.size())
      {
        if (it->second.liveAt(nowMs)) ++n;
        it = _m.erase(it); // expired entries are absent anyway
      }
      else ++it;
    }
    return n;
  }
  void clear() { _m.clear(); }
  /// \return true if the call changed the model (key was live)
  bool expireAt(const std::string &k, int64_t whenMs, int64_t nowMs)
  {
    auto it = _m.find(k);
    if (it == _m.end() || !it->second.liveAt(nowMs)) return false;
    it->second.expiryMs = whenMs;
    return true;
  }
  /// \return true if the call changed the model (key was live and had an expiry)
  bool persist(const std::string &k, int64_t nowMs)
  {
    auto it = _m.find(k);
    if (it == _m.end() || !it->second.liveAt(nowMs)) return false;
    if (it->second.expiryMs == kNone) return false;
    it->second.expiryMs = kNone;
    return true;
  }
  void purge(int64_t nowMs)
  {
    for (auto it = _m.begin(); it != _m.end();)
      it = it->second.liveAt(nowMs) ? std::next(it) : _m.erase(it);
  }

  // ---- reads ----------------------------------------------------------------------------
  bool live(const std::string &k, int64_t nowMs) const
  {
    auto it = _m.find(k);
    return it != _m.end() && it->second.liveAt(nowMs);
  }
  const Bytes *get(const std::string &k, int64_t nowMs) const
  {
    auto it = _m.find(k);
    return (it != _m.end() && it->second.liveAt(nowMs)) ? &it->second.value : nullptr;
  }
  int64_t ttlSec(const std::string &k, int64_t nowMs) const
  {
    auto it = _m.find(k);
    if (it == _m.end() || !it->second.liveAt(nowMs) || it->second.expiryMs == kNone) return kNoTtl;
    return (it->second.expiryMs - nowMs) / 1000; // positive operands: floor
  }
  std::vector<std::string> keys(int64_t nowMs) const { return keysWithPrefix(std::string(), nowMs); }
  std::vector<std::string> keysWithPrefix(const std::string &p, int64_t nowMs) const
  {
    std::vector<std::string> r;
    for (auto &kv : _m)
      if (kv.first.size() >= p.size() && kv.first.compare(0, p.size(), p) == 0 && kv.second.liveAt(nowMs))
        r.push_back(kv.first);
    return r; // sorted (std::map order)
  }
  size_t size(int64_t nowMs) const
  {
    size_t n = 0;
    for (auto &kv : _m) n += kv.second.liveAt(nowMs) ? 1 : 0;
    return n;
  }

  // ---- diagnostics / workload steering ----------------------------------------------------
  const Entry *find(const std::string &k) const
  {
    auto it = _m.find(k);
    return it == _m.end() ? nullptr : &it->second;
  }
  int64_t nextExpiryAfter(int64_t nowMs) const
  {
    int64_t best = kNone;
    for (auto &kv : _m)
      if (kv.second.expiryMs != kNone && kv.second.expiryMs > nowMs && (best == kNone || kv.second.expiryMs < best))
        best = kv.second.expiryMs;
    return best;
  }
  const Map &raw() const { return _m; }
  Map &raw() { return _m; }

private:
  Map _m;
};

} // namespace c12
