// C02 actors: one thread per planned session drives the raw peer and the application side.
#pragma once
#include "c02_monitor.hpp"

namespace c02 {

enum Kind
{
  K_OUT_PLAIN = 0, K_OUT_REFUSED, K_OUT_BLACKHOLE, K_OUT_UNRESOLVABLE, K_OUT_DNS_SLOW, K_OUT_TLS_GARBAGE, K_OUT_TLS_EOF,
  K_OUT_TLS_SILENT, K_OUT_TLS_PEER, K_OUT_SELF_PLAIN, K_OUT_SELF_TLS, K_IN_PLAIN, K_IN_TLS_GARBAGE, K_IN_TLS_SILENT, K_IN_TLS_CLIENT, K_OUT_NOROUTE, K_OUT_EINVAL,
  K_U_IN = 20, K_U_OUT, K_U_VIA, K_U_FAIL_RESOLVE, K_U_FAIL_VIA_NOLISTENER, K_U_FAIL_VIA_AF, K_U_ICMP, K_U_FAIL_CONNECT, K_U_SHARED_PEER
};
inline bool isOutbound(int k) { return k < K_IN_PLAIN || k == K_OUT_NOROUTE || k == K_OUT_EINVAL || (k > K_U_IN && k <= K_U_FAIL_CONNECT); }
enum End { E_APP = 0, E_FIN, E_RST, E_IDLE, E_BACKPRESSURE, E_STOP, E_SELF, E_RACE_FIN, E_RACE_RST, E_RACE_APP, E_RACE_COMPLETE, E_WSTALL };

struct Plan
{
  int kind = 0, end = 0; double startMs = 0, midMs = 0; uint64_t seed = 0;
  std::shared_ptr<CbPlan> cb;
  int actObs = 0, actUnobs = 0; bool actUd = false, actUdReplace = false, racyObs = false, racyUd = false;
  bool peerData = false, appData = false, dataAtEnd = false, earlyData = false;
  double raceJitterMs = 0; bool stallAtRace = false;
  // read-mode script (sessions with a raw plain peer): Sync, peer bytes buffered, optional partial receiveSync drain,
  // optional Disabled flip / live flush, then after the end: flush overlapping the close and/or after the close was seen
  bool rm = false, rmPartialDrain = false, rmDisabledFlip = false, rmLiveFlush = false, rmOverlap = false, rmLeaveDisabled = false; int rmAfter = 0;
  double estMs = 0;
};

struct Run : Hist
{
  TransportConfig cfg;
  uint16_t l0port = 0, l1port = 0; ListenerId l0 = 0, l1 = 0;
  bool tls = false;
  int pokeFd = -1;
  double connectToMs = 0, handshakeToMs = 0;

  void poke()
  {
    if (pokeFd < 0) return;
    if (udp) udpSendTo(pokeFd, l0port, "p", 1);
    else (void)send(pokeFd, "p", 1, MSG_NOSIGNAL | MSG_DONTWAIT);
  }
  // make the I/O thread sit inside a callback for a few ms so that several events queue up behind it
  void stallIo(double ms)
  {
    stallUntilNs.store(nowNs() + uint64_t(ms * 1e6));
    poke();
  }
  void actorRegs(uint64_t sid, const Plan &p, vf::Rng &r)
  {
    std::vector<ObsRec *> mine;
    for (int i = 0; i < p.actObs; i++) { if (ObsRec *o = addObserver(sid, RC_ACTOR, p.seed * 17 + uint64_t(i))) mine.push_back(o); if (r.chance(0.3)) sleepMs(double(r.below(3))); }
    for (int j = 0; j < p.actUnobs && !mine.empty(); j++) tryUnobserve(mine[r.below(mine.size())], "actor");
    bool cbAgent = p.cb && p.cb->udCallbacks;
    if (p.actUd && !cbAgent) { setUserData(sid, RC_ACTOR); if (p.actUdReplace) setUserData(sid, RC_ACTOR); }
  }
  void racyRegs(uint64_t sid, const Plan &p, vf::Rng &r)
  {
    if (p.racyObs) { if (r.chance(0.5)) sleepMs(double(r.below(20)) / 10.0); addObserver(sid, RC_RACY, p.seed * 19 + 3); }
    bool cbAgent = p.cb && p.cb->udCallbacks;
    if (p.racyUd && !cbAgent) setUserData(sid, RC_RACY);
  }
  bool sessState(uint64_t sid, int &ann, int &closes)
  {
    std::lock_guard<std::mutex> g(mu);
    auto it = sess.find(sid);
    if (it == sess.end()) { ann = 0; closes = 0; return false; }
    ann = it->second.ann; closes = it->second.closes;
    return true;
  }
  bool waitAnnOrClosed(uint64_t sid, double ms)
  {
    return waitUntil([&] { auto it = sess.find(sid); return it != sess.end() && (it->second.ann || it->second.closes); }, ms);
  }
  void expectClose(uint64_t sid, const char *origin, double ms = 25000)
  {
    if (!sid) return;
    bool ok = waitUntil([&] { auto it = sess.find(sid); return it != sess.end() && it->second.closes > 0; }, ms);
    if (!ok && !stopping.load())
    {
      std::lock_guard<std::mutex> g(mu);
      inconcl.push_back(std::string("close-not-delivered-while-running:") + origin);
    }
  }
  // ---- read-mode script; `sendPeer(n)` makes the raw peer send n bytes to this session
  template <class F> void readModeBefore(uint64_t sid, const Plan &p, vf::Rng &r, F sendPeer)
  {
    if (!setMode(sid, ReadMode::Sync)) { countL("readmode_sync_refused"); return; }
    countL("readmode_sync_sessions");
    sendPeer(8 + int(r.below(50)));
    if (p.rmPartialDrain)
    {
      char b[8]; size_t len = 1 + r.below(3);
      auto rr = T->receiveSync(sid, b, len, std::chrono::milliseconds(3000));
      countL(rr.isOk() ? "readmode_partial_drains" : "readmode_receive_sync_errors");
    }
    else sleepMs(10 + double(r.below(20)));
    if (p.rmDisabledFlip) { setMode(sid, ReadMode::Disabled); sendPeer(4); sleepMs(double(r.below(5))); setMode(sid, ReadMode::Sync); countL("readmode_disabled_flips"); }
    if (p.rmLiveFlush)
    {
      setMode(sid, ReadMode::Async); countL("readmode_live_flush_calls");
      if (r.chance(0.7)) { setMode(sid, ReadMode::Sync); sendPeer(8 + int(r.below(50))); sleepMs(10 + double(r.below(15))); }
    }
    if (p.rmLeaveDisabled) { setMode(sid, ReadMode::Disabled); countL("readmode_left_disabled"); }
  }
  void readModeOverlap(uint64_t sid, const Plan &p, vf::Rng &r)
  {
    if (!p.rmOverlap) return;
    if (r.chance(0.5)) sleepMs(double(r.below(30)) / 10.0);
    setMode(sid, ReadMode::Async); countL("readmode_flush_overlapping_end_calls");
  }
  void readModeAfter(uint64_t sid, const Plan &p, vf::Rng &r)
  {
    if (!isClosed(sid)) return;
    switch (p.rmAfter)
    {
    case 0: setMode(sid, ReadMode::Async); countL("readmode_flush_after_close_calls"); break;
    case 1:
    {
      char b[64];
      for (int i = 0; i < 8; i++) { size_t len = 1 + r.below(60); auto rr = T->receiveSync(sid, b, len, std::chrono::milliseconds(200)); if (!rr.isOk()) break; countL("readmode_drains_after_close"); }
      setMode(sid, ReadMode::Async); countL("readmode_flush_after_close_drained_calls");
      break;
    }
    case 2: setMode(sid, ReadMode::Disabled); setMode(sid, ReadMode::Async); countL("readmode_disabled_then_async_after_close"); break;
    case 3: { ReadMode m; bool has = T->getReadMode(sid, m); countL(has ? "readmode_entry_present_after_close" : "readmode_entry_absent_after_close"); setMode(sid, ReadMode::Sync); setMode(sid, ReadMode::Async); break; }
    default: break;
    }
  }
  uint64_t sidOfPort(uint16_t port, double ms)
  {
    uint64_t sid = 0;
    waitUntil([&] { auto it = portToSid.find(port); if (it == portToSid.end()) return false; sid = it->second; return true; }, ms);
    return sid;
  }
  void markPlan(uint64_t sid, const Plan &p)
  {
    std::lock_guard<std::mutex> g(mu);
    Sess &S = sess[sid]; S.id = sid;
    if (S.planKind < 0) { S.planKind = p.kind; S.planEnd = p.end; }
  }
  void waitUntilNs(uint64_t t) { while (!stopDone.load()) { uint64_t n = nowNs(); if (n >= t) break; sleepMs(std::min<double>(double(t - n) / 1e6, 5.0)); } }

  // ------------------------------------------------------------------------------ TCP
  void tcpActor(Plan p)
  {
    vf::Rng r(p.seed, 3);
    sleepMs(p.startMs);
    if (stopping.load()) { countL("actors_not_started_before_stop"); return; }
    uint64_t sid = 0, sid2 = 0; int lfd = -1, pfd = -1; SSL *pssl = nullptr; uint16_t port = 0, myPort = 0;
    const bool bufSmall = p.end == E_BACKPRESSURE || p.end == E_WSTALL;
    uint64_t tStart = nowNs();
    double timerMs = 0; // the engine timer this session's race is aimed at
    char junk[64]; memset(junk, 'j', sizeof junk);
    uint32_t peerOff = uint32_t(r.below(251));
    auto sendEnc = [&](size_t n) { // raw plain peer -> session, position-encoded
      unsigned char b[64]; n = std::min<size_t>(std::max<size_t>(n, 1), 64);
      for (size_t i = 0; i < n; i++) b[i] = (unsigned char)(peerOff++ % 251);
      (void)send(pfd, b, n, MSG_NOSIGNAL | MSG_DONTWAIT);
    };
    switch (p.kind)
    {
    case K_OUT_PLAIN:
      lfd = tcpListen(8, bufSmall ? 2048 : 0, &port);
      tStart = nowNs();
      sid = doConnect("127.0.0.1", port, TlsMode::None, T_LISTENING, p.cb, false);
      if (sid) { pfd = acceptWait(lfd, 15000, &stopping); waitAnnOrClosed(sid, 15000); }
      break;
    case K_OUT_REFUSED: sid = doConnect("127.0.0.1", fx().refusedPort, TlsMode::None, T_REFUSED, p.cb, false); break;
    case K_OUT_BLACKHOLE:
      tStart = nowNs(); timerMs = connectToMs;
      sid = doConnect("127.0.0.1", fx().blackholePort, tls && r.chance(0.3) ? TlsMode::Client : TlsMode::None, T_BLACKHOLE, p.cb, false);
      break;
    case K_OUT_UNRESOLVABLE: sid = doConnect("vf-nx.invalid", 80, TlsMode::None, T_UNRESOLVABLE, p.cb, false); break;
    // fail inside connect() itself, in the routing lookup / address check: no packet is ever sent
    case K_OUT_NOROUTE: sid = doConnect(r.chance(0.5) ? "255.255.255.255" : "224.0.0.1", 80, TlsMode::None, T_NOROUTE, p.cb, false); break;
    case K_OUT_EINVAL: sid = doConnect("fe80::1", 80, TlsMode::None, T_EINVAL, p.cb, false); break;
    case K_OUT_DNS_SLOW: sid = doConnect("vf-slow.invalid", 80, TlsMode::None, T_DNS_SLOW, p.cb, false); break;
    case K_OUT_TLS_GARBAGE: case K_OUT_TLS_EOF: case K_OUT_TLS_SILENT: case K_OUT_TLS_PEER:
      lfd = tcpListen(8, 0, &port);
      tStart = nowNs(); timerMs = std::min(connectToMs, handshakeToMs);
      sid = doConnect("127.0.0.1", port, TlsMode::Client, p.kind == K_OUT_TLS_PEER ? T_TLS_PEER : p.kind == K_OUT_TLS_SILENT ? T_TLS_SILENT : T_TLS_BAD, p.cb, false);
      if (!sid) break;
      pfd = acceptWait(lfd, 15000, &stopping);
      if (pfd < 0) break;
      if (p.kind == K_OUT_TLS_GARBAGE) { const char *g = "HTTP/1.1 400 Bad Request\r\nContent-Length: 0\r\n\r\n"; (void)send(pfd, g, strlen(g), MSG_NOSIGNAL); }
      else if (p.kind == K_OUT_TLS_EOF) { sleepMs(double(r.below(4))); if (r.chance(0.5)) { close(pfd); } else closeRst(pfd); pfd = -1; }
      else if (p.kind == K_OUT_TLS_PEER)
      {
        if (p.end == E_RACE_COMPLETE)
        {
          uint64_t tEv = tStart + uint64_t(std::max(1.0, timerMs + p.raceJitterMs) * 1e6);
          if (p.stallAtRace) { waitUntilNs(tEv - 4000000ull); stallIo(4 + double(r.below(6))); }
          waitUntilNs(tEv);
          countL("race_attempts_complete_vs_timer");
        }
        else sleepMs(double(r.below(15)));
        setIoTimeout(pfd, 6000);
        pssl = SSL_new(fx().peerSrv);
        SSL_set_fd(pssl, pfd);
        int hr = SSL_accept(pssl);
        countL(hr == 1 ? "peer_tls_server_handshakes_ok" : "peer_tls_server_handshakes_failed");
        if (hr != 1) { SSL_free(pssl); pssl = nullptr; }
        waitAnnOrClosed(sid, 15000);
      }
      break;
    case K_OUT_SELF_PLAIN: case K_OUT_SELF_TLS:
    {
      bool t = p.kind == K_OUT_SELF_TLS;
      sid = doConnect("127.0.0.1", t ? l1port : l0port, t ? TlsMode::Client : TlsMode::None, T_SELF, p.cb, false);
      if (!sid) break;
      waitAnnOrClosed(sid, 15000);
      TransportAddress la = T->getLocalAddress(sid);
      if (la.port) sid2 = sidOfPort(la.port, 3000);
      if (sid2) markPlan(sid2, p);
      break;
    }
    case K_IN_PLAIN: case K_IN_TLS_GARBAGE: case K_IN_TLS_SILENT: case K_IN_TLS_CLIENT:
    {
      bool toTls = p.kind != K_IN_PLAIN;
      pfd = tcpClientSocket(bufSmall ? 2048 : 0, &myPort);
      if (pfd < 0) break;
      if (p.cb) { std::lock_guard<std::mutex> g(mu); planByPort[myPort] = p.cb; }
      tStart = nowNs(); timerMs = handshakeToMs;
      if (!tcpConnectTo(pfd, toTls ? l1port : l0port, 10000)) { close(pfd); pfd = -1; countL("raw_client_connect_failed"); break; }
      if (p.kind == K_IN_PLAIN && p.earlyData) sendEnc(1 + r.below(40));
      if (p.kind == K_IN_TLS_GARBAGE) (void)send(pfd, "GET / HTTP/1.0\r\n\r\n", 18, MSG_NOSIGNAL);
      if (p.kind == K_IN_TLS_CLIENT)
      {
        setIoTimeout(pfd, 6000);
        pssl = SSL_new(fx().peerCli);
        SSL_set_fd(pssl, pfd);
        int hr = SSL_connect(pssl);
        countL(hr == 1 ? "peer_tls_client_handshakes_ok" : "peer_tls_client_handshakes_failed");
        if (hr != 1) { SSL_free(pssl); pssl = nullptr; }
      }
      sid = sidOfPort(myPort, 15000);
      if (sid) markPlan(sid, p);
      break;
    }
    default: break;
    }
    if (!sid)
    {
      countL("actors_without_session");
      if (pssl) SSL_free(pssl);
      if (pfd >= 0) close(pfd);
      if (lfd >= 0) close(lfd);
      return;
    }
    if (isOutbound(p.kind)) markPlan(sid, p);

    // ---- application-side registrations and some traffic
    actorRegs(sid, p, r);
    if (sid2 && r.chance(0.6)) actorRegs(sid2, p, r);
    const bool rm = p.rm && pfd >= 0 && !pssl && !bufSmall && (p.kind == K_OUT_PLAIN || p.kind == K_IN_PLAIN) && !isClosed(sid);
    if (rm) readModeBefore(sid, p, r, [&](int n) { sendEnc(size_t(n)); });
    if (p.peerData && pfd >= 0 && !pssl && (p.kind == K_OUT_PLAIN || p.kind == K_IN_PLAIN))
      for (int i = 0, n = int(r.range(1, 3)); i < n; i++) { sendEnc(1 + r.below(60)); if (r.chance(0.5)) sleepMs(double(r.below(3))); }
    if (p.peerData && pssl) (void)SSL_write(pssl, junk, int(1 + r.below(60)));
    if (p.appData && !bufSmall) for (int i = 0, n = int(r.range(1, 3)); i < n; i++) T->send(sid, junk, 1 + r.below(60));
    if (p.appData && sid2) T->send(sid2, junk, 1 + r.below(60));

    // ---- the end of the session
    const bool race = p.end == E_RACE_FIN || p.end == E_RACE_RST || p.end == E_RACE_APP;
    if (race)
    {
      uint64_t tEv = tStart + uint64_t(std::max(1.0, timerMs + p.raceJitterMs) * 1e6);
      if (p.stallAtRace) { waitUntilNs(tEv - 4000000ull); stallIo(4 + double(r.below(6))); }
      waitUntilNs(tEv);
      countL("race_attempts_close_vs_timer");
    }
    else sleepMs(p.midMs);
    if (p.dataAtEnd && pfd >= 0 && !pssl) sendEnc(1 + r.below(60));
    const char *origin = "self";
    switch (p.end)
    {
    case E_APP: case E_RACE_APP:
      origin = "app";
      if (sid2 && r.chance(0.5)) T->close(sid2); else T->close(sid);
      if (r.chance(0.15)) T->close(sid); // idempotent second close
      break;
    case E_FIN: case E_RACE_FIN:
      origin = "peer-fin";
      if (pfd >= 0)
      {
        if (pssl && r.chance(0.6)) SSL_shutdown(pssl);
        drainFd(pfd);
        if (r.chance(0.5)) shutdown(pfd, SHUT_WR); else { close(pfd); pfd = -1; }
      }
      else origin = "self";
      break;
    case E_RST: case E_RACE_RST:
      origin = "peer-rst";
      if (pfd >= 0) { closeRst(pfd); pfd = -1; } else origin = "self";
      break;
    case E_BACKPRESSURE: case E_WSTALL:
    {
      origin = p.end == E_BACKPRESSURE ? "backpressure" : "write-stall";
      std::vector<char> big(2048, 'b');
      int n = p.end == E_BACKPRESSURE ? 400 : 40;
      for (int i = 0; i < n && !stopping.load(); i++)
      {
        if (!T->send(sid, big.data(), big.size())) break;
        if ((i & 15) == 15) { sleepMs(1); if (isClosed(sid)) break; }
      }
      if (p.end == E_WSTALL)
      {
        // the stall timer is only armed on some write paths: wait softly, then fall back to an application close
        bool closed = waitUntil([&] { auto it = sess.find(sid); return it != sess.end() && it->second.closes > 0; }, 3000 + (hiResTimers ? 0 : 2500));
        if (!closed) { countL("write_stall_not_reached"); T->close(sid); origin = "app"; }
      }
      break;
    }
    case E_IDLE: origin = "idle-gc"; break;
    case E_STOP: origin = nullptr; break;
    default: break;
    }
    racyRegs(sid, p, r);
    if (sid2 && (p.racyObs || p.racyUd) && r.chance(0.5)) racyRegs(sid2, p, r);
    if (rm) readModeOverlap(sid, p, r);
    if (rm && p.end == E_STOP && !stopWaitsForActors.load()) waitUntil([&] { auto it = sess.find(sid); return it != sess.end() && it->second.closes > 0; }, 60000);
    if (origin && p.end != E_STOP)
    {
      if (std::string(origin) == "self" && (p.kind == K_OUT_TLS_PEER || p.kind == K_IN_TLS_CLIENT || p.kind == K_OUT_PLAIN || p.kind == K_IN_PLAIN))
        T->close(sid), origin = "app"; // peer side was lost: end the session from the application
      expectClose(sid, origin);
      if (sid2) expectClose(sid2, "self-loop-other-side");
    }
    if (rm) readModeAfter(sid, p, r);
    if (pssl) SSL_free(pssl);
    if (pfd >= 0) close(pfd);
    if (lfd >= 0) close(lfd);
  }

  // ------------------------------------------------------------------------------ UDP
  // several logical sessions to ONE remote ip:port on the same listener: an implicit accept from the peer and/or
  // via-connects to it (the peer index maps the address to one of them; every one is a session of its own for the
  // close accounting and the gauge)
  void udpSharedPeerActor(Plan p)
  {
    vf::Rng r(p.seed, 3);
    sleepMs(p.startMs);
    if (stopping.load()) { countL("actors_not_started_before_stop"); return; }
    uint16_t myPort = 0; int fd = udpSocket(&myPort);
    if (fd < 0) return;
    char junk[64]; memset(junk, 's', sizeof junk);
    std::vector<uint64_t> sids;
    int variant = int(r.below(3)); // 0: accept, via   1: via, via   2: accept, via, via
    if (variant != 1)
    {
      if (p.cb) { std::lock_guard<std::mutex> g(mu); planByPort[myPort] = p.cb; }
      uint64_t a = 0;
      for (int t = 0; t < 12 && !a && !stopping.load(); t++) { udpSendTo(fd, l0port, junk, 1 + r.below(40)); a = sidOfPort(myPort, 250); }
      if (a) sids.push_back(a);
    }
    int vias = variant == 0 ? 1 : 2;
    for (int i = 0; i < vias && !stopping.load(); i++)
    {
      bool earlierOpen = false;
      for (uint64_t e : sids) if (!isClosed(e)) earlierOpen = true;
      uint64_t v = doConnect("127.0.0.1", myPort, TlsMode::None, T_UDP_VIA, nullptr, false, true, l0);
      if (!v) break;
      waitAnnOrClosed(v, 15000);
      int ann, closes; sessState(v, ann, closes);
      if (earlierOpen && ann) countL("via_to_peer_with_open_session");
      sids.push_back(v);
      if (r.chance(0.4)) sleepMs(double(r.below(5)));
    }
    if (sids.empty()) { countL("actors_without_session"); close(fd); return; }
    for (uint64_t s : sids) { markPlan(s, p); if (r.chance(0.5)) actorRegs(s, p, r); }
    if (p.peerData) for (int i = 0, n = int(r.range(1, 3)); i < n; i++) udpSendTo(fd, l0port, junk, 1 + r.below(60));
    if (p.appData) for (uint64_t s : sids) T->send(s, junk, 1 + r.below(40));
    sleepMs(p.midMs);
    // close in a seeded order; the gauge is sampled inside every callback and compared with 0 after the last close
    for (size_t i = sids.size(); i > 1; i--) std::swap(sids[i - 1], sids[r.below(i)]);
    const char *origin = p.end == E_APP ? "app" : p.end == E_IDLE ? "idle-gc" : nullptr;
    if (p.end == E_APP) for (uint64_t s : sids) { T->close(s); if (r.chance(0.5)) sleepMs(double(r.below(4))); }
    if (origin) for (uint64_t s : sids) expectClose(s, origin);
    if (origin && r.chance(0.5) && !stopping.load())
    {
      // the same remote address again after everything for it was closed: a fresh via session must be counted again
      uint64_t v = doConnect("127.0.0.1", myPort, TlsMode::None, T_UDP_VIA, nullptr, false, true, l0);
      if (v) { waitAnnOrClosed(v, 15000); markPlan(v, p); T->close(v); expectClose(v, "app"); countL("via_to_peer_again_after_all_closed"); }
    }
    close(fd);
  }
  void udpActor(Plan p)
  {
    if (p.kind == K_U_SHARED_PEER) { udpSharedPeerActor(p); return; }
    vf::Rng r(p.seed, 3);
    sleepMs(p.startMs);
    if (stopping.load()) { countL("actors_not_started_before_stop"); return; }
    uint64_t sid = 0; int fd = -1; uint16_t myPort = 0;
    char junk[64]; memset(junk, 'u', sizeof junk);
    uint32_t peerOff = uint32_t(r.below(251));
    auto sendU = [&](uint16_t dst, size_t n) { // raw peer -> session, position-encoded across datagrams
      unsigned char b[64]; n = std::min<size_t>(n, 64);
      for (size_t k = 0; k < n; k++) b[k] = (unsigned char)(peerOff++ % 251);
      udpSendTo(fd, dst, b, n);
    };
    switch (p.kind)
    {
    case K_U_IN:
      fd = udpSocket(&myPort);
      if (fd < 0) break;
      if (p.cb) { std::lock_guard<std::mutex> g(mu); planByPort[myPort] = p.cb; }
      for (int t = 0; t < 12 && !sid && !stopping.load(); t++) { sendU(l0port, 1 + r.below(40)); sid = sidOfPort(myPort, 250); }
      break;
    case K_U_OUT:
      fd = udpSocket(&myPort);
      sid = doConnect("127.0.0.1", myPort, TlsMode::None, T_UDP_PEER, p.cb, false);
      break;
    case K_U_VIA:
      fd = udpSocket(&myPort);
      sid = doConnect("127.0.0.1", myPort, TlsMode::None, T_UDP_VIA, p.cb, false, true, l0);
      break;
    case K_U_FAIL_RESOLVE:
      sid = r.chance(0.5) ? doConnect("vf-nx.invalid", 5060, TlsMode::None, T_UNRESOLVABLE, p.cb, false)
                          : doConnect("vf-nx.invalid", 5060, TlsMode::None, T_UNRESOLVABLE, p.cb, false, true, l0);
      break;
    case K_U_FAIL_VIA_NOLISTENER: sid = doConnect("127.0.0.1", 5060, TlsMode::None, T_UDP_VIA_NOLISTENER, p.cb, false, true, ListenerId(900000 + r.below(100))); break;
    case K_U_FAIL_VIA_AF: sid = doConnect("::1", 5060, TlsMode::None, T_UDP_VIA_AF, p.cb, false, true, l0); break;
    case K_U_ICMP: sid = doConnect("127.0.0.1", fx().udpDeadPort, TlsMode::None, T_UDP_DEAD, p.cb, false); break;
    case K_U_FAIL_CONNECT: sid = doConnect("255.255.255.255", 5060, TlsMode::None, T_UDP_NOCONNECT, p.cb, false); break; // connect() refuses broadcast: nothing is sent
    default: break;
    }
    if (!sid) { countL("actors_without_session"); if (fd >= 0) close(fd); return; }
    markPlan(sid, p);
    if (p.kind != K_U_IN) waitAnnOrClosed(sid, 15000);
    actorRegs(sid, p, r);
    const bool rm = p.rm && fd >= 0 && (p.kind == K_U_IN || p.kind == K_U_OUT || p.kind == K_U_VIA) && !isClosed(sid);
    if (rm)
    {
      uint16_t dst = p.kind == K_U_OUT ? T->getLocalAddress(sid).port : l0port;
      readModeBefore(sid, p, r, [&](int n) { if (dst) sendU(dst, size_t(std::min(n, 64))); });
    }
    if (p.peerData && fd >= 0)
    {
      uint16_t dst = l0port;
      if (p.kind == K_U_OUT) dst = T->getLocalAddress(sid).port;
      if (dst) for (int i = 0, n = int(r.range(1, 3)); i < n; i++) { sendU(dst, r.chance(0.1) ? 0 : 1 + r.below(60)); if (r.chance(0.5)) sleepMs(double(r.below(3))); }
    }
    if (p.appData) for (int i = 0, n = int(r.range(1, 3)); i < n; i++) T->send(sid, junk, 1 + r.below(60));
    if (p.kind == K_U_ICMP)
    {
      for (int i = 0; i < 6 && !isClosed(sid) && !stopping.load(); i++) { T->send(sid, junk, 8); sleepMs(8 + double(r.below(20))); }
      bool closed = waitUntil([&] { auto it = sess.find(sid); return it != sess.end() && it->second.closes > 0; }, 1500);
      if (!closed) { countL("udp_icmp_refusal_not_seen"); if (p.end == E_SELF) T->close(sid); }
    }
    sleepMs(p.midMs);
    const char *origin = "self";
    if (p.dataAtEnd && fd >= 0 && p.kind != K_U_OUT) sendU(l0port, 1 + r.below(60));
    switch (p.end)
    {
    case E_APP: origin = "app"; T->close(sid); if (r.chance(0.15)) T->close(sid); break;
    case E_IDLE: origin = "idle-gc"; break;
    case E_STOP: origin = nullptr; break;
    default: break;
    }
    if (p.dataAtEnd && fd >= 0 && p.kind != K_U_OUT && r.chance(0.5)) sendU(l0port, 1 + r.below(60)); // may open a new session: a new id
    racyRegs(sid, p, r);
    if (rm) readModeOverlap(sid, p, r);
    if (rm && p.end == E_STOP && !stopWaitsForActors.load()) waitUntil([&] { auto it = sess.find(sid); return it != sess.end() && it->second.closes > 0; }, 60000);
    if (origin) expectClose(sid, origin);
    if (rm) readModeAfter(sid, p, r);
    if (fd >= 0) close(fd);
  }
};

} // namespace c02
