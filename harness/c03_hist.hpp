// /verif/harness/c03_hist.hpp — C03 harness plumbing: event log with a global sequence, one
// history's live state (Transport over vf::ScriptedEngine), the primitive operations every
// scenario is built from, and the hand-over of the recorded log to the offline checker.
// Included by c03_syncrecv.cpp only (after shims.hpp, vf.hpp and the iora transport headers).
#pragma once
#include "c03_checker.hpp"
#include "c03_scripted_engine.hpp"

namespace c03h {

using iora::network::ReadMode;
using iora::network::SessionId;
using iora::network::Transport;
using iora::network::TransportConfig;
using iora::network::TransportError;

// ---- global sequence. Under TSan the counter is relaxed so that the log itself adds no
// happens-before edges between harness threads (it would hide races inside iora); x86 lock xadd
// still gives one total order, and every iora call is bracketed by opaque pthread calls.
inline std::atomic<uint64_t> &gSeq() { static std::atomic<uint64_t> s{1}; return s; }
inline uint64_t seq()
{
#if VF_TSAN
  return gSeq().fetch_add(1, std::memory_order_relaxed);
#else
  return gSeq().fetch_add(1, std::memory_order_seq_cst);
#endif
}

enum : uint8_t { EV_DELIVER, EV_CLOSE, EV_RECV, EV_MODE, EV_CB, EV_ONCLOSE, EV_CANCEL };
enum : int { T_IO = 0, T_READER = 1, T_SWITCH = 2, T_DIRECTOR = 3 };

struct Ev
{
  uint8_t type = 0, thread = 0;
  uint64_t s0 = 0, s1 = 0, t0 = 0, t1 = 0;
  int64_t a = 0, b = 0, c = 0, d = 0;
  uint32_t payOff = 0, payLen = 0;
  int32_t encl = -1;
};
struct ThreadLog { std::vector<Ev> ev; std::vector<uint8_t> arena; };

inline thread_local ThreadLog *tlsLog = nullptr;
inline thread_local int tlsThread = -1;
inline thread_local int tlsCurOp = -1; // index (in this thread's log) of the deliver / setReadMode in progress

inline void exemptFromCondvarShim(bool on)
{
#if !VF_TSAN
  vf::shim::tlsCondvarExempt = on;
#else
  (void)on;
#endif
}

struct Spec
{
  std::string kind;             // conc | seq | exh
  uint64_t seed = 0, idx = 0;
  std::vector<std::pair<uint32_t, uint32_t>> chunks; // (pos, len)
  uint32_t total = 0, mod = 1;
  std::vector<uint8_t> stream;
  uint64_t maxBuf = 1 << 20;
  int longTimeoutMs = 8000;
  std::string desc;             // human-readable rendering of the scenario (for witnesses)

  void layout(const std::vector<uint32_t> &lens)
  {
    chunks.clear(); total = 0;
    for (auto l : lens) { chunks.push_back({total, l}); total += l; }
    mod = uint32_t(256 / std::max<size_t>(1, chunks.size()));
    if (mod < 1) mod = 1;
    stream.resize(total);
    for (size_t k = 0; k < chunks.size(); k++)
      for (uint32_t o = 0; o < chunks[k].second; o++) stream[chunks[k].first + o] = uint8_t(k * mod + (o % mod));
  }
};

struct Hist
{
  Spec spec;
  std::shared_ptr<Transport> tr;
  std::shared_ptr<vf::ScriptedEngine::Control> ctl;
  SessionId sid = 0;
  ThreadLog logs[4];
  std::atomic<bool> closeSeen{false}, closeDone{false}, stop{false};
  std::atomic<uint32_t> progress{0};
  std::atomic<uint64_t> strayCallbacks{0};
  uint32_t cbDelayMaxUs = 0;
  uint64_t cbDelaySeed = 1;
  bool viaConnect = false;
};

inline void bindThread(Hist &H, int t)
{
  tlsLog = &H.logs[t];
  tlsThread = t;
  tlsCurOp = -1;
}

// ---- set up Transport over a scripted engine, install logging callbacks, create the session
inline bool setup(Hist &H, bool viaConnect)
{
  auto eng = std::make_unique<vf::ScriptedEngine>();
  H.ctl = eng->control();
  Hist *hp = &H;
  H.ctl->threadInit = [hp] { bindThread(*hp, T_IO); exemptFromCondvarShim(true); };
  H.ctl->localCloseHook = [hp](SessionId sid, bool after, bool flag) {
    if (sid != hp->sid) return;
    ThreadLog &L = *tlsLog;
    if (!after)
    {
      Ev e; e.type = EV_CLOSE; e.thread = T_IO; e.a = 1; e.s0 = seq();
      L.ev.push_back(e);
    }
    else
    {
      Ev &e = L.ev.back(); // the data callback never runs inside onClose, so this is still our event
      e.s1 = seq(); e.b = flag ? 1 : 0;
      if (flag) hp->closeDone = true;
    }
  };
  TransportConfig cfg;
  cfg.maxSyncReceiveBuffer = size_t(H.spec.maxBuf);
  cfg.allowReadModeSwitch = true;
  H.tr = iora::network::test::TransportEngineInjector::withEngine(std::move(eng), cfg);
  H.tr->onData([hp](SessionId sid, iora::core::BufferView data, std::chrono::steady_clock::time_point) {
    ThreadLog *L = tlsLog;
    if (!L) { hp->strayCallbacks++; return; }
    Ev e; e.type = EV_CB; e.thread = uint8_t(tlsThread);
    e.s0 = seq(); e.t0 = vf::nowNs();
    e.payOff = uint32_t(L->arena.size()); e.payLen = uint32_t(data.size());
    L->arena.insert(L->arena.end(), data.data(), data.data() + data.size());
    e.encl = tlsCurOp;
    e.a = (sid == hp->sid) ? 1 : 0;
    if (hp->cbDelayMaxUs)
    {
      uint64_t r = vf::shim::mix(hp->cbDelaySeed ^ e.s0);
      if (r & 1) vf::sleepMs(double((r >> 8) % (hp->cbDelayMaxUs + 1)) / 1000.0);
    }
    e.t1 = vf::nowNs(); e.s1 = seq();
    L->ev.push_back(e);
  });
  H.tr->onClose([hp](SessionId sid, const iora::network::TransportErrorInfo &) {
    if (sid == hp->sid || hp->sid == 0) hp->closeSeen = true;
  });
  struct Acc { std::mutex m; std::condition_variable cv; bool got = false; SessionId sid = 0; };
  auto acc = std::make_shared<Acc>();
  H.tr->onAccept([acc](SessionId sid, const iora::network::TransportAddress &) {
    std::lock_guard<std::mutex> g(acc->m); acc->got = true; acc->sid = sid; acc->cv.notify_all();
  });
  if (!H.tr->start().isOk()) return false;
  H.viaConnect = viaConnect;
  if (viaConnect)
  {
    auto r = H.tr->connectSync("scripted-peer", 7, iora::network::TlsMode::None, std::chrono::milliseconds(60000));
    if (!r.isOk()) return false;
    H.sid = r.value();
  }
  else
  {
    SessionId s = H.ctl->acceptSession({"10.1.2.3", 4567});
    std::unique_lock<std::mutex> lk(acc->m);
    acc->cv.wait(lk, [&] { return acc->got; });
    if (acc->sid != s) return false;
    H.sid = s;
  }
  return true;
}

// ---- primitive operations (each logs one event on the calling thread)
inline void ioDeliver(Hist &H, uint32_t k) // I/O thread
{
  ThreadLog &L = *tlsLog;
  Ev e; e.type = EV_DELIVER; e.thread = T_IO; e.a = k;
  tlsCurOp = int(L.ev.size());
  size_t at = L.ev.size();
  L.ev.push_back(e);
  uint64_t s0 = seq();
  bool ok = H.ctl->fireData(H.sid, H.spec.stream.data() + H.spec.chunks[k].first, H.spec.chunks[k].second);
  uint64_t s1 = seq();
  L.ev[at].s0 = s0; L.ev[at].s1 = s1; L.ev[at].b = ok ? 1 : 0;
  tlsCurOp = -1;
  H.progress.store(k + 1);
}
inline void ioClose(Hist &H, bool local) // I/O thread (peer close) — local closes go through Transport::close
{
  ThreadLog &L = *tlsLog;
  Ev e; e.type = EV_CLOSE; e.thread = T_IO; e.a = local ? 1 : 0;
  e.s0 = seq();
  bool fired = H.ctl->fireClose(H.sid, {TransportError::PeerClosed, "peer closed", 0, 0});
  e.s1 = seq(); e.b = fired ? 1 : 0;
  L.ev.push_back(e);
  H.closeDone = true;
}
// token != nullptr: the call goes through ITransport::receiveSyncCancellable; callId names the call so
// that a cancel() logged by another thread (logCancel) can be matched to it
inline int doRecv(Hist &H, uint32_t len, int timeoutMs, iora::network::CancellationToken *token = nullptr, int callId = -1)
{
  ThreadLog &L = *tlsLog;
  uint8_t *buf = (uint8_t *)malloc(len ? len : 1); // exact size: ASan sees any write past it
  memset(buf, 0xEE, len);
  size_t n = len;
  Ev e; e.type = EV_RECV; e.thread = uint8_t(tlsThread); e.a = len; e.b = timeoutMs;
  e.t0 = vf::nowNs(); e.s0 = seq();
  auto r = token ? H.tr->receiveSyncCancellable(H.sid, buf, n, *token, std::chrono::milliseconds(timeoutMs))
                 : H.tr->receiveSync(H.sid, buf, n, std::chrono::milliseconds(timeoutMs));
  e.s1 = seq(); e.t1 = vf::nowNs();
  if (token) { e.d |= 8; e.encl = callId; }
  if (r.isOk())
  {
    e.c = c03::RES_OK;
    size_t got = r.value();
    if (got != n) e.d |= 1;
    size_t keep = std::min<size_t>(got, len);
    if (got > len) e.d |= 4;
    e.payOff = uint32_t(L.arena.size()); e.payLen = uint32_t(keep);
    L.arena.insert(L.arena.end(), buf, buf + keep);
    for (size_t i = keep; i < len; i++) if (buf[i] != 0xEE) { e.d |= 2; break; }
  }
  else
  {
    e.c = int(r.error().code);
    for (size_t i = 0; i < len; i++) if (buf[i] != 0xEE) { e.d |= 16; break; } // an error result that touched the buffer
  }
  free(buf);
  L.ev.push_back(e);
  return int(e.c);
}
// logged by whichever thread is about to call token.cancel() for the cancellable call `callId`
inline void logCancel(int callId)
{
  Ev e; e.type = EV_CANCEL; e.thread = uint8_t(tlsThread); e.a = callId; e.s0 = e.s1 = seq();
  tlsLog->ev.push_back(e);
}
inline bool doMode(Hist &H, int mode)
{
  ThreadLog &L = *tlsLog;
  Ev e; e.type = EV_MODE; e.thread = uint8_t(tlsThread); e.a = mode;
  size_t at = L.ev.size();
  L.ev.push_back(e);
  tlsCurOp = int(at);
  uint64_t s0 = seq();
  bool ret = H.tr->setReadMode(H.sid, mode == c03::M_ASYNC ? ReadMode::Async : mode == c03::M_SYNC ? ReadMode::Sync : ReadMode::Disabled);
  uint64_t s1 = seq();
  tlsCurOp = -1;
  L.ev[at].s0 = s0; L.ev[at].s1 = s1; L.ev[at].b = ret ? 1 : 0;
  return ret;
}
inline void doLocalClose(Hist &H) // application thread: Transport::close -> engine command -> onClose on the I/O thread
{
  H.tr->close(H.sid); // bracketed on the I/O thread by the localCloseHook installed in setup()
}

// ---- late caller: drain with zero timeouts until two consecutive non-data results
inline void lateDrain(Hist &H, vf::Rng &rng, uint32_t fixedLen = 0)
{
  int nonData = 0;
  for (int i = 0; i < 100000 && nonData < 2; i++)
  {
    uint32_t len = fixedLen ? fixedLen : (rng.chance(0.3) ? uint32_t(rng.range(1, 8)) : rng.chance(0.5) ? uint32_t(rng.range(9, 700)) : 65536u);
    if (H.spec.total > 4000 && !fixedLen && len < 64) len = 4096;
    int c = doRecv(H, len, 0);
    if (c == c03::RES_OK) nonData = 0; else nonData++;
  }
}

// ---- hand the merged log to the offline checker
inline void collect(Hist &H, c03::History &out)
{
  out.mod = H.spec.mod; out.maxBuf = H.spec.maxBuf; out.longTimeoutMs = H.spec.longTimeoutMs;
  out.codes = {int(TransportError::PeerClosed), int(TransportError::Cancelled), int(TransportError::Timeout),
               int(TransportError::BufferOverflow), int(TransportError::ShuttingDown)};
  out.chunks.resize(H.spec.chunks.size());
  for (size_t k = 0; k < H.spec.chunks.size(); k++) { out.chunks[k].pos = H.spec.chunks[k].first; out.chunks[k].len = H.spec.chunks[k].second; }
  // per-thread index maps for callback attribution
  std::map<std::pair<int, int>, int> deliverIdx, modeIdx; // (thread, log index) -> chunk idx / mode idx
  struct Ref { int t; int i; };
  std::vector<Ref> recvRefs, modeRefs, cbRefs;
  std::map<int, uint64_t> cancelAt; // cancellable call id -> seq just before the first cancel()
  for (int t = 0; t < 4; t++)
    for (size_t i = 0; i < H.logs[t].ev.size(); i++)
    {
      auto &e = H.logs[t].ev[i];
      if (e.type == EV_DELIVER)
      {
        auto &c = out.chunks[size_t(e.a)];
        c.attempted = true; c.delivered = e.b != 0; c.s0 = e.s0; c.s1 = e.s1;
        deliverIdx[{t, int(i)}] = int(e.a);
      }
      else if (e.type == EV_CLOSE) { if (e.b) { out.close.happened = true; out.close.s0 = e.s0; out.close.s1 = e.s1; out.close.local = e.a != 0; } }
      else if (e.type == EV_RECV) recvRefs.push_back({t, int(i)});
      else if (e.type == EV_CANCEL) { auto &c = cancelAt[int(e.a)]; if (!c || e.s0 < c) c = e.s0; }
      else if (e.type == EV_MODE) modeRefs.push_back({t, int(i)});
      else if (e.type == EV_CB) cbRefs.push_back({t, int(i)});
    }
  auto evOf = [&](const Ref &r) -> Ev & { return H.logs[r.t].ev[size_t(r.i)]; };
  std::sort(recvRefs.begin(), recvRefs.end(), [&](const Ref &a, const Ref &b) { return evOf(a).s0 < evOf(b).s0; });
  std::sort(modeRefs.begin(), modeRefs.end(), [&](const Ref &a, const Ref &b) { return evOf(a).s0 < evOf(b).s0; });
  std::sort(cbRefs.begin(), cbRefs.end(), [&](const Ref &a, const Ref &b) { return evOf(a).s0 < evOf(b).s0; });
  for (size_t i = 0; i < modeRefs.size(); i++)
  {
    auto &e = evOf(modeRefs[i]);
    c03::ModeCall m; m.s0 = e.s0; m.s1 = e.s1; m.target = int(e.a); m.ret = e.b != 0;
    out.modes.push_back(m);
    modeIdx[{modeRefs[i].t, modeRefs[i].i}] = int(i);
  }
  for (auto &rf : recvRefs)
  {
    auto &e = evOf(rf);
    c03::Recv r; r.s0 = e.s0; r.s1 = e.s1; r.t0 = e.t0; r.t1 = e.t1; r.bufLen = uint32_t(e.a); r.timeoutMs = int(e.b); r.code = int(e.c);
    r.lenMismatch = (e.d & 1) != 0; r.canaryBroken = (e.d & 2) != 0; r.thread = rf.t;
    r.cancellable = (e.d & 8) != 0; r.errorWroteBuffer = (e.d & 16) != 0;
    if (r.cancellable) { auto it = cancelAt.find(e.encl); if (it != cancelAt.end()) r.cancelSeq = it->second; }
    auto &ar = H.logs[rf.t].arena;
    r.data.assign(ar.begin() + e.payOff, ar.begin() + e.payOff + e.payLen);
    if (e.d & 4) r.data.resize(size_t(r.bufLen) + 1); // reported more than the buffer holds
    out.recvs.push_back(std::move(r));
  }
  for (auto &rf : cbRefs)
  {
    auto &e = evOf(rf);
    c03::Cb cb; cb.s0 = e.s0; cb.s1 = e.s1; cb.onIo = rf.t == T_IO; cb.foreignSid = e.a == 0;
    if (e.encl >= 0)
    {
      auto &m = cb.onIo ? deliverIdx : modeIdx;
      auto it = m.find({rf.t, e.encl});
      cb.encl = it == m.end() ? -1 : it->second;
    }
    auto &ar = H.logs[rf.t].arena;
    cb.data.assign(ar.begin() + e.payOff, ar.begin() + e.payOff + e.payLen);
    out.cbs.push_back(std::move(cb));
  }
}

// ---- compact rendering of the recorded history (witness for violations / samples)
inline std::string render(const Hist &H, const c03::History &h, size_t maxEvents = 70)
{
  struct Line { uint64_t s0; std::string txt; };
  std::vector<Line> ls;
  auto code = [&](int c) -> std::string {
    if (c == c03::RES_OK) return "ok";
    if (c == h.codes.peerClosed) return "PeerClosed";
    if (c == h.codes.timeout) return "Timeout";
    if (c == h.codes.overflow) return "BufferOverflow";
    if (c == h.codes.cancelled) return "Cancelled";
    return "err" + std::to_string(c);
  };
  for (size_t k = 0; k < h.chunks.size(); k++)
    if (h.chunks[k].attempted)
      ls.push_back({h.chunks[k].s0, "io:deliver#" + std::to_string(k) + "[" + std::to_string(h.chunks[k].pos) + "+" + std::to_string(h.chunks[k].len) + "]" +
                                        (h.chunks[k].delivered ? "" : "(refused:closed)") + " mode=" + c03::candName(h.chunks[k].cand)});
  if (h.close.happened) ls.push_back({h.close.s0, std::string("io:close(") + (h.close.local ? "local" : "peer") + ")"});
  for (auto &m : h.modes) ls.push_back({m.s0, std::string("app:setReadMode(") + c03::modeName(m.target) + ")=" + (m.ret ? "true" : "false") + " ..s" + std::to_string(m.s1)});
  for (auto &r : h.recvs)
    ls.push_back({r.s0, std::string(r.thread == T_DIRECTOR && H.spec.kind == "conc" ? "late" : "app") + ":receiveSync" + (r.cancellable ? std::string("Cancellable") + (r.cancelSeq ? "[cancel@s" + std::to_string(r.cancelSeq) + "]" : "") : std::string()) + "(len=" + std::to_string(r.bufLen) + ",to=" + std::to_string(r.timeoutMs) + "ms)=" + code(r.code) +
                            (r.code == c03::RES_OK ? "(" + std::to_string(r.data.size()) + "B)" : "") + " ..s" + std::to_string(r.s1)});
  for (auto &cb : h.cbs) ls.push_back({cb.s0, std::string(cb.onIo ? "io" : "app") + ":onData(" + std::to_string(cb.data.size()) + "B) ..s" + std::to_string(cb.s1)});
  std::sort(ls.begin(), ls.end(), [](const Line &a, const Line &b) { return a.s0 < b.s0; });
  std::string o = "[";
  size_t n = 0;
  for (auto &l : ls)
  {
    if (n++ >= maxEvents) { o += ",\"...\""; break; }
    o += (n > 1 ? "," : "") + vf::jstr("s" + std::to_string(l.s0) + " " + l.txt);
  }
  return o + "]";
}

struct Totals
{
  uint64_t histories = 0, suspects = 0;
  std::vector<uint64_t> suspectIdx;
};

// ---- run the checker over a finished history and emit records
inline bool judge(Hist &H, Totals &T, bool isolated)
{
  auto &O = vf::out();
  c03::History h;
  collect(H, h);
  c03::Result R;
  c03::check(h, R);
  if (H.strayCallbacks.load()) R.v("C03:callback:unknown-thread", "data callback ran on a thread the harness does not know");
  std::string head = "{\"kind\":" + vf::jstr(H.spec.kind) + ",\"seed\":" + std::to_string(H.spec.seed) + ",\"idx\":" + std::to_string(H.spec.idx) +
                     ",\"max_buf\":" + std::to_string(H.spec.maxBuf) + ",\"total\":" + std::to_string(H.spec.total) + ",\"chunks\":" + std::to_string(H.spec.chunks.size()) +
                     ",\"scenario\":" + vf::jstr(H.spec.desc);
  for (auto &v : R.viols)
    O.viol(v.key, v.what, head + ",\"fact\":" + (v.detail.empty() ? "null" : v.detail) + ",\"history\":" + render(H, h) + "}");
  for (auto &kv : R.obs)
  {
    if (kv.first.rfind("max_", 0) == 0) O.obsMax(kv.first, kv.second);
    else O.obs(kv.first, kv.second);
  }
  O.obs("histories_" + H.spec.kind);
  if (!R.suspects.empty())
  {
    if (isolated) O.viol("C03:recv:lost-wakeup", "reproduced in isolation: " + R.suspects[0], head + ",\"history\":" + render(H, h) + "}");
    else { T.suspects++; if (T.suspectIdx.size() < 50) T.suspectIdx.push_back(H.spec.idx); }
  }
  O.caseSig(vf::fnv(H.spec.kind + " " + R.sig));
  T.histories++;
  if (H.spec.idx % 97 == 0 || (H.spec.kind == "exh" && H.spec.idx % 9973 == 0))
    O.sample(head + ",\"sig\":" + vf::jstr(R.sig) + ",\"history\":" + render(H, h, 24) + "}");
  return R.viols.empty();
}

} // namespace c03h
