// /verif/harness/c01_pki.hpp — throw-away PKI for the C01 harness, generated with the OpenSSL C
// API (no dependency on an openssl CLI or on files outside /verif). One EC P-256 key and one
// self-signed certificate; kept in memory for the independent OpenSSL peer and optionally written
// as PEM files for iora's TransportConfig (which only takes file names).
#pragma once
#include <cstdio>
#include <string>
#include <unistd.h>

#include <openssl/ec.h>
#include <openssl/evp.h>
#include <openssl/pem.h>
#include <openssl/x509.h>

namespace c01 {

struct Pki
{
  EVP_PKEY *key = nullptr;
  X509 *cert = nullptr;
  std::string certPath, keyPath;
  ~Pki()
  {
    if (cert) X509_free(cert);
    if (key) EVP_PKEY_free(key);
    if (!certPath.empty()) unlink(certPath.c_str());
    if (!keyPath.empty()) unlink(keyPath.c_str());
  }
};

// returns an empty string on success, else what failed
inline std::string makePki(Pki &p, const std::string &dir, const char *cn)
{
  p.key = EVP_EC_gen("P-256");
  if (!p.key) return "EVP_EC_gen";
  p.cert = X509_new();
  if (!p.cert) return "X509_new";
  X509_set_version(p.cert, 2);
  ASN1_INTEGER_set(X509_get_serialNumber(p.cert), 0xC01);
  X509_gmtime_adj(X509_getm_notBefore(p.cert), -3600);
  X509_gmtime_adj(X509_getm_notAfter(p.cert), 86400L * 30);
  X509_set_pubkey(p.cert, p.key);
  X509_NAME *n = X509_get_subject_name(p.cert);
  X509_NAME_add_entry_by_txt(n, "CN", MBSTRING_ASC, (const unsigned char *)cn, -1, -1, 0);
  X509_set_issuer_name(p.cert, n);
  if (!X509_sign(p.cert, p.key, EVP_sha256())) return "X509_sign";
  if (!dir.empty())
  {
    std::string tag = std::to_string((long)getpid());
    p.certPath = dir + "/c01-cert-" + tag + ".pem"; // one pair per process: cells run concurrently in one scratch dir
    p.keyPath = dir + "/c01-key-" + tag + ".pem";
    FILE *f = fopen(p.certPath.c_str(), "w");
    if (!f) return "open " + p.certPath;
    int ok = PEM_write_X509(f, p.cert);
    fclose(f);
    if (!ok) return "PEM_write_X509";
    f = fopen(p.keyPath.c_str(), "w");
    if (!f) return "open " + p.keyPath;
    ok = PEM_write_PrivateKey(f, p.key, nullptr, nullptr, 0, nullptr, nullptr);
    fclose(f);
    if (!ok) return "PEM_write_PrivateKey";
  }
  return "";
}

} // namespace c01
