// /verif/harness/c01_peer.hpp — independent peers for the C01 harness: a raw TCP peer and an OpenSSL
// peer written directly against libssl (own context, own settings). One thread per peer, one
// non-blocking socket, poll()-driven; reads in seeded bursts with pauses (real back-pressure),
// writes the position-encoded reverse stream in seeded chunks. Never perturbed by the sockio shim
// (the thread marks itself exempt). Shares no code with iora.
#pragma once
#include "c01_codec.hpp"
#include "vf.hpp"

#include <atomic>
#include <string>
#include <thread>
#include <vector>

#include <arpa/inet.h>
#include <fcntl.h>
#include <netinet/in.h>
#include <netinet/tcp.h>
#include <openssl/err.h>
#include <openssl/ssl.h>
#include <poll.h>
#include <sys/ioctl.h>
#include <sys/socket.h>
#include <unistd.h>

namespace c01 {

inline void exemptThisThread();  // defined by the harness TU (touches the shim's thread-local)

struct PeerParams
{
  bool tls = false;
  int tlsMax = 13;            // 12 or 13
  bool peerIsServer = false;  // iora connects to us
  int rcvbuf = 0, sndbuf = 0; // 0 = kernel default
  uint32_t hsDelayMs = 0;     // wait before starting the TLS handshake
  uint64_t seed = 1;
  uint32_t sess = 0;
  uint64_t reverseBytes = 0;  // written during the main phase
  uint64_t tailBytes = 0;     // written immediately before the half-close
  int pauseBudget = 0;        // number of read pauses
  uint32_t maxPauseUs = 3000;
  int abortKind = 0;          // 0 none, 1 RST after abortAfter bytes, 2 close() after abortAfter bytes
  uint64_t abortAfter = 0;
  size_t reserve = 0;
  int drainMode = 0;          // 0 bursts with a pause budget; 1 slow but steady (fixed chunk, short pause after each, for ever);
                              // 2 bursty for ever (no pause budget); 3 fast (never pauses)
  double writePauseProb = 0.05; // fraction of reverse chunks followed by a short pause
  uint32_t maxWriteChunk = 20000, minWriteChunk = 0; // minWriteChunk > 0: every reverse write (= TLS record) is at least that large
};

struct Peer
{
  PeerParams P;
  int fd = -1;
  SSL_CTX *ctx = nullptr;
  SSL *ssl = nullptr;
  X509 *cert = nullptr;      // borrowed (peer as server)
  EVP_PKEY *key = nullptr;   // borrowed
  std::vector<uint8_t> stream;
  StreamParser parser;
  std::atomic<uint64_t> rxBytes{0}, parsed{0}, wrote{0}, pausesTaken{0}, reads{0};
  std::atomic<uint64_t> idleSinceNs{0};
  std::atomic<int> pendingAtIdle{-1}; // FIONREAD (+SSL_pending) observed when a read found nothing
  std::atomic<int> sendQueueAtIdle{-1}; // TIOCOUTQ of the peer socket when an iteration made no progress: bytes written but not yet
                                        // delivered to and acknowledged by the engine's kernel socket
  std::atomic<bool> eof{false}, ioError{false}, protoError{false}, handshakeDone{false}, aborted{false}, halfClosed{false};
  std::atomic<bool> drain{false}, holdReads{false}, done{false}, writeGone{false};
  std::atomic<int> cmd{0}; // 0 run, 1 write tail + half-close then read to EOF, 2 read to EOF, 3 quit now
  std::string errText, protoPhase;
  std::thread th;
  bool wantPollOut = false;

  // ---- socket helpers
  static void setBufs(int s, int rcv, int snd)
  {
    if (rcv > 0) setsockopt(s, SOL_SOCKET, SO_RCVBUF, &rcv, sizeof rcv);
    if (snd > 0) setsockopt(s, SOL_SOCKET, SO_SNDBUF, &snd, sizeof snd);
  }
  static int listenOn(uint16_t &port, int rcv, int snd)
  {
    int s = socket(AF_INET, SOCK_STREAM | SOCK_CLOEXEC, 0);
    if (s < 0) return -1;
    int one = 1; setsockopt(s, SOL_SOCKET, SO_REUSEADDR, &one, sizeof one);
    setBufs(s, rcv, snd);
    sockaddr_in a{}; a.sin_family = AF_INET; a.sin_addr.s_addr = htonl(INADDR_LOOPBACK); a.sin_port = 0;
    if (bind(s, (sockaddr *)&a, sizeof a) != 0 || listen(s, 64) != 0) { ::close(s); return -1; }
    socklen_t l = sizeof a; getsockname(s, (sockaddr *)&a, &l); port = ntohs(a.sin_port);
    return s;
  }
  static int connectTo(uint16_t port, int rcv, int snd)
  {
    int s = socket(AF_INET, SOCK_STREAM | SOCK_CLOEXEC, 0);
    if (s < 0) return -1;
    setBufs(s, rcv, snd);
    int one = 1; setsockopt(s, IPPROTO_TCP, TCP_NODELAY, &one, sizeof one);
    sockaddr_in a{}; a.sin_family = AF_INET; a.sin_addr.s_addr = htonl(INADDR_LOOPBACK); a.sin_port = htons(port);
    if (connect(s, (sockaddr *)&a, sizeof a) != 0) { ::close(s); return -1; }
    return s;
  }
  static int acceptOne(int lfd, int timeoutMs)
  {
    pollfd pf{lfd, POLLIN, 0};
    if (poll(&pf, 1, timeoutMs) <= 0) return -1;
    int s = accept4(lfd, nullptr, nullptr, SOCK_CLOEXEC);
    if (s >= 0) { int one = 1; setsockopt(s, IPPROTO_TCP, TCP_NODELAY, &one, sizeof one); }
    return s;
  }
  static void setNonBlocking(int s) { int f = fcntl(s, F_GETFL, 0); fcntl(s, F_SETFL, f | O_NONBLOCK); }

  static std::string sslErrors()
  {
    std::string o; unsigned long e; char b[256];
    while ((e = ERR_get_error()) != 0) { ERR_error_string_n(e, b, sizeof b); if (!o.empty()) o += " | "; o += b; }
    return o;
  }
  bool setupTls()
  {
    ctx = SSL_CTX_new(P.peerIsServer ? TLS_server_method() : TLS_client_method());
    if (!ctx) { errText = "SSL_CTX_new"; return false; }
    SSL_CTX_set_min_proto_version(ctx, TLS1_2_VERSION);
    SSL_CTX_set_max_proto_version(ctx, P.tlsMax == 12 ? TLS1_2_VERSION : TLS1_3_VERSION);
    SSL_CTX_set_mode(ctx, SSL_MODE_ENABLE_PARTIAL_WRITE | SSL_MODE_ACCEPT_MOVING_WRITE_BUFFER);
    SSL_CTX_set_options(ctx, SSL_OP_IGNORE_UNEXPECTED_EOF);
    SSL_CTX_set_verify(ctx, SSL_VERIFY_NONE, nullptr);
    if (P.peerIsServer)
    {
      if (SSL_CTX_use_certificate(ctx, cert) != 1 || SSL_CTX_use_PrivateKey(ctx, key) != 1) { errText = "peer cert/key: " + sslErrors(); return false; }
    }
    ssl = SSL_new(ctx);
    if (!ssl) { errText = "SSL_new"; return false; }
    SSL_set_fd(ssl, fd);
    if (P.peerIsServer) SSL_set_accept_state(ssl); else SSL_set_connect_state(ssl);
    return true;
  }
  // returns >0 bytes, 0 would block, -1 EOF, -2 error
  int ioRead(uint8_t *b, size_t n)
  {
    if (!ssl)
    {
      ssize_t r = ::recv(fd, b, n, 0);
      if (r > 0) return int(r);
      if (r == 0) return -1;
      if (errno == EAGAIN || errno == EWOULDBLOCK || errno == EINTR) return 0;
      if (errno == ECONNRESET || errno == EPIPE) { errText = "reset"; return -1; }
      errText = std::string("recv: ") + strerror(errno); return -2;
    }
    ERR_clear_error();
    int r = SSL_read(ssl, b, int(n));
    if (r > 0) return r;
    int e = SSL_get_error(ssl, r);
    if (e == SSL_ERROR_WANT_READ) return 0;
    if (e == SSL_ERROR_WANT_WRITE) { wantPollOut = true; return 0; }
    if (e == SSL_ERROR_ZERO_RETURN) return -1;
    if (e == SSL_ERROR_SYSCALL) { errText = "tls eof/reset"; ERR_clear_error(); return -1; }
    errText = "SSL_read: " + sslErrors(); protoError = true; protoPhase = "data";
    return -2;
  }
  int ioWrite(const uint8_t *b, size_t n)
  {
    if (!ssl)
    {
      ssize_t r = ::send(fd, b, n, MSG_NOSIGNAL);
      if (r > 0) return int(r);
      if (r < 0 && (errno == EAGAIN || errno == EWOULDBLOCK || errno == EINTR)) { wantPollOut = true; return 0; }
      if (errno == EPIPE || errno == ECONNRESET) { errText = "write: connection gone"; return -1; }
      errText = std::string("send: ") + strerror(errno); return -2;
    }
    ERR_clear_error();
    int r = SSL_write(ssl, b, int(n));
    if (r > 0) return r;
    int e = SSL_get_error(ssl, r);
    if (e == SSL_ERROR_WANT_WRITE) { wantPollOut = true; return 0; }
    if (e == SSL_ERROR_WANT_READ) return 0;
    if (e == SSL_ERROR_SYSCALL || e == SSL_ERROR_ZERO_RETURN) { errText = "tls write: connection gone"; ERR_clear_error(); return -1; }
    // a write-side failure says nothing about the bytes the engine produced (local misuse or an alert): harness-level
    errText = "SSL_write: " + sslErrors();
    return -2;
  }
  bool handshake()
  {
    uint64_t t0 = vf::nowNs();
    while (vf::nowNs() - t0 < uint64_t(P.hsDelayMs) * 1000000ull) { if (cmd.load() == 3) return false; vf::sleepMs(1); }
    for (;;)
    {
      if (cmd.load() == 3) return false;
      ERR_clear_error();
      int r = SSL_do_handshake(ssl);
      if (r == 1) { handshakeDone = true; return true; }
      int e = SSL_get_error(ssl, r);
      pollfd pf{fd, 0, 0};
      if (e == SSL_ERROR_WANT_READ) pf.events = POLLIN;
      else if (e == SSL_ERROR_WANT_WRITE) pf.events = POLLOUT;
      else if (e == SSL_ERROR_SYSCALL || e == SSL_ERROR_ZERO_RETURN) { errText = "handshake: connection closed by the other side"; eof = true; ERR_clear_error(); return false; }
      else { errText = "handshake: " + sslErrors(); protoError = true; protoPhase = "handshake"; return false; }
      poll(&pf, 1, 50);
    }
  }
  void doAbort()
  {
    if (P.abortKind == 1) { linger lg{1, 0}; setsockopt(fd, SOL_SOCKET, SO_LINGER, &lg, sizeof lg); }
    if (ssl) { SSL_set_quiet_shutdown(ssl, 1); SSL_free(ssl); ssl = nullptr; }
    ::close(fd); fd = -1;
    aborted = true;
  }
  void doHalfClose()
  {
    if (ssl)
    {
      for (int i = 0; i < 2000; i++)
      {
        ERR_clear_error();
        int r = SSL_shutdown(ssl);
        if (r >= 0) break;
        int e = SSL_get_error(ssl, r);
        pollfd pf{fd, short(e == SSL_ERROR_WANT_WRITE ? POLLOUT : POLLIN), 0};
        if (e != SSL_ERROR_WANT_WRITE && e != SSL_ERROR_WANT_READ) break;
        poll(&pf, 1, 10);
      }
    }
    ::shutdown(fd, SHUT_WR);
    halfClosed = true;
  }

  void run()
  {
    exemptThisThread();
    vf::Rng rng(P.seed, 7700 + P.sess);
    if (P.reserve) stream.reserve(P.reserve);
    setNonBlocking(fd);
    if (P.tls)
    {
      if (!setupTls()) { ioError = true; finish(); return; }
      if (!handshake()) { if (!protoError && !eof) ioError = cmd.load() != 3; finish(); return; }
    }
    static const uint32_t chunkSizes[] = {1, 7, 100, 1460, 4096, 16384, 65536};
    static const uint64_t burstSizes[] = {1, 40, 400, 1500, 4096, 9000, 30000};
    std::vector<uint8_t> rb(65536), wb(65536);
    uint64_t rk = rkey(P.sess);
    uint64_t revLeft = P.reverseBytes, tailLeft = P.tailBytes, wOff = 0;
    uint64_t nextReadAt = 0, nextWriteAt = 0, burstLeft = burstSizes[rng.below(7)];
    uint32_t rchunk = chunkSizes[rng.below(7)];
    int pauseLeft = P.drainMode == 2 ? 0x7fffffff : P.drainMode == 3 ? 0 : P.pauseBudget;
    const uint32_t steadyChunk = uint32_t(rng.range(512, 4096)), steadyPauseUs = uint32_t(rng.range(40, 400));
    if (P.drainMode == 1) { burstLeft = steadyChunk; rchunk = steadyChunk; }
    bool writeShut = false;
    size_t pendingW = 0;
    for (;;)
    {
      int c = cmd.load();
      if (c == 3) break;
      uint64_t now = vf::nowNs();
      bool progressed = false;
      bool readsOn = !holdReads.load() && now >= nextReadAt && !eof.load();
      if (readsOn)
      {
        size_t want = size_t(std::min<uint64_t>(std::min<uint64_t>(burstLeft, rchunk), rb.size()));
        int n = ioRead(rb.data(), want);
        reads++;
        if (n > 0) { int one = 1; setsockopt(fd, IPPROTO_TCP, TCP_QUICKACK, &one, sizeof one); } // window updates must not wait for the delayed-ACK timer
        if (n > 0)
        {
          stream.insert(stream.end(), rb.data(), rb.data() + n);
          parser.feed(stream, false);
          parsed.store(parser.recs.size() + (parser.failed ? (1ull << 40) : 0));
          rxBytes += uint64_t(n);
          idleSinceNs = 0; progressed = true;
          burstLeft -= std::min<uint64_t>(burstLeft, uint64_t(n));
          if (P.abortKind && rxBytes.load() >= P.abortAfter) { doAbort(); break; }
          if (burstLeft == 0 && P.drainMode == 1)
          {
            burstLeft = steadyChunk; pausesTaken++;
            if (!drain.load()) nextReadAt = now + steadyPauseUs * 1000ull;
          }
          else if (burstLeft == 0)
          {
            burstLeft = burstSizes[rng.below(7)];
            rchunk = chunkSizes[rng.below(7)];
            if (pauseLeft > 0 && !drain.load())
            {
              pauseLeft--; pausesTaken++;
              nextReadAt = now + rng.range(100, P.maxPauseUs) * 1000ull;
            }
          }
        }
        else if (n == 0)
        {
          int q = 0; ioctl(fd, FIONREAD, &q);
          if (ssl) q += SSL_pending(ssl);
          pendingAtIdle = q;
          if (idleSinceNs.load() == 0) idleSinceNs = now;
        }
        else if (n == -1) eof = true;
        else { ioError = !protoError.load(); break; }
      }
      bool wantW = !writeShut && (revLeft > 0 || (c == 1 && tailLeft > 0));
      if (wantW && now >= nextWriteAt)
      {
        uint64_t left = revLeft > 0 ? revLeft : tailLeft;
        // a write that would block must be retried with the same bytes and length (TLS record already started)
        size_t n = pendingW ? pendingW : size_t(std::min<uint64_t>(left, P.minWriteChunk ? rng.range(P.minWriteChunk, std::max(P.minWriteChunk, P.maxWriteChunk)) : 1 + rng.below(rng.chance(0.3) ? 64 : P.maxWriteChunk)));
        fillRun(wb.data(), rk, wOff, n);
        int w = ioWrite(wb.data(), n);
        pendingW = w == 0 ? n : 0;
        if (w > 0)
        {
          wOff += uint64_t(w); wrote += uint64_t(w); progressed = true; wantPollOut = false;
          if (revLeft > 0) revLeft -= uint64_t(w); else tailLeft -= uint64_t(w);
          if (rng.chance(P.writePauseProb) && !drain.load()) nextWriteAt = now + rng.range(50, 1500) * 1000ull;
        }
        else if (w == -1) { writeShut = true; writeGone = true; }  // the other side is gone: the read side will report EOF/reset
        else if (w < 0) { ioError = !protoError.load(); break; }
      }
      if (c == 1 && revLeft == 0 && tailLeft == 0 && !writeShut) { doHalfClose(); writeShut = true; progressed = true; }
      if (eof.load()) break; // the other side closed: nothing more can arrive
      if (!progressed)
      {
        { int oq = 0; if (ioctl(fd, TIOCOUTQ, &oq) == 0) sendQueueAtIdle = oq; }
        uint64_t now2 = vf::nowNs();
        int to = 20;
        bool rOn = !holdReads.load() && now2 >= nextReadAt;
        if (!rOn && nextReadAt > now2) to = int(std::min<uint64_t>(20, (nextReadAt - now2) / 1000000ull + 1));
        pollfd pf{fd, short((rOn ? POLLIN : 0) | ((wantW && wantPollOut) ? POLLOUT : 0)), 0};
        poll(&pf, 1, to);
      }
    }
    finish();
  }
  void finish()
  {
    parser.feed(stream, true);
    parsed.store(parser.recs.size() + (parser.failed ? (1ull << 40) : 0));
    if (ssl) { SSL_set_quiet_shutdown(ssl, 1); SSL_free(ssl); ssl = nullptr; }
    if (ctx) { SSL_CTX_free(ctx); ctx = nullptr; }
    if (fd >= 0) { ::close(fd); fd = -1; }
    done = true;
  }
};

} // namespace c01
