// C04 harness: connectSync / connectSyncCancellable against hostile loopback targets.
// Drives the real Transport (TCP engine) and records three independent views:
//   (1) the client-boundary history {call(target, tls, timeout), return(result, t)},
//   (2) the log of the *global* callbacks (onConnect/onClose/onData/onError),
//   (3) the raw peer's view of every connection (c04_net.hpp).
// The checks join them: every ok(sid) <-> one completed, still open peer connection that echoes;
// no global callback for an id that was never handed out; nothing left open after a non-ok return;
// return time <= timeout + slack; definite error codes.
// Logical violations are written as "viol"; timing-bound ones as "suspect" (the Python side
// re-runs the batch alone, where --isolated 1 turns a reproduced suspect into a violation).
#define VF_SHIM_CONDVAR
#define VF_SHIM_RESOLVE
#include "shim/shims.hpp"
#include "vf.hpp"
#include "c04_net.hpp"

#include <iora/network/transport.hpp>
#include <iora/network/transport_impl.hpp>

#include <map>
#include <set>

using namespace iora::network;
using vfnet::TK;

// ------------------------------------------------------------------------------ scenarios
struct Scn
{
  const char *name;
  TK tk;
  bool target;      // needs a Target
  bool tls;         // connectSync is asked for TlsMode::Client
  bool canSucceed;  // ok(sid) is a legitimate outcome
  bool peerFirst;   // the peer may close before the client does
  int weight;
  unsigned allowed; // bitmask of admissible error codes (1u << int(TransportError))
  bool clientTlsConfigured = true; // false: TLS is requested on a transport whose client TLS is not enabled
  bool shortEngineTimer = false;   // engine connectTimeout swept 2..20 ms + I/O thread held in a slow onData of another session
};
static constexpr unsigned E(TransportError e) { return 1u << unsigned(e); }
static const unsigned kT = E(TransportError::Timeout);
static const Scn kScn[] = {
  {"accept", TK::Accept, true, false, true, false, 6, kT},
  {"refuse", TK::Refuse, true, false, false, false, 2, kT | E(TransportError::Connect)},
  {"blackhole", TK::Blackhole, true, false, false, false, 2, kT},
  {"rst-after-accept", TK::RstAccept, true, false, true, true, 2, kT | E(TransportError::Connect) | E(TransportError::PeerClosed)},
  {"tls-ok", TK::TlsOk, true, true, true, false, 5, kT},
  {"tls-wrong-ca", TK::TlsBadCert, true, true, false, false, 2, kT | E(TransportError::TLSHandshake)},
  {"tls-garbage", TK::TlsGarbage, true, true, false, false, 1, kT | E(TransportError::TLSHandshake)},
  {"tls-slow", TK::TlsSlow, true, true, true, false, 5, kT},
  {"tls-stall", TK::TlsStall, true, true, false, false, 1, kT},
  {"tls-rst-after-hello", TK::TlsRstHello, true, true, false, true, 1,
   kT | E(TransportError::TLSHandshake) | E(TransportError::Connect) | E(TransportError::PeerClosed)},
  {"resolve-fail", TK::Accept, false, false, false, false, 1, kT | E(TransportError::Resolve)},
  {"resolve-slow-fail", TK::Accept, false, false, false, false, 1, kT | E(TransportError::Resolve)},
  {"resolve-slow-ok", TK::Accept, true, false, true, false, 2, kT},
  // TLS requested but never configured on the client: success would be a clear-text session
  {"tls-requested-not-configured", TK::TlsOk, true, true, false, false, 1, kT | E(TransportError::Config) | E(TransportError::TLSHandshake), false},
  // the engine's OWN connect timer (TimerService thread) races the completion of a slow TLS handshake
  // while the I/O thread is held in a slow user callback of another session: a timer that fired just
  // before the completion was announced must not close the session connectSync returned
  {"tls-slow-engine-connect-timer", TK::TlsSlow, true, true, true, false, 3, kT, true, true},
};
static const int kNScn = int(sizeof kScn / sizeof kScn[0]);

static const char *errName(int c)
{
  static const char *n[] = {"None", "Socket", "Resolve", "Bind", "Listen", "Accept", "Connect", "TLSHandshake", "TLSIO",
                            "PeerClosed", "WriteBackpressure", "Config", "GCClosed", "Cancelled", "Timeout",
                            "BufferOverflow", "ShuttingDown", "Unknown"};
  return (c >= 0 && c < int(sizeof n / sizeof n[0])) ? n[c] : "?";
}
static std::string reasonClass(int code, const std::string &msg)
{
  if (msg == "closed by app") return "closed-by-app";
  if (msg == "shutdown") return "shutdown";
  return errName(code);
}

// ------------------------------------------------------------------------------ per-batch state
struct CbEv { int kind; uint64_t sid; uint64_t ns; int code; std::string msg; }; // kind: 0 connect 1 close 2 accept 3 error
struct BatchState
{
  std::mutex m;
  std::vector<CbEv> evs;
  std::map<uint64_t, std::string> data;
  std::atomic<uint64_t> holdSid{0};   // data on this session holds the I/O thread for holdUs (slow user callback)
  std::atomic<uint32_t> holdUs{0};
  std::atomic<uint64_t> holds{0};
};
struct CallRec
{
  int caller = 0, api = 0; // api 0 connectSync, 1 connectSyncCancellable
  uint32_t timeoutMs = 0;
  uint64_t t0 = 0, t1 = 0;
  bool ok = false;
  uint64_t sid = 0;
  int code = 0;
  std::string msg;
  int64_t cancelAtUs = -1;
  uint16_t lport = 0;
  bool threw = false;
};
struct CallReg { std::atomic<int> active{0}; std::atomic<uint64_t> since{0}; std::atomic<uint32_t> timeoutMs{0}; std::atomic<int> api{0}; };

struct CancelSched
{
  std::mutex m;
  struct Ent { CancellationToken *tok; uint64_t atNs; bool fired; };
  std::vector<Ent> ents;
};

static bool g_isolated = false;
static vfnet::Heartbeat *g_hb = nullptr;
static const uint64_t kStarveNs = 100ull * 1000000ull; // a 0.5 ms sleeper that lost >100 ms: the process was not being scheduled
static std::atomic<uint64_t> g_progressNs{0};
static std::atomic<int64_t> g_curIdx{-1};
static std::atomic<const char *> g_curScn{""};
static std::vector<std::unique_ptr<CallReg>> *g_regs = nullptr;
static std::mutex g_regsM;

static void suspect(uint64_t idx, const std::string &key, const std::string &what, const std::string &detail)
{
  if (g_isolated) { vf::out().viol(key, what + " (reproduced in an isolated re-run)", detail); return; }
  vf::out().obs("suspects_sent_to_isolated_rerun");
  vf::out().line("{\"t\":\"suspect\",\"idx\":" + std::to_string(idx) + ",\"key\":" + vf::jstr(key) + ",\"what\":" + vf::jstr(what) + ",\"detail\":" + detail + "}");
}

static std::string callJson(const char *scn, const CallRec &c)
{
  char b[512];
  snprintf(b, sizeof b, "{\"target\":\"%s\",\"api\":\"%s\",\"timeout_ms\":%u,\"elapsed_us\":%llu,\"result\":\"%s\",\"sid\":%llu,\"msg\":%s,\"cancel_at_us\":%lld}",
           scn, c.api ? "connectSyncCancellable" : "connectSync", c.timeoutMs, (unsigned long long)((c.t1 - c.t0) / 1000),
           c.ok ? "ok" : errName(c.code), (unsigned long long)c.sid, vf::jstr(c.msg.substr(0, 80)).c_str(), (long long)c.cancelAtUs);
  return b;
}

// queue barrier through the public API: addListener on a running engine is answered by the I/O
// thread in FIFO order, so every command enqueued before it has been processed when it returns
static bool ioBarrier(Transport &t)
{
  auto r = t.addListener("127.0.0.1", 0, TlsMode::None);
  return r.isOk();
}

static void runBatch(uint64_t seed, uint64_t idx, vfnet::Pki &pki, int onlyScn)
{
  auto &O = vf::out();
  vf::Rng rng(seed, idx);
  // ---- scenario
  int total = 0;
  for (auto &s : kScn) total += s.weight;
  int pick = int(rng.below(uint64_t(total))), si = 0;
  for (; si < kNScn; si++) { if (pick < kScn[si].weight) break; pick -= kScn[si].weight; }
  if (onlyScn >= 0) si = onlyScn;
  const Scn &S = kScn[si];
  g_curScn = S.name;
  O.line("{\"t\":\"begin\",\"idx\":" + std::to_string(idx) + ",\"scn\":\"" + S.name + "\"}");

  static const int callerChoices[] = {1, 1, 2, 3, 4, 8, 16, 32};
  int nCallers = callerChoices[rng.below(8)];
  bool cancellable = rng.chance(0.22);
  uint32_t prePark = 0;
#if !VF_TSAN
  if (rng.chance(0.55)) { static const uint32_t pp[] = {150, 400, 1000, 3000, 6000}; prePark = pp[rng.below(5)]; }
  if (prePark >= 1000 && nCallers > 8) nCallers = 8;
#endif
  int budget = int(rng.range(16, 40));
  if (si == 2 || si == 8) budget = int(rng.range(8, 20)); // every call waits its whole timeout
  int callsPer = std::max(1, budget / nCallers);
  bool asyncMix = S.canSucceed && !S.tls && rng.chance(0.35);

  // ---- timeouts: swept through 0,1,2,5 ms ... so that completion and expiry collide
  std::vector<uint32_t> sweep;
  if (S.canSucceed) sweep = {0, 0, 1, 1, 2, 2, 3, 5, 5, 8, 13, 20, 3000, 3000, 3000};
  else
  {
    sweep = {0, 1, 2, 5, 10, 30, 80};
    if (si != 2 && si != 8) { sweep.push_back(1000); sweep.push_back(1000); } // targets that answer: let the definite error win sometimes
  }
  if (cancellable && (si == 2 || si == 8)) sweep = {150, 250, 320};
  if (S.shortEngineTimer) sweep = {3000, 3000, 3000, 3000, 20, 50};
  std::vector<uint32_t> stallUs = {0, 200, 500, 1000, 1500, 2000, 3000, 5000, 8000, 13000};

  // ---- target + resolver script
  std::unique_ptr<vfnet::Target> tgt;
  if (S.target) tgt.reset(new vfnet::Target(S.tk, &pki, seed * 1315423911ull + idx, stallUs));
  if (S.tk == TK::Blackhole && S.target && !tgt->blackholeVerified()) { O.obs("blackhole_setup_failed"); return; }
  std::string host = "127.0.0.1";
  uint16_t port = tgt ? tgt->port() : 9;
  {
    auto &rp = vf::shim::resolvePolicy();
    std::lock_guard<std::mutex> g(rp.m);
    rp.script.clear(); rp.alias.clear();
    if (si == 10) { host = "fail.vf.test"; rp.script[host] = {0, EAI_NONAME}; }
    if (si == 11) { host = "slowfail.vf.test"; rp.script[host] = {int(rng.range(3, 60)), EAI_AGAIN}; }
    if (si == 12) { host = "slow.vf.test"; rp.script[host] = {int(rng.range(1, 25)), 0}; rp.alias[host] = "127.0.0.1"; }
  }

  // ---- transport
  TransportConfig cfg;
  if (S.tls && S.clientTlsConfigured)
  {
    cfg.clientTls.enabled = true;
    cfg.clientTls.defaultMode = TlsMode::Client;
    cfg.clientTls.verifyPeer = true;
    cfg.clientTls.caFile = pki.caFile;
  }
  uint32_t engineTimerMs = 0;
  if (S.shortEngineTimer)
  {
    static const uint32_t et[] = {2, 3, 5, 8, 12, 20};
    engineTimerMs = et[rng.below(6)];
    cfg.connectTimeout = std::chrono::milliseconds(engineTimerMs);
  }
  auto st = std::make_shared<BatchState>();
  auto t = Transport::tcp(cfg);
  t->onConnect([st](SessionId sid, const TransportAddress &) { std::lock_guard<std::mutex> g(st->m); st->evs.push_back({0, sid, vf::nowNs(), 0, ""}); });
  t->onClose([st](SessionId sid, const TransportErrorInfo &r) { std::lock_guard<std::mutex> g(st->m); st->evs.push_back({1, sid, vf::nowNs(), int(r.code), r.message}); });
  t->onAccept([st](SessionId sid, const TransportAddress &) { std::lock_guard<std::mutex> g(st->m); st->evs.push_back({2, sid, vf::nowNs(), 0, ""}); });
  t->onError([st](TransportError c, const std::string &m) { std::lock_guard<std::mutex> g(st->m); st->evs.push_back({3, 0, vf::nowNs(), int(c), m}); });
  t->onData([st](SessionId sid, iora::core::BufferView d, std::chrono::steady_clock::time_point) {
    {
      std::lock_guard<std::mutex> g(st->m);
      auto &buf = st->data[sid];
      if (buf.size() < 65536) buf.append((const char *)d.data(), d.size());
    }
    if (sid == st->holdSid.load() && sid != 0) { st->holds++; vf::sleepMs(double(st->holdUs.load()) / 1000.0); }
  });
  if (!t->start().isOk()) { O.inconclusive("transport start failed"); return; }
  TlsMode mode = S.tls ? TlsMode::Client : TlsMode::None;
  // session A on a plain echo target: every byte echoed on it holds the I/O thread in onData
  std::unique_ptr<vfnet::Target> tgtA;
  uint64_t holdA = 0;
  if (S.shortEngineTimer)
  {
    tgtA.reset(new vfnet::Target(TK::Accept, nullptr, seed + idx + 5));
    // the engine's connect timer is tiny in this batch: retry until A itself got through
    for (int tries = 0; tries < 50 && !holdA; tries++)
    {
      auto ra = t->connectSync("127.0.0.1", tgtA->port(), TlsMode::None, std::chrono::milliseconds(5000));
      if (ra.isOk()) holdA = ra.value();
    }
    if (!holdA) { O.inconclusive("could not establish the holder session"); t->stop(); return; }
    static const uint32_t hu[] = {1000, 2000, 4000, 8000, 15000, 25000, 40000};
    st->holdUs = hu[rng.below(7)];
    st->holdSid = holdA;
  }

  // ---- callers
  std::vector<std::vector<CallRec>> recs(nCallers);
  std::vector<std::unique_ptr<CallReg>> regs;
  for (int i = 0; i < nCallers; i++) regs.emplace_back(new CallReg());
  { std::lock_guard<std::mutex> g(g_regsM); g_regs = &regs; }
  CancelSched cs;
  std::atomic<bool> callersDone{false};
  std::thread canceller;
  if (cancellable)
    canceller = std::thread([&] {
      while (!callersDone.load())
      {
        {
          std::lock_guard<std::mutex> g(cs.m);
          uint64_t now = vf::nowNs();
          for (auto &e : cs.ents) if (!e.fired && now >= e.atNs) { e.tok->cancel(); e.fired = true; }
        }
        vf::sleepMs(0.1);
      }
    });
  vfnet::YieldBarrier bar(nCallers);
  std::vector<uint64_t> cseeds;
  for (int i = 0; i < nCallers; i++) cseeds.push_back(rng.next());
  std::vector<std::thread> th;
  for (int ci = 0; ci < nCallers; ci++)
    th.emplace_back([&, ci] {
      vf::Rng r(cseeds[ci]);
#if !VF_TSAN
      vf::shim::tlsPreParkDelayUs = prePark;
#endif
      auto &reg = *regs[ci];
      bar.wait();
      for (int k = 0; k < callsPer; k++)
      {
        CallRec c;
        c.caller = ci;
        c.api = cancellable ? 1 : 0;
        c.timeoutMs = sweep[r.below(sweep.size())];
        CancellationToken tok;
        if (c.api == 1)
        {
          c.cancelAtUs = int64_t(r.below(uint64_t(c.timeoutMs) * 1500 + 300));
          if (r.chance(0.15)) c.cancelAtUs = -1; // never cancelled
        }
        reg.timeoutMs = c.timeoutMs; reg.api = c.api; reg.since = vf::nowNs(); reg.active = 1;
        c.t0 = vf::nowNs();
        if (c.api == 1 && c.cancelAtUs >= 0)
        {
          std::lock_guard<std::mutex> g(cs.m);
          cs.ents.push_back({&tok, c.t0 + uint64_t(c.cancelAtUs) * 1000ull, false});
        }
        try
        {
          ConnectResult res = c.api == 0 ? t->connectSync(host, port, mode, std::chrono::milliseconds(c.timeoutMs))
                                         : t->connectSyncCancellable(host, port, tok, mode, std::chrono::milliseconds(c.timeoutMs));
          c.t1 = vf::nowNs();
          if (res.isOk()) { c.ok = true; c.sid = res.value(); }
          else { c.code = int(res.error().code); c.msg = res.error().message; }
        }
        catch (const std::exception &ex) { c.t1 = vf::nowNs(); c.threw = true; c.msg = ex.what(); }
        reg.active = 0;
        if (c.api == 1)
        {
          std::lock_guard<std::mutex> g(cs.m);
          for (size_t i = 0; i < cs.ents.size(); i++) if (cs.ents[i].tok == &tok) { cs.ents.erase(cs.ents.begin() + long(i)); break; }
        }
        if (c.ok) c.lport = t->getLocalAddress(c.sid).port;
        recs[ci].push_back(std::move(c));
        if (r.chance(0.3)) vf::sleepMs(0.02 * double(r.below(20)));
      }
#if !VF_TSAN
      vf::shim::tlsPreParkDelayUs = 0;
#endif
    });
  std::thread holder;
  std::atomic<bool> holderStop{false};
  if (holdA)
    holder = std::thread([&, hs = rng.next()] {
      vf::Rng r(hs);
      while (!holderStop.load())
      {
        t->send(holdA, "h", 1); // echoed by the peer -> onData(A) -> I/O thread held for holdUs
        vf::sleepMs(double(st->holdUs.load()) / 1000.0 * (0.3 + 0.1 * double(r.below(14))));
      }
    });
  // asynchronous connect() mixed in: its ids legitimately reach the global callbacks
  std::set<uint64_t> asyncIds;
  std::thread asyncTh;
  if (asyncMix)
    asyncTh = std::thread([&] {
      for (int i = 0; i < 4; i++)
      {
        auto r = t->connect("127.0.0.1", tgt->port(), TlsMode::None);
        if (r.isOk()) asyncIds.insert(r.value());
        vf::sleepMs(0.3);
      }
    });
  for (auto &x : th) x.join();
  if (asyncTh.joinable()) asyncTh.join();
  holderStop = true;
  if (holder.joinable()) holder.join();
  st->holdSid = 0; // from here on the I/O thread runs freely (echo verification, quiesce)
  if (holdA) { O.obs("io_thread_holds_in_slow_onData", st->holds.load()); O.obs("calls_with_short_engine_connect_timer", uint64_t(nCallers) * uint64_t(callsPer)); }
  callersDone = true;
  if (canceller.joinable()) canceller.join();
  { std::lock_guard<std::mutex> g(g_regsM); g_regs = nullptr; }

  // ---- (A) per-call checks: definite result, admissible code, return time
  std::map<uint64_t, const CallRec *> okBySid;
  uint64_t nCalls = 0, nOk = 0;
  for (auto &v : recs)
    for (auto &c : v)
    {
      nCalls++;
      double elapsedMs = double(c.t1 - c.t0) / 1e6;
      double slackMs = 500.0 + 0.5 * double(c.timeoutMs);
      const char *api = c.api ? "connectSyncCancellable" : "connectSync";
      std::string rc = c.threw ? "exception" : c.ok ? "ok" : errName(c.code);
      O.obs(std::string("result_") + rc);
      if (c.threw) O.viol(std::string("C04:exception:") + S.name, std::string(api) + " threw: " + c.msg, callJson(S.name, c));
      else if (c.ok)
      {
        nOk++;
        if (!S.canSucceed)
          O.viol(std::string("C04:ok-for-failing-target:") + S.name, std::string(api) + " returned ok(sid) against a target that never completes the handshake", callJson(S.name, c));
        if (okBySid.count(c.sid)) O.viol("C04:duplicate-session-id", "two successful calls returned the same session id", callJson(S.name, c));
        okBySid[c.sid] = &c;
        if (elapsedMs >= double(c.timeoutMs) && c.timeoutMs < 3000) O.obs("collision_completion_won_at_or_after_expiry");
      }
      else
      {
        unsigned allowed = S.allowed | (c.api ? E(TransportError::Cancelled) : 0u);
        if (c.code == int(TransportError::None) || c.code == int(TransportError::Unknown) || (c.code == int(TransportError::Timeout) && c.msg == "pending"))
          O.viol(std::string("C04:indefinite-error:") + S.name + ":" + errName(c.code), std::string(api) + " returned an error that names no cause", callJson(S.name, c));
        else if (!(allowed & (1u << unsigned(c.code))))
          O.viol(std::string("C04:unexpected-error:") + S.name + ":" + errName(c.code), std::string(api) + " returned an error this target cannot produce", callJson(S.name, c));
        if (c.code == int(TransportError::Cancelled)) O.obs("cancel_won");
        if (c.code == int(TransportError::Timeout) && c.msg == "Connect timeout") O.obs("engine_connect_timer_closed_a_pending_connect");
      }
      if (c.api == 1 && c.cancelAtUs >= 0 && !c.threw && (c.ok || c.code != int(TransportError::Cancelled)) && double(c.cancelAtUs) / 1000.0 < elapsedMs) O.obs("cancel_lost_to_" + rc);
      // return-time bound: judged on unperturbed batches (the pre-park delay deliberately holds the
      // transport-wide sync lock) and only when the process was being scheduled during the call
      if (prePark == 0)
      {
        uint64_t gap = g_hb->maxGapNs(c.t0, c.t1);
        if (gap > kStarveNs) O.obs("timing_not_judged_cpu_starved_calls");
        else
        {
          O.obs("timing_judged_calls");
          if (elapsedMs > double(c.timeoutMs) + slackMs)
            suspect(idx, std::string("C04:late-return:") + S.name + ":" + api, std::string(api) + " returned later than timeout + slack (500 ms + 50 %) while the process was being scheduled normally", callJson(S.name, c));
        }
      }
      O.obsMax("max_overshoot_us", elapsedMs > double(c.timeoutMs) ? uint64_t((elapsedMs - double(c.timeoutMs)) * 1000.0) : 0);
      // case signature
      int tb = c.timeoutMs == 0 ? 0 : c.timeoutMs <= 2 ? 1 : c.timeoutMs <= 8 ? 2 : c.timeoutMs <= 100 ? 3 : 4;
      int nb = nCallers == 1 ? 0 : nCallers <= 4 ? 1 : nCallers <= 8 ? 2 : 3;
      char sg[128];
      snprintf(sg, sizeof sg, "%s|%d|%d|%d|%d|%s|%d|%d", S.name, c.api, tb, nb, prePark ? 1 : 0, rc.c_str(), elapsedMs >= double(c.timeoutMs) ? 1 : 0,
               c.api && c.cancelAtUs >= 0 ? 1 : 0);
      O.caseSig(vf::fnv(sg));
      O.sample(callJson(S.name, c));
    }
  O.obs("calls", nCalls);
  O.obs(std::string("calls_") + S.name, nCalls);
  O.obs(nCallers == 1 ? "batches_1_caller" : nCallers <= 8 ? "batches_2_8_callers" : "batches_16_32_callers");
  if (prePark) O.obs("calls_with_prepark_delay", nCalls);
  if (cancellable) O.obs("calls_cancellable", nCalls);

  // ---- (B) every ok(sid) is one live, completed peer connection that echoes
  auto findConn = [&](uint16_t lport, vfnet::ConnInfo &out) {
    auto snap = tgt->snapshot();
    bool found = false;
    for (auto &ci : snap) if (ci.rport == lport) { out = ci; found = true; } // latest wins (port reuse)
    return found;
  };
  if (tgt && !S.peerFirst)
  {
    for (auto &kv : okBySid)
    {
      const CallRec &c = *kv.second;
      if (c.lport == 0)
      {
        O.viol(std::string("C04:ok-but-session-gone:") + S.name, "connectSync returned ok(sid) but the session no longer exists right after the return (peer never closes first)", callJson(S.name, c));
        continue;
      }
      vfnet::ConnInfo ci;
      uint64_t until = vf::nowNs() + 8000000000ull;
      bool found = false;
      while (!(found = findConn(c.lport, ci)) && vf::nowNs() < until) vf::sleepMs(0.5);
      if (!found) { suspect(idx, std::string("C04:ok-without-peer-connection:") + S.name, "no peer connection for a successful connectSync within 8 s", callJson(S.name, c)); continue; }
      if (S.tls)
      {
        while (ci.hs == 0 && ci.closeHow == 0 && vf::nowNs() < until) { vf::sleepMs(0.5); findConn(c.lport, ci); }
        if (ci.hs != 1)
        {
          O.viol(std::string("C04:ok-before-tls-handshake-complete:") + S.name, "connectSync returned ok(sid) but the peer never completed the TLS handshake on that connection", callJson(S.name, c));
          continue;
        }
      }
      // echo round trip
      char tok[32];
      int tl = snprintf(tok, sizeof tok, "<%llx:%llx>", (unsigned long long)c.sid, (unsigned long long)idx);
      t->send(c.sid, tok, size_t(tl));
      bool echoed = false, closedByTransport = false;
      until = vf::nowNs() + 8000000000ull;
      while (vf::nowNs() < until)
      {
        {
          std::lock_guard<std::mutex> g(st->m);
          auto it = st->data.find(c.sid);
          if (it != st->data.end() && it->second.find(tok) != std::string::npos) { echoed = true; break; }
        }
        findConn(c.lport, ci);
        if (ci.closeHow == 1 || ci.closeHow == 2) { closedByTransport = true; break; }
        vf::sleepMs(0.3);
      }
      if (echoed) O.obs("ok_sessions_echo_verified");
      else if (closedByTransport)
        O.viol(std::string("C04:ok-for-session-the-transport-closed:") + S.name, "connectSync returned ok(sid); the peer then saw the client close that connection although nobody closed the session", callJson(S.name, c));
      else suspect(idx, std::string("C04:ok-session-does-not-echo:") + S.name, "no echo on a successful session within 8 s", callJson(S.name, c));
    }
  }
  else if (tgt && S.peerFirst) O.obs("ok_sessions_on_resetting_target", okBySid.size());

  // ---- (B2) nobody has closed anything yet: a close of a handed-out session on a target whose peer
  // never closes first can only come from the transport itself
  if (tgt && !S.peerFirst)
  {
    ioBarrier(*t);
    std::lock_guard<std::mutex> g(st->m);
    for (auto &e : st->evs)
      if (e.kind == 1 && okBySid.count(e.sid))
        O.viol(std::string("C04:returned-session-closed-by-transport:") + S.name + ":" + reasonClass(e.code, e.msg),
               "connectSync returned ok(sid); the transport then closed that session itself (neither the peer nor the caller did)",
               "{\"sid\":" + std::to_string(e.sid) + ",\"reason\":" + vf::jstr(e.msg.substr(0, 100)) + ",\"code\":\"" + errName(e.code) + "\",\"engine_connect_timeout_ms\":" + std::to_string(engineTimerMs) +
                 ",\"io_hold_us\":" + std::to_string(st->holdUs.load()) + ",\"call\":" + callJson(S.name, *okBySid[e.sid]) + "}");
    O.obs("returned_sessions_checked_for_transport_side_close", okBySid.size());
  }
  // ---- (C) quiesce: close what we own, drain the command queue, then nothing may stay open
  for (auto &kv : okBySid) t->close(kv.first);
  for (auto id : asyncIds) t->close(id);
  if (holdA) t->close(holdA);
  ioBarrier(*t);
  uint64_t tq = vf::nowNs();
  {
    uint64_t until = tq + 3000000000ull;
    while (t->getStats().sessionsCurrent != 0 && vf::nowNs() < until) vf::sleepMs(0.5);
    if (t->getStats().sessionsCurrent != 0)
      suspect(idx, std::string("C04:engine-session-left-open:") + S.name, "sessions remain in the engine after every call returned and every handed-out session was closed",
              "{\"sessionsCurrent\":" + std::to_string(t->getStats().sessionsCurrent) + "}");
  }
  if (tgt && S.tk != TK::Refuse && S.tk != TK::Blackhole)
  {
    size_t open = 0; uint64_t worstNs = 0; bool settled = false;
    uint64_t hard = tq + 10000000000ull;
    for (;;)
    {
      auto snap = tgt->snapshot();
      open = 0; worstNs = 0;
      for (auto &ci : snap) { if (ci.closeHow == 0) open++; else if (ci.closedNs > worstNs) worstNs = ci.closedNs; }
      uint64_t now = vf::nowNs();
      if (open == 0 && now - std::max(tgt->lastAcceptNs(), tq) > 40000000ull) { settled = true; break; }
      if (now > hard) break;
      vf::sleepMs(1);
    }
    O.obs("peer_connections_seen", tgt->accepted());
    if (!settled)
      suspect(idx, std::string("C04:connection-left-behind:") + S.name, "a peer-side connection that no caller owns is still open 10 s after the client went idle",
              "{\"open\":" + std::to_string(open) + ",\"accepted\":" + std::to_string(tgt->accepted()) + "}");
    else if (worstNs > tq + 1000000000ull)
      suspect(idx, std::string("C04:connection-closed-late:") + S.name, "a connection no caller owns was closed more than 1 s after the client went idle",
              "{\"late_ms\":" + std::to_string((worstNs - tq) / 1000000ull) + "}");
    else O.obs("batches_peer_saw_everything_closed");
  }
  if (tgt && S.tk == TK::Blackhole)
  {
    size_t open = tgt->drainBlackholeOpen(3000);
    if (open) suspect(idx, "C04:connection-left-behind:blackhole", "client side of a black-holed attempt still open after the call timed out", "{\"open\":" + std::to_string(open) + "}");
    else O.obs("batches_peer_saw_everything_closed");
  }

  // ---- (D) global callbacks only for ids that were handed out
  vf::sleepMs(2);
  auto stats = t->getStats();
  {
    std::lock_guard<std::mutex> g(st->m);
    size_t asyncConnected = 0;
    for (auto &e : st->evs) if (e.kind == 0 && asyncIds.count(e.sid)) asyncConnected++;
    // engine-level completions that lost against the timeout: the engine fired its onConnect
    // (stats.connected) but neither a caller nor the global callback received the session
    uint64_t handed = nOk + asyncConnected + (holdA ? 1 : 0);
    uint64_t lateCompletions = stats.connected > handed ? stats.connected - handed : 0;
    if (lateCompletions) O.obs("collision_timeout_won_after_completion", lateCompletions);
    uint64_t leaks = 0;
    for (auto &e : st->evs)
    {
      if (e.kind == 0)
      {
        if (asyncIds.count(e.sid)) O.obs("global_onConnect_for_async_connect");
        else
          O.viol("C04:global-onConnect:id-never-returned", "global onConnect fired for a session id that no connect()/successful connectSync returned",
                 "{\"target\":\"" + std::string(S.name) + "\",\"sid\":" + std::to_string(e.sid) + ",\"handed_out\":" + (okBySid.count(e.sid) ? "true" : "false") + "}");
      }
      else if (e.kind == 1)
      {
        if (okBySid.count(e.sid) || asyncIds.count(e.sid) || (holdA && e.sid == holdA)) { O.obs("global_onClose_for_handed_out_id"); continue; }
        leaks++;
        // history shape: a leak is "explained" by a completion that arrived after the caller's
        // timeout (it erased the waiter record, so the close that follows is no longer suppressed);
        // at most one leak per such completion. Any further leak has another cause.
        std::string key = leaks <= lateCompletions ? "C04:global-onClose:id-never-returned:completed-after-timeout"
                                                   : "C04:global-onClose:id-never-returned:no-late-completion:" + reasonClass(e.code, e.msg);
        O.viol(key, "global onClose fired for a session id that connectSync never handed to its caller",
               "{\"target\":\"" + std::string(S.name) + "\",\"sid\":" + std::to_string(e.sid) + ",\"reason\":" + vf::jstr(e.msg.substr(0, 100)) + ",\"code\":\"" + errName(e.code) +
                 "\",\"prepark_us\":" + std::to_string(prePark) + ",\"callers\":" + std::to_string(nCallers) + ",\"completions_after_timeout_in_batch\":" + std::to_string(lateCompletions) + "}");
      }
    }
    if (lateCompletions > leaks) O.obs("late_completions_closed_silently", lateCompletions - leaks);
  }
  O.obs("batches");
  // ---- teardown
  t->stop();
  t.reset();
  tgt.reset();
}


// ------------------------------------------------------------------------------ teardown-racing batch
// connectSync callers parked (or about to park) on an ACCEPTING target while another thread stops or
// destroys the transport, with the I/O thread held inside slow global onConnect callbacks of
// asynchronous connects so that the callers' Connect commands are still queued when teardown begins.
// Judged by the same rules: global callbacks only for ids that were handed out, nothing left open.
static void runTeardownBatch(uint64_t seed, uint64_t idx, vfnet::Pki &pki)
{
  (void)pki;
  auto &O = vf::out();
  vf::Rng rng(seed, idx ^ 0x7ea4d07ull);
  const char *scn = "teardown-racing";
  g_curScn = scn;
  O.line("{\"t\":\"begin\",\"idx\":" + std::to_string(idx) + ",\"scn\":\"" + scn + "\"}");
  bool destroy = rng.chance(0.65);
  int nCallers = int(rng.range(1, 6));
  int nAsync = int(rng.range(1, 3));
  uint32_t holdUs = uint32_t(rng.range(300, 5000));
  std::unique_ptr<vfnet::Target> tgt(new vfnet::Target(TK::Accept, nullptr, seed * 31 + idx));
  auto st = std::make_shared<BatchState>();
  TransportConfig cfg;
  auto t = Transport::tcp(cfg);
  t->onConnect([st, holdUs](SessionId sid, const TransportAddress &) {
    { std::lock_guard<std::mutex> g(st->m); st->evs.push_back({0, sid, vf::nowNs(), 0, ""}); }
    vf::sleepMs(double(holdUs) / 1000.0); // slow user callback: everything queued behind it waits
  });
  // a non-instant user onClose (seeded 1-50 ms for the stop kind) keeps the shutdown drain busy after its
  // last pass over the command queue, while callers keep entering connectSync
  uint32_t closeUs = destroy ? 0 : uint32_t(rng.range(1000, 50000));
  t->onClose([st, closeUs](SessionId sid, const TransportErrorInfo &r) {
    { std::lock_guard<std::mutex> g(st->m); st->evs.push_back({1, sid, vf::nowNs(), int(r.code), r.message}); }
    if (closeUs) vf::sleepMs(double(closeUs) / 1000.0);
  });
  t->onData([st](SessionId sid, iora::core::BufferView d, std::chrono::steady_clock::time_point) { std::lock_guard<std::mutex> g(st->m); st->data[sid].append((const char *)d.data(), d.size()); });
  if (!t->start().isOk()) { O.inconclusive("transport start failed"); return; }
  Transport *raw = t.get();
  std::atomic<bool> stopBegun{false}, stopReturned{false};
  std::atomic<int> tdMode{0}; // 0 undecided, 1 destroy, 2 stop — decided by the main thread right before teardown
  std::atomic<uint64_t> burstCalls{0}, burstShut{0}, burstOk{0};
  std::mutex burstM; std::vector<CallRec> burstRecs;
  uint64_t base = t->getStats().commands;
  std::set<uint64_t> asyncIds;
  for (int i = 0; i < nAsync; i++) { auto r = t->connect("127.0.0.1", tgt->port(), TlsMode::None); if (r.isOk()) asyncIds.insert(r.value()); }
  std::vector<CallRec> recs(static_cast<size_t>(nCallers));
  std::vector<std::unique_ptr<CallReg>> regs;
  for (int i = 0; i < nCallers; i++) regs.emplace_back(new CallReg());
  { std::lock_guard<std::mutex> g(g_regsM); g_regs = &regs; }
  std::vector<std::thread> th;
  std::vector<uint32_t> startUs;
  for (int i = 0; i < nCallers; i++) startUs.push_back(uint32_t(rng.below(holdUs / 2 + 1)));
  uint16_t port = tgt->port();
  for (int ci = 0; ci < nCallers; ci++)
    th.emplace_back([&, ci] {
      vf::sleepMs(double(startUs[size_t(ci)]) / 1000.0);
      CallRec &c = recs[size_t(ci)];
      c.caller = ci; c.timeoutMs = 5000;
      auto &reg = *regs[size_t(ci)];
      reg.timeoutMs = c.timeoutMs; reg.api = 0; reg.since = vf::nowNs(); reg.active = 1;
      c.t0 = vf::nowNs();
      try
      {
        // raw pointer: a caller that co-owned the transport would keep it alive (no destruction to race)
        ConnectResult res = raw->connectSync("127.0.0.1", port, TlsMode::None, std::chrono::milliseconds(c.timeoutMs));
        c.t1 = vf::nowNs();
        if (res.isOk()) { c.ok = true; c.sid = res.value(); }
        else { c.code = int(res.error().code); c.msg = res.error().message; }
      }
      catch (const std::exception &ex) { c.t1 = vf::nowNs(); c.threw = true; c.msg = ex.what(); }
      reg.active = 0;
      // stop kind: keep ENTERING connectSync from the moment stop() began until it has returned (+2)
      while (tdMode.load() == 0) vf::sleepMs(0.05);
      if (tdMode.load() == 2)
      {
        vf::Rng r(seed * 977 + idx * 31 + uint64_t(ci));
        while (!stopBegun.load()) vf::sleepMs(0.05);
        int after = 2;
        for (;;)
        {
          if (stopReturned.load() && after-- <= 0) break;
          CallRec b; b.caller = ci; b.timeoutMs = uint32_t(r.range(5, 80));
          reg.timeoutMs = b.timeoutMs; reg.api = 0; reg.since = vf::nowNs(); reg.active = 1;
          b.t0 = vf::nowNs();
          try
          {
            ConnectResult res = raw->connectSync("127.0.0.1", port, TlsMode::None, std::chrono::milliseconds(b.timeoutMs));
            b.t1 = vf::nowNs();
            if (res.isOk()) { b.ok = true; b.sid = res.value(); }
            else { b.code = int(res.error().code); b.msg = res.error().message; }
          }
          catch (const std::exception &ex) { b.t1 = vf::nowNs(); b.threw = true; b.msg = ex.what(); }
          reg.active = 0;
          burstCalls++;
          { std::lock_guard<std::mutex> g(burstM); burstRecs.push_back(b); }
          if (r.chance(0.5)) vf::sleepMs(0.02 * double(r.below(10)));
        }
      }
    });
  // teardown moment
  bool allEnqueued = false;
  if (destroy)
  {
    // a destroying teardown may only race callers the transport already counts: every caller has
    // enqueued its Connect (commands counter) and one pass through the sync lock proves the last
    // one has parked (connectSync holds that lock from before the enqueue until it waits)
    uint64_t until = vf::nowNs() + 6000000000ull;
    while (vf::nowNs() < until) { if (t->getStats().commands >= base + uint64_t(nAsync) + uint64_t(nCallers)) { allEnqueued = true; break; } vf::sleepMs(0.05); }
    ReadMode rm; (void)t->getReadMode(0, rm);
    if (!allEnqueued) { destroy = false; } // fall back to stop(): the object then outlives every caller
  }
  else vf::sleepMs(double(rng.below(holdUs * uint64_t(nAsync) + 1)) / 1000.0);
  if (rng.chance(0.5)) vf::sleepMs(double(rng.below(holdUs)) / 1000.0);
  uint64_t td0 = vf::nowNs();
  tdMode = destroy ? 1 : 2;
  if (destroy) { t.reset(); O.obs("teardown_racing_destroyed_with_callers_parked"); }
  else { stopBegun = true; t->stop(); stopReturned = true; O.obs("teardown_racing_stopped"); }
  uint64_t td1 = vf::nowNs();
  for (auto &x : th) x.join();
  { std::lock_guard<std::mutex> g(g_regsM); g_regs = nullptr; }
  if (t) t.reset();
  O.obsMax("teardown_racing_max_teardown_ms", (td1 - td0) / 1000000ull);

  std::set<uint64_t> okIds;
  size_t nOk = 0;
  for (auto &c : recs)
  {
    std::string cls = c.threw ? "exception" : c.ok ? "ok" : (c.code == int(TransportError::Unknown) && c.msg == "shutdown") ? "closed-by-shutdown" : errName(c.code);
    O.obs("teardown_racing_returned_" + cls);
    if (c.threw) O.viol("C04:exception:teardown-racing", "connectSync threw: " + c.msg, callJson(scn, c));
    else if (c.ok) { nOk++; if (!okIds.insert(c.sid).second) O.viol("C04:duplicate-session-id", "two successful calls returned the same session id", callJson(scn, c)); }
    else if (!(cls == "ShuttingDown" || cls == "closed-by-shutdown"))
      O.viol("C04:unexpected-error:teardown-racing:" + cls, "connectSync against an accepting target, interrupted by teardown, returned an error neither the target nor the teardown can produce", callJson(scn, c));
    char sg[96];
    snprintf(sg, sizeof sg, "teardown-racing|%d|%s|%d", destroy ? 1 : 0, cls.c_str(), nCallers > 2);
    O.caseSig(vf::fnv(sg));
    O.sample(callJson(scn, c));
  }
  for (auto &b : burstRecs)
  {
    std::string cls = b.threw ? "exception" : b.ok ? "ok" : (b.code == int(TransportError::Unknown) && b.msg == "shutdown") ? "closed-by-shutdown" : errName(b.code);
    O.obs("teardown_racing_burst_returned_" + cls);
    if (b.threw) O.viol("C04:exception:teardown-racing", "connectSync threw: " + b.msg, callJson(scn, b));
    else if (b.ok) okIds.insert(b.sid);
    else if (!(cls == "ShuttingDown" || cls == "closed-by-shutdown" || cls == "Timeout"))
      O.viol("C04:unexpected-error:teardown-racing:" + cls, "connectSync entered while stop() was draining returned an error neither the target nor the teardown can produce", callJson(scn, b));
    double el = double(b.t1 - b.t0) / 1e6;
    if (el > double(b.timeoutMs) + 500.0 + 0.5 * double(b.timeoutMs) + double(closeUs) / 1000.0 * double(nAsync + nCallers + 2) && g_hb->maxGapNs(b.t0, b.t1) < kStarveNs)
      suspect(idx, "C04:late-return:teardown-racing:connectSync", "connectSync entered while stop() was draining returned later than timeout + slack", callJson(scn, b));
    char sg[96];
    snprintf(sg, sizeof sg, "teardown-racing|burst|%s", cls.c_str());
    O.caseSig(vf::fnv(sg));
  }
  if (!burstRecs.empty()) O.obs("teardown_racing_connectSync_entered_while_stop_drains", burstRecs.size());
  O.obs("calls", uint64_t(nCallers) + burstRecs.size());
  O.obs("calls_teardown-racing", uint64_t(nCallers) + burstRecs.size());
  // nothing left behind at the peer
  {
    uint64_t tq = vf::nowNs(), hard = tq + 10000000000ull;
    size_t open = 0; bool settled = false;
    for (;;)
    {
      open = 0;
      for (auto &ci : tgt->snapshot()) if (ci.closeHow == 0) open++;
      uint64_t now = vf::nowNs();
      if (open == 0 && now - std::max(tgt->lastAcceptNs(), tq) > 40000000ull) { settled = true; break; }
      if (now > hard) break;
      vf::sleepMs(1);
    }
    if (!settled) suspect(idx, "C04:connection-left-behind:teardown-racing", "a peer-side connection is still open 10 s after the transport was destroyed", "{\"open\":" + std::to_string(open) + "}");
    else O.obs("batches_peer_saw_everything_closed");
  }
  // global callbacks only for ids that were handed out
  {
    std::lock_guard<std::mutex> g(st->m);
    size_t asyncConnected = 0;
    for (auto &e : st->evs)
    {
      if (e.kind == 0)
      {
        if (asyncIds.count(e.sid)) { asyncConnected++; O.obs("global_onConnect_for_async_connect"); }
        else O.viol("C04:global-onConnect:id-never-returned", "global onConnect fired for a session id that no connect()/successful connectSync returned",
                    "{\"target\":\"teardown-racing\",\"sid\":" + std::to_string(e.sid) + ",\"destroy\":" + (destroy ? "true" : "false") + "}");
      }
      else if (e.kind == 1)
      {
        if (okIds.count(e.sid) || asyncIds.count(e.sid)) O.obs("global_onClose_for_handed_out_id");
        else O.viol("C04:global-onClose:id-never-returned:teardown-racing:" + reasonClass(e.code, e.msg),
                    "global onClose fired for a session id that connectSync never handed to its caller (the call was interrupted by teardown)",
                    "{\"sid\":" + std::to_string(e.sid) + ",\"reason\":" + vf::jstr(e.msg.substr(0, 100)) + ",\"code\":\"" + errName(e.code) + "\",\"destroy\":" + (destroy ? "true" : "false") +
                      ",\"callers\":" + std::to_string(nCallers) + ",\"slow_onConnect_us\":" + std::to_string(holdUs) + "}");
      }
    }
    // connects that completed (the peer accepted them) for callers that had already been sent away
    size_t accepted = tgt->accepted();
    if (accepted > nOk + asyncConnected) O.obs("teardown_racing_connects_completed_after_caller_gave_up", accepted - nOk - asyncConnected);
  }
  O.obs("teardown_racing_batches");
  O.obs("batches");
  tgt.reset();
}


// ------------------------------------------------------------------------------ reused-descriptor batch
// Schedule family "event collected for a descriptor that has been closed and handed out again":
//   caller 1 : connectSync(LATE, T1) — LATE is a listen(fd,0) socket with a full accept queue, so the SYN is
//              dropped; the call times out and queues Close(A) while the I/O thread sits in a slow onData of
//              an unrelated session; the harness then empties LATE's queue, so A's handshake completes on the
//              SYN retransmit (about 1 s) and A's descriptor has a writability event pending;
//   callers 2: connectSync(BLACK HOLE, T2) queue Connect(B..) behind Close(A);
//   release  : the slow callback returns; one epoll_wait() hands out [eventfd, A's descriptor]; the command
//              batch closes A's descriptor and the first Connect gets the same number back, towards a target
//              that never answers. Whatever the engine does with the stale event, the black hole never
//              accepts: any ok(sid) for it is a violation (same rule as every black-hole batch).
// One batch costs 2.5-3.5 s of wall time: the Python side runs a handful in their own processes, in parallel
// with the rest of the tier.
struct LateListener
{
  int fd = -1; uint16_t port = 0; int filler = -1; std::vector<int> accepted; bool verified = false;
  LateListener()
  {
    fd = vfnet::bindLoopback(SOCK_STREAM, port);
    ::listen(fd, 0);
    filler = vfnet::connectNonblock(port);
    vf::sleepMs(5);
    int probe = vfnet::connectNonblock(port);
    pollfd p{probe, POLLOUT, 0};
    verified = ::poll(&p, 1, 40) == 0; // still SYN_SENT: further SYNs are being dropped
    ::close(probe);
    vfnet::setNonblock(fd);
  }
  size_t drain() { for (;;) { int c = ::accept4(fd, nullptr, nullptr, SOCK_NONBLOCK | SOCK_CLOEXEC); if (c < 0) break; accepted.push_back(c); } return accepted.size(); }
  // connections (other than the filler) that the client side has not closed yet
  size_t stillOpen()
  {
    size_t open = 0;
    for (size_t i = 1; i < accepted.size(); i++)
    {
      char b[64];
      ssize_t n = ::recv(accepted[i], b, sizeof b, MSG_DONTWAIT);
      if (n < 0 && (errno == EAGAIN || errno == EWOULDBLOCK)) open++;
    }
    return open;
  }
  ~LateListener() { for (int c : accepted) ::close(c); if (filler >= 0) ::close(filler); if (fd >= 0) ::close(fd); }
};

static void runReusedFdBatch(uint64_t seed, uint64_t idx)
{
  auto &O = vf::out();
  vf::Rng rng(seed, idx ^ 0x5eedfd5ull);
  const char *scn = "reused-fd-blackhole";
  g_curScn = scn;
  O.line("{\"t\":\"begin\",\"idx\":" + std::to_string(idx) + ",\"scn\":\"" + scn + "\"}");
  uint32_t T1 = uint32_t(rng.range(350, 750));             // caller 1: expires before the SYN retransmit
  uint32_t holdAtMs = uint32_t(rng.range(80, 200));        // the unrelated session's slow callback begins
  uint32_t openAtMs = uint32_t(rng.range(780, 880));       // LATE's accept queue is emptied (after caller 1 gave up)
  uint32_t afterLateMs = uint32_t(rng.range(20, 250));     // slow callback returns this long after A completed
  int nB = int(rng.range(1, 3));
  uint32_t T2 = uint32_t(rng.range(1300, 1700));
  vfnet::Target tgtS(TK::Accept, nullptr, seed + idx);
  vfnet::Target bh(TK::Blackhole, nullptr, seed + idx + 1);
  LateListener late;
  if (!bh.blackholeVerified() || !late.verified) { O.obs("reused_fd_setup_failed"); return; }
  auto st = std::make_shared<BatchState>();
  auto holdFlag = std::make_shared<std::atomic<bool>>(false);
  auto t = Transport::tcp(TransportConfig{});
  t->onConnect([st](SessionId sid, const TransportAddress &) { std::lock_guard<std::mutex> g(st->m); st->evs.push_back({0, sid, vf::nowNs(), 0, ""}); });
  t->onClose([st](SessionId sid, const TransportErrorInfo &r) { std::lock_guard<std::mutex> g(st->m); st->evs.push_back({1, sid, vf::nowNs(), int(r.code), r.message}); });
  t->onData([st, holdFlag](SessionId sid, iora::core::BufferView, std::chrono::steady_clock::time_point) {
    if (sid != st->holdSid.load()) return;
    st->holds++;
    uint64_t until = vf::nowNs() + 4000000000ull;
    while (holdFlag->load() && vf::nowNs() < until) vf::sleepMs(0.5); // a busy user handler
  });
  if (!t->start().isOk()) { O.inconclusive("transport start failed"); return; }
  auto rs = t->connectSync("127.0.0.1", tgtS.port(), TlsMode::None, std::chrono::milliseconds(5000));
  if (!rs.isOk()) { O.inconclusive("reused-fd: holder session failed"); t->stop(); return; }
  SessionId S = rs.value();
  st->holdSid = S;
  std::vector<CallRec> recs(size_t(1 + nB));
  std::vector<std::unique_ptr<CallReg>> regs;
  for (int i = 0; i < 1 + nB; i++) regs.emplace_back(new CallReg());
  { std::lock_guard<std::mutex> g(g_regsM); g_regs = &regs; }
  auto call = [&](int ci, uint16_t port, uint32_t ms) {
    CallRec &c = recs[size_t(ci)];
    c.caller = ci; c.timeoutMs = ms;
    auto &reg = *regs[size_t(ci)];
    reg.timeoutMs = ms; reg.api = 0; reg.since = vf::nowNs(); reg.active = 1;
    c.t0 = vf::nowNs();
    try
    {
      auto r = t->connectSync("127.0.0.1", port, TlsMode::None, std::chrono::milliseconds(ms));
      c.t1 = vf::nowNs();
      if (r.isOk()) { c.ok = true; c.sid = r.value(); c.lport = t->getLocalAddress(c.sid).port; }
      else { c.code = int(r.error().code); c.msg = r.error().message; }
    }
    catch (const std::exception &ex) { c.t1 = vf::nowNs(); c.threw = true; c.msg = ex.what(); }
    reg.active = 0;
  };
  auto sleepUntil = [](uint64_t ns) { while (vf::nowNs() < ns) vf::sleepMs(0.5); };
  uint64_t t0 = vf::nowNs();
  std::thread c1([&] { call(0, late.port, T1); });
  sleepUntil(t0 + uint64_t(holdAtMs) * 1000000ull);
  *holdFlag = true;
  t->send(S, "h", 1);
  { uint64_t until = vf::nowNs() + 300000000ull; while (st->holds.load() == 0 && vf::nowNs() < until) vf::sleepMs(0.5); }
  bool held = st->holds.load() > 0;
  c1.join(); // about t0 + T1: Close(A) is queued, the I/O thread is still in the handler
  vf::sleepMs(double(rng.range(20, 70)));
  std::vector<std::thread> c2;
  for (int i = 0; i < nB; i++) c2.emplace_back([&, i] { call(1 + i, bh.port(), T2); });
  sleepUntil(t0 + uint64_t(openAtMs) * 1000000ull);
  late.drain(); // the filler leaves the queue: the next SYN retransmit of A is answered
  bool lateDone = false;
  { uint64_t until = t0 + 2200000000ull; while (vf::nowNs() < until) { if (late.drain() >= 2) { lateDone = true; break; } vf::sleepMs(1); } }
  uint64_t lateAt = vf::nowNs();
  vf::sleepMs(double(afterLateMs));
  *holdFlag = false; // the handler returns: epoll_wait() now reports the eventfd and A's descriptor together
  for (auto &x : c2) x.join();
  { std::lock_guard<std::mutex> g(g_regsM); g_regs = nullptr; }

  O.obs("reused_fd_batches");
  if (held) O.obs("reused_fd_io_thread_held_in_slow_onData");
  if (lateDone) { O.obs("reused_fd_abandoned_handshake_completed_late_at_peer"); O.obsMax("reused_fd_late_completion_ms_after_call", (lateAt - t0) / 1000000ull); }
  const CallRec &a = recs[0];
  if (!a.ok && a.code == int(TransportError::Timeout)) O.obs("reused_fd_caller1_timed_out_with_connect_pending");
  if (held && lateDone && !a.ok && a.code == int(TransportError::Timeout)) O.obs("reused_fd_schedule_preconditions_met");
  for (size_t i = 0; i < recs.size(); i++)
  {
    const CallRec &c = recs[i];
    std::string rc = c.threw ? "exception" : c.ok ? "ok" : errName(c.code);
    O.obs(std::string("reused_fd_") + (i == 0 ? "late_target_result_" : "blackhole_result_") + rc);
    O.obs("calls"); O.obs(std::string("calls_") + scn);
    if (c.threw) O.viol(std::string("C04:exception:") + scn, "connectSync threw: " + c.msg, callJson(scn, c));
    if (i > 0)
    {
      if (c.ok)
        O.viol(std::string("C04:ok-for-failing-target:") + scn,
               "connectSync returned ok(sid) for a black hole (listen backlog full, no SYN is ever answered): the session never completed a TCP handshake",
               "{\"call\":" + callJson(scn, c) + ",\"black_hole_accepted\":" + std::to_string(bh.accepted()) + ",\"caller1_timeout_ms\":" + std::to_string(T1) +
                 ",\"late_completion_ms\":" + std::to_string((lateAt - t0) / 1000000ull) + ",\"handler_returned_ms_after_that\":" + std::to_string(afterLateMs) + "}");
      else if (c.code != int(TransportError::Timeout))
        O.viol(std::string("C04:unexpected-error:") + scn + ":" + errName(c.code), "connectSync to a black hole returned an error a black hole cannot produce", callJson(scn, c));
      double el = double(c.t1 - c.t0) / 1e6;
      if (el > double(c.timeoutMs) + 500.0 + 0.5 * double(c.timeoutMs) && g_hb->maxGapNs(c.t0, c.t1) < kStarveNs)
        suspect(idx, std::string("C04:late-return:") + scn + ":connectSync", "connectSync returned later than timeout + slack although only ANOTHER session's handler was slow", callJson(scn, c));
    }
    char sg[96];
    snprintf(sg, sizeof sg, "%s|%zu|%s|%d|%d", scn, i ? size_t(1) : size_t(0), rc.c_str(), lateDone ? 1 : 0, nB);
    O.caseSig(vf::fnv(sg));
    O.sample(callJson(scn, c));
  }
  // quiesce: everything that was handed out gets closed, nothing may stay open at the late target
  for (auto &c : recs) if (c.ok) t->close(c.sid);
  t->close(S);
  ioBarrier(*t);
  {
    uint64_t until = vf::nowNs() + 10000000000ull; size_t open = 0;
    for (;;) { late.drain(); open = late.stillOpen(); if (!open || vf::nowNs() > until) break; vf::sleepMs(2); }
    if (open) suspect(idx, std::string("C04:connection-left-behind:") + scn, "the abandoned attempt that completed late is still open at the peer 10 s after the client went idle", "{\"open\":" + std::to_string(open) + "}");
    else O.obs("batches_peer_saw_everything_closed");
  }
  {
    std::set<uint64_t> okIds; okIds.insert(S);
    for (auto &c : recs) if (c.ok) okIds.insert(c.sid);
    std::lock_guard<std::mutex> g(st->m);
    for (auto &e : st->evs)
    {
      if (e.kind == 0) O.viol("C04:global-onConnect:id-never-returned", "global onConnect fired for a session id that no connect()/successful connectSync returned", "{\"target\":\"reused-fd-blackhole\",\"sid\":" + std::to_string(e.sid) + "}");
      else if (e.kind == 1 && !okIds.count(e.sid))
        O.viol("C04:global-onClose:id-never-returned:" + std::string(scn) + ":" + reasonClass(e.code, e.msg), "global onClose fired for a session id that connectSync never handed to its caller", "{\"sid\":" + std::to_string(e.sid) + ",\"reason\":" + vf::jstr(e.msg.substr(0, 100)) + "}");
      else if (e.kind == 1) O.obs("global_onClose_for_handed_out_id");
    }
  }
  O.obs("batches");
  t->stop();
  t.reset();
}

int main(int argc, char **argv)
{
  vf::Args A(argc, argv);
  vfnet::ignoreSigpipe();
  uint64_t seed = A.u("seed", 1), from = A.u("from", 0), count = A.u("count", 1);
  g_isolated = A.u("isolated", 0) != 0;
  int onlyScn = A.has("scn") ? int(A.u("scn", 0)) : -1;
  std::string tmp = A.s("tmp", "/tmp");
  std::string mode = A.s("mode", "batch");
  vfnet::Pki pki;
  pki.generate(tmp);
  g_progressNs = vf::nowNs();
  vfnet::Heartbeat hb;
  g_hb = &hb;
  // watchdog: a call that is still out 30 s after its own timeout is not slow, it is stuck
  std::atomic<bool> done{false};
  std::thread wd([&] {
    while (!done.load())
    {
      vf::sleepMs(100);
      uint64_t now = vf::nowNs();
      {
        std::lock_guard<std::mutex> g(g_regsM);
        if (g_regs)
          for (auto &r : *g_regs)
          {
            if (!r->active.load()) continue;
            uint64_t since = r->since.load();
            uint64_t n2 = vf::nowNs();
            if (n2 > since && n2 - since > (uint64_t(r->timeoutMs.load()) + 30000ull) * 1000000ull && r->active.load() && r->since.load() == since)
            {
              vf::out().line("{\"t\":\"stuck\",\"idx\":" + std::to_string(g_curIdx.load()) + ",\"key\":\"C04:call-never-returned:" + std::string(g_curScn.load()) + ":" +
                             (r->api.load() ? "connectSyncCancellable" : "connectSync") + "\",\"timeout_ms\":" + std::to_string(r->timeoutMs.load()) + "}");
              vf::out().flush();
              _exit(4);
            }
          }
      }
      uint64_t prog = g_progressNs.load();
      uint64_t n3 = vf::nowNs();
      (void)now;
      if (n3 > prog && n3 - prog > 240ull * 1000000000ull)
      {
        vf::out().line("{\"t\":\"stuck\",\"idx\":" + std::to_string(g_curIdx.load()) + ",\"key\":\"C04:batch-no-progress:" + std::string(g_curScn.load()) + "\"}");
        vf::out().flush();
        _exit(4);
      }
    }
  });
  for (uint64_t i = from; i < from + count; i++)
  {
    g_curIdx = int64_t(i);
    g_progressNs = vf::nowNs();
    if (mode == "reusedfd") { runReusedFdBatch(seed, i); continue; }
    vf::Rng kindPick(seed, i * 2654435761ull + 17);
    if (onlyScn == 99 || (onlyScn < 0 && kindPick.chance(0.12))) runTeardownBatch(seed, i, pki);
    else runBatch(seed, i, pki, onlyScn);
  }
#if !VF_TSAN
  vf::out().obs("condvar_waits_seen_by_shim", vf::shim::condvarPolicy().waits.load());
  vf::out().obs("condvar_prepark_delays", vf::shim::condvarPolicy().delayed.load());
#endif
  vf::out().obs("resolver_calls_scripted", vf::shim::resolvePolicy().scripted.load());
  vf::out().flush();
  pki.cleanup();
  done = true;
  wd.join();
  return 0;
}
