// C10 harness: BlockingQueue and SPSC ring buffers under hostile schedules.
// The oracle lives here (unique items -> exactly-once / order / conservation / stuck callers);
// under -fsanitize=thread the same workloads make TSan the oracle for the memory-model clause.
#define VF_SHIM_CONDVAR
#include "shim/shims.hpp"
#include "vf.hpp"

#include <iora/core/blocking_queue.hpp>
#include <iora/core/ring_buffer.hpp>

#include <algorithm>
#include <memory>

using iora::core::BlockingQueue;
using iora::core::DynamicRingBuffer;
using iora::core::RingBuffer;

struct Item
{
  uint32_t producer = 0;
  uint32_t seq = 0;
  uint64_t check = 0;
  static uint64_t mk(uint32_t p, uint32_t s) { return vf::shim::mix((uint64_t(p) << 32) | s); }
  bool ok() const { return check == mk(producer, seq); }
};

// ------------------------------------------------------------------------------ BlockingQueue
struct CallReg
{
  std::atomic<int> op{0};          // 0 none, 1 blocking put, 2 blocking take, 3 timed put, 4 timed take
  std::atomic<uint64_t> sinceNs{0};
};

struct BqScenario
{
  BlockingQueue<Item> *q = nullptr;
  size_t cap = 0;
  int P = 0, C = 0;
  std::atomic<bool> closeReturned{false};
  std::atomic<uint64_t> closeReturnNs{0};
  std::atomic<uint64_t> puts{0}, takes{0};
  std::atomic<int> running{0};
  std::vector<std::unique_ptr<CallReg>> regs;
  std::vector<std::vector<Item>> accepted; // per producer
  std::vector<std::vector<Item>> taken;    // per consumer
  std::atomic<uint64_t> blockedFull{0}, blockedEmpty{0}, timedOut{0}, refusedAfterClose{0};
  std::atomic<uint64_t> maxSizeSeen{0};
  std::atomic<bool> lateAccept{false};
  // stamps for "a take came back empty-handed although an item was in the queue during the whole call":
  // put return time per accepted item, take call time per taken item, (call, return, kind) per failed take
  std::vector<std::vector<uint64_t>> acceptedRetNs, takenCallNs;
  struct FailedTake { uint64_t callNs, retNs; int kind; }; // kind 2 dequeue 4 dequeue(timeout) 5 tryDequeue
  std::vector<std::vector<FailedTake>> failedTakes;
  // and for "a put was refused although the queue was open and never full during the whole call":
  // put call time per accepted item, take return time per taken item, (call, return, kind) per refused put
  std::vector<std::vector<uint64_t>> acceptedCallNs, takenRetNs;
  std::vector<std::vector<FailedTake>> failedPuts; // kind 1 queue 3 tryQueue(timeout) 6 tryQueue
  std::atomic<uint64_t> closeCallNs{0};
};

static bool runBq(uint64_t seed, uint64_t idx)
{
  auto &O = vf::out();
  vf::Rng rng(seed, idx);
  auto S = new BqScenario(); // leaked on purpose when a caller is stuck
  static const size_t caps[] = {1, 1, 2, 3, 8, 64};
  S->cap = caps[rng.below(6)];
  S->P = int(rng.range(1, 6));
  S->C = int(rng.range(1, 6));
  if (rng.chance(0.25)) { S->P = 1; S->C = 1; }
  S->q = new BlockingQueue<Item>(S->cap);
  int opsPerProducer = int(rng.range(20, 400));
  // close moment: a fraction of the expected total puts; sometimes while producers still run,
  // sometimes after they all finished (consumers parked on empty), sometimes immediately
  int closeKind = int(rng.below(4)); // 0 early 1 mid 2 after-producers 3 consumers-parked-first
  uint64_t closeAfterPuts = closeKind == 0 ? rng.below(5) : closeKind == 1 ? rng.below(uint64_t(opsPerProducer) * S->P + 1) : ~0ull;
  uint32_t parkDelay = uint32_t(rng.below(4) == 0 ? 0 : rng.range(50, 3000));
  bool lazyConsumers = rng.chance(0.35); // consumers stop at close without draining: items must stay retrievable
#if !VF_TSAN
  vf::shim::condvarPolicy().seed = seed * 7919 + idx;
  vf::shim::condvarPolicy().permille = uint32_t(rng.range(100, 1000));
  vf::shim::condvarPolicy().maxDelayUs = parkDelay;
#endif
  S->accepted.resize(S->P);
  S->taken.resize(S->C);
  S->acceptedRetNs.resize(S->P); S->takenCallNs.resize(S->C); S->failedTakes.resize(S->C);
  S->acceptedCallNs.resize(S->P); S->takenRetNs.resize(S->C); S->failedPuts.resize(S->P);
  for (int i = 0; i < S->P + S->C; i++) S->regs.emplace_back(new CallReg());
  S->running = S->P + S->C;
  std::atomic<int> producersRunning{S->P};
  std::atomic<bool> go{false};
  std::vector<std::thread> th;
  std::vector<uint64_t> pseeds, cseeds;
  for (int p = 0; p < S->P; p++) pseeds.push_back(rng.next());
  for (int c = 0; c < S->C; c++) cseeds.push_back(rng.next());

  for (int p = 0; p < S->P; p++)
    th.emplace_back([S, p, opsPerProducer, &go, &producersRunning, s = pseeds[p]]() {
      vf::Rng r(s);
      while (!go.load()) std::this_thread::yield();
      auto &reg = *S->regs[p];
      for (int k = 0; k < opsPerProducer; k++)
      {
        Item it; it.producer = uint32_t(p); it.seq = uint32_t(k); it.check = Item::mk(it.producer, it.seq);
        bool closedBefore = S->closeReturned.load();
        int kind = int(r.below(10));
        bool ok;
        uint64_t putCallNs = vf::nowNs();
        if (S->q->full()) S->blockedFull++;
        if (kind < 5) { reg.sinceNs = vf::nowNs(); reg.op = 1; ok = r.chance(0.5) ? S->q->queue(it) : S->q->queue(Item(it)); reg.op = 0; }
        else if (kind < 8)
        {
          reg.sinceNs = vf::nowNs(); reg.op = 3;
          ok = S->q->tryQueue(it, std::chrono::milliseconds(r.below(3)));
          reg.op = 0;
          if (!ok) S->timedOut++;
        }
        else ok = r.chance(0.5) ? S->q->tryQueue(it) : S->q->tryQueue(Item(it));
        if (ok)
        {
          S->accepted[p].push_back(it);
          S->acceptedRetNs[p].push_back(vf::nowNs());
          S->acceptedCallNs[p].push_back(putCallNs);
          S->puts++;
          if (closedBefore) S->lateAccept = true; // put accepted although close() had returned before the call
        }
        else if (closedBefore) S->refusedAfterClose++;
        if (!ok) S->failedPuts[p].push_back({putCallNs, vf::nowNs(), kind < 5 ? 1 : kind < 8 ? 3 : 6});
        uint64_t sz = S->q->size();
        uint64_t m = S->maxSizeSeen.load();
        while (sz > m && !S->maxSizeSeen.compare_exchange_weak(m, sz)) {}
        if (r.chance(0.05)) vf::sleepMs(0.05 * double(r.below(20)));
        if (S->closeReturned.load() && r.chance(0.3)) break; // a few more refused puts, then stop
      }
      producersRunning--;
      S->running--;
    });
  for (int c = 0; c < S->C; c++)
    th.emplace_back([S, c, &go, lazyConsumers, s = cseeds[c]]() {
      vf::Rng r(s);
      while (!go.load()) std::this_thread::yield();
      auto &reg = *S->regs[S->P + c];
      int emptyAfterClose = 0;
      for (;;)
      {
        Item it;
        int kind = int(r.below(10));
        bool ok;
        bool closedBefore = S->closeReturned.load();
        if (closedBefore && lazyConsumers) break;
        uint64_t takeCallNs = vf::nowNs();
        if (kind < 5)
        {
          if (S->q->empty()) S->blockedEmpty++;
          reg.sinceNs = vf::nowNs(); reg.op = 2; ok = S->q->dequeue(it); reg.op = 0;
          if (!ok) { S->failedTakes[c].push_back({takeCallNs, vf::nowNs(), 2}); break; } // closed and empty
        }
        else if (kind < 8)
        {
          reg.sinceNs = vf::nowNs(); reg.op = 4; ok = S->q->dequeue(it, std::chrono::milliseconds(r.below(3))); reg.op = 0;
          if (!ok) S->timedOut++;
        }
        else ok = S->q->tryDequeue(it);
        if (ok) { S->taken[c].push_back(it); S->takenCallNs[c].push_back(takeCallNs); S->takenRetNs[c].push_back(vf::nowNs()); S->takes++; emptyAfterClose = 0; }
        else S->failedTakes[c].push_back({takeCallNs, vf::nowNs(), kind < 8 ? 4 : 5});
        if (!ok && closedBefore && ++emptyAfterClose > 2) break;
        if (r.chance(0.03)) vf::sleepMs(0.05 * double(r.below(20)));
      }
      S->running--;
    });

  go = true;
  // closer
  uint64_t t0 = vf::nowNs();
  for (;;)
  {
    if (closeKind <= 1) { if (S->puts.load() >= closeAfterPuts) break; }
    else if (producersRunning.load() == 0)
    {
      if (closeKind == 3) vf::sleepMs(double(rng.range(1, 8))); // let consumers park on the empty queue
      break;
    }
    if (producersRunning.load() == 0) break;
    if (vf::nowNs() - t0 > 20ull * 1000000000ull) break;
    std::this_thread::yield();
  }
  if (rng.chance(0.5)) vf::sleepMs(0.01 * double(rng.below(300)));
  S->closeCallNs = vf::nowNs();
  S->q->close();
  S->closeReturnNs = vf::nowNs();
  S->closeReturned = true;
  if (rng.chance(0.3)) S->q->close(); // idempotent

  // stuck-caller detector: after close() returned every call must return; blocking calls by
  // being woken, timed calls by their (millisecond) timeouts.
  bool stuck = false;
  uint64_t waitStart = vf::nowNs();
  while (S->running.load() > 0)
  {
    vf::sleepMs(1);
    if (vf::nowNs() - waitStart > 6000ull * 1000000ull) { stuck = true; break; }
  }
  char sigbuf[128];
  if (stuck)
  {
    // characterise: which ops are parked, and is their wake condition (closed) true?
    std::string ops;
    for (size_t i = 0; i < S->regs.size(); i++)
    {
      int op = S->regs[i]->op.load();
      if (op) ops += (ops.empty() ? "" : ",") + std::string(op == 1 ? "queue" : op == 2 ? "dequeue" : op == 3 ? "tryQueue(timeout)" : "dequeue(timeout)");
    }
    std::string firstOp = ops.substr(0, ops.find(','));
    std::ostringstream d;
    d << "{\"scenario\":" << idx << ",\"cap\":" << S->cap << ",\"P\":" << S->P << ",\"C\":" << S->C
      << ",\"closed\":" << (S->q->isClosed() ? "true" : "false") << ",\"size\":" << S->q->size()
      << ",\"parked_ops\":" << vf::jstr(ops) << ",\"still_running\":" << S->running.load() << ",\"park_delay_us\":" << parkDelay << "}";
    O.viol("C10:bq:stuck-after-close:" + firstOp,
           "caller still blocked 6 s after close() returned although the queue is closed (lost wake-up)", d.str());
    for (auto &t : th) t.detach();
    return false; // process must end; threads are parked forever
  }
  for (auto &t : th) t.join();
#if !VF_TSAN
  vf::shim::condvarPolicy().maxDelayUs = 0;
#endif

  // ---- offline checks over the recorded history
  std::vector<Item> left;
  { Item it; while (S->q->tryDequeue(it)) left.push_back(it); }
  auto detail = [&](const std::string &extra) {
    std::ostringstream d; d << "{\"scenario\":" << idx << ",\"seed\":" << seed << ",\"cap\":" << S->cap << ",\"P\":" << S->P << ",\"C\":" << S->C << "," << extra << "}";
    return d.str();
  };
  if (S->lateAccept) O.viol("C10:bq:accept-after-close", "put accepted by a call that started after close() had returned", detail("\"x\":0"));
  if (S->maxSizeSeen.load() > S->cap)
    O.viol("C10:bq:over-capacity", "size() exceeded capacity", detail("\"size\":" + std::to_string(S->maxSizeSeen.load())));
  // exactly once
  std::map<uint64_t, int> seen;
  uint64_t nAccepted = 0;
  for (auto &v : S->accepted) { nAccepted += v.size(); for (auto &it : v) seen[(uint64_t(it.producer) << 32) | it.seq] = 0; }
  auto account = [&](const Item &it, const char *where) {
    if (!it.ok()) { O.viol("C10:bq:torn-item", std::string("item with bad checksum ") + where, detail("\"p\":" + std::to_string(it.producer))); return; }
    auto f = seen.find((uint64_t(it.producer) << 32) | it.seq);
    if (f == seen.end()) { O.viol("C10:bq:fabricated-item", std::string("item taken that was never accepted ") + where, detail("\"p\":" + std::to_string(it.producer) + ",\"seq\":" + std::to_string(it.seq))); return; }
    f->second++;
  };
  for (auto &v : S->taken) for (auto &it : v) account(it, "(consumer)");
  for (auto &it : left) account(it, "(left after close)");
  uint64_t lost = 0, dup = 0;
  for (auto &kv : seen) { if (kv.second == 0) lost++; else if (kv.second > 1) dup++; }
  if (lost) O.viol("C10:bq:lost-item", "accepted item neither taken nor left in the closed queue", detail("\"lost\":" + std::to_string(lost) + ",\"accepted\":" + std::to_string(nAccepted)));
  if (dup) O.viol("C10:bq:duplicate-item", "item taken more than once", detail("\"dup\":" + std::to_string(dup)));
  // a take that came back empty-handed (false / timed out) although some item was in the queue during the WHOLE
  // call: accepted (put returned) before the take was called, and taken by a call that began after this one had
  // returned — or never taken. Stamps are conservative on both sides. Covers "closing leaves already queued
  // items retrievable" for every take flavour, and a timed take sleeping through an item.
  {
    struct Span { uint64_t inNs, outNs; };
    std::map<uint64_t, Span> spans;
    for (int p = 0; p < S->P; p++)
      for (size_t i = 0; i < S->accepted[p].size(); i++)
        spans[(uint64_t(S->accepted[p][i].producer) << 32) | S->accepted[p][i].seq] = Span{S->acceptedRetNs[p][i], ~0ull};
    for (int c = 0; c < S->C; c++)
      for (size_t i = 0; i < S->taken[c].size(); i++)
      {
        auto f = spans.find((uint64_t(S->taken[c][i].producer) << 32) | S->taken[c][i].seq);
        if (f != spans.end()) f->second.outNs = std::min(f->second.outNs, S->takenCallNs[c][i]);
      }
    std::vector<Span> sp;
    for (auto &kv : spans) sp.push_back(kv.second);
    uint64_t nFailed = 0, nBad = 0;
    BqScenario::FailedTake w{0, 0, 0};
    for (int c = 0; c < S->C; c++)
      for (auto &ft : S->failedTakes[c])
      {
        nFailed++;
        for (auto &x : sp)
          if (x.inNs < ft.callNs && x.outNs > ft.retNs) { if (!nBad) w = ft; nBad++; break; }
      }
    O.obs("bq_failed_takes_judged", nFailed);
    if (nBad)
    {
      bool afterClose = w.callNs > S->closeReturnNs.load() && S->closeReturnNs.load();
      O.viol(std::string("C10:bq:take-failed-while-item-present:") + (w.kind == 2 ? "dequeue" : w.kind == 4 ? "dequeue(timeout)" : "tryDequeue") + (afterClose ? ":after-close" : ""),
             "a take returned false although an accepted item sat in the queue during the whole call (it was put before the call began and taken only after it had returned, or never)",
             detail("\"count\":" + std::to_string(nBad) + ",\"failed_takes\":" + std::to_string(nFailed) + ",\"call_us_after_close\":" + std::to_string((int64_t(w.callNs) - int64_t(S->closeReturnNs.load())) / 1000)));
    }
  }
  // a put refused (false / timed out) although the queue was open and NEVER full during the whole call: every item
  // that can have been inside at any instant of the call (its put was called before the refused call returned and
  // its take had not returned before the refused call began) is counted; fewer than `capacity` such items means
  // there was room all the time. Only calls that returned before close() was even called are judged.
  {
    struct Span { uint64_t inNs, outNs; };
    std::map<uint64_t, Span> spans;
    for (int p = 0; p < S->P; p++)
      for (size_t i = 0; i < S->accepted[p].size(); i++)
        spans[(uint64_t(S->accepted[p][i].producer) << 32) | S->accepted[p][i].seq] = Span{S->acceptedCallNs[p][i], ~0ull};
    for (int c = 0; c < S->C; c++)
      for (size_t i = 0; i < S->taken[c].size(); i++)
      {
        auto f = spans.find((uint64_t(S->taken[c][i].producer) << 32) | S->taken[c][i].seq);
        if (f != spans.end()) f->second.outNs = std::min(f->second.outNs, S->takenRetNs[c][i]);
      }
    uint64_t nJudged = 0, nBad = 0;
    BqScenario::FailedTake w{0, 0, 0};
    size_t wInside = 0;
    for (int p = 0; p < S->P; p++)
      for (auto &fp : S->failedPuts[p])
      {
        if (fp.retNs >= S->closeCallNs.load()) continue;
        nJudged++;
        size_t maybeInside = 0;
        for (auto &kv : spans) if (kv.second.inNs < fp.retNs && kv.second.outNs > fp.callNs) maybeInside++;
        if (maybeInside < S->cap) { if (!nBad) { w = fp; wInside = maybeInside; } nBad++; }
      }
    O.obs("bq_refused_puts_judged", nJudged);
    if (nBad)
      O.viol(std::string("C10:bq:put-refused-while-space-free:") + (w.kind == 1 ? "queue" : w.kind == 3 ? "tryQueue(timeout)" : "tryQueue"),
             "a put was refused on an open queue that cannot have been full at any instant of the call",
             detail("\"count\":" + std::to_string(nBad) + ",\"refused_puts_judged\":" + std::to_string(nJudged) + ",\"items_possibly_inside\":" + std::to_string(wInside)));
  }
  // per-producer order at each consumer
  for (int c = 0; c < S->C; c++)
  {
    std::map<uint32_t, int64_t> last;
    for (auto &it : S->taken[c])
    {
      auto f = last.find(it.producer);
      if (f != last.end() && int64_t(it.seq) <= f->second)
      { O.viol("C10:bq:order", "items of one producer came out of order at one consumer", detail("\"consumer\":" + std::to_string(c) + ",\"p\":" + std::to_string(it.producer) + ",\"seq\":" + std::to_string(it.seq) + ",\"prev\":" + std::to_string(f->second))); break; }
      last[it.producer] = it.seq;
    }
  }
  if (S->P == 1 && S->C == 1)
  {
    // total FIFO: taken then left == accepted
    std::vector<Item> all = S->taken[0]; all.insert(all.end(), left.begin(), left.end());
    bool same = all.size() == S->accepted[0].size();
    for (size_t i = 0; same && i < all.size(); i++) same = all[i].seq == S->accepted[0][i].seq;
    if (!same && !lost && !dup) O.viol("C10:bq:fifo", "1P/1C sequence differs from put order", detail("\"n\":" + std::to_string(all.size())));
    O.obs("bq_spsc_scenarios");
  }
  O.obs("bq_scenarios"); O.obs("bq_items_accepted", nAccepted); O.obs("bq_items_left_at_close", left.size());
  O.obs("bq_put_found_full", S->blockedFull); O.obs("bq_take_found_empty", S->blockedEmpty);
  O.obs("bq_timed_out", S->timedOut); O.obs("bq_refused_after_close", S->refusedAfterClose);
  O.obsMax("bq_max_size_seen", S->maxSizeSeen);
  snprintf(sigbuf, sizeof sigbuf, "bq cap=%zu P=%d C=%d ck=%d left=%d full=%d empty=%d to=%d rac=%d", S->cap, S->P, S->C, closeKind,
           left.empty() ? 0 : 1, S->blockedFull ? 1 : 0, S->blockedEmpty ? 1 : 0, S->timedOut ? 1 : 0, S->refusedAfterClose ? 1 : 0);
  O.caseSig(vf::fnv(sigbuf, strlen(sigbuf)));
  if (idx % 50 == 0)
    O.sample("{\"kind\":\"blocking-queue scenario\",\"sig\":" + vf::jstr(sigbuf) + ",\"accepted\":" + std::to_string(nAccepted) + ",\"taken\":" + std::to_string(S->takes.load()) + ",\"left\":" + std::to_string(left.size()) + "}");
  delete S->q;
  delete S;
  return true;
}

// ---- burst wake-up scenario: K callers parked on one condition, the condition becomes true for
// several of them back-to-back, then everything goes quiet. With nothing else in flight, "queue
// non-empty and a consumer still parked in dequeue()" (resp. "space free and a producer still parked
// in queue()") is a state that can only end by a wake-up that has already been lost.
static bool runBurst(uint64_t seed, uint64_t idx)
{
  auto &O = vf::out();
  vf::Rng rng(seed, idx ^ 0xb0b0);
  size_t cap = size_t(rng.range(2, 8));
  int nWait = int(rng.range(2, 6));
  auto q = new BlockingQueue<Item>(cap);
  bool consumersParked = rng.chance(0.5); // which side is parked
#if !VF_TSAN
  vf::shim::condvarPolicy().maxDelayUs = 0;
#endif
  std::atomic<int> inCall{0}, done{0};
  std::atomic<uint64_t> moved{0};
  std::vector<std::thread> th;
  std::atomic<bool> release{false};
  if (!consumersParked) for (size_t i = 0; i < cap; i++) { Item it; it.producer = 9; it.seq = uint32_t(i); it.check = Item::mk(9, it.seq); q->tryQueue(it); }
  for (int w = 0; w < nWait; w++)
    th.emplace_back([&, w]() {
      Item it; it.producer = uint32_t(20 + w); it.seq = 0; it.check = Item::mk(it.producer, 0);
      inCall++;
      bool ok = consumersParked ? q->dequeue(it) : q->queue(it);
      inCall--;
      if (ok) moved++;
      done++;
    });
  // let every waiter reach its park (they have nothing else to do); a straggler only makes the case easier
  for (int i = 0; i < 200 && inCall.load() < nWait; i++) vf::sleepMs(0.1);
  vf::sleepMs(2 + double(rng.below(3)));
  bool closeBehindBurst = rng.chance(0.4);
  // (close variant: fewer puts/takes than parked callers, so that some of them can only be woken by close())
  int k = closeBehindBurst ? int(rng.range(1, uint64_t(std::min<size_t>(size_t(nWait - 1), cap))))
                           : int(rng.range(2, uint64_t(std::min<size_t>(size_t(nWait), cap))));
  int api = int(rng.below(4));
  for (int i = 0; i < k; i++)
  {
    Item it; it.producer = 8; it.seq = uint32_t(i); it.check = Item::mk(8, it.seq);
    if (consumersParked)
    {
      bool ok = api == 0 ? q->queue(it) : api == 1 ? q->queue(Item(it)) : api == 2 ? q->tryQueue(it) : q->tryQueue(it, std::chrono::milliseconds(50));
      if (!ok) { k = i; break; }
    }
    else
    {
      bool ok = api == 0 ? q->dequeue(it) : api == 1 ? q->tryDequeue(it) : q->dequeue(it, std::chrono::milliseconds(50));
      if (!ok) { k = i; break; }
    }
  }
  // variant: close() comes right behind the burst, with no quiet period. The puts/takes of the burst wake ONE
  // waiter each (and the queue is neither empty nor full while close() runs), so close() itself has to wake
  // every other parked caller, on both sides, whatever the queue holds at that instant.
  if (closeBehindBurst)
  {
    q->close();
    uint64_t tc = vf::nowNs();
    while (done.load() < nWait) { vf::sleepMs(0.5); if (vf::nowNs() - tc > 6000ull * 1000000ull) break; }
    O.obs(consumersParked ? "bq_burst_then_close_consumers_parked" : "bq_burst_then_close_producers_parked");
    O.caseSig(vf::fnv(&idx, sizeof idx) ^ (consumersParked ? 0x61 : 0x62) ^ (uint64_t(api) << 8) ^ (uint64_t(cap) << 16) ^ (uint64_t(k) << 24));
    std::ostringstream d;
    d << "{\"scenario\":" << idx << ",\"seed\":" << seed << ",\"cap\":" << cap << ",\"parked\":" << nWait << ",\"burst\":" << k << ",\"returned\":" << done.load()
      << ",\"got_through\":" << moved.load() << ",\"size\":" << q->size() << ",\"api\":" << api << ",\"closed\":true}";
    if (done.load() < nWait)
    {
      O.viol(std::string("C10:bq:stuck-after-close:burst-then-close:") + (consumersParked ? "dequeue" : "queue"),
             "a caller parked before a burst of puts/takes that was followed at once by close() is still parked 6 s after close() returned", d.str());
      for (auto &t : th) t.detach();
      return false;
    }
    for (auto &t : th) t.join();
    // every item of the burst was accepted before close(): parked consumers must have taken all of them (more
    // consumers than items were parked); a producer may or may not have got in before the close, never more than k
    if (consumersParked && moved.load() != uint64_t(k))
      O.viol("C10:bq:take-failed-while-item-present:dequeue:after-close", "parked consumers came back empty-handed from a closed queue that still held items of the burst", d.str());
    if (!consumersParked && moved.load() > uint64_t(k))
      O.viol("C10:bq:over-capacity", "more parked producers got in than slots were freed", d.str());
    delete q;
    return true;
  }
  // quiet period: exactly k waiters must get through
  bool stuck = false;
  uint64_t t0 = vf::nowNs();
  while (moved.load() < uint64_t(k))
  {
    vf::sleepMs(0.5);
    if (vf::nowNs() - t0 > 6000ull * 1000000ull) { stuck = true; break; }
  }
  size_t sz = q->size();
  bool conditionHolds = consumersParked ? sz > 0 : sz < cap;
  O.obs(consumersParked ? "bq_burst_consumers_parked" : "bq_burst_producers_parked");
  O.caseSig(vf::fnv(&idx, sizeof idx) ^ (consumersParked ? 0x51 : 0x52) ^ (uint64_t(api) << 8) ^ (uint64_t(cap) << 16));
  if (stuck && conditionHolds && inCall.load() > 0)
  {
    std::ostringstream d;
    d << "{\"scenario\":" << idx << ",\"seed\":" << seed << ",\"cap\":" << cap << ",\"parked\":" << nWait << ",\"burst\":" << k << ",\"got_through\":" << moved.load()
      << ",\"size\":" << sz << ",\"api\":" << api << ",\"closed\":false}";
    O.viol(consumersParked ? "C10:bq:stuck-with-item-available:dequeue" : "C10:bq:stuck-with-space-available:queue",
           "with nothing else in flight a caller stayed parked 6 s although its condition (item / space) holds: lost wake-up on put/take", d.str());
    for (auto &t : th) t.detach();
    return false;
  }
  q->close();
  uint64_t t1 = vf::nowNs();
  while (done.load() < nWait) { vf::sleepMs(0.5); if (vf::nowNs() - t1 > 6000ull * 1000000ull) break; }
  if (done.load() < nWait)
  {
    O.viol("C10:bq:stuck-after-close:burst", "caller still parked 6 s after close()", "{\"scenario\":" + std::to_string(idx) + "}");
    for (auto &t : th) t.detach();
    return false;
  }
  for (auto &t : th) t.join();
  delete q;
  return true;
}

// ------------------------------------------------------------------------------ ring buffers
template <class RB> struct RingRun
{
  RB &rb;
  size_t cap;
  uint64_t total;
  uint64_t seed;
  std::atomic<bool> bad{false};
  std::string why;
  std::mutex m;
  std::atomic<uint64_t> fullSeen{0}, emptySeen{0}, batchPush{0}, batchPop{0}, peeks{0}, wraps{0};
  std::atomic<uint64_t> maxSize{0};
  void fail(const std::string &w) { std::lock_guard<std::mutex> g(m); if (!bad.exchange(true)) why = w; }
  void noteSize()
  {
    uint64_t s = rb.size(); // sampled only from the producer or the consumer thread (SPSC contract)
    uint64_t mx = maxSize.load(std::memory_order_relaxed);
    while (s > mx && !maxSize.compare_exchange_weak(mx, s)) {}
  }
  void producer(uint64_t from, uint64_t to)
  {
    vf::Rng r(seed, 11);
    Item batch[80];
    uint64_t next = from;
    while (next < to && !bad.load(std::memory_order_relaxed))
    {
      int k = int(r.below(8));
      if (k < 5)
      {
        Item it; it.producer = 7; it.seq = uint32_t(next); it.check = Item::mk(7, it.seq);
        bool ok = (k & 1) ? rb.tryPush(it) : rb.tryPush(Item(it));
        if (ok) next++; else { fullSeen++; std::this_thread::yield(); }
      }
      else
      {
        size_t n = size_t(r.range(1, std::min<uint64_t>(80, cap * 2)));
        if (next + n > to) n = size_t(to - next);
        for (size_t i = 0; i < n; i++) { batch[i].producer = 7; batch[i].seq = uint32_t(next + i); batch[i].check = Item::mk(7, batch[i].seq); }
        size_t pushed = rb.tryPushBatch(batch, n);
        if (pushed > n) { fail("tryPushBatch returned more than requested"); return; }
        if (pushed < n) fullSeen++;
        next += pushed; batchPush++;
        if (!pushed) std::this_thread::yield();
      }
      if ((next & 63) == 0) noteSize();
    }
  }
  void consumer(uint64_t from, uint64_t to)
  {
    vf::Rng r(seed, 13);
    Item batch[80];
    uint64_t expect = from;
    auto check = [&](const Item &it, const char *op) {
      if (!it.ok() || it.producer != 7) { fail(std::string(op) + ": torn item"); return false; }
      if (it.seq != uint32_t(expect)) { fail(std::string(op) + ": got seq " + std::to_string(it.seq) + " expected " + std::to_string(uint32_t(expect)) + (it.seq < uint32_t(expect) ? " (duplicate/stale)" : " (skipped)")); return false; }
      return true;
    };
    while (expect < to && !bad.load(std::memory_order_relaxed))
    {
      int k = int(r.below(8));
      if (k < 4)
      {
        Item it;
        if (rb.tryPop(it)) { if (!check(it, "tryPop")) return; expect++; }
        else { emptySeen++; std::this_thread::yield(); }
      }
      else if (k < 5)
      {
        Item it;
        if (rb.peek(it)) { peeks++; if (!check(it, "peek")) return; }
      }
      else
      {
        size_t n = size_t(r.range(1, std::min<uint64_t>(80, cap * 2)));
        size_t got = rb.tryPopBatch(batch, n);
        if (got > n) { fail("tryPopBatch returned more than requested"); return; }
        for (size_t i = 0; i < got; i++) { if (!check(batch[i], "tryPopBatch")) return; expect++; }
        if (!got) { emptySeen++; std::this_thread::yield(); }
        batchPop++;
      }
      if ((expect & 63) == 0) noteSize();
    }
  }
  bool phase(uint64_t from, uint64_t to)
  {
    std::thread p([&] { producer(from, to); });
    std::thread c([&] { consumer(from, to); });
    // watchdog: a lost item stalls the consumer forever; bound by time, report as stall
    uint64_t t0 = vf::nowNs();
    p.join();
    // consumer must finish shortly after the producer
    std::atomic<bool> done{false};
    std::thread w([&] { while (!done.load()) { if (vf::nowNs() - t0 > 120ull * 1000000000ull) { fail("consumer stalled: an accepted item never became visible"); break; } vf::sleepMs(2); } });
    c.join(); done = true; w.join();
    return !bad.load();
  }
};

template <class RB> static void ringCase(const char *name, RB &rb, size_t cap, uint64_t total, uint64_t seed, uint64_t idx)
{
  auto &O = vf::out();
  RingRun<RB> R{rb, cap, total, seed * 1315423911ull + idx};
  bool ok = R.phase(0, total);
  if (!ok) O.viol(std::string("C10:ring:") + name + ":history", "SPSC ring history violates exactly-once/FIFO: " + R.why,
                  "{\"ring\":" + vf::jstr(name) + ",\"cap\":" + std::to_string(cap) + ",\"seed\":" + std::to_string(seed) + ",\"idx\":" + std::to_string(idx) + "}");
  if (R.maxSize.load() > cap) O.viol(std::string("C10:ring:") + name + ":over-capacity", "size() exceeded capacity (sampled from producer/consumer thread)",
                                     "{\"cap\":" + std::to_string(cap) + ",\"size\":" + std::to_string(R.maxSize.load()) + "}");
  O.obs("ring_items", total); O.obs("ring_full_seen", R.fullSeen); O.obs("ring_empty_seen", R.emptySeen);
  O.obs("ring_batch_push", R.batchPush); O.obs("ring_batch_pop", R.batchPop); O.obs("ring_peeks", R.peeks);
  O.obs("ring_slot_reuse_wraps", total / cap);
  char sig[96]; snprintf(sig, sizeof sig, "ring %s cap=%zu full=%d empty=%d", name, cap, R.fullSeen ? 1 : 0, R.emptySeen ? 1 : 0);
  O.caseSig(vf::fnv(sig, strlen(sig)) ^ idx);
  if (idx == 0) O.sample("{\"kind\":\"SPSC ring run\",\"ring\":" + vf::jstr(name) + ",\"cap\":" + std::to_string(cap) + ",\"items\":" + std::to_string(total) + ",\"full_seen\":" + std::to_string(R.fullSeen.load()) + ",\"empty_seen\":" + std::to_string(R.emptySeen.load()) + "}");
}

static void dynResizeCase(uint64_t seed, uint64_t idx, uint64_t itemsPerPhase)
{
  auto &O = vf::out();
  vf::Rng rng(seed, 1000 + idx);
  size_t cap0 = size_t(rng.range(1, 70));
  DynamicRingBuffer<Item> rb(cap0);
  uint64_t next = 0;
  for (int ph = 0; ph < 6; ph++)
  {
    size_t cap = rb.capacity();
    if (cap & (cap - 1)) O.viol("C10:ring:dynamic:capacity-not-pow2", "capacity not rounded to a power of two", "{\"cap\":" + std::to_string(cap) + "}");
    RingRun<DynamicRingBuffer<Item>> R{rb, cap, itemsPerPhase, seed + idx * 31 + ph};
    if (!R.phase(next, next + itemsPerPhase))
    { O.viol("C10:ring:dynamic:history", "SPSC history violation on DynamicRingBuffer: " + R.why, "{\"cap\":" + std::to_string(cap) + ",\"phase\":" + std::to_string(ph) + "}"); return; }
    next += itemsPerPhase;
    // quiescent point: leave k items in, resize, check what survives
    size_t k = size_t(rng.below(cap + 1));
    for (size_t i = 0; i < k; i++) { Item it; it.producer = 7; it.seq = uint32_t(next + i); it.check = Item::mk(7, it.seq); if (!rb.tryPush(it)) { k = i; break; } }
    size_t newReq = size_t(rng.range(1, 130));
    size_t dropped = rb.resize(newReq);
    size_t ncap = rb.capacity();
    size_t expectDropped = k > ncap ? k - ncap : 0;
    if (dropped != expectDropped || rb.size() != k - expectDropped)
      O.viol("C10:ring:dynamic:resize-count", "resize() dropped/kept counts disagree with FIFO model", "{\"k\":" + std::to_string(k) + ",\"newcap\":" + std::to_string(ncap) + ",\"dropped\":" + std::to_string(dropped) + "}");
    for (size_t i = expectDropped; i < k; i++)
    {
      Item it;
      if (!rb.tryPop(it) || !it.ok() || it.seq != uint32_t(next + i))
      { O.viol("C10:ring:dynamic:resize-content", "items after resize() are not the most recent ones in FIFO order", "{\"k\":" + std::to_string(k) + ",\"i\":" + std::to_string(i) + "}"); return; }
    }
    Item it; if (rb.tryPop(it)) O.viol("C10:ring:dynamic:resize-extra", "extra item after resize()", "null");
    next += k;
    O.obs("ring_resizes"); if (expectDropped) O.obs("ring_resize_shrinking_drops");
  }
  O.caseSig(vf::fnv(&cap0, sizeof cap0) ^ (idx << 20) ^ 0xd1);
}

int main(int argc, char **argv)
{
  vf::Args a(argc, argv);
  std::string mode = a.s("mode", "bq");
  uint64_t seed = a.u("seed", 1), from = a.u("from", 0), count = a.u("count", 10);
  auto &O = vf::out();
  if (mode == "bq")
  {
    uint64_t i = from;
    for (; i < from + count; i++)
      if (!((i % 4 == 3) ? runBurst(seed, i) : runBq(seed, i))) { O.line("{\"t\":\"stopped\",\"at\":" + std::to_string(i) + "}"); O.flush(); fflush(nullptr); _exit(0); }
#if !VF_TSAN
    O.obs("condvar_waits", vf::shim::condvarPolicy().waits); O.obs("condvar_prepark_delays", vf::shim::condvarPolicy().delayed);
#endif
  }
  else if (mode == "ring")
  {
    uint64_t items = a.u("items", 200000);
    for (uint64_t i = from; i < from + count; i++)
    {
      switch (i % 6)
      {
      case 0: { auto rb = std::make_unique<RingBuffer<Item, 1>>(); ringCase("RingBuffer<1>", *rb, 1, items / 4, seed, i); break; }
      case 1: { auto rb = std::make_unique<RingBuffer<Item, 2>>(); ringCase("RingBuffer<2>", *rb, 2, items / 2, seed, i); break; }
      case 2: { auto rb = std::make_unique<RingBuffer<Item, 4>>(); ringCase("RingBuffer<4>", *rb, 4, items, seed, i); break; }
      case 3: { auto rb = std::make_unique<RingBuffer<Item, 64>>(); ringCase("RingBuffer<64>", *rb, 64, items, seed, i); break; }
      case 4: { DynamicRingBuffer<Item> rb(size_t(1) << (i / 6 % 7)); ringCase("DynamicRingBuffer", rb, rb.capacity(), items, seed, i); break; }
      case 5: dynResizeCase(seed, i, items / 8); break;
      }
    }
  }
  O.flush();
  return 0;
}
