// /verif/harness/c18_ws.cpp — C18: WebSocket framing round-trips and reassembles under any
// segmentation; nothing after close; robust against hostile lengths. The driver only drives iora
// and reports what it observed; verdicts are computed in lib/props/c18.py against the Python
// reference codec / generator (lib/c18_wsgen.py).
//
// modes (--mode):
//   frame      direct calls to WebSocketFrame::parse / serialize (c18_frame.hpp)
//   server     real WebSocketServer + raw-socket client, --exact 1 (primed session fed through
//              onUpgradedData) or --exact 0 (over loopback)                    (c18_server.hpp)
//   client     real WebSocketClient + raw-socket server                        (c18_client.hpp)
//   closerace  sendText/sendBinary loops racing the close handshake            (c18_race.hpp)
//   abandon    peers that drop the TCP connection in the middle of a frame: the bytes they left
//              behind must not stay allocated                                  (c18_race.hpp)
//
// case file (--cases FILE), one case per line, TAB separated:
//   id  side(s|c)  kind(v|u|t|h|m)  hclass  cfgmax  expectWire  segspec  streamHex
//   segspec items joined by ';': W whole | A all single cuts | L:3,9 listed single cuts |
//     M:k k seeded multi-cuts | B:n n-byte blocks | X:a,b explicit multi-cut  (exact mode)
//     Z:n endpoint recv capped at n | R:k k seeded random recv shortenings | P:a,b paced cuts |
//     J 101 + stream in one send (client)                                      (socket modes)
#include "c18_common.hpp"
#include "c18_frame.hpp"
#include "c18_server.hpp"
#include "c18_client.hpp"
#include "c18_race.hpp"

int main(int argc, char **argv)
{
  vf::Args args(argc, argv);
  iora::core::Logger::setLevel(iora::core::Logger::Level::Fatal);
  signal(SIGPIPE, SIG_IGN);
  std::string mode = args.s("mode");
  if (mode == "frame")
  {
    uint64_t seed = args.u("seed", 1);
    if (args.has("cases")) c18::frameCases(args.s("cases"), seed);
    if (args.u("count", 0)) c18::randomRoundTrips(seed, args.u("from", 0), args.u("count", 0));
    vf::out().line("{\"t\":\"done\"}");
    vf::out().flush();
    return 0;
  }
  if (mode == "server") return c18::runServer(args);
  if (mode == "client") return c18::runClient(args);
  if (mode == "closerace") return c18::runRace(args);
  if (mode == "abandon") return c18::runAbandon(args);
  fprintf(stderr, "unknown --mode %s\n", mode.c_str());
  return 2;
}
