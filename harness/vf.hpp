// /verif/harness/vf.hpp — shared support for C++ harness drivers.
// Records are JSON lines written to the file named by --out (or stdout); the Python side
// (lib/vf.py Ctx.ingest) folds them into verdicts and evidence.
#pragma once
#include <atomic>
#include <chrono>
#include <cinttypes>
#include <cstdint>
#include <cstdio>
#include <cstdlib>
#include <cstring>
#include <map>
#include <mutex>
#include <set>
#include <sstream>
#include <string>
#include <thread>
#include <unordered_set>
#include <vector>
#include <sched.h>
#include <time.h>
#include <unistd.h>
#include <sys/syscall.h>

namespace vf {

// ---- un-shimmed monotonic clock (raw syscall, so the clock shim can never move it)
inline uint64_t nowNs()
{
  struct timespec ts;
  syscall(SYS_clock_gettime, CLOCK_MONOTONIC, &ts);
  return uint64_t(ts.tv_sec) * 1000000000ull + uint64_t(ts.tv_nsec);
}
inline double nowMs() { return double(nowNs()) / 1e6; }
inline void sleepMs(double ms)
{
  struct timespec ts;
  ts.tv_sec = time_t(ms / 1000.0);
  ts.tv_nsec = long((ms - double(ts.tv_sec) * 1000.0) * 1e6);
  syscall(SYS_nanosleep, &ts, nullptr); // raw: not perturbed by any shim
}

// ---- xoshiro256**
struct Rng
{
  uint64_t s[4];
  static uint64_t splitmix(uint64_t &x)
  {
    uint64_t z = (x += 0x9e3779b97f4a7c15ull);
    z = (z ^ (z >> 30)) * 0xbf58476d1ce4e5b9ull;
    z = (z ^ (z >> 27)) * 0x94d049bb133111ebull;
    return z ^ (z >> 31);
  }
  explicit Rng(uint64_t seed = 1, uint64_t stream = 0)
  {
    uint64_t x = seed * 0x2545F4914F6CDD1Dull + stream * 0x9E3779B97F4A7C15ull + 0x1234567;
    for (auto &v : s) v = splitmix(x);
  }
  static uint64_t rotl(uint64_t x, int k) { return (x << k) | (x >> (64 - k)); }
  uint64_t next()
  {
    uint64_t r = rotl(s[1] * 5, 7) * 9, t = s[1] << 17;
    s[2] ^= s[0]; s[3] ^= s[1]; s[1] ^= s[2]; s[0] ^= s[3]; s[2] ^= t; s[3] = rotl(s[3], 45);
    return r;
  }
  uint64_t below(uint64_t n) { return n ? next() % n : 0; }
  uint64_t range(uint64_t lo, uint64_t hi) { return lo + below(hi - lo + 1); } // inclusive
  bool chance(double p) { return double(next() >> 11) * (1.0 / 9007199254740992.0) < p; }
  template <class T> const T &pick(const std::vector<T> &v) { return v[below(v.size())]; }
};

// ---- JSON string escaping
inline std::string jstr(const std::string &in)
{
  std::string o = "\"";
  char buf[8];
  for (unsigned char c : in)
  {
    if (c == '"') o += "\\\"";
    else if (c == '\\') o += "\\\\";
    else if (c == '\n') o += "\\n";
    else if (c < 0x20 || c >= 0x7f) { snprintf(buf, sizeof buf, "\\u%04x", c); o += buf; }
    else o += char(c);
  }
  return o + "\"";
}
inline std::string hex(const void *p, size_t n)
{
  static const char *d = "0123456789abcdef";
  std::string o; o.reserve(n * 2);
  const unsigned char *b = (const unsigned char *)p;
  for (size_t i = 0; i < n; i++) { o += d[b[i] >> 4]; o += d[b[i] & 15]; }
  return o;
}
inline std::string hex(const std::string &s) { return hex(s.data(), s.size()); }
inline std::string unhex(const std::string &h)
{
  std::string o; o.reserve(h.size() / 2);
  auto v = [](char c) { return c <= '9' ? c - '0' : (c | 32) - 'a' + 10; };
  for (size_t i = 0; i + 1 < h.size(); i += 2) o += char(v(h[i]) * 16 + v(h[i + 1]));
  return o;
}
inline uint64_t fnv(const void *p, size_t n, uint64_t h = 1469598103934665603ull)
{
  const unsigned char *b = (const unsigned char *)p;
  for (size_t i = 0; i < n; i++) { h ^= b[i]; h *= 1099511628211ull; }
  return h;
}
inline uint64_t fnv(const std::string &s, uint64_t h = 1469598103934665603ull) { return fnv(s.data(), s.size(), h); }

// ---- output sink
struct Out
{
  FILE *f = stdout;
  std::mutex m;
  std::map<std::string, uint64_t> counters;
  std::map<std::string, uint64_t> maxes;
  std::unordered_set<uint64_t> sigs;
  uint64_t evaluations = 0;
  int samples = 0;
  int viols = 0;

  void open(const char *path)
  {
    if (path && *path) { f = fopen(path, "w"); if (!f) { perror("open out"); exit(3); } }
  }
  void line(const std::string &s)
  {
    std::lock_guard<std::mutex> g(m);
    fputs(s.c_str(), f); fputc('\n', f); fflush(f);
  }
  // detail must be a JSON value (object/string/number) or empty
  void viol(const std::string &key, const std::string &what, const std::string &detailJson = "null")
  {
    {
      std::lock_guard<std::mutex> g(m);
      if (++viols > 200) return; // keep logs bounded
    }
    line("{\"t\":\"viol\",\"key\":" + jstr(key) + ",\"what\":" + jstr(what) + ",\"detail\":" + detailJson + "}");
  }
  void obs(const std::string &name, uint64_t n = 1)
  {
    std::lock_guard<std::mutex> g(m);
    counters[name] += n;
  }
  void obsMax(const std::string &name, uint64_t v)
  {
    std::lock_guard<std::mutex> g(m);
    auto &x = maxes[name]; if (v > x) x = v;
  }
  void caseSig(uint64_t sig, uint64_t n = 1)
  {
    std::lock_guard<std::mutex> g(m);
    evaluations += n;
    if (sigs.size() < 200000) sigs.insert(sig);
  }
  void sample(const std::string &json)
  {
    {
      std::lock_guard<std::mutex> g(m);
      if (samples++ >= 3) return;
    }
    line("{\"t\":\"case\",\"n\":0,\"sample\":" + json + "}");
  }
  void inconclusive(const std::string &what) { line("{\"t\":\"inconclusive\",\"what\":" + jstr(what) + "}"); }
  void flush()
  {
    std::lock_guard<std::mutex> g(m);
    for (auto &kv : counters)
      fprintf(f, "{\"t\":\"obs\",\"name\":%s,\"n\":%" PRIu64 "}\n", jstr(kv.first).c_str(), kv.second);
    for (auto &kv : maxes)
      fprintf(f, "{\"t\":\"obsmax\",\"name\":%s,\"v\":%" PRIu64 "}\n", jstr(kv.first).c_str(), kv.second);
    fprintf(f, "{\"t\":\"sigs\",\"n\":%" PRIu64 ",\"list\":[", evaluations);
    bool first = true;
    for (auto s : sigs) { fprintf(f, "%s\"%016" PRIx64 "\"", first ? "" : ",", s); first = false; }
    fprintf(f, "]}\n");
    counters.clear(); maxes.clear(); sigs.clear(); evaluations = 0;
    fflush(f);
  }
};
inline Out &out() { static Out o; return o; }

// ---- argument parsing: --name value
struct Args
{
  std::map<std::string, std::string> kv;
  std::vector<std::string> pos;
  Args(int argc, char **argv)
  {
    for (int i = 1; i < argc; i++)
    {
      std::string a = argv[i];
      if (a.rfind("--", 0) == 0 && i + 1 < argc) { kv[a.substr(2)] = argv[i + 1]; i++; }
      else pos.push_back(a);
    }
    out().open(kv.count("out") ? kv["out"].c_str() : nullptr);
  }
  uint64_t u(const std::string &k, uint64_t d) const { auto it = kv.find(k); return it == kv.end() ? d : strtoull(it->second.c_str(), nullptr, 0); }
  std::string s(const std::string &k, const std::string &d = "") const { auto it = kv.find(k); return it == kv.end() ? d : it->second; }
  bool has(const std::string &k) const { return kv.count(k) > 0; }
};

// ---- spin barrier (tight release, used where a loose one hides races)
struct SpinBarrier
{
  std::atomic<int> waiting{0};
  std::atomic<int> gen{0};
  int n;
  explicit SpinBarrier(int n_) : n(n_) {}
  void wait()
  {
    int g = gen.load();
    if (waiting.fetch_add(1) + 1 == n) { waiting.store(0); gen.fetch_add(1); }
    else
    {
      // spin briefly (tight release), then yield so an oversubscribed machine still makes progress
      unsigned spins = 0;
      while (gen.load() == g) { if (++spins > 4000) { sched_yield(); } else { __builtin_ia32_pause(); } }
    }
  }
};

// ---- read whole file
inline std::string readFile(const std::string &p)
{
  FILE *f = fopen(p.c_str(), "rb");
  if (!f) return {};
  std::string s; char buf[65536]; size_t n;
  while ((n = fread(buf, 1, sizeof buf, f)) > 0) s.append(buf, n);
  fclose(f);
  return s;
}

} // namespace vf
