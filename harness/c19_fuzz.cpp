// C19 libFuzzer target (thorough tier): coverage-guided byte strings into DnsMessage::parse.
// In-process oracle: no sanitizer report, no exception other than DnsParseException, and a returned
// result whose section sizes equal the header counts. Built with the `fuzz` flavor (clang,
// -fsanitize=fuzzer,address,undefined); the corpus is seeded by lib/c19_dnsgen.py.
#include <iora/network/dns/dns_message.hpp>

#include <cstdio>
#include <cstdlib>
#include <cstring>
#include <typeinfo>

using namespace iora::network::dns;

extern "C" int LLVMFuzzerInitialize(int *, char ***)
{
  iora::core::Logger::setLevel(iora::core::Logger::Level::Fatal);
  return 0;
}

static void fail(const char *key, const char *what)
{
  fprintf(stderr, "C19-FUZZ-VIOL %s %s\n", key, what);
  abort();
}

extern "C" int LLVMFuzzerTestOneInput(const uint8_t *data, size_t size)
{
  uint8_t *buf = (uint8_t *)malloc(size ? size : 1); // exact-size copy: any over-read hits the redzone
  if (size) memcpy(buf, data, size);
  try
  {
    DnsResult r = DnsMessage::parse(buf, size);
    if (r.questions.size() != r.header.qdcount || r.answers.size() != r.header.ancount ||
        r.authority.size() != r.header.nscount || r.additional.size() != r.header.arcount)
      fail("C19:decode:result:section-size-differs-from-header-count", "decoded section sizes differ from the header counts");
    for (auto *sec : {&r.answers, &r.authority, &r.additional})
      for (auto &rr : *sec)
        if (rr.rdata.size() != rr.rdlength) fail("C19:decode:result:rdata-size-differs-from-rdlength", "rdata size differs from rdlength");
  }
  catch (const DnsParseException &)
  {
  }
  catch (const std::exception &e)
  {
    fail("C19:decode:malformed:exception", typeid(e).name());
  }
  free(buf);
  return 0;
}
